/-
C04 helper lemmas (11): when cond / switch / fori_loop / while_loop accept a call.  On a closed heap the traced
function fails exactly when the eager function fails (`pureRun_total`), so the outcome of `switch` is decided by the
eager outcomes of the branches and by their traced output structures; a loop body is accepted exactly when the
eager body gives the carry back with the same graphdef and the same objects in the same order.
-/
import Flax.Proofs.NnxTotal
import Flax.Proofs.NnxIter
import Flax.Proofs.NnxCond

namespace Flax.Nnx
open Flax.Heap Flax.Graph

/-- **the traced function fails exactly when the eager function fails** (steps 2, body, 3 on the pure value of a heap) -/
theorem pureRun_total (raw keep : Bool) (f : Fn) {pre : List PVal} (hpre : ∀ v ∈ pre, ∃ d, v = PVal.array d)
    {h : Heap} {vals : List PVal} {gds : List GDef} {fss : List FlatState} {idx1 : RefIndex}
    (hf : FlatRoots h vals [] gds fss idx1) :
    (∀ rets h2, runFn f h (pre ++ vals) = .ok (rets, h2) →
      ∃ o, pureRun raw keep f pre gds (fss.map (convLeaves raw)) = .ok o) ∧
    (∀ e, runFn f h (pre ++ vals) = .error e → pureRun raw keep f pre gds (fss.map (convLeaves raw)) = .error e) := by
  obtain ⟨args', G, ir, hu, Gd2, R2, hargs, _, _⟩ := inner_copyF raw hf
  obtain ⟨hcG, haG⟩ := inner_copy_closed raw hf hu
  have hcs := runFn_sim f R2 (valsRel_append (valsRel_arrays hpre) hargs)
  constructor
  · intro rets h2 he
    rw [he] at hcs
    rcases hcs with ⟨e, h1, _⟩ | ⟨rets0, h20, rets', G3, φ', e1, e2, R3, hrets, hle, hold, hnew, hlen⟩
    · cases h1
    have hcl : ClosedSt G (pre ++ args') := ⟨hcG, fun v hv => by
      rcases List.mem_append.mp hv with h1 | h1
      · obtain ⟨d, rfl⟩ := hpre v h1
        intro b hb; simp [deepRefs] at hb
      · exact haG v h1⟩
    have hc3 := runFn_closed hcl e2
    have hkG := runFn_kind e2
    have hroots : ∀ v ∈ (if keep then args'.map clearArg else []) ++ rets', ValClosed G3 v := by
      intro v hv
      rcases List.mem_append.mp hv with h1 | h1
      · cases keep
        · simp at h1
        · simp only [if_true] at h1
          obtain ⟨w, hw, rfl⟩ := List.mem_map.mp h1
          exact clearArg_closed (valClosed_mono hkG.1 (haG w hw))
      · exact hc3.2 v h1
    obtain ⟨gds3, fss3, idx3, hf3⟩ := flattenRoots_total hc3.1 _ hroots []
    exact ⟨(gds3.map (stampWith (fun i => (idx3[i]?).bind (irInv ir))), fss3.map (convLeaves raw)), by simp [pureRun, hu, e2, hf3]⟩
  · intro e he
    rw [he] at hcs
    rcases hcs with ⟨e', h1, h2⟩ | ⟨rets0, h20, rets', G3, φ', e1, _⟩
    · cases h1
      simp [pureRun, hu, h2]
    · cases e1

/-! ### switch / cond -/

theorem traceBranches_ok {gds : List GDef} {lss : List (List Leaf)} : ∀ {fs : List Fn},
    (∀ f ∈ fs, ∃ o, pureRun false true f [] gds lss = .ok o) →
      ∃ outs, traceBranches gds lss fs = .ok outs ∧ ∀ o ∈ outs, ∃ f ∈ fs, pureRun false true f [] gds lss = .ok o
  | [], _ => ⟨[], rfl, fun o ho => by simp at ho⟩
  | f :: fs, h => by
    obtain ⟨o, ho⟩ := h f (by simp)
    obtain ⟨os, hos, hmem⟩ := traceBranches_ok (fs := fs) (fun g hg => h g (List.mem_cons_of_mem _ hg))
    refine ⟨o :: os, by simp [traceBranches, ho, hos], fun o' ho' => ?_⟩
    rcases List.mem_cons.mp ho' with e | h1
    · subst e; exact ⟨f, by simp, ho⟩
    · obtain ⟨g, hg, hp⟩ := hmem o' h1
      exact ⟨g, List.mem_cons_of_mem _ hg, hp⟩

theorem traceBranches_first_error {gds : List GDef} {lss : List (List Leaf)} {f : Fn} {post : List Fn} {e : Err}
    (hf : pureRun false true f [] gds lss = .error e) : ∀ {pre : List Fn},
    (∀ g ∈ pre, ∃ o, pureRun false true g [] gds lss = .ok o) → traceBranches gds lss (pre ++ f :: post) = .error e
  | [], _ => by simp [traceBranches, hf]
  | g :: pre, h => by
    obtain ⟨o, ho⟩ := h g (by simp)
    have ih := traceBranches_first_error (post := post) hf (pre := pre) (fun g' hg' => h g' (List.mem_cons_of_mem _ hg'))
    simp [traceBranches, ho, ih]

/-- the output structure (graphdefs with `outer_index` stamps) the traced function `f` announces for `f(*args)` on `h` -/
def tracedDefs (f : Fn) (h : Heap) (args : List PVal) : Except Err (List ODef) :=
  match step1 false h args with
  | .error e => .error e
  | .ok (gds, lss, _) =>
    match pureRun false true f [] gds lss with
    | .error e => .error e
    | .ok (gdsO, _) => .ok gdsO

section Switch
variable {fs : List Fn} {index : Int} {h : Heap} {args : List PVal}

/-- **switch / cond raise the error of the first branch (in trace order) that fails eagerly**, whichever branch is
selected: every branch is traced (A-COND) -/
theorem switch_error (hc : HeapClosed h) (ha : ∀ v ∈ args, ValClosed h v) {pre post : List Fn} {f : Fn} {e : Err}
    (hfs : fs = pre ++ f :: post) (hpre : ∀ g ∈ pre, ∃ r, runFn g h args = .ok r) (hf : runFn f h args = .error e) :
    switchCall fs index h args = .error e := by
  obtain ⟨gds, fss, idx1, hf1⟩ := flattenRoots_total hc args ha []
  have hF := flatRoots_of_flattenRoots h args [] gds fss idx1 hf1
  have hs1 : step1 false h args = .ok (gds, fss.map (convLeaves false), idx1) := by simp [step1, hf1]
  have h1 : pureRun false true f [] gds (fss.map (convLeaves false)) = .error e :=
    (pureRun_total false true f (pre := []) (fun v hv => by simp at hv) hF).2 e (by simpa using hf)
  have h2 : ∀ g ∈ pre, ∃ o, pureRun false true g [] gds (fss.map (convLeaves false)) = .ok o := fun g hg => by
    obtain ⟨r, hr⟩ := hpre g hg
    exact (pureRun_total false true g (pre := []) (fun v hv => by simp at hv) hF).1 r.1 r.2 (by simpa using hr)
  unfold switchCall
  rw [hs1, hfs]
  simp only [traceBranches_first_error h1 h2]

/-- all branches succeed eagerly: the traces succeed, and the call is accepted iff the traced output structures
coincide; otherwise it is `structureMismatch` -/
theorem switch_all_ok (hc : HeapClosed h) (ha : ∀ v ∈ args, ValClosed h v) (hne : fs ≠ [])
    (hall : ∀ f ∈ fs, ∃ r, runFn f h args = .ok r) :
    ((∀ f ∈ fs, ∀ g ∈ fs, tracedDefs f h args = tracedDefs g h args) →
      ∃ outs h4, switchCall fs index h args = .ok (outs, h4)) ∧
    ((∃ f ∈ fs, ∃ g ∈ fs, tracedDefs f h args ≠ tracedDefs g h args) →
      switchCall fs index h args = .error .structureMismatch) := by
  obtain ⟨gds, fss, idx1, hf1⟩ := flattenRoots_total hc args ha []
  have hF := flatRoots_of_flattenRoots h args [] gds fss idx1 hf1
  have hs1 : step1 false h args = .ok (gds, fss.map (convLeaves false), idx1) := by simp [step1, hf1]
  have hp : ∀ g ∈ fs, ∃ o, pureRun false true g [] gds (fss.map (convLeaves false)) = .ok o := fun g hg => by
    obtain ⟨r, hr⟩ := hall g hg
    exact (pureRun_total false true g (pre := []) (fun v hv => by simp at hv) hF).1 r.1 r.2 (by simpa using hr)
  obtain ⟨outs, htr, hmem⟩ := traceBranches_ok hp
  obtain ⟨hlen, hk⟩ := traceBranches_get htr
  have htd : ∀ f o, pureRun false true f [] gds (fss.map (convLeaves false)) = .ok o → tracedDefs f h args = .ok o.1 := by
    intro f o ho
    obtain ⟨a, b⟩ := o
    simp [tracedDefs, hs1, ho]
  cases houts : outs with
  | nil =>
    rw [houts] at hlen
    exact absurd (List.length_eq_zero_iff.mp hlen.symm) hne
  | cons o0 rest =>
    obtain ⟨gdsO, l0⟩ := o0
    constructor
    · intro heq
      have hallb : ((gdsO, l0) :: rest).all (fun o => decide (o.1 = gdsO)) = true := by
        apply List.all_eq_true.mpr
        intro o ho
        obtain ⟨f, hfm, hfo⟩ := hmem o (houts ▸ ho)
        obtain ⟨f0, hf0m, hf0o⟩ := hmem (gdsO, l0) (houts ▸ List.mem_cons_self)
        have := heq f hfm f0 hf0m
        rw [htd f o hfo, htd f0 _ hf0o] at this
        simpa using this
      -- the selected branch
      have hklt : clampIndex index fs.length < fs.length := by
        have : 0 < fs.length := List.length_pos_iff.mpr hne
        unfold clampIndex; split <;> omega
      obtain ⟨o, hok, hpr⟩ := hk _ _ (List.getElem?_eq_getElem hklt)
      obtain ⟨g, lssO⟩ := o
      have hg : g = gdsO := by
        have := List.all_eq_true.mp hallb (g, lssO) (houts ▸ List.mem_of_getElem? hok)
        simpa using this
      subst hg
      obtain ⟨r, hr⟩ := hall _ (List.getElem_mem hklt)
      obtain ⟨roots4, h4, hproto⟩ := (proto_total false fs[clampIndex index fs.length] h args hc ha).1 r.1 r.2 hr
      have hstep : step4 h idx1 g lssO = .ok (roots4, h4) := by
        simpa [protoCall, hs1, hpr] using hproto
      refine ⟨roots4.drop args.length, h4, ?_⟩
      unfold switchCall
      rw [hs1]
      simp only [htr, houts, hallb, if_true]
      have hkk : (if index < 0 then 0 else min index.toNat (((g, l0) :: rest).length - 1)) = clampIndex index fs.length := by
        rw [← houts, hlen]; rfl
      rw [hkk, ← houts, hok]
      simp [hstep]
    · rintro ⟨f, hfm, g, hgm, hne'⟩
      -- one of the two differs from the first
      obtain ⟨of, hof⟩ := hp f hfm
      obtain ⟨og, hog⟩ := hp g hgm
      rw [htd f of hof, htd g og hog] at hne'
      have hne2 : of.1 ≠ og.1 := fun e => hne' (by rw [e])
      have hinf : of ∈ outs := by
        obtain ⟨k, hk1⟩ := List.getElem?_of_mem hfm
        obtain ⟨o, ho1, ho2⟩ := hk k f hk1
        rw [hof] at ho2; cases ho2; exact List.mem_of_getElem? ho1
      have hing : og ∈ outs := by
        obtain ⟨k, hk1⟩ := List.getElem?_of_mem hgm
        obtain ⟨o, ho1, ho2⟩ := hk k g hk1
        rw [hog] at ho2; cases ho2; exact List.mem_of_getElem? ho1
      have hallb : ((gdsO, l0) :: rest).all (fun o => decide (o.1 = gdsO)) = false := by
        apply Bool.eq_false_iff.mpr
        intro hall'
        have a1 := List.all_eq_true.mp hall' of (houts ▸ hinf)
        have a2 := List.all_eq_true.mp hall' og (houts ▸ hing)
        simp at a1 a2
        exact hne2 (a1.trans a2.symm)
      unfold switchCall
      rw [hs1]
      simp only [htr, houts]
      rw [if_neg (by simp [hallb])]

end Switch


/-! ### `flatten` does not depend on the budget -/

theorem flatten_mono (g : Heap) : ∀ fuel : Nat,
    (∀ path v idx r, flattenVal fuel g path v idx = .ok r → flattenVal (fuel + 1) g path v idx = .ok r) ∧
    (∀ path items idx r, flattenItems fuel g path items idx = .ok r → flattenItems (fuel + 1) g path items idx = .ok r) := by
  intro fuel
  induction fuel with
  | zero =>
    constructor
    · intro path v idx r hh; simp [flattenVal] at hh
    · intro path items idx r hh; simp [flattenItems] at hh
  | succ fuel ih =>
    constructor
    · intro path v idx r hh
      cases v with
      | static s => simpa [flattenVal] using hh
      | array d => simpa [flattenVal] using hh
      | none => simpa [flattenVal] using hh
      | seq t xs =>
        simp only [flattenVal] at hh ⊢
        split at hh
        · cases hh
        · next as ls1 idx1 heq => rw [ih.2 _ _ _ _ heq]; exact hh
      | dict kvs =>
        simp only [flattenVal] at hh ⊢
        split at hh
        · cases hh
        · next as ls1 idx1 heq => rw [ih.2 _ _ _ _ heq]; exact hh
      | ref a =>
        simp only [flattenVal] at hh ⊢
        split at hh
        · exact hh
        · split at hh
          · cases hh
          · exact hh
          · split at hh
            · cases hh
            · next as ls1 idx1 heq => rw [ih.2 _ _ _ _ heq]; exact hh
    · intro path items idx r hh
      cases items with
      | nil => simpa [flattenItems] using hh
      | cons kv rest =>
        obtain ⟨k, v⟩ := kv
        simp only [flattenItems] at hh ⊢
        split at hh
        · cases hh
        · next g1 ls1 idx1 heq1 =>
          rw [ih.1 _ _ _ _ heq1]
          simp only
          split at hh
          · cases hh
          · next gs2 ls2 idx2 heq2 => rw [ih.2 _ _ _ _ heq2]; exact hh

theorem flatten_le (g : Heap) {fuel fuel' : Nat} (hle : fuel ≤ fuel') {path : Path} {v : PVal} {idx : RefIndex}
    {r : GDef × FlatState × RefIndex} (h : flattenVal fuel g path v idx = .ok r) : flattenVal fuel' g path v idx = .ok r := by
  induction hle with
  | refl => exact h
  | step _ ih => exact (flatten_mono g _).1 _ _ _ _ ih

theorem flatten_det (g : Heap) {f1 f2 : Nat} {path : Path} {v : PVal} {idx : RefIndex} {r1 r2 : GDef × FlatState × RefIndex}
    (h1 : flattenVal f1 g path v idx = .ok r1) (h2 : flattenVal f2 g path v idx = .ok r2) : r1 = r2 := by
  have a := flatten_le g (Nat.le_max_left f1 f2) h1
  have b := flatten_le g (Nat.le_max_right f1 f2) h2
  rw [a] at b; exact Except.ok.inj b

theorem flatRoots_det {g : Heap} : ∀ {vs : List PVal} {idx : RefIndex} {gds fss idx1 gds' fss' idx1'},
    FlatRoots g vs idx gds fss idx1 → FlatRoots g vs idx gds' fss' idx1' → gds = gds' ∧ fss = fss' ∧ idx1 = idx1'
  | _, _, _, _, _, _, _, _, .nil _, h2 => by cases h2; exact ⟨rfl, rfl, rfl⟩
  | _, _, _, _, _, _, _, _, .cons heq ht, h2 => by
    cases h2 with
    | cons heq' ht' =>
      have := flatten_det g heq heq'
      simp only [Prod.mk.injEq] at this
      obtain ⟨rfl, rfl, rfl⟩ := this
      obtain ⟨rfl, rfl, rfl⟩ := flatRoots_det ht ht'
      exact ⟨rfl, rfl, rfl⟩

/-! ### stamps determined by their table on the definitions -/

mutual
  theorem stamp_of_eq_on {t t' : Nat → Option Nat} : ∀ (g : GDef), (∀ i ∈ defIdx g, t i = t' i) → stampWith t g = stampWith t' g
    | .ref ty i, _ => rfl
    | .static s, _ => rfl
    | .array, _ => rfl
    | .var ty i md, h => by simp only [stampWith]; rw [h i (by simp [defIdx])]
    | .node kind idx attrs, h => by
      simp only [stampWith]
      have h1 : idx.bind t = idx.bind t' := by
        cases idx with
        | none => rfl
        | some i => simpa using h i (by simp [defIdx])
      rw [h1, stampAttrs_of_eq_on attrs (fun i hi => h i (by simp [defIdx, hi]))]
  theorem stampAttrs_of_eq_on {t t' : Nat → Option Nat} : ∀ (l : List (Key × GDef)), (∀ i ∈ defIdxAttrs l, t i = t' i) →
      stampAttrs t l = stampAttrs t' l
    | [], _ => rfl
    | (k, g) :: rest, h => by
      simp only [stampAttrs]
      rw [stamp_of_eq_on g (fun i hi => h i (by simp [defIdxAttrs, hi])),
        stampAttrs_of_eq_on rest (fun i hi => h i (by simp [defIdxAttrs, hi]))]
end

theorem stampRoots_of_eq_on {t t' : Nat → Option Nat} : ∀ (gds : List GDef), (∀ i ∈ defIdxRoots gds, t i = t' i) →
    gds.map (stampWith t) = gds.map (stampWith t')
  | [], _ => rfl
  | g :: gs, h => by
    simp only [List.map_cons]
    rw [stamp_of_eq_on g (fun i hi => h i (by simp [defIdxRoots, hi])),
      stampRoots_of_eq_on gs (fun i hi => h i (by simp [defIdxRoots, hi]))]

/-! ### when a loop body is accepted -/

theorem pureRun_inv_body {f : Fn} {pre : List PVal} {gds : List GDef} {lss : List (List Leaf)}
    {o : List ODef × List (List Leaf)} (hp : pureRun false false f pre gds lss = .ok o) :
    ∃ args' G ir rets' G3 gds3 fss3 idx3,
      unflattenRootsO (fun _ => Option.none) (gds.map (stampWith (fun _ => Option.none))) lss [] [] = .ok (args', G, ir) ∧
      runFn f G (pre ++ args') = .ok (rets', G3) ∧ flattenRoots G3 rets' [] = .ok (gds3, fss3, idx3) ∧
      o = (gds3.map (stampWith (tblOf idx3 ir)), fss3.map (convLeaves false)) := by
  unfold pureRun at hp
  split at hp
  · cases hp
  · next args' G ir hu =>
    split at hp
    · cases hp
    · next rets' G3 hrun =>
      simp only [Bool.false_eq_true, if_false, List.nil_append] at hp
      split at hp
      · cases hp
      · next gds3 fss3 idx3 hf3 =>
        simp at hp
        exact ⟨args', G, ir, rets', G3, gds3, fss3, idx3, hu, hrun, hf3, hp.symm⟩

/-- **a loop body is accepted exactly when the eager body gives the carry back with the same graphdef and the same
objects in the same order** (and it fails exactly when the eager body fails) -/
theorem body_outcome {f : Fn} {pre : List PVal} (hpre : ∀ v ∈ pre, ∃ d, v = PVal.array d)
    {h : Heap} {vals : List PVal} {gds : List GDef} {fss : List FlatState} {idx1 : RefIndex}
    (hf : FlatRoots h vals [] gds fss idx1) (nh : AttrsNodup h) :
    (∀ e, runFn f h (pre ++ vals) = .error e → bodyPure f pre gds (fss.map (convLeaves false)) = .error e) ∧
    (∀ rets h2, runFn f h (pre ++ vals) = .ok (rets, h2) →
      ((∃ fssK, FlatRoots h2 rets [] gds fssK idx1) → ∃ lss', bodyPure f pre gds (fss.map (convLeaves false)) = .ok lss') ∧
      ((¬ ∃ fssK, FlatRoots h2 rets [] gds fssK idx1) →
        bodyPure f pre gds (fss.map (convLeaves false)) = .error .structureMismatch)) := by
  obtain ⟨tok, terr⟩ := pureRun_total false false f hpre hf
  constructor
  · intro e he
    simp [bodyPure, terr e he]
  · intro rets h2 he
    obtain ⟨o, ho⟩ := tok rets h2 he
    constructor
    · rintro ⟨fssK, hK⟩
      obtain ⟨args', G, ir, rets', G3, gds3, fss3, idx3, hu, hrun, hf3, rfl⟩ := pureRun_inv_body ho
      obtain ⟨args'', G', ir', hu', Gd2, R2, hargs, hlt1, hnG⟩ := inner_copyF false hf
      rw [hu] at hu'
      simp at hu'
      obtain ⟨rfl, rfl, rfl⟩ := hu'
      have hcs := runFn_sim f R2 (valsRel_append (valsRel_arrays hpre) hargs)
      rw [he, hrun] at hcs
      rcases hcs with ⟨e, h1, _⟩ | ⟨rets0, h20, rets0', G30, φ', e1, e2, R3, hrets, hle, hold, hnew, hlen⟩
      · cases h1
      simp at e1 e2
      obtain ⟨rfl, rfl⟩ := e1
      obtain ⟨rfl, rfl⟩ := e2
      have nh2 := runFn_nodup nh he
      have nG3 := runFn_nodup (hnG nh) hrun
      have hF3 := flatRoots_of_flattenRoots G3 rets' [] gds3 fss3 idx3 hf3
      obtain ⟨idxE, hFE, hrel⟩ := flatRoots_iso R3 nh2 nG3 hF3 hrets .nil
      obtain ⟨rfl, _, rfl⟩ := flatRoots_det hFE hK
      obtain ⟨_, hd3⟩ := flatRoots_defIdx hF3
      simp only [List.length_nil, Nat.sub_zero] at hd3
      have hstamps : gds3.map (stampWith (tblOf idx3 ir)) = gds3.map (stampWith (fun i => some i)) := by
        apply stampRoots_of_eq_on
        intro i hi
        rw [hd3] at hi
        have hi3 : i < idx3.length := by simp [List.mem_range'] at hi; omega
        have hiE : i < idxE.length := by rw [idxRel_length hrel]; exact hi3
        obtain ⟨b, hb3, hab⟩ := idxRel_get hrel i idxE[i] (List.getElem?_eq_getElem hiE)
        have haE : idxE[i] < h.length := hlt1 _ (List.getElem_mem hiE)
        have hphi : phi idxE ir idxE[i] = some b := by rw [← hold _ haE]; exact hab
        have hlook : irLookup i ir = some b := by
          simpa [phi, indexOf?_of_getElem? Gd2.nodup (List.getElem?_eq_getElem hiE)] using hphi
        have hinv : irInv ir b = some i :=
          irInv_of hlook (by rw [Gd2.irLen]; exact hiE) (fun j hj => Gd2.inj j i b hj hlook)
        simp [tblOf, hb3, hinv]
      exact ⟨fss3.map (convLeaves false), by simp [bodyPure, ho, hstamps]⟩
    · intro hno
      unfold bodyPure
      rw [ho]
      simp only
      split
      · next hchk =>
        exfalso
        have hb : bodyPure f pre gds (fss.map (convLeaves false)) = .ok o.2 := by simp [bodyPure, ho, hchk]
        obtain ⟨fss', hF', _⟩ := body_step hpre hf nh he hb
        exact hno ⟨fss', hF'⟩
      · rfl


/-! ### loops are accepted when every eager iteration keeps the carry -/

/-- the unrolled `fori_loop` runs `n` more iterations from `(h, vals)` at counter `i`, and every iteration gives the carry
back with the graphdef `gds` and the objects `idx1` in the same order -/
def KeepsCarry (f : Fn) (gds : List GDef) (idx1 : RefIndex) : Nat → Int → Heap → List PVal → Prop
  | 0, _, _, _ => True
  | n + 1, i, h, vals => ∃ vals1 h1 fss1, runFn f h (PVal.array (wrap32 i) :: vals) = .ok (vals1, h1) ∧
      FlatRoots h1 vals1 [] gds fss1 idx1 ∧ KeepsCarry f gds idx1 n (i + 1) h1 vals1

theorem foriIter_total (f : Fn) (gds : List GDef) (idx1 : RefIndex) : ∀ (n : Nat) (i : Int) (h : Heap) (vals : List PVal)
    (fss : List FlatState), FlatRoots h vals [] gds fss idx1 → AttrsNodup h → KeepsCarry f gds idx1 n i h vals →
    ∃ lssN valsE hE, foriIter f gds n i (fss.map (convLeaves false)) = .ok lssN ∧ foriEager f n i h vals = .ok (valsE, hE)
  | 0, i, h, vals, fss, _, _, _ => ⟨_, vals, h, rfl, rfl⟩
  | n + 1, i, h, vals, fss, hf, nh, hk => by
    obtain ⟨vals1, h1, fss1, hr, hK, hrest⟩ := hk
    have hpre : ∀ v ∈ [PVal.array (wrap32 i)], ∃ d, v = PVal.array d := fun v hv => ⟨_, by simpa using hv⟩
    obtain ⟨lss1, hb⟩ := ((body_outcome (f := f) hpre hf nh).2 vals1 h1 (by simpa using hr)).1 ⟨fss1, hK⟩
    obtain ⟨fss1', hf1, rfl, nh1, _⟩ := body_step hpre hf nh (by simpa using hr) hb
    obtain ⟨lssN, valsE, hE, hi, he⟩ := foriIter_total f gds idx1 n (i + 1) h1 vals1 fss1' hf1 nh1 hrest
    exact ⟨lssN, valsE, hE, by simp [foriIter, hb, hi], by simp [foriEager, hr, he]⟩

/-- **fori_loop is accepted, and equals the unrolled loop, whenever the traced first application and every eager
iteration keep the carry** -/
theorem fori_total (f : Fn) (lower : Int) (n : Nat) (h : Heap) (vals : List PVal) (nh : AttrsNodup h)
    (gds : List GDef) (fss : List FlatState) (idx1 : RefIndex) (hf : flattenRoots h vals [] = .ok (gds, fss, idx1))
    (htrace : KeepsCarry f gds idx1 1 lower h vals) (hk : KeepsCarry f gds idx1 n lower h vals) :
    ∃ roots h4 valsE hE χ, foriCall f lower n h vals = .ok (roots, h4) ∧ foriEager f n lower h vals = .ok (valsE, hE) ∧
      LoopRefines h valsE hE roots h4 χ := by
  have hF := flatRoots_of_flattenRoots h vals [] gds fss idx1 hf
  obtain ⟨lssT, _, _, hiT, _⟩ := foriIter_total f gds idx1 1 lower h vals fss hF nh htrace
  have hbT : ∃ l, bodyPure f [.array (wrap32 lower)] gds (fss.map (convLeaves false)) = .ok l := by
    simp only [foriIter] at hiT
    split at hiT
    · cases hiT
    · next l hl => exact ⟨l, hl⟩
  obtain ⟨lT, hlT⟩ := hbT
  obtain ⟨lssN, valsE, hE, hi, he⟩ := foriIter_total f gds idx1 n lower h vals fss hF nh hk
  obtain ⟨fssE, hfE, rfl, _, hkind⟩ := fori_invariant f gds idx1 n lower h vals fss lssN valsE hE hF nh hi he
  obtain ⟨_, _, _, _, _, _, _, hlt⟩ := inner_copy false hf
  obtain ⟨roots, h4, ir4, hs, _⟩ := loop_final hlt hkind hfE
  have hcall : foriCall f lower n h vals = .ok (roots, h4) := by
    simp [foriCall, step1, hf, hlT, hi, hs]
  obtain ⟨χ, hχ⟩ := loop_assemble hf hkind hfE hs
  exact ⟨roots, h4, valsE, hE, χ, hcall, he, hχ⟩

/-- the traced first application decides rejection: an eager failure is raised as is (also for zero trips), a carry
that does not come back with the same graphdef and objects is `structureMismatch` -/
theorem fori_trace_outcome (f : Fn) (lower : Int) (n : Nat) (h : Heap) (vals : List PVal) (nh : AttrsNodup h)
    (gds : List GDef) (fss : List FlatState) (idx1 : RefIndex) (hf : flattenRoots h vals [] = .ok (gds, fss, idx1)) :
    (∀ e, runFn f h (PVal.array (wrap32 lower) :: vals) = .error e → foriCall f lower n h vals = .error e) ∧
    (∀ rets h2, runFn f h (PVal.array (wrap32 lower) :: vals) = .ok (rets, h2) →
      (¬ ∃ fssK, FlatRoots h2 rets [] gds fssK idx1) → foriCall f lower n h vals = .error .structureMismatch) := by
  have hF := flatRoots_of_flattenRoots h vals [] gds fss idx1 hf
  have hpre : ∀ v ∈ [PVal.array (wrap32 lower)], ∃ d, v = PVal.array d := fun v hv => ⟨_, by simpa using hv⟩
  obtain ⟨herr, hok⟩ := body_outcome (f := f) hpre hF nh
  constructor
  · intro e he
    have := herr e (by simpa using he)
    simp [foriCall, step1, hf, this]
  · intro rets h2 he hno
    have := ((hok rets h2 (by simpa using he)).2 hno)
    simp [foriCall, step1, hf, this]

/-! ### while_loop -/

/-- the traced predicate succeeds whenever the eager predicate returns one array, with the same verdict -/
theorem condPure_total {c : Fn} {h : Heap} {vals : List PVal} {gds : List GDef} {fss : List FlatState} {idx1 : RefIndex}
    (hf : FlatRoots h vals [] gds fss idx1) {d : Data} {h0 : Heap} (he : runFn c h vals = .ok ([.array d], h0)) :
    condPure c gds (fss.map (convLeaves false)) = .ok (decide (d ≠ 0)) := by
  obtain ⟨args', G, ir, hu, Gd2, R2, hargs, _, _⟩ := inner_copyF false hf
  have hcs := runFn_sim c R2 hargs
  rw [he] at hcs
  rcases hcs with ⟨e, h1, _⟩ | ⟨rets0, h20, rets0', G30, φ', e1, e2, R3, hrets, _⟩
  · cases h1
  simp at e1
  obtain ⟨rfl, rfl⟩ := e1
  cases hrets with
  | cons hv ht =>
    cases ht
    cases hv
    simp [condPure, hu, e2]

/-- the unrolled `while` loop terminates within the budget, the predicate returns one array each time, and every
iteration keeps the carry -/
def KeepsCarryW (c f : Fn) (gds : List GDef) (idx1 : RefIndex) : Nat → Heap → List PVal → Prop
  | 0, _, _ => False
  | fuel + 1, h, vals => ∃ d, runFn c h vals = .ok ([PVal.array d], h) ∧
      (d = 0 ∨ (d ≠ 0 ∧ ∃ vals1 h1 fss1, runFn f h vals = .ok (vals1, h1) ∧ FlatRoots h1 vals1 [] gds fss1 idx1 ∧
        KeepsCarryW c f gds idx1 fuel h1 vals1))

theorem whileIter_total (c f : Fn) (gds : List GDef) (idx1 : RefIndex) : ∀ (fuel : Nat) (h : Heap) (vals : List PVal)
    (fss : List FlatState), FlatRoots h vals [] gds fss idx1 → AttrsNodup h → KeepsCarryW c f gds idx1 fuel h vals →
    ∃ lssN valsE hE, whileIter c f gds fuel (fss.map (convLeaves false)) = .ok lssN ∧ whileEager c f fuel h vals = .ok (valsE, hE)
  | 0, _, _, _, _, _, hk => by cases hk
  | fuel + 1, h, vals, fss, hf, nh, hk => by
    obtain ⟨d, hc, hrest⟩ := hk
    have hcp := condPure_total hf hc
    rcases hrest with hd | ⟨hd, vals1, h1, fss1, hr, hK, hrest⟩
    · subst hd
      exact ⟨fss.map (convLeaves false), vals, h, by simp [whileIter, hcp], by simp [whileEager, hc]⟩
    · have hpre : ∀ v ∈ ([] : List PVal), ∃ d, v = PVal.array d := fun v hv => by simp at hv
      obtain ⟨lss1, hb⟩ := ((body_outcome (f := f) hpre hf nh).2 vals1 h1 (by simpa using hr)).1 ⟨fss1, hK⟩
      obtain ⟨fss1', hf1, rfl, nh1, _⟩ := body_step hpre hf nh (by simpa using hr) hb
      obtain ⟨lssN, valsE, hE, hi, he⟩ := whileIter_total c f gds idx1 fuel h1 vals1 fss1' hf1 nh1 hrest
      exact ⟨lssN, valsE, hE, by simp [whileIter, hcp, hd, hb, hi], by simp [whileEager, hc, hd, hr, he]⟩

/-- **while_loop is accepted, and equals the Python loop, whenever the traced predicate and body and every eager
iteration succeed and keep the carry** -/
theorem while_total (c f : Fn) (hro : c.readOnly = true) (fuel : Nat) (h : Heap) (vals : List PVal) (nh : AttrsNodup h)
    (gds : List GDef) (fss : List FlatState) (idx1 : RefIndex) (hf : flattenRoots h vals [] = .ok (gds, fss, idx1))
    (d0 : Data) (htc : runFn c h vals = .ok ([.array d0], h))
    (htb : ∃ vals1 h1 fss1, runFn f h vals = .ok (vals1, h1) ∧ FlatRoots h1 vals1 [] gds fss1 idx1)
    (hk : KeepsCarryW c f gds idx1 fuel h vals) :
    ∃ roots h4 valsE hE χ, whileCall c f fuel h vals = .ok (roots, h4) ∧ whileEager c f fuel h vals = .ok (valsE, hE) ∧
      LoopRefines h valsE hE roots h4 χ := by
  have hF := flatRoots_of_flattenRoots h vals [] gds fss idx1 hf
  have hcp := condPure_total hF htc
  obtain ⟨vals1, h1, fss1, hr, hK⟩ := htb
  have hpre : ∀ v ∈ ([] : List PVal), ∃ d, v = PVal.array d := fun v hv => by simp at hv
  obtain ⟨lT, hlT⟩ := ((body_outcome (f := f) hpre hF nh).2 vals1 h1 (by simpa using hr)).1 ⟨fss1, hK⟩
  obtain ⟨lssN, valsE, hE, hi, he⟩ := whileIter_total c f gds idx1 fuel h vals fss hF nh hk
  obtain ⟨fssE, hfE, rfl, _, hkind⟩ := while_invariant c f hro gds idx1 fuel h vals fss lssN valsE hE hF nh hi he
  obtain ⟨_, _, _, _, _, _, _, hlt⟩ := inner_copy false hf
  obtain ⟨roots, h4, ir4, hs, _⟩ := loop_final hlt hkind hfE
  have hcall : whileCall c f fuel h vals = .ok (roots, h4) := by
    simp [whileCall, step1, hf, hcp, hlT, hi, hs]
  obtain ⟨χ, hχ⟩ := loop_assemble hf hkind hfE hs
  exact ⟨roots, h4, valsE, hE, χ, hcall, he, hχ⟩


/-! ### the traced output structure is the canonical form of the eager result -/

theorem pureRun_inv {raw keep : Bool} {f : Fn} {pre : List PVal} {gds : List GDef} {lss : List (List Leaf)}
    {o : List ODef × List (List Leaf)} (hp : pureRun raw keep f pre gds lss = .ok o) :
    ∃ args' G ir rets' G3 gds3 fss3 idx3,
      unflattenRootsO (fun _ => Option.none) (gds.map (stampWith (fun _ => Option.none))) lss [] [] = .ok (args', G, ir) ∧
      runFn f G (pre ++ args') = .ok (rets', G3) ∧
      flattenRoots G3 ((if keep then args'.map clearArg else []) ++ rets') [] = .ok (gds3, fss3, idx3) ∧
      o = (gds3.map (stampWith (tblOf idx3 ir)), fss3.map (convLeaves raw)) := by
  unfold pureRun at hp
  split at hp
  · cases hp
  · next args' G ir hu =>
    split at hp
    · cases hp
    · next rets' G3 hrun =>
      simp only at hp
      split at hp
      · cases hp
      · next gds3 fss3 idx3 hf3 =>
        simp at hp
        exact ⟨args', G, ir, rets', G3, gds3, fss3, idx3, hu, hrun, hf3, hp.symm⟩

/-- **what the traced function returns is the `flatten` of the eager result, every definition stamped with the position
its object had in the input `ref_index`** (`none` for objects the function created) -/
theorem pureRun_is_eager_canon (raw keep : Bool) (f : Fn) {pre : List PVal} (hpre : ∀ v ∈ pre, ∃ d, v = PVal.array d)
    {h : Heap} {vals : List PVal} {gds : List GDef} {fss : List FlatState} {idx1 : RefIndex}
    (hf : FlatRoots h vals [] gds fss idx1) (nh : AttrsNodup h) {rets : List PVal} {h2 : Heap}
    (he : runFn f h (pre ++ vals) = .ok (rets, h2)) {o : List ODef × List (List Leaf)}
    (ho : pureRun raw keep f pre gds (fss.map (convLeaves raw)) = .ok o) :
    ∃ gdsE fssE idxE, FlatRoots h2 ((if keep then vals.map clearArg else []) ++ rets) [] gdsE fssE idxE ∧
      o = (gdsE.map (stampWith (fun i => (idxE[i]?).bind (fun a => indexOf? a idx1))), fssE.map (convLeaves raw)) := by
  obtain ⟨args', G, ir, rets', G3, gds3, fss3, idx3, hu, hrun, hf3, rfl⟩ := pureRun_inv ho
  obtain ⟨args'', G', ir', hu', Gd2, R2, hargs, hlt1, hnG⟩ := inner_copyF raw hf
  rw [hu] at hu'
  simp at hu'
  obtain ⟨rfl, rfl, rfl⟩ := hu'
  have hcs := runFn_sim f R2 (valsRel_append (valsRel_arrays hpre) hargs)
  rw [he, hrun] at hcs
  rcases hcs with ⟨e, h1, _⟩ | ⟨rets0, h20, rets0', G30, φ', e1, e2, R3, hrets, hle, hold, hnew, hlen⟩
  · cases h1
  simp at e1 e2
  obtain ⟨rfl, rfl⟩ := e1
  obtain ⟨rfl, rfl⟩ := e2
  have nh2 := runFn_nodup nh he
  have nG3 := runFn_nodup (hnG nh) hrun
  have hF3 := flatRoots_of_flattenRoots G3 _ [] gds3 fss3 idx3 hf3
  have hroots : ValsRel φ' ((if keep then vals.map clearArg else []) ++ rets) ((if keep then args'.map clearArg else []) ++ rets') := by
    cases keep
    · simpa using hrets
    · simpa using valsRel_append (clearArgs_rel (ValsRel.mono hle hargs)) hrets
  obtain ⟨idxE, hFE, hrel⟩ := flatRoots_iso R3 nh2 nG3 hF3 hroots .nil
  refine ⟨gds3, fss3, idxE, hFE, ?_⟩
  congr 1
  apply stampRoots_of_eq_on
  intro i hi
  obtain ⟨_, hd3⟩ := flatRoots_defIdx hF3
  simp only [List.length_nil, Nat.sub_zero] at hd3
  rw [hd3] at hi
  have hi3 : i < idx3.length := by simp [List.mem_range'] at hi; omega
  have hiE : i < idxE.length := by rw [idxRel_length hrel]; exact hi3
  obtain ⟨b, hb3, hab⟩ := idxRel_get hrel i idxE[i] (List.getElem?_eq_getElem hiE)
  simp only [tblOf, hb3, List.getElem?_eq_getElem hiE, Option.bind_some]
  by_cases halt : idxE[i] < h.length
  · have hphi : phi idx1 ir idxE[i] = some b := by rw [← hold _ halt]; exact hab
    obtain ⟨j, hj1, hj2⟩ := phi_idx hphi
    rw [indexOf?_of_getElem? Gd2.nodup hj1]
    exact irInv_of hj2 (by rw [Gd2.irLen]; exact (List.getElem?_eq_some_iff.mp hj1).1) (fun k hk => Gd2.inj k j b hk hj2)
  · have hb : G.length ≤ b := hnew _ b (Nat.le_of_not_lt halt) hab
    have h1 : irInv ir b = Option.none := irInv_none (fun k hk => by
      have hklt : k < idx1.length := (Gd2.dom k).mp (by simp [hk])
      rcases Gd2.tgt k idx1[k] b (List.getElem?_eq_getElem hklt) hk with h1 | ⟨_, _, h3⟩
      · cases h1
      · omega)
    have h2 : indexOf? idxE[i] idx1 = Option.none := indexOf?_none.mpr (fun hm => halt (hlt1 _ hm))
    rw [h1, h2]

end Flax.Nnx
