/-
If nothing a program stores depends on the call argument, the variables it produces do not depend on
the argument at all (values, not only shapes).  Used by C02 (`lazy_init_values`).
-/
import Flax.Proofs.ShapeSim

namespace Flax.ArgFree
open Flax.Filter (LFilter inFilter)
open Flax.Scope Flax.ModuleTree Flax.ScopeLemmas
open Flax.ShapeSim (LocalShape evalE_shape push_shape autoName_shape)

theorem evalE_const {x x' : Int} {env env' : List Int} : ∀ (e : Expr), e.isConst = true →
    evalE x' env' e = evalE x env e := by
  intro e
  induction e with
  | const k => intro _; rfl
  | arg => intro h; simp [Expr.isConst] at h
  | loc i => intro h; simp [Expr.isConst] at h
  | add a b iha ihb =>
    intro h
    simp only [Expr.isConst, Bool.and_eq_true] at h
    simp only [evalE, iha h.1, ihb h.2]
  | mul a b iha ihb =>
    intro h
    simp only [Expr.isConst, Bool.and_eq_true] at h
    simp only [evalE, iha h.1, ihb h.2]

theorem argFree_bindW (w : Nat) : ∀ p : SProg, argFree (bindW w p) = argFree p
  | .seq a b => by simp [bindW, argFree, argFree_bindW w a, argFree_bindW w b]
  | .param _ _ _ => rfl
  | .skip => rfl | .bind _ => rfl | .ret _ => rfl | .var _ _ _ _ => rfl | .get _ _ => rfl
  | .put _ _ _ _ => rfl | .sow _ _ _ => rfl | .perturb _ _ _ => rfl | .child _ _ _ => rfl | .call _ _ _ => rfl
  | .nested _ _ _ _ => rfl

theorem argFree_bindArg (w : Option Nat) (p : SProg) : argFree (bindArg w p) = argFree p := by
  cases w <;> simp [bindArg, argFree_bindW]

def KidsFree (l : Local) : Prop := ∀ k ∈ l.kids, argFree k.body = true

theorem finishCall_argfree {cfg : Cfg} {π : Path} {l l' l1 : Local} {s s1 : Store} (hcap : cfg.capture = false)
    (hl : LocalShape l l') (h : finishCall cfg π l s = (.ok l1, s1)) :
    finishCall cfg π l' s = (.ok l', s1) ∧ LocalShape l1 l' := by
  simp only [finishCall, hcap, Bool.false_eq_true, if_false, Prod.mk.injEq, Except.ok.injEq] at h ⊢
  obtain ⟨rfl, rfl⟩ := h
  exact ⟨⟨trivial, rfl⟩, hl⟩

/-- two runs of an argument-free program from the same store, with different arguments and locals of
the same shape, succeed together and end in the *same* store -/
theorem eval_argfree (cfg : Cfg) (hcap : cfg.capture = false) :
    ∀ (fuel : Nat) (p : SProg) (π : Path) (x x' : Int) (l l' l1 : Local) (s s1 : Store),
      argFree p = true → KidsFree l → LocalShape l l' → eval cfg fuel p π x l s = (.ok l1, s1) →
      ∃ l1', eval cfg fuel p π x' l' s = (.ok l1', s1) ∧ LocalShape l1 l1' ∧ KidsFree l1 := by
  intro fuel
  induction fuel with
  | zero => intro p π x x' l l' l1 s s1 _ _ _ h; simp [eval] at h
  | succ fuel ih =>
    intro p π x x' l l' l1 s s1 hp hk hl h
    cases p with
    | skip =>
      simp only [eval, Prod.mk.injEq, Except.ok.injEq] at h
      obtain ⟨rfl, rfl⟩ := h
      exact ⟨l', by simp [eval], hl, hk⟩
    | seq a b =>
      simp only [argFree, Bool.and_eq_true] at hp
      simp only [eval] at h
      cases ha : eval cfg fuel a π x l s with
      | mk res s2 =>
        rw [ha] at h
        cases res with
        | error e => simp at h
        | ok l2 =>
          obtain ⟨l2', e1, hl2, hk2⟩ := ih a π x x' l l' l2 s s2 hp.1 hk hl ha
          obtain ⟨l3', e2, hl3, hk3⟩ := ih b π x x' l2 l2' l1 s2 s1 hp.2 hk2 hl2 h
          exact ⟨l3', by simp only [eval, e1]; exact e2, hl3, hk3⟩
    | bind e =>
      simp only [eval] at h
      cases he : evalE x l.env e with
      | error err => simp [he] at h
      | ok v =>
        simp only [he, Prod.mk.injEq, Except.ok.injEq] at h
        obtain ⟨rfl, rfl⟩ := h
        obtain ⟨v', hv'⟩ := evalE_shape (x' := x') hl.env_len e v he
        exact ⟨push l' v', by simp [eval, hv'], push_shape hl v v', hk⟩
    | ret e =>
      simp only [eval] at h
      cases he : evalE x l.env e with
      | error err => simp [he] at h
      | ok v =>
        simp only [he, Prod.mk.injEq, Except.ok.injEq] at h
        obtain ⟨rfl, rfl⟩ := h
        obtain ⟨v', hv'⟩ := evalE_shape (x' := x') hl.env_len e v he
        exact ⟨{ l' with out := v' }, by simp [eval, hv'], ⟨hl.env_len, hl.res_eq, hl.cursors_eq, hl.kids_eq⟩, hk⟩
    | param n shape init =>
      simp only [eval] at h
      cases hp1 : scopeParam π n (resolveDims shape) init l.res s with
      | mk res s2 =>
        rw [hp1] at h
        cases res with
        | error e => simp at h
        | ok vr =>
          obtain ⟨v, r⟩ := vr
          simp only [Prod.mk.injEq, Except.ok.injEq] at h
          obtain ⟨rfl, rfl⟩ := h
          refine ⟨{ push l' v.total with res := r }, by simp [eval, hl.res_eq, hp1], ?_, hk⟩
          exact ⟨by simp [push, hl.env_len], rfl, hl.cursors_eq, hl.kids_eq⟩
    | var col n shape init =>
      simp only [argFree] at hp
      simp only [eval] at h
      have hc : evalE x' l'.env init = evalE x l.env init := evalE_const init hp
      cases he : evalE x l.env init with
      | error err => simp [he] at h
      | ok iv =>
        simp only [he] at h
        cases hp1 : scopeVariable π col n (Val.full shape iv) l.res s with
        | mk res s2 =>
          rw [hp1] at h
          cases res with
          | error e => simp at h
          | ok r =>
            simp only at h
            cases hg : getVar s2 π col n with
            | none => simp [hg] at h
            | some v =>
              simp only [hg, Prod.mk.injEq, Except.ok.injEq] at h
              obtain ⟨rfl, rfl⟩ := h
              refine ⟨{ push l' v.total with res := r }, by simp [eval, hc, he, hl.res_eq, hp1, hg], ?_, hk⟩
              exact ⟨by simp [push, hl.env_len], rfl, hl.cursors_eq, hl.kids_eq⟩
    | get col n =>
      simp only [eval] at h
      cases hg : getVar s π col n with
      | none =>
        simp only [hg, Prod.mk.injEq, Except.ok.injEq] at h
        obtain ⟨rfl, rfl⟩ := h
        exact ⟨push l' 0, by simp [eval, hg], push_shape hl 0 0, hk⟩
      | some v =>
        simp only [hg, Prod.mk.injEq, Except.ok.injEq] at h
        obtain ⟨rfl, rfl⟩ := h
        exact ⟨push l' v.total, by simp [eval, hg], push_shape hl _ _, hk⟩
    | put col rel n e =>
      simp only [argFree] at hp
      simp only [eval] at h
      have hc : evalE x' l'.env e = evalE x l.env e := evalE_const e hp
      cases he : evalE x l.env e with
      | error err => simp [he] at h
      | ok v =>
        simp only [he] at h
        cases hp1 : putVar (π ++ rel) col n (.tensor [] [v]) s with
        | mk res s2 =>
          rw [hp1] at h
          cases res with
          | error e => simp at h
          | ok u =>
            simp only [Prod.mk.injEq, Except.ok.injEq] at h
            obtain ⟨rfl, rfl⟩ := h
            exact ⟨l', by simp [eval, hc, he, hp1], hl, hk⟩
    | sow col n e =>
      simp only [argFree] at hp
      simp only [eval] at h
      have hc : evalE x' l'.env e = evalE x l.env e := evalE_const e hp
      cases he : evalE x l.env e with
      | error err => simp [he] at h
      | ok v =>
        simp only [he] at h
        cases hp1 : moduleSow π col n v l.res s with
        | mk res s2 =>
          rw [hp1] at h
          cases res with
          | error e => simp at h
          | ok r =>
            simp only [Prod.mk.injEq, Except.ok.injEq] at h
            obtain ⟨rfl, rfl⟩ := h
            refine ⟨{ l' with res := r }, by simp [eval, hc, he, hl.res_eq, hp1], ?_, hk⟩
            exact ⟨hl.env_len, rfl, hl.cursors_eq, hl.kids_eq⟩
    | perturb col n e =>
      simp only [argFree] at hp
      simp only [eval] at h
      have hc : evalE x' l'.env e = evalE x l.env e := evalE_const e hp
      cases he : evalE x l.env e with
      | error err => simp [he] at h
      | ok v =>
        simp only [he] at h
        cases hp1 : modulePerturb π col n v l.res s with
        | mk res s2 =>
          rw [hp1] at h
          cases res with
          | error e => simp at h
          | ok yr =>
            obtain ⟨y, r⟩ := yr
            simp only [Prod.mk.injEq, Except.ok.injEq] at h
            obtain ⟨rfl, rfl⟩ := h
            refine ⟨{ push l' y with res := r }, by simp [eval, hc, he, hl.res_eq, hp1], ?_, hk⟩
            exact ⟨by simp [push, hl.env_len], rfl, hl.cursors_eq, hl.kids_eq⟩
    | nested body m V a => simp [argFree] at hp
    | child cls name body =>
      simp only [argFree] at hp
      simp only [eval] at h
      have hname : childName cfg cls name l' = childName cfg cls name l := by
        cases name with
        | some nm => simp [childName, hl.cursors_eq]
        | none => exact autoName_shape hl cls
      cases hn : childName cfg cls name l with
      | none => simp [hn] at h
      | some nc =>
        obtain ⟨nm, cs⟩ := nc
        simp only [hn] at h
        cases hr : reserve l.res nm none with
        | error e => simp [hr] at h
        | ok r =>
          simp only [hr, Prod.mk.injEq, Except.ok.injEq] at h
          obtain ⟨rfl, rfl⟩ := h
          refine ⟨{ l' with res := r, cursors := cs, kids := l'.kids ++ [⟨nm, body⟩] },
            by simp [eval, hname, hn, hl.res_eq, hr], ⟨hl.env_len, rfl, rfl, by simp [hl.kids_eq]⟩, ?_⟩
          intro k hkk
          rcases List.mem_append.mp hkk with h1 | h1
          · exact hk k h1
          · simp only [List.mem_singleton] at h1; subst h1; exact hp
    | call slot a w =>
      simp only [eval] at h
      cases hkid : l.kids[slot]? with
      | none => simp [hkid] at h
      | some k =>
        simp only [hkid] at h
        have hkb : argFree (bindArg w k.body) = true := by
          rw [argFree_bindArg]; exact hk k (List.mem_of_getElem? hkid)
        cases he : evalE x l.env a with
        | error err => simp [he] at h
        | ok av =>
          simp only [he] at h
          obtain ⟨av', hav'⟩ := evalE_shape (x' := x') hl.env_len a av he
          cases hb : eval cfg fuel (bindArg w k.body) (π ++ [k.name]) av {} s with
          | mk res s2 =>
            rw [hb] at h
            cases res with
            | error e => simp at h
            | ok lk =>
              simp only at h
              obtain ⟨lk', e1, hlk, _⟩ := ih (bindArg w k.body) (π ++ [k.name]) av av' {} {} lk s s2 hkb
                (fun _ hh => absurd hh (by simp)) (LocalShape.refl _) hb
              cases hf : finishCall cfg (π ++ [k.name]) lk s2 with
              | mk res2 s3 =>
                rw [hf] at h
                cases res2 with
                | error e => simp at h
                | ok lk2 =>
                  simp only [Prod.mk.injEq, Except.ok.injEq] at h
                  obtain ⟨rfl, rfl⟩ := h
                  obtain ⟨f1, _⟩ := finishCall_argfree hcap hlk hf
                  exact ⟨push l' lk'.out, by simp [eval, hl.kids_eq, hkid, hav', e1, f1], push_shape hl _ _, hk⟩

theorem init_argfree (cfg : Cfg) (hcap : cfg.capture = false) (fuel : Nat) (p : SProg) (hp : argFree p = true)
    (m : LFilter) (rngs : List String) (x x' y : Int) (V : Vars)
    (h : (ModuleTree.init cfg fuel p m rngs x).result = .ok (y, V)) :
    ∃ y', (ModuleTree.init cfg fuel p m rngs x').result = .ok (y', V) := by
  unfold ModuleTree.init Scope.init Scope.apply at h ⊢
  have hbe : badStructure Vars.empty = false := rfl
  simp only [hbe, Bool.false_eq_true, if_false] at h ⊢
  unfold runTop at h ⊢
  cases hev : eval cfg fuel p [] x {} (Scope.bind (effMutable cfg m) Vars.empty rngs) with
  | mk res s1 =>
    rw [hev] at h
    cases res with
    | error e => simp at h
    | ok l1 =>
      simp only at h
      obtain ⟨l1', e1, hl1, _⟩ := eval_argfree cfg hcap fuel p [] x x' {} {} l1 _ s1 hp
        (fun _ hh => absurd hh (by simp)) (LocalShape.refl _) hev
      cases hf : finishCall cfg [] l1 s1 with
      | mk res2 s2 =>
        rw [hf] at h
        cases res2 with
        | error e => simp at h
        | ok l2 =>
          simp only [Except.ok.injEq, Prod.mk.injEq] at h
          obtain ⟨rfl, rfl⟩ := h
          obtain ⟨f1, _⟩ := finishCall_argfree hcap hl1 hf
          exact ⟨l1'.out, by simp only [e1, f1]⟩

end Flax.ArgFree
