/- C03 helper lemmas: isomorphic rooted heaps resolve every path alike -/
import Flax.Proofs.GraphIso
import Flax.Proofs.GraphFlatten
namespace Flax.Graph
open Flax.Heap

/-! ### lookups through sorted / related association lists -/

theorem lookupKV_insertBy {α : Type} {lt : Key → Key → Bool} (hirr : ∀ a, lt a a = false) (k k0 : Key) (v0 : α) :
    ∀ l : List (Key × α), lookupKV k (insertBy lt k0 v0 l) = if k0 = k then some v0 else lookupKV k l
  | [] => by simp [insertBy, lookupKV]
  | (k', v') :: rest => by
    simp only [insertBy]
    split
    · next hlt =>
      have hne : k' ≠ k0 := fun e => by rw [e, hirr] at hlt; cases hlt
      simp only [lookupKV, lookupKV_insertBy hirr k k0 v0 rest]
      by_cases e0 : k0 = k
      · have : k' ≠ k := fun e => hne (e.trans e0.symm)
        simp [e0, this]
      · simp [e0]
    · simp [lookupKV]

theorem lookupKV_sortKV {α : Type} (k : Key) : ∀ l : List (Key × α), lookupKV k (sortKV l) = lookupKV k l
  | [] => rfl
  | (k0, v0) :: rest => by
    show lookupKV k (insertBy Key.lt k0 v0 (sortBy Key.lt rest)) = _
    rw [lookupKV_insertBy Key.lt_irrefl]
    simp only [lookupKV]
    rw [show sortBy Key.lt rest = sortKV rest from rfl, lookupKV_sortKV k rest]

/-- both lookups fail, or both succeed with related values -/
def OptRel (φ : Addr → Option Addr) (x y : Option PVal) : Prop :=
  (x = Option.none ∧ y = Option.none) ∨ ∃ v w, x = some v ∧ y = some w ∧ ValRel φ v w

theorem KVsRel.lookup {φ : Addr → Option Addr} (k : Key) : ∀ {l l' : List (Key × PVal)}, KVsRel φ l l' →
    OptRel φ (lookupKV k l) (lookupKV k l')
  | _, _, .nil => Or.inl ⟨rfl, rfl⟩
  | _, _, .cons (k := k0) (v := v) (w := w) hv ht => by
    simp only [lookupKV]
    by_cases e : k0 = k
    · simp only [e, if_true]; exact Or.inr ⟨v, w, rfl, rfl, hv⟩
    · simp only [e, if_false]; exact KVsRel.lookup k ht

theorem ValsRel.lookup_enum {φ : Addr → Option Addr} (k : Key) : ∀ {xs ys : List PVal} (n : Nat), ValsRel φ xs ys →
    OptRel φ (lookupKV k (enumFrom n xs)) (lookupKV k (enumFrom n ys))
  | _, _, _, .nil => Or.inl ⟨rfl, rfl⟩
  | _, _, n, .cons (x := x) (y := y) hv ht => by
    simp only [enumFrom, lookupKV]
    by_cases e : Key.int n = k
    · simp only [e, if_true]; exact Or.inr ⟨x, y, rfl, rfl, hv⟩
    · simp only [e, if_false]; exact ValsRel.lookup_enum k (n + 1) ht

theorem step_corr {h h' : Heap} {r r' : PVal} {φ : Addr → Option Addr} (iso : Iso h r h' r' φ) {v v' : PVal}
    (hv : ValRel φ v v') (k : Key) : OptRel φ (step h v k) (step h' v' k) := by
  cases hv with
  | static s => exact Or.inl ⟨rfl, rfl⟩
  | array d => exact Or.inl ⟨rfl, rfl⟩
  | none => exact Or.inl ⟨rfl, rfl⟩
  | seq hs => simp only [step]; exact ValsRel.lookup_enum k 0 hs
  | dict hd =>
    rename_i kvs kvs'
    simp only [step]
    rw [← lookupKV_sortKV k kvs, ← lookupKV_sortKV k kvs']
    exact KVsRel.lookup k hd
  | ref hab =>
    obtain ⟨o, o', ho, ho', hrel⟩ := iso.obj _ _ hab
    simp only [step, ho, ho']
    cases hrel with
    | var ty val md => exact Or.inl ⟨rfl, rfl⟩
    | node hk =>
      rename_i cls attrs attrs'
      simp only
      rw [← lookupKV_sortKV k attrs, ← lookupKV_sortKV k attrs']
      exact KVsRel.lookup k hk

/-- isomorphic rooted heaps resolve every path alike -/
theorem resolve_corr {h h' : Heap} {r r' : PVal} {φ : Addr → Option Addr} (iso : Iso h r h' r' φ) :
    ∀ (p : Path) {v v' : PVal}, ValRel φ v v' → OptRel φ (resolve h v p) (resolve h' v' p)
  | [], v, v', hv => Or.inr ⟨v, v', rfl, rfl, hv⟩
  | k :: p, v, v', hv => by
    simp only [resolve]
    rcases step_corr iso hv k with ⟨e1, e2⟩ | ⟨w, w', e1, e2, hw⟩
    · simp only [e1, e2]; exact Or.inl ⟨rfl, rfl⟩
    · simp only [e1, e2]; exact resolve_corr iso p hw

end Flax.Graph
