/- C08 proofs: `nnx.vmap` — whenever it returns, the per-index reference computation is defined and returns the same -/
import Flax.Proofs.NnxLoopVmapOut
import Flax.Proofs.NnxLoopDims

namespace Flax.NnxLoop
open Flax.Filter Flax.LiftLoop

/-! ### plumbing -/

/-- two lists related position by position -/
inductive All2 {κ ρ : Type} (R : κ → ρ → Prop) : List κ → List ρ → Prop where
  | nil : All2 R [] []
  | cons {c : κ} {r : ρ} {cs : List κ} {rs : List ρ} : R c r → All2 R cs rs → All2 R (c :: cs) (r :: rs)

theorem mapX_factor {ι ρ κ : Type} {F : ι → Except Err ρ} {C : ι → Except Err κ} {R : κ → ρ → Prop} :
    ∀ {l : List ι} {rs : List ρ}, mapX F l = .ok rs →
    (∀ i ∈ l, ∀ r, F i = .ok r → ∃ c, C i = .ok c ∧ R c r) →
    ∃ cs, mapX C l = .ok cs ∧ All2 R cs rs := by
  intro l
  induction l with
  | nil => intro rs h _; simp [mapX] at h; subst h; exact ⟨[], rfl, All2.nil⟩
  | cons i is ih =>
    intro rs h hp
    obtain ⟨r, rs', hr, hrs, rfl⟩ := mapX_cons_ok h
    obtain ⟨c, hc, hR⟩ := hp i (by simp) r hr
    obtain ⟨cs, hcs, hF⟩ := ih hrs (fun j hj => hp j (by simp [hj]))
    exact ⟨c :: cs, mapX_cons_of_ok hc hcs, All2.cons hR hF⟩

theorem forall2_mapX {κ ρ δ : Type} {G : κ → Except Err δ} {proj : ρ → δ} : ∀ {cs : List κ} {rs : List ρ},
    All2 (fun c r => G c = .ok (proj r)) cs rs → mapX G cs = .ok (rs.map proj) := by
  intro cs rs h
  induction h with
  | nil => rfl
  | cons h1 _ ih => exact mapX_cons_of_ok h1 ih

theorem mapX_imp_pos {β γ δ : Type} {f : β → Except Err δ} {g : γ → Except Err δ} : ∀ (l1 : List β) (l2 : List γ)
    (r : List δ), l1.length = l2.length →
    (∀ k (h1 : k < l1.length) (h2 : k < l2.length) y, f l1[k] = .ok y → g l2[k] = .ok y) →
    mapX f l1 = .ok r → mapX g l2 = .ok r := by
  intro l1
  induction l1 with
  | nil => intro l2 r hl _ h; cases l2 with | nil => simpa [mapX] using h | cons _ _ => simp at hl
  | cons x xs ih =>
    intro l2 r hl hp h
    cases l2 with
    | nil => simp at hl
    | cons y ys =>
      obtain ⟨z, zs, hx, hr, rfl⟩ := mapX_cons_ok h
      have h0 := hp 0 (by simp) (by simp) z (by simpa using hx)
      exact mapX_cons_of_ok (by simpa using h0) (ih ys zs (by simpa using hl) (fun k h1 h2 w hw => by
        have := hp (k + 1) (by simp; omega) (by simp; omega) w (by simpa using hw)
        simpa using this) hr)

/-- entry `k` of an axes specification -/
def AxesSpec.entry (t : AxesSpec) (k : Nat) : Option Prefix :=
  match t with
  | .uniform p => some p
  | .perArg ps => ps[k]?

theorem expand_entry {t : AxesSpec} {n : Nat} {ops : List Prefix} (h : t.expand n = .ok ops) :
    ops.length = n ∧ ∀ k, k < n → ops[k]? = t.entry k := by
  cases t with
  | uniform p =>
    simp only [AxesSpec.expand] at h
    injection h with h
    subst h
    exact ⟨by simp, fun k hk => by simp [AxesSpec.entry, hk]⟩
  | perArg ps =>
    simp only [AxesSpec.expand] at h
    split at h
    · injection h with h
      subst h
      rename_i hl
      exact ⟨hl, fun k _ => rfl⟩
    · cases h

/-- slicing keeps graphdefs and prefixes: the inner `to_tree` of the arguments after the call is the same on the sliced
and on the unsliced pure arguments -/
theorem sliceArg_skeleton {α : Type} [Inhabited α] {i : Nat} (st : Store α) : ∀ {pure sl : List (PureArg α)},
    mapX (sliceArg i) pure = .ok sl → mapX (splitArgOut st) sl = mapX (splitArgOut st) pure := by
  intro pure
  induction pure with
  | nil => intro sl h; simp [mapX] at h; subst h; rfl
  | cons x xs ih =>
    intro sl h
    obtain ⟨y, ys, hx, hr, rfl⟩ := mapX_cons_ok h
    have hxy : splitArgOut st y = splitArgOut st x := by
      cases x with
      | node g p sts =>
        simp only [sliceArg] at hx
        cases hm : mapX (fun q => sliceState i q.1 q.2) (p.axes.zip sts) with
        | error e => simp [hm] at hx
        | ok sts' => simp only [hm] at hx; injection hx with hx; subst hx; rfl
      | arr p a =>
        cases p with
        | sa s => simp [sliceArg] at hx
        | ax ax =>
          simp only [sliceArg] at hx
          cases hm : sliceVal i ax a with
          | error e => simp [hm] at hx
          | ok v => simp only [hm] at hx; injection hx with hx; subst hx; rfl
    simp only [mapX, hxy, ih hr]

/-- what one call of `VmapFn` amounts to -/
theorem vmapFn_ok {α : Type} {body : Body α} {outAxes : AxesSpec} {sl : List (PureArg α)}
    {r : List (List (State α)) × List (PureOut α)} (h : vmapFn body outAxes sl = .ok r) :
    ∃ inner inner' outs ops, mergeAll sl [] = .ok inner ∧ body inner (arraysOf sl) = .ok (inner', outs) ∧
      mapX (splitArgOut inner') sl = .ok r.1 ∧
      ¬ (outAxes.isBareStateAxes = true ∧ outs.length ≠ 1) ∧
      outAxes.expand outs.length = .ok ops ∧ mapX splitOut (ops.zip outs) = .ok r.2 := by
  simp only [vmapFn] at h
  cases h1 : mergeAll sl [] with
  | error e => simp [h1] at h
  | ok inner =>
    simp only [h1] at h
    cases h2 : body inner (arraysOf sl) with
    | error e => simp [h2] at h
    | ok io =>
      obtain ⟨inner', outs⟩ := io
      simp only [h2] at h
      cases h3 : mapX (splitArgOut inner') sl with
      | error e => simp [h3] at h
      | ok argsOut =>
        simp only [h3] at h
        by_cases hb : (outAxes.isBareStateAxes = true ∧ outs.length ≠ 1)
        · simp [hb] at h
        · have hb' : (outAxes.isBareStateAxes && decide (outs.length ≠ 1)) = false := by
            cases hx : outAxes.isBareStateAxes <;> simp_all
          simp only [hb'] at h
          cases h4 : outAxes.expand outs.length with
          | error e => simp [h4] at h
          | ok ops =>
            simp only [h4] at h
            cases h5 : mapX splitOut (ops.zip outs) with
            | error e => simp [h5] at h
            | ok pouts =>
              simp only [h5] at h
              injection h with h
              subst h
              exact ⟨inner, inner', outs, ops, rfl, h2, h3, hb, h4, h5⟩

/-- what relates the reference call at an index to what `VmapFn` returned there -/
def CallRel {α : Type} (outAxes : AxesSpec) (pure : List (PureArg α)) (c : Store α × List (Out α))
    (r : List (List (State α)) × List (PureOut α)) : Prop :=
  mapX (splitArgOut c.1) pure = .ok r.1 ∧ ¬ (outAxes.isBareStateAxes = true ∧ c.2.length ≠ 1) ∧
  ∃ ops, outAxes.expand c.2.length = .ok ops ∧ mapX splitOut (ops.zip c.2) = .ok r.2

theorem pickX_ok {β : Type} {k : Nat} {xs : List β} {x : β} (h : pickX k xs = .ok x) : xs[k]? = some x := by
  simp only [pickX] at h
  cases hx : xs[k]? with
  | none => simp [hx] at h
  | some a => simp only [hx] at h; injection h with h; rw [h]

theorem pickX_of {β : Type} {k : Nat} {xs : List β} {x : β} (h : xs[k]? = some x) : pickX k xs = .ok x := by
  simp [pickX, h]

/-- result position `k` over all indices: the traced function's results there, and what `VmapFn` made of them -/
theorem column_outs {α : Type} {outAxes : AxesSpec} {pure : List (PureArg α)} {k : Nat} {q : Prefix}
    (hq : outAxes.entry k = some q) :
    ∀ {cs : List (Store α × List (Out α))} {rs : List (List (List (State α)) × List (PureOut α))},
      All2 (CallRel outAxes pure) cs rs → ∀ col, column k (rs.map (·.2)) = .ok col →
      ∃ ocol, column k (cs.map (·.2)) = .ok ocol ∧ mapX (fun o => splitOut (q, o)) ocol = .ok col := by
  intro cs rs h
  induction h with
  | nil => intro col hc; simp [column, mapX] at hc; subst hc; exact ⟨[], rfl, rfl⟩
  | @cons c r cs rs hR _ ih =>
    intro col hc
    simp only [column, List.map_cons] at hc
    obtain ⟨h0, ht, hh, hr, rfl⟩ := mapX_cons_ok hc
    obtain ⟨ocol, e1, e2⟩ := ih ht hr
    obtain ⟨_, _, ops, hops, hsp⟩ := hR
    obtain ⟨hol, hoe⟩ := expand_entry hops
    have hk := pickX_ok hh
    have hkl : k < r.2.length := (List.getElem?_eq_some_iff.1 hk).1
    have hzl : (ops.zip c.2).length = c.2.length := by simp [List.length_zip, hol]
    have hrl := mapX_length hsp
    have hkc : k < c.2.length := by omega
    have hz : k < (ops.zip c.2).length := by omega
    have := mapX_ok_getElem hsp k hz hkl
    have hopk : ops[k]? = some q := by rw [hoe k hkc]; exact hq
    have hzk : (ops.zip c.2)[k] = (q, c.2[k]) := by
      have h1 : (ops.zip c.2)[k]? = some (q, c.2[k]) :=
        List.getElem?_zip_eq_some.2 ⟨hopk, List.getElem?_eq_getElem hkc⟩
      rw [List.getElem?_eq_getElem hz] at h1
      exact Option.some.inj h1
    rw [hzk] at this
    have hh0 : r.2[k] = h0 := by
      rw [List.getElem?_eq_getElem hkl] at hk; exact Option.some.inj hk
    refine ⟨c.2[k] :: ocol, ?_, ?_⟩
    · simp only [column, List.map_cons]
      exact mapX_cons_of_ok (pickX_of (List.getElem?_eq_getElem hkc)) e1
    · exact mapX_cons_of_ok (by rw [this, hh0]) e2

theorem all2_mono {κ ρ : Type} {R S : κ → ρ → Prop} (hRS : ∀ c r, R c r → S c r) {cs : List κ} {rs : List ρ}
    (h : All2 R cs rs) : All2 S cs rs := by
  induction h with
  | nil => exact All2.nil
  | cons h1 _ ih => exact All2.cons (hRS _ _ h1) ih

theorem all2_length {κ ρ : Type} {R : κ → ρ → Prop} {cs : List κ} {rs : List ρ} (h : All2 R cs rs) :
    cs.length = rs.length := by
  induction h with
  | nil => rfl
  | cons _ _ ih => simp [ih]

/-- **`nnx.vmap` is sound for the per-index reference.**  Whenever the model of `nnx.vmap(f, in_axes, out_axes,
axis_size)(*args)` returns, the reference computation `vmapSpecN` — one call of `f` per index on the per-Variable slices,
Variables left with their per-index values put together along their axes, results put together along the out axes — is
defined for the same number `n ≥ 1` of indices and returns the same store and the same results. -/
theorem nnxVmap_sound {α : Type} [Inhabited α] {inAxes outAxes : AxesSpec} {axisSize : Option Nat} {verdict : Bool}
    {body : Body α} {args : List (Arg α)} {store : Store α} {res : Store α × List (Out α)}
    (h : nnxVmap inAxes outAxes axisSize verdict body args store = .ok res)
    (hwf : ∀ ps, inAxes.expand args.length = .ok ps → WFArgs (ps.zip args))
    (houts : ∀ ps n calls, inAxes.expand args.length = .ok ps →
      mapX (vmapCall body store (ps.zip args)) (List.range n) = .ok calls →
      ∀ k col, column k (calls.map (·.2)) = .ok col → OutColWF col) :
    ∃ ps n, inAxes.expand args.length = .ok ps ∧ 0 < n ∧ verdict = true ∧
      inAxes.hasCarry = false ∧ outAxes.hasCarry = false ∧
      ((∀ ep ∈ ownedAll (ps.zip args) [], ∀ k, ep.2.at ep.1 = .ok (.axis k) →
          ∃ v, store.lookup ep.1.id = some v ∧ dimAt k v = .ok n) ∧
        (∀ pa ∈ arrArgs (ps.zip args), ∀ k, pa.1 = .ax (.axis k) → dimAt k pa.2 = .ok n) ∧
        (∀ m, axisSize = some m → m = n)) ∧
      vmapSpecN n outAxes body (ps.zip args) store = .ok res := by
  simp only [nnxVmap] at h
  by_cases hbad : (inAxes.isBareStateAxes || inAxes.hasCarry || outAxes.hasCarry) = true
  · simp [hbad] at h
  simp only [hbad] at h
  cases hps : inAxes.expand args.length with
  | error e => simp [hps] at h
  | ok ps =>
  simp only [hps] at h
  cases hpure : toTree store (ps.zip args) [] [] with
  | error e => simp [hpure] at h
  | ok pure =>
  simp only [hpure] at h
  cases hdims : vmapDims pure with
  | error e => simp [hdims] at h
  | ok dims =>
  simp only [hdims] at h
  cases hn : liftL (jaxLength axisSize dims) with
  | error e => simp [hn] at h
  | ok n =>
  simp only [hn] at h
  generalize hrs : mapX _ (List.range n) = mrs at h
  cases mrs with
  | error e => simp at h
  | ok rs =>
  simp only [] at h
  cases rs with
  | nil => simp at h
  | cons r0 rt =>
  simp only [] at h
  cases hv : verdict with
  | false => simp [hv] at h
  | true =>
  simp only [hv] at h
  generalize hwb : vmapWriteBack _ pure store = mwb at h
  cases mwb with
  | error e => simp at h
  | ok store' =>
  simp only [] at h
  generalize houtsX : mapX _ ((List.range r0.2.length).zip r0.2) = mouts at h
  cases mouts with
  | error e => simp at h
  | ok outs =>
  simp only [] at h
  injection h with h
  subst h
  have hW := hwf ps hps
  -- step A: the reference calls
  obtain ⟨cs, hcs, hrel⟩ := mapX_factor (C := vmapCall body store (ps.zip args))
    (R := CallRel outAxes pure) hrs (by
      intro i _ r hr
      cases hsl : mapX (sliceArg i) pure with
      | error e => simp [hsl] at hr
      | ok sl =>
        simp only [hsl] at hr
        obtain ⟨ins, h1, h2, h3⟩ := vmap_call_sees_slices store i (ps.zip args) [] [] pure sl [] hW hpure hsl rfl
        obtain ⟨inner, inner', outsI, ops, e1, e2, e3, e4, e5, e6⟩ := vmapFn_ok hr
        rw [h2] at e1
        injection e1 with e1
        simp only [List.nil_append] at e1
        subst e1
        refine ⟨(inner', outsI), ?_, ?_, e4, ops, e5, e6⟩
        · simp only [vmapCall, h1, h3, bindX, e2]
        · rw [← sliceArg_skeleton inner' hsl]; exact e3)
  have hlen := all2_length hrel
  cases cs with
  | nil => simp at hlen
  | cons c0 ct =>
  have hnpos : 0 < n := by
    have := mapX_length hrs
    simp at this
    omega
  -- step B: the write-back
  have hrows : mapX (fun st => mapX (splitArgOut st) pure) ((c0 :: ct).map (·.1)) = .ok ((r0 :: rt).map (·.1)) := by
    rw [mapX_map]
    have hAll : All2 (fun (c : Store α × List (Out α)) (r : List (List (State α)) × List (PureOut α)) =>
        mapX (splitArgOut c.1) pure = .ok r.1) (c0 :: ct) (r0 :: rt) := by
      exact all2_mono (fun _ _ hR => hR.1) hrel
    exact forall2_mapX (G := fun (c : Store α × List (Out α)) => mapX (splitArgOut c.1) pure)
      (proj := fun (r : List (List (State α)) × List (PureOut α)) => r.1) hAll
  obtain ⟨vals, hvals, hstore⟩ := vmap_write_back store (ps.zip args) [] [] pure hW hpure c0.1 (ct.map (·.1))
    ((r0 :: rt).map (·.1)) (by simpa using hrows) store store' hwb
  -- step C: the results
  have hR0 : CallRel outAxes pure c0 r0 := by cases hrel with | cons h _ => exact h
  obtain ⟨_, hbare, ops0, hops0, hsp0⟩ := hR0
  obtain ⟨hol0, hoe0⟩ := expand_entry hops0
  have hr0l : r0.2.length = c0.2.length := by
    have := mapX_length hsp0
    simp [List.length_zip, hol0] at this
    exact this
  have houtsS : mapX (collectOutAt ((c0 :: ct).map (·.2))) ((List.range ops0.length).zip ops0) = .ok outs := by
    apply mapX_imp_pos _ _ _ (by simp [List.length_zip, hol0, hr0l]) _ houtsX
    intro k h1 h2 y hy
    have hk1 : k < r0.2.length := by simpa [List.length_zip] using h1
    have hk2 : k < ops0.length := by simpa [List.length_zip] using h2
    have e1 : ((List.range r0.2.length).zip r0.2)[k] = (k, r0.2[k]) := by
      have : ((List.range r0.2.length).zip r0.2)[k]? = some (k, r0.2[k]) :=
        List.getElem?_zip_eq_some.2 ⟨List.getElem?_range hk1, List.getElem?_eq_getElem hk1⟩
      rw [List.getElem?_eq_getElem h1] at this
      exact Option.some.inj this
    have e2 : ((List.range ops0.length).zip ops0)[k] = (k, ops0[k]) := by
      have : ((List.range ops0.length).zip ops0)[k]? = some (k, ops0[k]) :=
        List.getElem?_zip_eq_some.2 ⟨List.getElem?_range hk2, List.getElem?_eq_getElem hk2⟩
      rw [List.getElem?_eq_getElem h2] at this
      exact Option.some.inj this
    rw [e1] at hy
    rw [e2]
    dsimp only at hy
    generalize hcol : column k _ = mcol at hy
    cases mcol with
    | error e => simp at hy
    | ok col =>
      simp only [] at hy
      have hq : outAxes.entry k = some ops0[k] := by
        rw [← hoe0 k (by omega), List.getElem?_eq_getElem hk2]
      obtain ⟨ocol, ho1, ho2⟩ := column_outs hq hrel col hcol
      -- heads
      obtain ⟨hcl, hce⟩ := column_ok hcol
      cases col with
      | nil => simp at hcl
      | cons p0 prest =>
        have hp0 : r0.2[k] = p0 := by
          have := hce 0 (by simp) (by simp)
          simp only [List.map_cons, List.getElem_cons_zero, List.getElem?_eq_getElem hk1,
            Option.some.injEq] at this
          exact this
        cases ocol with
        | nil => simp [mapX] at ho2
        | cons o0 orest =>
          have hwfc := houts ps n (c0 :: ct) hps hcs k (o0 :: orest) ho1
          rw [hp0] at hy
          have := vmap_collect_out ho2 hwfc hy
          simp only [collectOutAt, ho1, bindX, this]
  refine ⟨ps, n, rfl, hnpos, rfl, ?_, ?_, vmap_sizes_eq_n store (ps.zip args) pure dims axisSize n hpure hdims
    (liftL_ok.1 hn), ?_⟩
  · cases hx : inAxes.hasCarry <;> simp_all
  · cases hx : outAxes.hasCarry <;> simp_all
  · have hb' : (outAxes.isBareStateAxes && decide (c0.2.length ≠ 1)) = false := by
      cases hx : outAxes.isBareStateAxes <;> simp_all
    simp only [List.map_cons] at houtsS
    simp only [vmapSpecN, hcs, bindX, List.map_cons, hvals, hb', hops0, houtsS, hstore]
    rfl

end Flax.NnxLoop
