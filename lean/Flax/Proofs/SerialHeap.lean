/-
Frame lemmas for the in-place passes of serialization (`Flax/Model/SerialHeap.lean`):
a pass started at a root allocated after address `b`, in a heap whose objects from `b` on only
reference objects from `b` on, writes only to addresses `≥ b` and leaves everything below `b` as it was.
-/
import Flax.Model.SerialHeap
import Flax.Proofs.Serial

namespace Flax.SerialHeap
open Flax.Serial

/-- every dict edge out of an object at an address `≥ b` leads to an address in `[b, |h|)` -/
def Closed (b : Nat) (h : Heap) : Prop :=
  ∀ a obj, b ≤ a → h[a]? = some obj → ∀ k c, (k, HVal.ref c) ∈ obj → b ≤ c ∧ c < h.length

/-- the root is not a dict, or a dict allocated at an address in `[b, |h|)` -/
def RootOK (b : Nat) (h : Heap) : HVal → Prop
  | .leaf _ => True
  | .ref a => b ≤ a ∧ a < h.length

/-- `h'` has everything `h` had below `b`, unchanged, and is not shorter -/
def Pres (b : Nat) (h h' : Heap) : Prop :=
  h.length ≤ h'.length ∧ ∀ a, a < b → h'[a]? = h[a]?

theorem Pres.refl (b : Nat) (h : Heap) : Pres b h h := ⟨Nat.le_refl _, fun _ _ => rfl⟩

theorem Pres.trans {b : Nat} {h1 h2 h3 : Heap} (p : Pres b h1 h2) (q : Pres b h2 h3) : Pres b h1 h3 :=
  ⟨Nat.le_trans p.1 q.1, fun a ha => by rw [q.2 a ha, p.2 a ha]⟩

theorem RootOK.mono {b : Nat} {h h' : Heap} {v : HVal} (hl : h.length ≤ h'.length) (r : RootOK b h v) :
    RootOK b h' v := by
  cases v with
  | leaf _ => trivial
  | ref a => exact ⟨r.1, Nat.lt_of_lt_of_le r.2 hl⟩

theorem RootOK.weaken {b b' : Nat} {h : Heap} {v : HVal} (hb : b ≤ b') (r : RootOK b' h v) : RootOK b h v := by
  cases v with
  | leaf _ => trivial
  | ref a => exact ⟨Nat.le_trans hb r.1, r.2⟩

/-! ### allocation -/

/-- appending an object whose references are all in range keeps the heap closed -/
theorem closed_alloc (lo : Nat) (h : Heap) (obj : DictObj) (hc : Closed lo h)
    (hobj : ∀ k c, (k, HVal.ref c) ∈ obj → lo ≤ c ∧ c < h.length) : Closed lo (h ++ [obj]) := by
  intro a o hlo hget k c hm
  by_cases ha : a < h.length
  · rw [List.getElem?_append_left ha] at hget
    obtain ⟨t1, t2⟩ := hc a o hlo hget k c hm
    exact ⟨t1, by simp; omega⟩
  · rw [List.getElem?_append_right (by omega)] at hget
    have h0 : a - h.length = 0 := by
      by_cases h0 : a - h.length = 0
      · exact h0
      · rw [List.getElem?_eq_none (by simp; omega)] at hget; cases hget
    rw [h0] at hget
    simp only [List.getElem?_cons_zero, Option.some.injEq] at hget
    subst hget
    obtain ⟨t1, t2⟩ := hobj k c hm
    exact ⟨t1, by simp; omega⟩

mutual
  theorem allocSTree_spec : ∀ (s : STree) (h : Heap) (lo : Nat), lo ≤ h.length → Closed lo h →
      (∃ ext, (allocSTree h s).1 = h ++ ext) ∧ Closed lo (allocSTree h s).1 ∧
      RootOK h.length (allocSTree h s).1 (allocSTree h s).2
    | .leaf v, h, lo, _, hc => by
      simp only [allocSTree]
      exact ⟨⟨[], by simp⟩, hc, trivial⟩
    | .dict kvs, h, lo, hlo, hc => by
      obtain ⟨⟨ext, hext⟩, hc1, hrefs⟩ := allocKvs_spec kvs h lo hlo hc
      simp only [allocSTree, alloc]
      refine ⟨⟨ext ++ [(allocKvs h kvs).2], by rw [hext]; simp⟩, ?_, ?_⟩
      · apply closed_alloc lo _ _ hc1
        intro k c hm
        have := hrefs k c hm
        exact ⟨by omega, this.2⟩
      · simp only [RootOK, hext, List.length_append, List.length_cons, List.length_nil]
        omega
  theorem allocKvs_spec : ∀ (kvs : List (String × STree)) (h : Heap) (lo : Nat), lo ≤ h.length → Closed lo h →
      (∃ ext, (allocKvs h kvs).1 = h ++ ext) ∧ Closed lo (allocKvs h kvs).1 ∧
      ∀ k c, (k, HVal.ref c) ∈ (allocKvs h kvs).2 → h.length ≤ c ∧ c < (allocKvs h kvs).1.length
    | [], h, lo, _, hc => by
      simp only [allocKvs]
      exact ⟨⟨[], by simp⟩, hc, by intro k c hm; cases hm⟩
    | (k0, v0) :: r, h, lo, hlo, hc => by
      obtain ⟨⟨e1, he1⟩, hc1, hr1⟩ := allocSTree_spec v0 h lo hlo hc
      have hlen1 : h.length ≤ (allocSTree h v0).1.length := by rw [he1]; simp
      obtain ⟨⟨e2, he2⟩, hc2, hr2⟩ := allocKvs_spec r (allocSTree h v0).1 lo (by omega) hc1
      have hlen2 : (allocSTree h v0).1.length ≤ (allocKvs (allocSTree h v0).1 r).1.length := by
        rw [he2]; simp
      simp only [allocKvs]
      refine ⟨⟨e1 ++ e2, by rw [he2, he1]; simp⟩, hc2, ?_⟩
      intro k c hm
      simp only [List.mem_cons, Prod.mk.injEq] at hm
      rcases hm with ⟨_, hv⟩ | hm
      · rw [← hv] at hr1
        simp only [RootOK] at hr1
        exact ⟨hr1.1, by omega⟩
      · have := hr2 k c hm
        exact ⟨by omega, this.2⟩
end

theorem pres_of_append (b : Nat) (h ext : Heap) (hb : b ≤ h.length) : Pres b h (h ++ ext) :=
  ⟨by simp, fun a ha => List.getElem?_append_left (by omega)⟩

/-! ### `d[k] = v` -/

theorem mem_dictSet {α} : ∀ (obj : List (String × α)) (k : String) (v : α) (k' : String) (v' : α),
    (k', v') ∈ dictSet obj k v → (k', v') ∈ obj ∨ v' = v
  | [], k, v, k', v', h => by
    simp only [dictSet, List.mem_cons, Prod.mk.injEq, List.not_mem_nil, or_false] at h
    exact Or.inr h.2
  | (k0, v0) :: r, k, v, k', v', h => by
    simp only [dictSet] at h
    split at h
    · simp only [List.mem_cons, Prod.mk.injEq] at h
      rcases h with ⟨_, h⟩ | h
      · exact Or.inr h
      · exact Or.inl (List.mem_cons_of_mem _ h)
    · simp only [List.mem_cons] at h
      rcases h with h | h
      · exact Or.inl (by rw [h]; exact List.mem_cons_self)
      · rcases mem_dictSet r k v k' v' h with h | h
        · exact Or.inl (List.mem_cons_of_mem _ h)
        · exact Or.inr h

theorem setItem_spec (b : Nat) (h : Heap) (a : Nat) (k : String) (v : HVal)
    (hc : Closed b h) (ha : b ≤ a) (hv : RootOK b h v) :
    Closed b (setItem h a k v) ∧ (setItem h a k v).length = h.length ∧ Pres b h (setItem h a k v) := by
  simp only [setItem]
  cases hget : h[a]? with
  | none => exact ⟨hc, rfl, Pres.refl _ _⟩
  | some obj =>
    simp only
    refine ⟨?_, by simp, ⟨by simp, ?_⟩⟩
    · intro a' o hlo hg k' c hm
      rw [List.getElem?_set] at hg
      split at hg
      · next heq =>
        split at hg
        · simp only [Option.some.injEq] at hg
          subst hg
          rcases mem_dictSet obj k v k' (.ref c) hm with hm | hm
          · have := hc a obj ha hget k' c hm
            exact ⟨this.1, by simpa using this.2⟩
          · rw [← hm] at hv
            simp only [RootOK] at hv
            exact ⟨hv.1, by simpa using hv.2⟩
        · cases hg
      · have := hc a' o hlo hg k' c hm
        exact ⟨this.1, by simpa using this.2⟩
    · intro a' ha'
      rw [List.getElem?_set]
      have : a ≠ a' := by omega
      simp [this]

/-! ### the passes -/

/-- what the frame argument needs of a pass -/
def PassOK (b : Nat) (f : Heap → HVal → Out) : Prop :=
  ∀ h v, b ≤ h.length → Closed b h → RootOK b h v →
    Closed b (f h v).heap ∧ RootOK b (f h v).heap (f h v).val ∧ Pres b h (f h v).heap ∧
    ∀ a ∈ (f h v).writes, b ≤ a

theorem passEntries_spec (b : Nat) (step : Leaf → Option STree) (recur : Heap → HVal → Out)
    (hrec : PassOK b recur) (a : Nat) (ha : b ≤ a) :
    ∀ (ks : List String) (h : Heap) (w : List Nat), b ≤ h.length → Closed b h → (∀ x ∈ w, b ≤ x) →
      Closed b (passEntries step recur a ks h w).1 ∧ Pres b h (passEntries step recur a ks h w).1 ∧
      ∀ x ∈ (passEntries step recur a ks h w).2, b ≤ x
  | [], h, w, _, hc, hw => by
    simp only [passEntries]
    exact ⟨hc, Pres.refl _ _, hw⟩
  | k :: ks, h, w, hb, hc, hw => by
    simp only [passEntries]
    cases hget : h[a]? with
    | none => exact ⟨hc, Pres.refl _ _, hw⟩
    | some obj =>
      simp only
      cases hlk : lookup k obj with
      | none => exact passEntries_spec b step recur hrec a ha ks h w hb hc hw
      | some val =>
        cases val with
        | leaf v =>
          simp only
          cases hst : step v with
          | none => exact passEntries_spec b step recur hrec a ha ks h w hb hc hw
          | some s =>
            simp only
            obtain ⟨⟨ext, hext⟩, hc1, hr1⟩ := allocSTree_spec s h b hb hc
            have hlen : h.length ≤ (allocSTree h s).1.length := by rw [hext]; simp
            have hp1 : Pres b h (allocSTree h s).1 := by rw [hext]; exact pres_of_append b h ext hb
            obtain ⟨hc2, hl2, hp2⟩ := setItem_spec b (allocSTree h s).1 a k (allocSTree h s).2 hc1 ha
              (RootOK.weaken hb hr1)
            have ih := passEntries_spec b step recur hrec a ha ks
              (setItem (allocSTree h s).1 a k (allocSTree h s).2) (w ++ [a]) (by omega) hc2
              (by intro x hx; simp only [List.mem_append, List.mem_singleton] at hx
                  rcases hx with hx | hx
                  · exact hw x hx
                  · omega)
            exact ⟨ih.1, (hp1.trans hp2).trans ih.2.1, ih.2.2⟩
        | ref c =>
          simp only
          have hmem : (k, HVal.ref c) ∈ obj := (mem_keys_of_lookup obj k _ hlk).2
          have hcr := hc a obj ha hget k c hmem
          obtain ⟨r1, r2, r3, r4⟩ := hrec h (.ref c) hb hc hcr
          have ih := passEntries_spec b step recur hrec a ha ks (recur h (.ref c)).heap
            (w ++ (recur h (.ref c)).writes) (by have := r3.1; omega) r1
            (by intro x hx; simp only [List.mem_append] at hx
                rcases hx with hx | hx
                · exact hw x hx
                · exact r4 x hx)
          exact ⟨ih.1, r3.trans ih.2.1, ih.2.2⟩

theorem inPlace_spec (b : Nat) (step : Leaf → Option STree) : ∀ (fuel : Nat), PassOK b (inPlace step fuel)
  | 0 => by
    intro h v _ hc hr
    simp only [inPlace]
    exact ⟨hc, hr, Pres.refl _ _, by intro a ha; cases ha⟩
  | fuel + 1 => by
    intro h v hb hc hr
    cases v with
    | leaf x =>
      simp only [inPlace]
      cases hst : step x with
      | none => exact ⟨hc, trivial, Pres.refl _ _, by intro a ha; cases ha⟩
      | some s =>
        simp only
        obtain ⟨⟨ext, hext⟩, hc1, hr1⟩ := allocSTree_spec s h b hb hc
        exact ⟨hc1, RootOK.weaken hb hr1, by rw [hext]; exact pres_of_append b h ext hb,
          by intro a ha; cases ha⟩
    | ref a =>
      simp only [RootOK] at hr
      simp only [inPlace]
      cases hget : h[a]? with
      | none => exact ⟨hc, hr, Pres.refl _ _, by intro x hx; cases hx⟩
      | some obj =>
        simp only
        have := passEntries_spec b step (inPlace step fuel) (inPlace_spec b step fuel) a hr.1 (keys obj) h []
          hb hc (by intro x hx; cases hx)
        exact ⟨this.1, ⟨hr.1, Nat.lt_of_lt_of_le hr.2 this.2.1.1⟩, this.2.1, this.2.2⟩

theorem passes_spec (b : Nat) (isJax : Leaf → Bool) (toNp : Leaf → Leaf) (T : Nat) (isz : String → Nat)
    (fuel : Nat) : PassOK b (passes isJax toNp T isz fuel) := by
  intro h v hb hc hr
  obtain ⟨a1, a2, a3, a4⟩ := inPlace_spec b (npStep isJax toNp) fuel h v hb hc hr
  obtain ⟨c1, c2, c3, c4⟩ := inPlace_spec b (chunkStep T isz) fuel _ _ (by have := a3.1; omega) a1 a2
  simp only [passes]
  refine ⟨c1, c2, a3.trans c3, ?_⟩
  intro a ha
  simp only [List.mem_append] at ha
  rcases ha with ha | ha
  · exact a4 a ha
  · exact c4 a ha

theorem closed_base (h : Heap) : Closed h.length h := by
  intro a obj ha hget
  rw [List.getElem?_eq_none (by omega)] at hget
  cases hget

/-! ### the copy made when `in_place=False` -/

theorem copyH_spec : ∀ (fuel : Nat) (h : Heap) (v : HVal) (lo : Nat) (h' : Heap) (v' : HVal),
    lo ≤ h.length → Closed lo h → copyH fuel h v = some (h', v') →
    (∃ ext, h' = h ++ ext) ∧ Closed lo h' ∧ RootOK h.length h' v'
  | 0, _, _, _, _, _, _, _, he => by simp [copyH] at he
  | fuel + 1, h, .leaf x, lo, h', v', _, hc, he => by
    simp only [copyH, Option.some.injEq, Prod.mk.injEq] at he
    obtain ⟨rfl, rfl⟩ := he
    exact ⟨⟨[], by simp⟩, hc, trivial⟩
  | fuel + 1, h, .ref a, lo, h', v', hlo, hc, he => by
    simp only [copyH] at he
    cases hget : h[a]? with
    | none => simp [hget] at he
    | some obj =>
      simp only [hget] at he
      -- the entry loop
      have go_spec : ∀ (o : DictObj) (g : Heap) (g' : Heap) (o' : DictObj), lo ≤ g.length → Closed lo g →
          copyH.go (copyH fuel) o g = some (g', o') →
          (∃ ext, g' = g ++ ext) ∧ Closed lo g' ∧
          ∀ k c, (k, HVal.ref c) ∈ o' → g.length ≤ c ∧ c < g'.length := by
        intro o
        induction o with
        | nil =>
          intro g g' o' _ hcg hgo
          simp only [copyH.go, Option.some.injEq, Prod.mk.injEq] at hgo
          obtain ⟨rfl, rfl⟩ := hgo
          exact ⟨⟨[], by simp⟩, hcg, by intro k c hm; cases hm⟩
        | cons kv r ih =>
          intro g g' o' hg hcg hgo
          obtain ⟨k0, v0⟩ := kv
          simp only [copyH.go] at hgo
          cases h1 : copyH fuel g v0 with
          | none => simp [h1] at hgo
          | some p1 =>
            obtain ⟨g1, v1⟩ := p1
            simp only [h1] at hgo
            obtain ⟨⟨e1, he1⟩, hc1, hr1⟩ := copyH_spec fuel g v0 lo g1 v1 hg hcg h1
            cases h2 : copyH.go (copyH fuel) r g1 with
            | none => simp [h2] at hgo
            | some p2 =>
              obtain ⟨g2, rest⟩ := p2
              simp only [h2, Option.some.injEq, Prod.mk.injEq] at hgo
              obtain ⟨rfl, rfl⟩ := hgo
              have hl1 : g.length ≤ g1.length := by rw [he1]; simp
              obtain ⟨⟨e2, he2⟩, hc2, hr2⟩ := ih g1 g2 rest (by omega) hc1 h2
              have hl2 : g1.length ≤ g2.length := by rw [he2]; simp
              refine ⟨⟨e1 ++ e2, by rw [he2, he1]; simp⟩, hc2, ?_⟩
              intro k c hm
              simp only [List.mem_cons, Prod.mk.injEq] at hm
              rcases hm with ⟨_, hv⟩ | hm
              · rw [← hv] at hr1
                simp only [RootOK] at hr1
                exact ⟨hr1.1, by omega⟩
              · have := hr2 k c hm
                exact ⟨by omega, this.2⟩
      cases hgo : copyH.go (copyH fuel) obj h with
      | none => simp [hgo] at he
      | some p =>
        obtain ⟨h1, obj'⟩ := p
        simp only [hgo, alloc, Option.some.injEq, Prod.mk.injEq] at he
        obtain ⟨rfl, rfl⟩ := he
        obtain ⟨⟨ext, hext⟩, hc1, hrefs⟩ := go_spec obj h h1 obj' hlo hc hgo
        refine ⟨⟨ext ++ [obj'], by rw [hext]; simp⟩, ?_, ?_⟩
        · apply closed_alloc lo _ _ hc1
          intro k c hm
          have := hrefs k c hm
          exact ⟨by omega, this.2⟩
        · simp only [RootOK, hext, List.length_append, List.length_cons, List.length_nil]
          omega

end Flax.SerialHeap
