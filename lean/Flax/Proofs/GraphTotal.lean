/- C03 helper lemmas: the traversal budget of `flatten` always suffices on a closed heap -/
import Flax.Proofs.GraphFlatten
import Flax.Proofs.GraphIso
namespace Flax.Graph
open Flax.Heap

/-! ### the traversal budget suffices -/

/-- weight of the objects of `t` (living at addresses `s, s+1, …`) that are not registered in `idx` -/
def restSize (idx : RefIndex) : Nat → Heap → Nat
  | _, [] => 0
  | s, o :: t => (if s ∈ idx then 0 else objSize o) + restSize idx (s + 1) t

/-- total size of the heap objects `flatten` has not registered yet -/
def unvisited (h : Heap) (idx : RefIndex) : Nat := restSize idx 0 h

theorem restSize_mono {idx idx' : RefIndex} (hs : ∀ a, a ∈ idx → a ∈ idx') :
    ∀ (s : Nat) (t : Heap), restSize idx' s t ≤ restSize idx s t
  | _, [] => Nat.le_refl _
  | s, o :: t => by
    simp only [restSize]
    have := restSize_mono hs (s + 1) t
    by_cases e : s ∈ idx
    · simp [e, hs s e]; exact this
    · by_cases e' : s ∈ idx'
      · simp [e, e']; omega
      · simp [e, e']; exact this

theorem restSize_push {idx : RefIndex} {a : Nat} {o : Obj} (ha : a ∉ idx) :
    ∀ (s : Nat) (t : Heap), s ≤ a → t[a - s]? = some o → restSize (idx ++ [a]) s t + objSize o ≤ restSize idx s t
  | _, [], _, hg => by simp at hg
  | s, x :: t, hle, hg => by
    simp only [restSize]
    by_cases e : s = a
    · subst e
      simp at hg; subst hg
      have := restSize_mono (idx := idx) (idx' := idx ++ [s]) (fun y hy => List.mem_append_left _ hy) (s + 1) t
      simp [ha]; omega
    · have hlt : s < a := by omega
      have hg' : t[a - (s + 1)]? = some o := by
        have : a - s = (a - (s + 1)) + 1 := by omega
        rw [this] at hg; simpa using hg
      have := restSize_push ha (s + 1) t (by omega) hg'
      by_cases e2 : s ∈ idx
      · simp [e2]; omega
      · have : ¬ (s ∈ idx ++ [a]) := by simp [e2, e]
        simp only [e2, this, if_false]; omega

theorem unvisited_mono (h : Heap) {idx idx' : RefIndex} (hs : ∀ a, a ∈ idx → a ∈ idx') :
    unvisited h idx' ≤ unvisited h idx := restSize_mono hs 0 h

theorem unvisited_push (h : Heap) {idx : RefIndex} {a : Nat} {o : Obj} (ha : a ∉ idx) (hg : h[a]? = some o) :
    unvisited h (idx ++ [a]) + objSize o ≤ unvisited h idx :=
  restSize_push ha 0 h (Nat.zero_le _) (by simpa using hg)

theorem restSize_nil : ∀ (s : Nat) (t : Heap), restSize [] s t = (t.map objSize).sum
  | _, [] => rfl
  | s, o :: t => by simp [restSize, restSize_nil (s + 1) t]

theorem unvisited_nil (h : Heap) : unvisited h [] = heapSize h := restSize_nil 0 h

theorem kvsSize_perm : ∀ {l l' : List (Key × PVal)}, l.Perm l' → kvsSize l = kvsSize l' := by
  intro l l' hp
  induction hp with
  | nil => rfl
  | cons x _ ih => obtain ⟨k, v⟩ := x; simp [kvsSize, ih]
  | swap x y l => obtain ⟨k, v⟩ := x; obtain ⟨k', v'⟩ := y; simp [kvsSize]; omega
  | trans _ _ ih1 ih2 => exact ih1.trans ih2

theorem kvsSize_sortKV (l : List (Key × PVal)) : kvsSize (sortKV l) = kvsSize l := kvsSize_perm (sortBy_perm l)

theorem kvsSize_enumFrom : ∀ (n : Nat) (xs : List PVal), kvsSize (enumFrom n xs) = valsSize xs
  | _, [] => rfl
  | n, x :: xs => by simp [enumFrom, kvsSize, valsSize, kvsSize_enumFrom (n + 1) xs]

theorem valSize_pos : ∀ v : PVal, 1 ≤ valSize v
  | .static _ => by simp [valSize]
  | .array _ => by simp [valSize]
  | .ref _ => by simp [valSize]
  | .none => by simp [valSize]
  | .seq _ _ => by simp [valSize]; omega
  | .dict _ => by simp [valSize]; omega

theorem mem_deepRefsKV' {b : Addr} : ∀ {l : List (Key × PVal)}, b ∈ deepRefsKV l ↔ ∃ kv ∈ l, b ∈ deepRefs kv.2
  | [] => by simp [deepRefsKV]
  | (k, v) :: r => by simp [deepRefsKV, mem_deepRefsKV' (l := r)]

theorem mem_deepRefsL' {b : Addr} : ∀ {l : List PVal}, b ∈ deepRefsL l ↔ ∃ v ∈ l, b ∈ deepRefs v
  | [] => by simp [deepRefsL]
  | x :: r => by simp [deepRefsL, mem_deepRefsL' (l := r)]

theorem flatten_total_aux (h : Heap) (hc : HeapClosed h) : ∀ fuel : Nat,
    (∀ path v idx, ValClosed h v → valSize v + unvisited h idx ≤ fuel →
      ∃ gd ls idx', flattenVal fuel h path v idx = .ok (gd, ls, idx') ∧ ∀ a, a ∈ idx → a ∈ idx') ∧
    (∀ path items idx, (∀ b ∈ deepRefsKV items, b < h.length) → kvsSize items + 1 + unvisited h idx ≤ fuel →
      ∃ gs ls idx', flattenItems fuel h path items idx = .ok (gs, ls, idx') ∧ ∀ a, a ∈ idx → a ∈ idx') := by
  intro fuel
  induction fuel with
  | zero =>
    constructor
    · intro path v idx _ hf; have := valSize_pos v; omega
    · intro path items idx _ hf; omega
  | succ fuel ih =>
    constructor
    · intro path v idx hv hf
      cases v with
      | static s => exact ⟨.static s, [], idx, by simp [flattenVal], fun _ h => h⟩
      | array d => exact ⟨.array, [(path, .arr d)], idx, by simp [flattenVal], fun _ h => h⟩
      | none => exact ⟨.node .none Option.none [], [], idx, by simp [flattenVal], fun _ h => h⟩
      | seq t xs =>
        obtain ⟨gs, ls, idx', he, hs⟩ := ih.2 path (enumFrom 0 xs) idx
          (by
            intro b hb
            obtain ⟨kv, hkv, hb'⟩ := mem_deepRefsKV'.mp hb
            exact hv b (by simp only [deepRefs]; exact mem_deepRefsL'.mpr ⟨kv.2, enumFrom_mem_snd 0 xs kv hkv, hb'⟩))
          (by rw [kvsSize_enumFrom]; simp only [valSize] at hf; omega)
        exact ⟨.node (.seq t) Option.none gs, ls, idx', by simp [flattenVal, he], hs⟩
      | dict kvs =>
        obtain ⟨gs, ls, idx', he, hs⟩ := ih.2 path (sortKV kvs) idx
          (by
            intro b hb
            obtain ⟨kv, hkv, hb'⟩ := mem_deepRefsKV'.mp hb
            exact hv b (by simp only [deepRefs]; exact mem_deepRefsKV'.mpr ⟨kv, mem_sortKV.mp hkv, hb'⟩))
          (by rw [kvsSize_sortKV]; simp only [valSize] at hf; omega)
        exact ⟨.node .dict Option.none gs, ls, idx', by simp [flattenVal, he], hs⟩
      | ref a =>
        have halt : a < h.length := hv a (by simp [deepRefs])
        simp only [flattenVal]
        cases hi : indexOf? a idx with
        | some i => exact ⟨_, _, _, rfl, fun _ h => h⟩
        | none =>
          have ha : a ∉ idx := indexOf?_none.mp hi
          obtain ⟨o, ho⟩ : ∃ o, h[a]? = some o := ⟨h[a], List.getElem?_eq_getElem halt⟩
          cases o with
          | var ty val md =>
            simp only [ho]
            exact ⟨_, _, _, rfl, fun x hx => List.mem_append_left _ hx⟩
          | node cls attrs =>
            simp only [ho]
            have hpush := unvisited_push h ha ho
            simp only [objSize] at hpush
            simp only [valSize] at hf
            obtain ⟨gs, ls, idx', he, hs⟩ := ih.2 path (sortKV attrs) (idx ++ [a])
              (by
                intro b hb
                obtain ⟨kv, hkv, hb'⟩ := mem_deepRefsKV'.mp hb
                exact hc a cls attrs ho b (mem_deepRefsKV'.mpr ⟨kv, mem_sortKV.mp hkv, hb'⟩))
              (by rw [kvsSize_sortKV]; omega)
            exact ⟨.node (.obj cls) (some idx.length) gs, ls, idx', by simp [he], fun x hx => hs x (List.mem_append_left _ hx)⟩
    · intro path items idx hcl hf
      cases items with
      | nil => exact ⟨[], [], idx, by simp [flattenItems], fun _ h => h⟩
      | cons kv rest =>
        obtain ⟨k, v⟩ := kv
        simp only [kvsSize] at hf
        obtain ⟨g, ls1, idx1, he1, hs1⟩ := ih.1 (path ++ [k]) v idx
          (fun b hb => hcl b (by simp [deepRefsKV, hb])) (by omega)
        have hu := unvisited_mono h hs1
        obtain ⟨gs, ls2, idx2, he2, hs2⟩ := ih.2 path rest idx1
          (fun b hb => hcl b (by simp [deepRefsKV, hb])) (by omega)
        exact ⟨(k, g) :: gs, ls1 ++ ls2, idx2, by simp [flattenItems, he1, he2], fun x hx => hs2 x (hs1 x hx)⟩

/-- **`flatten` is total on closed heaps**: the budget `fuelFor` always suffices, whatever the aliasing
and however many cycles -/
theorem flatten_total (h : Heap) (root : PVal) (hc : HeapClosed h) (hr : ValClosed h root)
    (hroot : isRootable root = true) : ∃ gd ls idx, flatten h root = .ok (gd, ls, idx) := by
  obtain ⟨gd, ls, idx, he, _⟩ := (flatten_total_aux h hc (fuelFor h root)).1 [] root [] hr
    (by rw [unvisited_nil]; simp [fuelFor]; omega)
  exact ⟨gd, ls, idx, by simp [flatten, hroot, he]⟩

end Flax.Graph
