/-
Helper lemmas for C18: keys as symbolic terms (ToNNX draws, ToLinen reseed) and a toy NNX module
satisfying `NModOk` for the non-vacuity examples.
-/
import Flax.Proofs.BridgeLRef
import Flax.Proofs.BridgeExample

namespace Flax.Bridge

/-! ## symbolic keys -/

/-- the first `n` keys a stream hands out -/
def drawN : RngStream → Nat → List KeyT
  | _, 0 => []
  | s, n + 1 => s.draw.1 :: drawN s.draw.2 n

theorem drawN_eq : ∀ (n : Nat) (s : RngStream),
    drawN s n = (List.range n).map fun j => KeyT.fold s.key (s.count + j) := by
  intro n
  induction n with
  | zero => intro s; rfl
  | succ n ih =>
    intro s
    rw [drawN, ih, List.range_succ_eq_map]
    simp only [RngStream.draw, List.map_cons, List.map_map, Nat.add_zero, List.cons.injEq, true_and]
    apply List.map_congr_left
    intro j _
    simp only [Function.comp_apply]
    congr 1; omega

theorem find?_linenRngsDict (path : Path) (rngs : Keys) (n : String) :
    (linenRngsDict path rngs).find? (fun k => k.1 = n) =
      (rngs.find? fun e => e.1 = n).map fun e => (e.1, KeyT.linen (.base e.2) path 0) := by
  simp only [linenRngsDict, List.find?_map]
  rfl

theorem eq_of_fst_eq {σ τ : Type} : ∀ (l : List (σ × τ)), (l.map Prod.fst).Nodup → ∀ a ∈ l, ∀ b ∈ l, a.1 = b.1 → a = b := by
  intro l
  induction l with
  | nil => intro _ a ha; cases ha
  | cons hd0 tl ih =>
    intro hn a ha b hb hab
    simp only [List.map_cons, List.nodup_cons] at hn
    rcases List.mem_cons.mp ha with rfl | ha' <;> rcases List.mem_cons.mp hb with rfl | hb'
    · rfl
    · exact absurd (List.mem_map.mpr ⟨b, hb', hab.symm⟩) hn.1
    · exact absurd (List.mem_map.mpr ⟨a, ha', hab⟩) hn.1
    · exact ih hn.2 a ha' b hb' hab

theorem counters_get_after (rngs : Keys) (hn : (rngs.map Prod.fst).Nodup) (f : String → Nat) (n : String)
    (hmem : n ∈ rngs.map Prod.fst) :
    ScopeCounters.get (rngs.map fun e => (e.1, f e.1)) n = f n := by
  induction rngs with
  | nil => cases hmem
  | cons e r ih =>
    simp only [List.map_cons, List.nodup_cons] at hn
    simp only [ScopeCounters.get, List.map_cons, List.find?_cons]
    by_cases h : e.1 = n
    · simp [h]
    · have : n ∈ r.map Prod.fst := by
        rcases List.mem_cons.mp hmem with h1 | h1
        · exact absurd h1.symm h
        · exact h1
      simp only [h, decide_false]
      exact ih hn.2 this

/-- the `k`-th call (from fresh counters) reseeds stream `n` with `make_rng` key number `k` -/
theorem callKeyDicts_spec (path : Path) (rngs : Keys) (hn : (rngs.map Prod.fst).Nodup) :
    ∀ (m : Nat) (c : ScopeCounters) (base : Nat), (∀ n ∈ rngs.map Prod.fst, c.get n = base) →
    callKeyDicts path rngs m c =
      (List.range m).map fun k => rngs.map fun e => (e.1, KeyT.linen (.base e.2) path (base + k)) := by
  intro m
  induction m with
  | zero => intro c base _; rfl
  | succ m ih =>
    intro c base hc
    rw [callKeyDicts, List.range_succ_eq_map, List.map_cons, List.map_map]
    have h1 : (linenRngsDictC path rngs c).1 = rngs.map fun e => (e.1, KeyT.linen (.base e.2) path (base + 0)) := by
      simp only [linenRngsDictC, Nat.add_zero]
      apply List.map_congr_left
      intro e he
      rw [hc e.1 (List.mem_map.mpr ⟨e, he, rfl⟩)]
    rw [h1, ih (linenRngsDictC path rngs c).2 (base + 1) (by
      intro n hmem
      simp only [linenRngsDictC]
      rw [counters_get_after rngs hn (fun n => c.get n + 1) n hmem, hc n hmem])]
    congr 1
    apply List.map_congr_left
    intro k _
    simp only [Function.comp_apply]
    apply List.map_congr_left
    intro e _
    congr 2; omega

/-- the wrapper's `rngs` after `i` draws -/
def Rngs.after (r : Rngs) : Nat → Rngs
  | 0 => r
  | i + 1 => (r.after i).draw.2

theorem Rngs.after_src (r : Rngs) : ∀ i, (r.after i).src = r.src := by
  intro i
  induction i with
  | zero => rfl
  | succ i ih => simp only [Rngs.after, Rngs.draw, ih]

theorem Rngs.after_streams (r : Rngs) : ∀ i, (r.after i).streams = r.streams.map fun nc => (nc.1, nc.2 + i) := by
  intro i
  induction i with
  | zero => simp [Rngs.after]
  | succ i ih =>
    simp only [Rngs.after, Rngs.draw, ih, List.map_map]
    apply List.map_congr_left
    intro nc _; simp [Nat.add_assoc]

/-! ## a toy NNX module: `y = w * x + c`, every call bumps the statistic `c` and the graph definition -/

def toyNState : Forest (NVar Nat) :=
  [("w", .leaf ⟨.user 0 "Param", 2, []⟩), ("c", .leaf ⟨.user 1 "BatchStat", 0, []⟩)]

def toyN : NnxMod Nat Nat Nat Nat where
  construct := fun _ => .ok (0, toyNState)
  reseed := fun S _ => S
  call := fun g S x =>
    match leafAtF S ["w"], leafAtF S ["c"] with
    | some w, some c => .ok (w.value * x + c.value, g + 1, dset S "c" (.leaf { c with value := c.value + 1 }))
    | _, _ => .error .module

theorem canon_md {α : Type} (v w : NVar α) (h : w.md = v.md) (hc : v.Canon) : w.Canon := by
  unfold NVar.Canon at hc ⊢
  rw [h]; exact hc

theorem toyN_leaf (S : Forest (NVar Nat)) (c : NVar Nat) (hc : leafAtF S ["c"] = some c) (c' : NVar Nat) (q : Path) :
    leafAtF (dset S "c" (.leaf c')) q = if q = ["c"] then some c' else leafAtF S q := by
  cases q with
  | nil => simp
  | cons k p =>
    rw [leafAtF_dset]
    by_cases hk : k = "c"
    · subst hk
      cases p with
      | nil => simp [Tree.leafAt]
      | cons k2 p2 =>
        have := leafAtF_prefix S ["c"] ("c" :: k2 :: p2) c hc
          (by rw [List.cons_prefix_cons]; exact ⟨rfl, List.nil_prefix⟩) (by simp)
        simp [Tree.leafAt, this]
    · simp [hk]

theorem toyN_ok : NModOk toyN := by
  refine ⟨?_, ?_⟩
  · intro g S S' ks x _ _ he o g' T' h
    simp only [toyN] at h ⊢
    rw [he ["w"], he ["c"]]
    cases hw : leafAtF S' ["w"] with
    | none => simp [hw] at h
    | some w =>
      cases hc : leafAtF S' ["c"] with
      | none => simp [hw, hc] at h
      | some c =>
        simp only [hw, hc, Except.ok.injEq, Prod.mk.injEq] at h ⊢
        obtain ⟨rfl, rfl, rfl⟩ := h
        refine ⟨_, ⟨rfl, rfl, rfl⟩, ?_⟩
        intro q
        rw [toyN_leaf S c (by rw [he]; exact hc), toyN_leaf S' c hc, he q]
  · intro r g S ks x o g' S' hS h
    simp only [toyN] at h
    cases hw : leafAtF S ["w"] with
    | none => simp [hw] at h
    | some w =>
      cases hc : leafAtF S ["c"] with
      | none => simp [hw, hc] at h
      | some c =>
        simp only [hw, hc, Except.ok.injEq, Prod.mk.injEq] at h
        obtain ⟨_, _, rfl⟩ := h
        have hl := toyN_leaf S c hc { c with value := c.value + 1 }
        refine ⟨⟨WFF_dset _ _ _ hS.wf (by simp [Tree.WF]), ?_, ?_⟩, ?_⟩
        · intro q v hv
          rw [hl q] at hv
          split at hv
          · cases hv; exact canon_md c _ rfl (hS.canon _ c hc)
          · exact hS.canon q v hv
        · intro q v hv
          rw [hl q] at hv
          split at hv
          · cases hv; exact hS.named _ c hc
          · exact hS.named q v hv
        · intro q
          rw [hl q]
          split
          · rename_i hq; subst hq; rw [hc]; rfl
          · rfl

end Flax.Bridge
