/- C03 helper lemmas: the repaired `_graph_pop` leaves no selected Variable reachable -/
import Flax.Proofs.GraphFlatten
import Flax.Proofs.GraphVisit
set_option linter.unusedSimpArgs false
set_option linter.unusedVariables false

namespace Flax.Graph
open Flax.Heap
open Flax.Filter (NFilter)

theorem mem_deepRefsKV {b : Addr} : ∀ {l : List (Key × PVal)}, b ∈ deepRefsKV l ↔ ∃ kv ∈ l, b ∈ deepRefs kv.2
  | [] => by simp [deepRefsKV]
  | (k, v) :: r => by simp [deepRefsKV, mem_deepRefsKV (l := r)]

theorem mem_deepRefsL {b : Addr} : ∀ {l : List PVal}, b ∈ deepRefsL l ↔ ∃ v ∈ l, b ∈ deepRefs v
  | [] => by simp [deepRefsL]
  | x :: r => by simp [deepRefsL, mem_deepRefsL (l := r)]

theorem lookupKV_mem {α : Type} {k : Key} : ∀ {l : List (Key × α)} {v : α}, lookupKV k l = some v → (k, v) ∈ l
  | [], _, h => by simp [lookupKV] at h
  | (k', v') :: r, v, h => by
    simp only [lookupKV] at h
    by_cases e : k' = k
    · simp [e] at h; subst h; simp [e]
    · simp only [e, if_false] at h
      exact List.mem_cons_of_mem _ (lookupKV_mem h)

/-- the children of a container only mention references the container mentions -/
theorem deepRefs_child {v w : PVal} {k : Key} {b : Addr}
    (hs : (match v with
      | .seq _ xs => lookupKV k (enumFrom 0 xs)
      | .dict kvs => lookupKV k kvs
      | _ => Option.none) = some w) (hb : b ∈ deepRefs w) : b ∈ deepRefs v := by
  cases v with
  | seq t xs =>
    simp only at hs
    simp only [deepRefs]
    exact mem_deepRefsL.mpr ⟨w, enumFrom_mem_snd 0 xs (k, w) (lookupKV_mem hs), hb⟩
  | dict kvs =>
    simp only at hs
    simp only [deepRefs]
    exact mem_deepRefsKV.mpr ⟨(k, w), lookupKV_mem hs, hb⟩
  | _ => cases hs


/-! ### what `pop` may do to the heap -/

/-- attributes are only removed: same length, Variables untouched, nodes keep their class and lose entries -/
structure PShape (hp hp' : Heap) : Prop where
  len : hp.length = hp'.length
  var : ∀ (b : Nat) ty val md, hp[b]? = some (.var ty val md) ↔ hp'[b]? = some (.var ty val md)
  node : ∀ (a : Nat) cls attrs, hp[a]? = some (.node cls attrs) →
    ∃ attrs', hp'[a]? = some (.node cls attrs') ∧ ∀ kv ∈ attrs', kv ∈ attrs

theorem PShape.refl (hp : Heap) : PShape hp hp :=
  ⟨rfl, fun _ _ _ _ => Iff.rfl, fun _ _ attrs h => ⟨attrs, h, fun _ hk => hk⟩⟩

theorem PShape.trans {a b c : Heap} (h1 : PShape a b) (h2 : PShape b c) : PShape a c := by
  refine ⟨h1.len.trans h2.len, fun x ty val md => (h1.var x ty val md).trans (h2.var x ty val md), ?_⟩
  intro x cls attrs hx
  obtain ⟨attrs1, hx1, s1⟩ := h1.node x cls attrs hx
  obtain ⟨attrs2, hx2, s2⟩ := h2.node x cls attrs1 hx1
  exact ⟨attrs2, hx2, fun kv hkv => s1 kv (s2 kv hkv)⟩

theorem mem_eraseKV {α : Type} {k : Key} {l : List (Key × α)} {kv : Key × α} : kv ∈ eraseKV k l ↔ kv ∈ l ∧ kv.1 ≠ k := by
  simp [eraseKV, List.mem_filter]

theorem eraseAttr_shape (hp : Heap) (a : Addr) (k : Key) : PShape hp (eraseAttr hp a k) := by
  unfold eraseAttr
  split
  · next cls attrs hget =>
    have hlt : a < hp.length := (List.getElem?_eq_some_iff.mp hget).1
    refine ⟨(write_length _ _ _).symm, ?_, ?_⟩
    · intro b ty val md
      by_cases e : b = a
      · subst e; rw [write_get _ _ _ hlt, hget]; simp
      · rw [write_frame _ _ _ _ e]
    · intro x cls' attrs' hx
      by_cases e : x = a
      · subst e
        rw [hget] at hx; cases hx
        exact ⟨_, write_get _ _ _ hlt, fun kv hkv => (mem_eraseKV.mp hkv).1⟩
      · exact ⟨attrs', by rw [write_frame _ _ _ _ e]; exact hx, fun _ hk => hk⟩
  · exact PShape.refl hp

theorem eraseAttr_other (hp : Heap) (a : Addr) (k : Key) (x : Nat) (hne : x ≠ a) : (eraseAttr hp a k)[x]? = hp[x]? := by
  unfold eraseAttr
  split
  · exact write_frame _ _ _ _ hne
  · rfl

theorem eraseAttr_self {hp : Heap} {a : Addr} {cls : String} {live : List (Key × PVal)} (k : Key)
    (hget : hp[a]? = some (.node cls live)) : (eraseAttr hp a k)[a]? = some (.node cls (eraseKV k live)) := by
  have hlt : a < hp.length := (List.getElem?_eq_some_iff.mp hget).1
  simp only [eraseAttr, hget]
  exact write_get _ _ _ hlt

section PopInv
variable (preds : List NFilter)

/-- predicates that do not look at the path (types, tags and their combinations) -/
def PathIndep : Prop := ∀ (p q : Path) (l : Leaf), bucketOf preds (p, l) = bucketOf preds (q, l)

/-- the Variable at `b` is selected by one of the filters -/
def sel (hp : Heap) (b : Addr) : Prop :=
  ∃ ty val md, hp[b]? = some (.var ty val md) ∧ bucketOf preds ([], .vstate ty val md) < preds.length

def RefOk (V : List Addr) (hp : Heap) (b : Addr) : Prop :=
  (∃ cls attrs, hp[b]? = some (.node cls attrs) ∧ b ∈ V) ∨
  (∃ ty val md, hp[b]? = some (.var ty val md) ∧ ¬ sel preds hp b)

/-- every reference in `v` is to a visited node or to a Variable that is not selected -/
def Clean (V : List Addr) (hp : Heap) (v : PVal) : Prop := ∀ b ∈ deepRefs v, RefOk preds V hp b

def IsSelRef (hp : Heap) (v : PVal) : Prop := ∃ b, v = .ref b ∧ sel preds hp b

/-- Variables recorded in `id_to_index` were popped, hence selected -/
def VS (st : PopSt) : Prop := ∀ b ∈ st.visited, ∀ ty val md, st.heap[b]? = some (.var ty val md) → sel preds st.heap b

variable {preds}

theorem sel_shape {hp hp' : Heap} (s : PShape hp hp') (b : Addr) : sel preds hp b ↔ sel preds hp' b := by
  constructor
  · rintro ⟨ty, val, md, h1, h2⟩; exact ⟨ty, val, md, (s.var b ty val md).mp h1, h2⟩
  · rintro ⟨ty, val, md, h1, h2⟩; exact ⟨ty, val, md, (s.var b ty val md).mpr h1, h2⟩

theorem RefOk.mono {V V' : List Addr} {hp hp' : Heap} (hv : ∀ a, a ∈ V → a ∈ V') (s : PShape hp hp') {b : Addr}
    (h : RefOk preds V hp b) : RefOk preds V' hp' b := by
  rcases h with ⟨cls, attrs, hg, hb⟩ | ⟨ty, val, md, hg, hns⟩
  · obtain ⟨attrs', hg', _⟩ := s.node b cls attrs hg
    exact Or.inl ⟨cls, attrs', hg', hv b hb⟩
  · exact Or.inr ⟨ty, val, md, (s.var b ty val md).mp hg, fun hs => hns ((sel_shape s b).mpr hs)⟩

theorem Clean.mono {V V' : List Addr} {hp hp' : Heap} (hv : ∀ a, a ∈ V → a ∈ V') (s : PShape hp hp') {v : PVal}
    (h : Clean preds V hp v) : Clean preds V' hp' v :=
  fun b hb => (h b hb).mono hv s

theorem IsSelRef_shape {hp hp' : Heap} (s : PShape hp hp') (v : PVal) : IsSelRef preds hp v ↔ IsSelRef preds hp' v := by
  constructor
  · rintro ⟨b, e, h⟩; exact ⟨b, e, (sel_shape s b).mp h⟩
  · rintro ⟨b, e, h⟩; exact ⟨b, e, (sel_shape s b).mpr h⟩

/-- what a sub-run of `_graph_pop` guarantees; `owner` is the node whose attribute loop is running -/
structure PopPost (preds : List NFilter) (owner : Option Addr) (st st' : PopSt) : Prop where
  shape : PShape st.heap st'.heap
  vis : ∃ new, st'.visited = st.visited ++ new
  frame : ∀ (a : Nat), a ∈ st.visited → some a ≠ owner → st'.heap[a]? = st.heap[a]?
  vs : VS preds st'
  cleanNew : ∀ (a : Nat), a ∈ st'.visited → a ∉ st.visited → ∀ cls attrs, st'.heap[a]? = some (.node cls attrs) →
    ∀ kv ∈ attrs, Clean preds st'.visited st'.heap kv.2

theorem PopPost.refl {owner : Option Addr} {st : PopSt} (hvs : VS preds st) : PopPost preds owner st st :=
  ⟨PShape.refl _, ⟨[], by simp⟩, fun _ _ _ => rfl, hvs, fun a h1 h2 => absurd h1 h2⟩

theorem PopPost.sub {owner : Option Addr} {st st' : PopSt} (p : PopPost preds owner st st') :
    ∀ a, a ∈ st.visited → a ∈ st'.visited := by
  obtain ⟨new, e⟩ := p.vis
  intro a ha; rw [e]; exact List.mem_append_left _ ha

theorem PopPost.weaken {owner : Option Addr} {st st' : PopSt} (p : PopPost preds Option.none st st') :
    PopPost preds owner st st' :=
  ⟨p.shape, p.vis, fun a ha _ => p.frame a ha (by simp), p.vs, p.cleanNew⟩

theorem PopPost.trans {owner : Option Addr} {st st1 st2 : PopSt} (ho : ∀ a, owner = some a → a ∈ st.visited)
    (p1 : PopPost preds owner st st1) (p2 : PopPost preds owner st1 st2) : PopPost preds owner st st2 := by
  obtain ⟨new1, e1⟩ := p1.vis
  obtain ⟨new2, e2⟩ := p2.vis
  refine ⟨p1.shape.trans p2.shape, ⟨new1 ++ new2, by rw [e2, e1]; simp⟩, ?_, p2.vs, ?_⟩
  · intro a ha hne
    rw [p2.frame a (p1.sub a ha) hne, p1.frame a ha hne]
  · intro a ha2 hna cls attrs hget kv hkv
    by_cases h1 : a ∈ st1.visited
    · have hne : some a ≠ owner := by
        intro e
        exact hna (ho a e.symm)
      rw [p2.frame a h1 hne] at hget
      exact (p1.cleanNew a h1 hna cls attrs hget kv hkv).mono p2.sub p2.shape
    · exact p2.cleanNew a ha2 h1 cls attrs hget kv hkv

end PopInv

/-- the body of the attribute loop of the repaired `_graph_pop` for one `(name, value)` pair -/
def popItem (preds : List NFilter) (fuel : Nat) (path : Path) (owner : Option Addr) (k : Key) (v : PVal) (st : PopSt) :
    Except Err PopSt :=
  match v with
  | .static _ => .ok st
  | .array _ => .ok st
  | .ref b =>
    match st.heap[b]? with
    | Option.none => .error .dangling
    | some (.node _ _) => popNode true preds fuel (path ++ [k]) v st
    | some (.var ty val md) =>
      if b ∈ st.visited then
        match owner with
        | Option.none => .error .popFromPytree
        | some a => .ok { st with heap := eraseAttr st.heap a k }
      else
        let i := bucketOf preds (path ++ [k], .vstate ty val md)
        if i < preds.length then
          match owner with
          | Option.none => .error .popFromPytree
          | some a =>
            .ok { heap := eraseAttr st.heap a k, visited := st.visited ++ [b],
                  out := pushOut st.out i (path ++ [k], .vstate ty val md) }
        else .ok st
  | _ => popNode true preds fuel (path ++ [k]) v st

theorem popItems_cons (preds : List NFilter) (fuel : Nat) (path : Path) (owner : Option Addr) (k : Key) (v : PVal)
    (rest : List (Key × PVal)) (st : PopSt) :
    popItems true preds (fuel + 1) path owner ((k, v) :: rest) st =
      match popItem preds fuel path owner k v st with
      | .error e => .error e
      | .ok st1 => popItems true preds fuel path owner rest st1 := by
  cases v <;> simp only [popItems, popItem] <;> rfl

variable {preds : List NFilter}

/-- facts about processing one item -/
structure ItemPost (preds : List NFilter) (owner : Option Addr) (k : Key) (v : PVal) (st st1 : PopSt) : Prop where
  post : PopPost preds owner st st1
  clean : ¬ IsSelRef preds st.heap v → Clean preds st1.visited st1.heap v
  noOwner : owner = Option.none → ¬ IsSelRef preds st.heap v
  live : ∀ a cls live, owner = some a → st.heap[a]? = some (.node cls live) →
    ∃ live1, st1.heap[a]? = some (.node cls live1) ∧ (∀ kv ∈ live1, kv ∈ live) ∧
      (IsSelRef preds st.heap v → ∀ kv ∈ live1, kv.1 ≠ k)

theorem clean_of_no_refs {V : List Addr} {hp : Heap} {v : PVal} (h : deepRefs v = []) : Clean preds V hp v := by
  intro b hb; rw [h] at hb; cases hb

theorem itemPost_noop {owner : Option Addr} {k : Key} {v : PVal} {st : PopSt} (hvs : VS preds st)
    (hns : ¬ IsSelRef preds st.heap v) (hc : Clean preds st.visited st.heap v) : ItemPost preds owner k v st st :=
  ⟨PopPost.refl hvs, fun _ => hc, fun _ => hns,
   fun a cls live _ hg => ⟨live, hg, fun _ h => h, fun hs => absurd hs hns⟩⟩

theorem itemPost_of_node {owner : Option Addr} {k : Key} {v : PVal} {st st1 : PopSt}
    (ho : ∀ a, owner = some a → a ∈ st.visited)
    (hns : ¬ IsSelRef preds st.heap v)
    (p : PopPost preds Option.none st st1) (hc : Clean preds st1.visited st1.heap v) : ItemPost preds owner k v st st1 :=
  ⟨p.weaken, fun _ => hc, fun _ => hns,
   fun a cls live ha hg => ⟨live, by rw [p.frame a (ho a ha) (by simp)]; exact hg, fun _ h => h, fun hs => absurd hs hns⟩⟩

theorem popItem_post (hPI : PathIndep preds) (fuel : Nat)
    (ihNode : ∀ path v st st', VS preds st → popNode true preds fuel path v st = .ok st' →
      PopPost preds Option.none st st' ∧ Clean preds st'.visited st'.heap v)
    (path : Path) (owner : Option Addr) (k : Key) (v : PVal) (st st1 : PopSt) (hvs : VS preds st)
    (ho : ∀ a, owner = some a → a ∈ st.visited)
    (h : popItem preds fuel path owner k v st = .ok st1) : ItemPost preds owner k v st st1 := by
  cases v with
  | static s =>
    simp [popItem] at h; subst h
    exact itemPost_noop hvs (by rintro ⟨b, e, _⟩; cases e) (clean_of_no_refs rfl)
  | array d =>
    simp [popItem] at h; subst h
    exact itemPost_noop hvs (by rintro ⟨b, e, _⟩; cases e) (clean_of_no_refs rfl)
  | none =>
    simp only [popItem] at h
    obtain ⟨p, hc⟩ := ihNode _ _ st st1 hvs h
    exact itemPost_of_node ho (by rintro ⟨b, e, _⟩; cases e) p hc
  | seq t xs =>
    simp only [popItem] at h
    obtain ⟨p, hc⟩ := ihNode _ _ st st1 hvs h
    exact itemPost_of_node ho (by rintro ⟨b, e, _⟩; cases e) p hc
  | dict kvs =>
    simp only [popItem] at h
    obtain ⟨p, hc⟩ := ihNode _ _ st st1 hvs h
    exact itemPost_of_node ho (by rintro ⟨b, e, _⟩; cases e) p hc
  | ref b =>
    simp only [popItem] at h
    split at h
    · cases h
    · next cls attrs hget =>
      obtain ⟨p, hc⟩ := ihNode _ _ st st1 hvs h
      refine itemPost_of_node ho ?_ p hc
      rintro ⟨b', e, ty, val, md, hg, _⟩
      cases e; rw [hget] at hg; cases hg
    · next ty val md hget =>
      -- the Variable is selected iff some predicate matches it at this path (path independence)
      have hsel_iff : sel preds st.heap b ↔ bucketOf preds (path ++ [k], .vstate ty val md) < preds.length := by
        constructor
        · rintro ⟨ty', val', md', hg, hlt⟩
          rw [hget] at hg; cases hg
          rw [hPI (path ++ [k]) [] _]; exact hlt
        · intro hlt
          exact ⟨ty, val, md, hget, by rw [hPI [] (path ++ [k]) _]; exact hlt⟩
      -- erasing the key from the owner
      have erase_case : ∀ (a : Addr) (vis' : List Addr) (out' : List FlatState), owner = some a →
          sel preds st.heap b → (∃ new, vis' = st.visited ++ new ∧ ∀ x ∈ new, x = b) →
          ItemPost preds owner k (.ref b) st { heap := eraseAttr st.heap a k, visited := vis', out := out' } := by
        intro a vis' out' hoa hsel ⟨new, hvis, hnew⟩
        have hsh := eraseAttr_shape st.heap a k
        have hisr : IsSelRef preds st.heap (.ref b) := ⟨b, rfl, hsel⟩
        refine ⟨⟨hsh, ⟨new, hvis⟩, ?_, ?_, ?_⟩, fun hn => absurd hisr hn, (fun hn => by rw [hoa] at hn; cases hn), ?_⟩
        · intro x _ hne
          have : x ≠ a := fun e => hne (by rw [e, hoa])
          exact eraseAttr_other _ _ _ _ this
        · intro x hx ty' val' md' hg
          simp only at hx hg
          have hg0 := (hsh.var x ty' val' md').mpr hg
          rw [hvis] at hx
          rcases List.mem_append.mp hx with h1 | h1
          · exact (sel_shape hsh x).mp (hvs x h1 ty' val' md' hg0)
          · rw [hnew x h1]; exact (sel_shape hsh b).mp hsel
        · intro x hx hnx cls attrs hg
          simp only at hx hg
          rw [hvis] at hx
          rcases List.mem_append.mp hx with h1 | h1
          · exact absurd h1 hnx
          · have := (hsh.var b ty val md).mp hget
            rw [hnew x h1] at hg
            rw [this] at hg; cases hg
        · intro a' cls live ha' hg
          rw [hoa] at ha'; cases ha'
          refine ⟨eraseKV k live, eraseAttr_self k hg, fun kv hkv => (mem_eraseKV.mp hkv).1, fun _ kv hkv => (mem_eraseKV.mp hkv).2⟩
      split at h
      · next hvis =>
        have hsel : sel preds st.heap b := hvs b hvis ty val md hget
        cases owner with
        | none => cases h
        | some a =>
          simp at h; subst h
          exact erase_case a st.visited st.out rfl hsel ⟨[], by simp, by simp⟩
      · next hnvis =>
        split at h
        · next hlt =>
          have hsel : sel preds st.heap b := hsel_iff.mpr hlt
          cases owner with
          | none => cases h
          | some a =>
            simp at h; subst h
            exact erase_case a _ _ rfl hsel ⟨[b], rfl, by simp⟩
        · next hnlt =>
          simp at h; subst h
          have hns : ¬ sel preds st.heap b := fun hs => hnlt (hsel_iff.mp hs)
          refine itemPost_noop hvs ?_ ?_
          · rintro ⟨b', e, hs⟩; cases e; exact hns hs
          · intro b' hb'
            simp [deepRefs] at hb'; subst hb'
            exact Or.inr ⟨ty, val, md, hget, hns⟩


theorem enumFrom_exists_key {α : Type} : ∀ (n : Nat) (xs : List α) (x : α), x ∈ xs → ∃ k, (k, x) ∈ enumFrom n xs
  | _, [], _, h => by cases h
  | n, y :: ys, x, h => by
    simp only [enumFrom]
    rcases List.mem_cons.mp h with e | h'
    · exact ⟨Key.int n, by simp [e]⟩
    · obtain ⟨k, hk⟩ := enumFrom_exists_key (n + 1) ys x h'
      exact ⟨k, List.mem_cons_of_mem _ hk⟩

/-- the joint invariant of `_graph_pop` (repaired definition), for path-independent predicates -/
theorem pop_post (hPI : PathIndep preds) : ∀ fuel : Nat,
    (∀ path v st st', VS preds st → popNode true preds fuel path v st = .ok st' →
      PopPost preds Option.none st st' ∧ Clean preds st'.visited st'.heap v) ∧
    (∀ path owner items st st', VS preds st → (∀ a, owner = some a → a ∈ st.visited) →
      popItems true preds fuel path owner items st = .ok st' →
      PopPost preds owner st st' ∧
      (∀ it ∈ items, ¬ IsSelRef preds st.heap it.2 → Clean preds st'.visited st'.heap it.2) ∧
      (owner = Option.none → ∀ it ∈ items, ¬ IsSelRef preds st.heap it.2) ∧
      (∀ a cls live, owner = some a → st.heap[a]? = some (.node cls live) →
        ∃ live', st'.heap[a]? = some (.node cls live') ∧ (∀ kv ∈ live', kv ∈ live) ∧
          (∀ kv ∈ live', ∀ it ∈ items, IsSelRef preds st.heap it.2 → it.1 ≠ kv.1))) := by
  intro fuel
  induction fuel with
  | zero =>
    constructor
    · intro path v st st' _ h; simp [popNode] at h
    · intro path owner items st st' _ _ h; simp [popItems] at h
  | succ fuel ih =>
    constructor
    · intro path v st st' hvs h
      cases v with
      | static s => simp [popNode] at h
      | array d => simp [popNode] at h
      | none =>
        simp [popNode] at h; subst h
        exact ⟨PopPost.refl hvs, clean_of_no_refs rfl⟩
      | seq t xs =>
        simp only [popNode] at h
        obtain ⟨p, hc, hno, _⟩ := ih.2 path Option.none _ st st' hvs (fun a ha => by cases ha) h
        refine ⟨p, ?_⟩
        intro b hb
        simp only [deepRefs] at hb
        obtain ⟨x, hx, hbx⟩ := mem_deepRefsL.mp hb
        obtain ⟨k, hk⟩ := enumFrom_exists_key 0 xs x hx
        exact hc (k, x) hk (hno rfl (k, x) hk) b hbx
      | dict kvs =>
        simp only [popNode] at h
        obtain ⟨p, hc, hno, _⟩ := ih.2 path Option.none _ st st' hvs (fun a ha => by cases ha) h
        refine ⟨p, ?_⟩
        intro b hb
        simp only [deepRefs] at hb
        obtain ⟨kv, hkv, hbx⟩ := mem_deepRefsKV.mp hb
        have hm := mem_sortKV.mpr hkv
        exact hc kv hm (hno rfl kv hm) b hbx
      | ref a =>
        simp only [popNode] at h
        split at h
        · cases h
        · cases h
        · next cls attrs hget =>
          split at h
          · next hvis =>
            simp at h; subst h
            refine ⟨PopPost.refl hvs, ?_⟩
            intro b hb
            simp [deepRefs] at hb; subst hb
            exact Or.inl ⟨cls, attrs, hget, hvis⟩
          · next hnvis =>
            -- register the node, then run its attribute loop
            have hvs1 : VS preds { st with visited := st.visited ++ [a] } := by
              intro x hx ty val md hg
              simp only at hx hg
              rcases List.mem_append.mp hx with h1 | h1
              · exact hvs x h1 ty val md hg
              · simp at h1; subst h1; rw [hget] at hg; cases hg
            obtain ⟨p, hc, _, hlive⟩ := ih.2 path (some a) _ _ st' hvs1 (fun a' ha' => by cases ha'; simp) h
            obtain ⟨live', hg', hsub, hsel⟩ := hlive a cls attrs rfl hget
            obtain ⟨new, enew⟩ := p.vis
            simp only at enew
            have ha' : a ∈ st'.visited := by rw [enew]; simp
            refine ⟨⟨p.shape, ⟨a :: new, by rw [enew]; simp⟩, ?_, p.vs, ?_⟩, ?_⟩
            · intro x hx _
              have : x ≠ a := fun e => hnvis (e ▸ hx)
              exact p.frame x (by simp [hx]) (by simp [this])
            · intro x hx hnx cls' attrs' hgx kv hkv
              by_cases e : x = a
              · subst e
                rw [hg'] at hgx; cases hgx
                -- a remaining attribute is one of the scanned items and is not a selected reference
                have hin : kv ∈ sortKV attrs := mem_sortKV.mpr (hsub kv hkv)
                have hns : ¬ IsSelRef preds st.heap kv.2 := fun hs => hsel kv hkv kv hin hs rfl
                exact hc kv hin hns
              · exact p.cleanNew x hx (by simp [hnx, e]) cls' attrs' hgx kv hkv
            · intro b hb
              simp [deepRefs] at hb; subst hb
              exact Or.inl ⟨cls, live', hg', ha'⟩
    · intro path owner items st st' hvs ho h
      cases items with
      | nil =>
        simp [popItems] at h; subst h
        exact ⟨PopPost.refl hvs, by simp, by simp, fun a cls live _ hg => ⟨live, hg, fun _ h => h, by simp⟩⟩
      | cons kv rest =>
        obtain ⟨k, v⟩ := kv
        rw [popItems_cons] at h
        split at h
        · cases h
        · next st1 hitem =>
          have ip := popItem_post hPI fuel ih.1 path owner k v st st1 hvs ho hitem
          have ho1 : ∀ a, owner = some a → a ∈ st1.visited := fun a ha => ip.post.sub a (ho a ha)
          obtain ⟨p2, hc2, hno2, hlive2⟩ := ih.2 path owner rest st1 st' ip.post.vs ho1 h
          refine ⟨PopPost.trans ho ip.post p2, ?_, ?_, ?_⟩
          · intro it hit hns
            rcases List.mem_cons.mp hit with e | hr
            · subst e
              exact (ip.clean hns).mono p2.sub p2.shape
            · exact hc2 it hr (fun hs => hns ((IsSelRef_shape ip.post.shape it.2).mpr hs))
          · intro hnone it hit
            rcases List.mem_cons.mp hit with e | hr
            · subst e; exact ip.noOwner hnone
            · exact fun hs => hno2 hnone it hr ((IsSelRef_shape ip.post.shape it.2).mp hs)
          · intro a cls live ha hg
            obtain ⟨live1, hg1, hsub1, hk1⟩ := ip.live a cls live ha hg
            obtain ⟨live2, hg2, hsub2, hk2⟩ := hlive2 a cls live1 ha hg1
            refine ⟨live2, hg2, fun kv hkv => hsub1 kv (hsub2 kv hkv), ?_⟩
            intro kv hkv it hit hs
            rcases List.mem_cons.mp hit with e | hr
            · subst e
              exact fun e' => hk1 hs kv (hsub2 kv hkv) e'.symm
            · exact hk2 kv hkv it hr ((IsSelRef_shape ip.post.shape it.2).mp hs)


/-- **after `pop` no selected Variable is reachable from the node** (repaired definition, filters that do
not look at the path) -/
theorem pop_clean_paths (hPI : PathIndep preds) (h : Heap) (root : PVal) (h' : Heap) (outs : List FlatState)
    (hp : pop true h root preds = .ok (h', outs)) :
    PShape h h' ∧ ∀ (p : Path) (b : Addr), resolve h' root p = some (.ref b) → ¬ sel preds h' b := by
  unfold pop at hp
  split at hp
  · cases hp
  · split at hp
    · cases hp
    · next st' hrun =>
      simp at hp; obtain ⟨rfl, rfl⟩ := hp
      have hvs0 : VS preds { heap := h, visited := [], out := List.map (fun _ => []) preds } := by
        intro b hb; cases hb
      obtain ⟨post, hroot⟩ := (pop_post hPI _).1 [] root _ st' hvs0 hrun
      refine ⟨post.shape, ?_⟩
      -- every value met along a path is clean
      have key : ∀ (p : Path) (v w : PVal), Clean preds st'.visited st'.heap v → resolve st'.heap v p = some w →
          Clean preds st'.visited st'.heap w := by
        intro p
        induction p with
        | nil => intro v w hc hr; simp [resolve] at hr; subst hr; exact hc
        | cons k p ihp =>
          intro v w hc hr
          simp only [resolve] at hr
          split at hr
          · next v1 hstep =>
            refine ihp v1 w ?_ hr
            cases v with
            | ref a =>
              simp only [step] at hstep
              split at hstep
              · next cls attrs hget =>
                have ha : a ∈ st'.visited := by
                  rcases hc a (by simp [deepRefs]) with ⟨_, _, _, hv⟩ | ⟨ty, val, md, hg, _⟩
                  · exact hv
                  · rw [hget] at hg; cases hg
                exact post.cleanNew a ha (by simp) cls attrs hget (k, v1) (lookupKV_mem hstep)
              · cases hstep
            | seq t xs => exact fun b hb => hc b (deepRefs_child (v := .seq t xs) (by simpa [step] using hstep) hb)
            | dict kvs => exact fun b hb => hc b (deepRefs_child (v := .dict kvs) (by simpa [step] using hstep) hb)
            | static s => simp [step] at hstep
            | array d => simp [step] at hstep
            | none => simp [step] at hstep
          · cases hr
      intro p b hr hs
      have hc := key p root (.ref b) hroot hr
      rcases hc b (by simp [deepRefs]) with ⟨cls, attrs, hg, _⟩ | ⟨_, _, _, _, hns⟩
      · obtain ⟨ty, val, md, hg', _⟩ := hs
        rw [hg] at hg'; cases hg'
      · exact hns hs

open Flax.Filter (denote denoteAny denoteAll firstMatch)

mutual
  /-- filters built from types and tags only: they cannot observe the path -/
  def pathFree : NFilter → Bool
    | .pathContains _ => false
    | .pathIn _ => false
    | .any fs => pathFreeL fs
    | .allOf fs => pathFreeL fs
    | .not f => pathFree f
    | _ => true
  def pathFreeL : List NFilter → Bool
    | [] => true
    | f :: fs => pathFree f && pathFreeL fs
end

mutual
  theorem denote_pathFree : ∀ (f : NFilter), pathFree f = true → ∀ p q x, denote f p x = denote f q x
    | .withTag _, _, _, _, _ => by simp [denote]
    | .ofType _, _, _, _, _ => by simp [denote]
    | .everything, _, _, _, _ => by simp [denote]
    | .nothing, _, _, _, _ => by simp [denote]
    | .pathContains _, h, _, _, _ => by simp [pathFree] at h
    | .pathIn _, h, _, _, _ => by simp [pathFree] at h
    | .not f, h, p, q, x => by simp only [denote]; rw [denote_pathFree f (by simpa [pathFree] using h) p q x]
    | .any fs, h, p, q, x => by simp only [denote]; exact denoteAny_pathFree fs (by simpa [pathFree] using h) p q x
    | .allOf fs, h, p, q, x => by simp only [denote]; exact denoteAll_pathFree fs (by simpa [pathFree] using h) p q x
  theorem denoteAny_pathFree : ∀ (fs : List NFilter), pathFreeL fs = true → ∀ p q x, denoteAny fs p x = denoteAny fs q x
    | [], _, _, _, _ => by simp [denoteAny]
    | f :: fs, h, p, q, x => by
      simp only [pathFreeL, Bool.and_eq_true] at h
      simp only [denoteAny]
      rw [denote_pathFree f h.1 p q x, denoteAny_pathFree fs h.2 p q x]
  theorem denoteAll_pathFree : ∀ (fs : List NFilter), pathFreeL fs = true → ∀ p q x, denoteAll fs p x = denoteAll fs q x
    | [], _, _, _, _ => by simp [denoteAll]
    | f :: fs, h, p, q, x => by
      simp only [pathFreeL, Bool.and_eq_true] at h
      simp only [denoteAll]
      rw [denote_pathFree f h.1 p q x, denoteAll_pathFree fs h.2 p q x]
end

theorem firstMatch_pathFree : ∀ (preds : List NFilter), pathFreeL preds = true → ∀ p q x, firstMatch preds p x = firstMatch preds q x
  | [], _, _, _, _ => by simp [firstMatch]
  | f :: fs, h, p, q, x => by
    simp only [pathFreeL, Bool.and_eq_true] at h
    simp only [firstMatch]
    rw [denote_pathFree f h.1 p q x, firstMatch_pathFree fs h.2 p q x]

/-- type / tag filters and their Any / All / Not combinations are path independent -/
theorem pathIndep_of_pathFree (preds : List NFilter) (h : pathFreeL preds = true) : PathIndep preds := by
  intro p q l
  exact firstMatch_pathFree preds h _ _ _

end Flax.Graph
