/-
Robustness of the msgpack decoder model: it reads only a prefix of its input (`Stable`), more fuel
never changes a result (`unpackF_mono`), and no proper prefix of an encoding decodes.
-/
import Flax.Proofs.Msgpack

namespace Flax.Msgpack

/-- a reader that only looks at a prefix: more bytes behind change nothing but the rest -/
def Stable (rd : Bytes → Option (MVal × Bytes)) : Prop :=
  ∀ bs w r x, rd bs = some (w, r) → rd (bs ++ x) = some (w, r ++ x)

theorem takeN_append_right : ∀ (k : Nat) (bs x s r : Bytes), takeN k bs = some (s, r) →
    takeN k (bs ++ x) = some (s, r ++ x)
  | 0, bs, x, s, r, h => by
    simp only [takeN, Option.some.injEq, Prod.mk.injEq] at h ⊢
    exact ⟨h.1, by rw [h.2]⟩
  | k + 1, bs, x, s, r, h => by
    simp only [takeN] at h ⊢
    cases hd : bs.drop k with
    | nil => simp [hd] at h
    | cons a t =>
      simp only [hd, Option.some.injEq, Prod.mk.injEq] at h
      have hlen : k < bs.length := by
        have := congrArg List.length hd
        simp at this; omega
      rw [List.drop_append_of_le_length (by omega), hd]
      simp only [List.cons_append, Option.some.injEq, Prod.mk.injEq]
      refine ⟨?_, by rw [h.2]⟩
      rw [List.take_append_of_le_length (by omega)]
      exact h.1

theorem stable_readStr (n : Nat) : Stable (readStr n) := by
  intro bs w r x h
  simp only [readStr] at h ⊢
  cases ht : takeN n bs with
  | none => simp [ht] at h
  | some p =>
    obtain ⟨s, r'⟩ := p
    simp only [ht, Option.some.injEq, Prod.mk.injEq] at h
    simp [takeN_append_right n bs x s r' ht, h.1, h.2]

theorem stable_readBin (n : Nat) : Stable (readBin n) := by
  intro bs w r x h
  simp only [readBin] at h ⊢
  cases ht : takeN n bs with
  | none => simp [ht] at h
  | some p =>
    obtain ⟨s, r'⟩ := p
    simp only [ht, Option.some.injEq, Prod.mk.injEq] at h
    simp [takeN_append_right n bs x s r' ht, h.1, h.2]

theorem stable_readExt (n : Nat) : Stable (readExt n) := by
  intro bs w r x h
  cases bs with
  | nil => simp [readExt] at h
  | cons c t =>
    simp only [readExt, List.cons_append] at h ⊢
    split at h
    · next hc =>
      simp only [hc, ↓reduceIte]
      cases ht : takeN n t with
      | none => simp [ht] at h
      | some p =>
        obtain ⟨s, r'⟩ := p
        simp only [ht, Option.some.injEq, Prod.mk.injEq] at h
        simp [takeN_append_right n t x s r' ht, h.1, h.2]
    · cases h

theorem readBe_append (k : Nat) (bs x : Bytes) (n : Nat) (r : Bytes) (h : readBe k bs = some (n, r)) :
    readBe k (bs ++ x) = some (n, r ++ x) := by
  simp only [readBe] at h ⊢
  cases ht : takeN k bs with
  | none => simp [ht] at h
  | some p =>
    obtain ⟨s, r'⟩ := p
    simp only [ht, Option.some.injEq, Prod.mk.injEq] at h
    simp [takeN_append_right k bs x s r' ht, h.1, h.2]

theorem stable_withLen (k : Nat) (body : Nat → Bytes → Option (MVal × Bytes)) (hb : ∀ n, Stable (body n)) :
    Stable (fun bs => withLen k bs body) := by
  intro bs w r x h
  simp only [withLen] at h ⊢
  cases hr : readBe k bs with
  | none => simp [hr] at h
  | some p =>
    obtain ⟨n, r'⟩ := p
    simp only [hr] at h
    simp only [readBe_append k bs x n r' hr]
    exact hb n r' w r x h

theorem stable_readUInt (k : Nat) : Stable (readUInt k) := by
  intro bs w r x h
  simp only [readUInt] at h ⊢
  cases hr : readBe k bs with
  | none => simp [hr] at h
  | some p =>
    obtain ⟨n, r'⟩ := p
    simp only [hr, Option.some.injEq, Prod.mk.injEq] at h
    simp [readBe_append k bs x n r' hr, h.1, h.2]

theorem stable_readSInt (k : Nat) : Stable (readSInt k) := by
  intro bs w r x h
  simp only [readSInt] at h ⊢
  cases hr : readBe k bs with
  | none => simp [hr] at h
  | some p =>
    obtain ⟨n, r'⟩ := p
    simp only [hr, Option.some.injEq, Prod.mk.injEq] at h
    simp [readBe_append k bs x n r' hr, h.1, h.2]

theorem unpackMany_append (rd : Bytes → Option (MVal × Bytes)) (hrd : Stable rd) :
    ∀ (n : Nat) (bs x : Bytes) (vs : List MVal) (r : Bytes), unpackMany rd n bs = some (vs, r) →
      unpackMany rd n (bs ++ x) = some (vs, r ++ x)
  | 0, bs, x, vs, r, h => by
    simp only [unpackMany, Option.some.injEq, Prod.mk.injEq] at h ⊢
    exact ⟨h.1, by rw [h.2]⟩
  | n + 1, bs, x, vs, r, h => by
    simp only [unpackMany] at h ⊢
    cases h1 : rd bs with
    | none => simp [h1] at h
    | some p =>
      obtain ⟨v, r1⟩ := p
      simp only [h1] at h
      cases h2 : unpackMany rd n r1 with
      | none => simp [h2] at h
      | some q =>
        obtain ⟨vs', r2⟩ := q
        simp only [h2, Option.some.injEq, Prod.mk.injEq] at h
        simp [hrd bs v r1 x h1, unpackMany_append rd hrd n r1 x vs' r2 h2, h.1, h.2]

theorem unpackPairs_append (rd : Bytes → Option (MVal × Bytes)) (hrd : Stable rd) :
    ∀ (n : Nat) (bs x : Bytes) (kvs : List (MVal × MVal)) (r : Bytes), unpackPairs rd n bs = some (kvs, r) →
      unpackPairs rd n (bs ++ x) = some (kvs, r ++ x)
  | 0, bs, x, vs, r, h => by
    simp only [unpackPairs, Option.some.injEq, Prod.mk.injEq] at h ⊢
    exact ⟨h.1, by rw [h.2]⟩
  | n + 1, bs, x, vs, r, h => by
    simp only [unpackPairs] at h ⊢
    cases h1 : rd bs with
    | none => simp [h1] at h
    | some p =>
      obtain ⟨k, r1⟩ := p
      simp only [h1] at h
      cases h2 : rd r1 with
      | none => simp [h2] at h
      | some p2 =>
        obtain ⟨v, r2⟩ := p2
        simp only [h2] at h
        cases h3 : unpackPairs rd n r2 with
        | none => simp [h3] at h
        | some q =>
          obtain ⟨kvs', r3⟩ := q
          simp only [h3, Option.some.injEq, Prod.mk.injEq] at h
          simp [hrd bs k r1 x h1, hrd r1 v r2 x h2, unpackPairs_append rd hrd n r2 x kvs' r3 h3, h.1, h.2]

theorem stable_readArr (rd : Bytes → Option (MVal × Bytes)) (hrd : Stable rd) (n : Nat) : Stable (readArr rd n) := by
  intro bs w r x h
  simp only [readArr] at h ⊢
  cases hm : unpackMany rd n bs with
  | none => simp [hm] at h
  | some p =>
    obtain ⟨vs, r'⟩ := p
    simp only [hm, Option.some.injEq, Prod.mk.injEq] at h
    simp [unpackMany_append rd hrd n bs x vs r' hm, h.1, h.2]

theorem stable_readMap (rd : Bytes → Option (MVal × Bytes)) (hrd : Stable rd) (n : Nat) : Stable (readMap rd n) := by
  intro bs w r x h
  simp only [readMap] at h ⊢
  cases hm : unpackPairs rd n bs with
  | none => simp [hm] at h
  | some p =>
    obtain ⟨vs, r'⟩ := p
    simp only [hm, Option.some.injEq, Prod.mk.injEq] at h
    simp [unpackPairs_append rd hrd n bs x vs r' hm, h.1, h.2]

theorem stable_ite (c : Prop) [Decidable c] (A B : Bytes → Option (MVal × Bytes)) (ha : Stable A) (hb : Stable B) :
    Stable (fun bs => if c then A bs else B bs) := by
  intro bs w r x h
  by_cases hc : c
  · simp only [hc, ↓reduceIte] at h ⊢; exact ha bs w r x h
  · simp only [hc, ↓reduceIte] at h ⊢; exact hb bs w r x h

theorem stable_const (v : MVal) : Stable (fun bs => some (v, bs)) := by
  intro bs w r x h
  simp only [Option.some.injEq, Prod.mk.injEq] at h ⊢
  exact ⟨h.1, by rw [h.2]⟩

theorem stable_none : Stable (fun _ => none) := by intro bs w r x h; cases h

theorem stable_f64 : Stable (fun rest => match readBe 8 rest with | none => none | some (n, r) => some (MVal.f64 n, r)) := by
  intro bs w r x h
  cases hr : readBe 8 bs with
  | none => simp [hr] at h
  | some p =>
    obtain ⟨n, r'⟩ := p
    simp only [hr, Option.some.injEq, Prod.mk.injEq] at h
    simp [readBe_append 8 bs x n r' hr, h.1, h.2]

set_option maxRecDepth 8000 in
theorem stable_unpackF : ∀ (fuel : Nat), Stable (unpackF fuel)
  | 0 => by intro bs w r x h; simp [unpackF] at h
  | f + 1 => by
    have ih := stable_unpackF f
    intro bs w r x h
    cases bs with
    | nil => simp [unpackF] at h
    | cons b rest =>
      have key : Stable (fun rest => unpackF (f + 1) (b :: rest)) := by
        simp only [unpackF]
        repeat' apply stable_ite
        all_goals first
          | exact stable_const _
          | exact stable_none
          | exact stable_readMap _ ih _
          | exact stable_readArr _ ih _
          | exact stable_readStr _
          | exact stable_f64
          | exact stable_readUInt _
          | exact stable_readSInt _
          | exact stable_readExt _
          | exact stable_withLen _ _ (fun n => stable_readBin n)
          | exact stable_withLen _ _ (fun n => stable_readStr n)
          | exact stable_withLen _ _ (fun n => stable_readExt n)
          | exact stable_withLen _ _ (fun n => stable_readArr _ ih n)
          | exact stable_withLen _ _ (fun n => stable_readMap _ ih n)
      exact key rest w r x h


/-! ### more fuel never changes a result -/

def Ext (A B : Bytes → Option (MVal × Bytes)) : Prop := ∀ bs r, A bs = some r → B bs = some r

theorem ext_refl (A : Bytes → Option (MVal × Bytes)) : Ext A A := fun _ _ h => h

theorem ext_ite (c : Prop) [Decidable c] (A B A' B' : Bytes → Option (MVal × Bytes)) (ha : Ext A A') (hb : Ext B B') :
    Ext (fun bs => if c then A bs else B bs) (fun bs => if c then A' bs else B' bs) := by
  intro bs r h
  by_cases hc : c
  · simp only [hc, ↓reduceIte] at h ⊢; exact ha bs r h
  · simp only [hc, ↓reduceIte] at h ⊢; exact hb bs r h

theorem unpackMany_ext (rd rd' : Bytes → Option (MVal × Bytes)) (he : Ext rd rd') :
    ∀ (n : Nat) (bs : Bytes) (r : List MVal × Bytes), unpackMany rd n bs = some r → unpackMany rd' n bs = some r
  | 0, bs, r, h => by simpa [unpackMany] using h
  | n + 1, bs, r, h => by
    simp only [unpackMany] at h ⊢
    cases h1 : rd bs with
    | none => simp [h1] at h
    | some p =>
      obtain ⟨v, r1⟩ := p
      simp only [h1] at h
      cases h2 : unpackMany rd n r1 with
      | none => simp [h2] at h
      | some q =>
        simp only [h2] at h
        simp only [he bs _ h1, unpackMany_ext rd rd' he n r1 q h2]
        exact h

theorem unpackPairs_ext (rd rd' : Bytes → Option (MVal × Bytes)) (he : Ext rd rd') :
    ∀ (n : Nat) (bs : Bytes) (r : List (MVal × MVal) × Bytes), unpackPairs rd n bs = some r →
      unpackPairs rd' n bs = some r
  | 0, bs, r, h => by simpa [unpackPairs] using h
  | n + 1, bs, r, h => by
    simp only [unpackPairs] at h ⊢
    cases h1 : rd bs with
    | none => simp [h1] at h
    | some p =>
      obtain ⟨k, r1⟩ := p
      simp only [h1] at h
      cases h2 : rd r1 with
      | none => simp [h2] at h
      | some p2 =>
        obtain ⟨v, r2⟩ := p2
        simp only [h2] at h
        cases h3 : unpackPairs rd n r2 with
        | none => simp [h3] at h
        | some q =>
          simp only [h3] at h
          simp only [he bs _ h1, he r1 _ h2, unpackPairs_ext rd rd' he n r2 q h3]
          exact h

theorem ext_readArr (rd rd' : Bytes → Option (MVal × Bytes)) (he : Ext rd rd') (n : Nat) :
    Ext (readArr rd n) (readArr rd' n) := by
  intro bs r h
  simp only [readArr] at h ⊢
  cases hm : unpackMany rd n bs with
  | none => simp [hm] at h
  | some p => simp only [hm] at h; simp only [unpackMany_ext rd rd' he n bs p hm]; exact h

theorem ext_readMap (rd rd' : Bytes → Option (MVal × Bytes)) (he : Ext rd rd') (n : Nat) :
    Ext (readMap rd n) (readMap rd' n) := by
  intro bs r h
  simp only [readMap] at h ⊢
  cases hm : unpackPairs rd n bs with
  | none => simp [hm] at h
  | some p => simp only [hm] at h; simp only [unpackPairs_ext rd rd' he n bs p hm]; exact h

theorem ext_withLen (k : Nat) (body body' : Nat → Bytes → Option (MVal × Bytes)) (hb : ∀ n, Ext (body n) (body' n)) :
    Ext (fun bs => withLen k bs body) (fun bs => withLen k bs body') := by
  intro bs r h
  simp only [withLen] at h ⊢
  cases hr : readBe k bs with
  | none => simp [hr] at h
  | some p =>
    obtain ⟨n, r'⟩ := p
    simp only [hr] at h ⊢
    exact hb n r' r h

set_option maxRecDepth 8000 in
theorem unpackF_succ : ∀ (fuel : Nat), Ext (unpackF fuel) (unpackF (fuel + 1))
  | 0 => by intro bs r h; simp [unpackF] at h
  | f + 1 => by
    have ih := unpackF_succ f
    intro bs r h
    cases bs with
    | nil => simp [unpackF] at h
    | cons b rest =>
      have key : Ext (fun rest => unpackF (f + 1) (b :: rest)) (fun rest => unpackF (f + 1 + 1) (b :: rest)) := by
        simp only [unpackF]
        repeat' apply ext_ite
        all_goals first
          | exact ext_readMap _ _ ih _
          | exact ext_readArr _ _ ih _
          | exact ext_withLen _ _ _ (fun n => ext_readArr _ _ ih n)
          | exact ext_withLen _ _ _ (fun n => ext_readMap _ _ ih n)
          | exact ext_refl _
      exact key rest r h

theorem unpackF_mono : ∀ (d fuel : Nat) (bs : Bytes) (r : MVal × Bytes), unpackF fuel bs = some r →
    unpackF (fuel + d) bs = some r
  | 0, _, _, _, h => h
  | d + 1, fuel, bs, r, h => unpackF_succ (fuel + d) bs r (unpackF_mono d fuel bs r h)

/-- **no proper prefix of an encoding decodes**: a truncated byte string is rejected -/
theorem unpack_truncated (v : MVal) (hv : v.WF) (p q : Bytes) (hpq : pack v = p ++ q) (hq : q ≠ []) :
    unpack p = none := by
  cases hu : unpack p with
  | none => rfl
  | some w =>
    exfalso
    simp only [unpack] at hu
    cases hf : unpackF (p.length + 1) p with
    | none => simp [hf] at hu
    | some pr =>
      obtain ⟨w', r⟩ := pr
      cases r with
      | cons a t => simp [hf] at hu
      | nil =>
        have h1 := stable_unpackF (p.length + 1) p w' [] q hf
        simp only [List.nil_append] at h1
        have h2 := rt_val v (pack v).length [] hv (depth_le_val v)
        rw [List.append_nil, hpq] at h2
        have e1 := unpackF_mono (p ++ q).length (p.length + 1) (p ++ q) _ h1
        have e2 := unpackF_mono (p.length + 1) (p ++ q).length (p ++ q) _ h2
        rw [show p.length + 1 + (p ++ q).length = (p ++ q).length + (p.length + 1) by omega] at e1
        rw [e1] at e2
        simp only [Option.some.injEq, Prod.mk.injEq] at e2
        exact hq e2.2

end Flax.Msgpack
