/-
A decidable, tree-level sufficient condition for "the chunked state dict fits msgpack's limits"
(`STree.packable` of `Flax/Proofs/SerialBytes.lean`): every container has fewer than `2^32` entries,
every key / string / bytes / array payload is shorter than `2^32` bytes (arrays with a small margin
for their ext header), ints lie in `[-2^63, 2^64)`.
-/
import Flax.Proofs.SerialBytes

namespace Flax.Serial
open Flax.Msgpack

/-! ### the sizes predicate -/

/-- `32` = room for the ext payload's own headers (array, shape array, str, bin) plus one dimension
of a chunk piece -/
def NdArray.sizesOk (a : NdArray) : Bool :=
  decide (a.shape.length < 2 ^ 32) && a.shape.all (fun d => decide (d < 2 ^ 64)) &&
  decide (9 * a.shape.length + (utf8 a.dtype).length + a.data.length + 32 < 2 ^ 32)

def Leaf.sizesOk : Leaf → Bool
  | .none => true
  | .bool _ => true
  | .int i => decide (-(2 ^ 63 : Int) ≤ i) && decide (i < (2 ^ 64 : Int))
  | .float bits => decide (bits < 2 ^ 64)
  | .complex re im => decide (re < 2 ^ 64) && decide (im < 2 ^ 64)
  | .str s => decide ((utf8 s).length < 2 ^ 32)
  | .bytes b => decide (b.length < 2 ^ 32)
  | .ndarray a => a.sizesOk
  | .npscalar dtype data => NdArray.sizesOk { dtype := dtype, shape := [], data := data }

mutual
  def Tree.sizesOk : Tree → Bool
    | .leaf v => v.sizesOk
    | .dict kvs => decide (kvs.length < 2 ^ 32) && szFields kvs
    | .fdict kvs => decide (kvs.length < 2 ^ 32) && szFields kvs
    | .list xs => decide (xs.length < 2 ^ 32) && szList xs
    | .tuple xs => decide (xs.length < 2 ^ 32) && szList xs
    | .named _ fs => decide (fs.length < 2 ^ 32) && szFields fs
    | .struct _ fs _ => decide (fs.length < 2 ^ 32) && szFields fs
  def szFields : List (String × Tree) → Bool
    | [] => true
    | (k, v) :: r => decide ((utf8 k).length < 2 ^ 32) && v.sizesOk && szFields r
  def szList : List Tree → Bool
    | [] => true
    | x :: r => x.sizesOk && szList r
end

mutual
  def STree.sizesOk : STree → Bool
    | .leaf v => v.sizesOk
    | .dict kvs => decide (kvs.length < 2 ^ 32) && sszKvs kvs
  def sszKvs : List (String × STree) → Bool
    | [] => true
    | (k, v) :: r => decide ((utf8 k).length < 2 ^ 32) && v.sizesOk && sszKvs r
end

/-- **the decidable hypothesis of the bytes round trip**: distinct keys, no reserved key, sizes
within msgpack's limits -/
def WFSizes (t : Tree) : Bool := t.wf && t.noMarker && t.sizesOk

/-! ### UTF-8 length of decimal indices -/

theorem utf8_length (s : String) : (utf8 s).length = s.utf8ByteSize := by
  simp [utf8]

theorem utf8ByteSize_repr_le : ∀ (n : Nat), (Nat.repr n).utf8ByteSize ≤ n + 1 := by
  intro n
  induction n using Nat.strongRecOn with
  | _ n ih =>
    by_cases h : n < 10
    · rw [Nat.repr_of_lt h, String.utf8ByteSize_singleton]
      have : (Nat.digitChar n).utf8Size = 1 := by
        rw [Char.utf8Size_eq_one_iff]
        have : n = 0 ∨ n = 1 ∨ n = 2 ∨ n = 3 ∨ n = 4 ∨ n = 5 ∨ n = 6 ∨ n = 7 ∨ n = 8 ∨ n = 9 := by omega
        rcases this with h|h|h|h|h|h|h|h|h|h <;> subst h <;> decide
      omega
    · rw [Nat.repr_eq_repr_append_repr (by omega), String.utf8ByteSize_append]
      have h1 := ih (n / 10) (by omega)
      have h2 := ih (n % 10) (by omega)
      omega

theorem utf8_idx_le (i : Nat) : (utf8 (idx i)).length ≤ i + 1 := by
  rw [utf8_length]; exact utf8ByteSize_repr_le i

/-! ### length of the ext payload of an array -/

theorem length_packInt_le (i : Int) : (packInt i).length ≤ 9 := by
  simp only [packInt]
  repeat' split
  all_goals simp [length_be]

theorem length_strHdr_le (n : Nat) : (strHdr n).length ≤ 5 := by
  simp only [strHdr]; repeat' split
  all_goals simp [length_be]

theorem length_binHdr_le (n : Nat) : (binHdr n).length ≤ 5 := by
  simp only [binHdr]; repeat' split
  all_goals simp [length_be]

theorem length_arrHdr_le (n : Nat) : (arrHdr n).length ≤ 5 := by
  simp only [arrHdr]; repeat' split
  all_goals simp [length_be]

theorem length_packDims : ∀ (shape : List Nat),
    (packList (shape.map (fun (d : Nat) => MVal.int (d : Int)))).length ≤ 9 * shape.length
  | [] => by simp [packList]
  | d :: r => by
    have h1 := length_packInt_le (d : Int)
    have h2 := length_packDims r
    simp only [List.map_cons, packList, pack, List.length_append, List.length_cons]
    omega

theorem length_pack_arr3 (x y z : MVal) :
    (pack (.arr [x, y, z])).length ≤ 5 + (pack x).length + (pack y).length + (pack z).length := by
  have := length_arrHdr_le ([x, y, z] : List MVal).length
  simp only [pack, packList, List.length_append, List.append_nil]
  omega

theorem length_ndToBytes_le (a : NdArray) :
    (ndToBytes a).length ≤ 20 + 9 * a.shape.length + (utf8 a.dtype).length + a.data.length := by
  have h0 := length_pack_arr3 (.arr (a.shape.map (fun (d : Nat) => MVal.int (d : Int)))) (.str (utf8 a.dtype)) (.bin a.data)
  have h1 := length_packDims a.shape
  have h2 := length_arrHdr_le (a.shape.map (fun (d : Nat) => MVal.int (d : Int))).length
  have h3 := length_strHdr_le (utf8 a.dtype).length
  have h4 := length_binHdr_le a.data.length
  simp only [ndToBytes]
  simp only [pack, List.length_append] at h0 ⊢
  omega

theorem ndarray_packable_of_sizesOk (a : NdArray) (h : a.sizesOk = true) : a.packable := by
  simp only [NdArray.sizesOk, Bool.and_eq_true, decide_eq_true_eq, List.all_eq_true] at h
  have hl := length_ndToBytes_le a
  refine ⟨h.1.1, fun d hd => h.1.2 d hd, by omega, by omega, by omega⟩

theorem leaf_packable_of_sizesOk (v : Leaf) (h : v.sizesOk = true) : v.packable := by
  cases v with
  | none => trivial
  | bool b => trivial
  | int i => simpa [Leaf.sizesOk, Leaf.packable] using h
  | float b => simpa [Leaf.sizesOk, Leaf.packable] using h
  | complex re im => simpa [Leaf.sizesOk, Leaf.packable] using h
  | str s => simpa [Leaf.sizesOk, Leaf.packable] using h
  | bytes b => simpa [Leaf.sizesOk, Leaf.packable] using h
  | ndarray a => exact ndarray_packable_of_sizesOk a h
  | npscalar d b => exact ndarray_packable_of_sizesOk _ h

/-! ### index dicts (`_tuple_to_dict`) -/

theorem mem_keys_enumL {α} : ∀ (xs : List α) (i : Nat) (k : String),
    k ∈ keys (enumL i xs) → ∃ j, j < xs.length ∧ k = idx (i + j)
  | [], _, _, h => by simp [enumL, keys] at h
  | x :: r, i, k, h => by
    simp only [enumL, keys, List.map_cons, List.mem_cons] at h
    rcases h with h | h
    · exact ⟨0, by simp, by simpa using h⟩
    · obtain ⟨j, hj, hk⟩ := mem_keys_enumL r (i + 1) k (by simpa [keys] using h)
      exact ⟨j + 1, by simp; omega, by rw [hk]; congr 1; omega⟩

theorem nodup_keys_enumL {α} : ∀ (xs : List α) (i : Nat), (keys (enumL i xs)).Nodup
  | [], _ => by simp [enumL, keys]
  | x :: r, i => by
    have ih := nodup_keys_enumL r (i + 1)
    simp only [keys] at ih
    simp only [enumL, keys, List.map_cons, List.nodup_cons]
    refine ⟨?_, ih⟩
    intro hm
    obtain ⟨j, _, hk⟩ := mem_keys_enumL r (i + 1) (idx i) (by simpa [keys] using hm)
    have := idx_inj hk
    omega

theorem packableKvs_enumL : ∀ (xs : List STree) (i : Nat), (∀ x ∈ xs, x.packable) → i + xs.length < 2 ^ 32 →
    packableKvs (enumL i xs)
  | [], _, _, _ => by simp [enumL, packableKvs]
  | x :: r, i, hx, hl => by
    simp only [List.length_cons] at hl
    simp only [enumL, packableKvs]
    have := utf8_idx_le i
    exact ⟨by omega, hx x (by simp), packableKvs_enumL r (i + 1) (fun y hy => hx y (by simp [hy])) (by omega)⟩

theorem packable_enumDict (xs : List STree) (hx : ∀ x ∈ xs, x.packable) (hl : xs.length < 2 ^ 32) :
    (STree.dict (enumDict 0 xs)).packable := by
  rw [enumDict_eq]
  simp only [STree.packable, length_enumL]
  exact ⟨hl, nodup_keys_enumL xs 0, packableKvs_enumL xs 0 hx (by omega)⟩

/-! ### the chunk dict -/

theorem length_splitEvery_le (n : Nat) : ∀ (fuel : Nat) (l : Bytes), (splitEvery n fuel l).length ≤ fuel
  | 0, _ => by simp [splitEvery]
  | fuel + 1, l => by
    simp only [splitEvery]
    split
    · simp
    · have := length_splitEvery_le n fuel (l.drop n); simp; omega

theorem length_piece_le (n : Nat) : ∀ (fuel : Nat) (l : Bytes), ∀ p ∈ splitEvery n fuel l, p.length ≤ l.length
  | 0, _, p, hp => by simp [splitEvery] at hp
  | fuel + 1, l, p, hp => by
    simp only [splitEvery] at hp
    split at hp
    · cases hp
    · simp only [List.mem_cons] at hp
      rcases hp with rfl | hp
      · simp [List.length_take]; omega
      · have := length_piece_le n fuel (l.drop n) p hp
        simp at this; omega

theorem packable_chunk (T : Nat) (isz : String → Nat) (a : NdArray) (h : a.sizesOk = true) :
    (chunk T isz a).packable := by
  have h' := h
  simp only [NdArray.sizesOk, Bool.and_eq_true, decide_eq_true_eq, List.all_eq_true] at h'
  obtain ⟨⟨hr, hd⟩, hb⟩ := h'
  have hk1 : (utf8 marker).length < 2 ^ 32 := by decide
  have hk2 : (utf8 "shape").length < 2 ^ 32 := by decide
  have hk3 : (utf8 "chunks").length < 2 ^ 32 := by decide
  have hnd : (keys [(marker, STree.leaf (.bool true)), ("shape", STree.leaf .none), ("chunks", STree.leaf .none)]).Nodup := by
    decide
  simp only [chunk, STree.packable, packableKvs, List.length_cons, List.length_nil]
  refine ⟨by omega, by simpa [keys] using hnd, hk1, trivial, hk2, ?_, hk3, ?_, trivial⟩
  · apply packable_enumDict
    · intro x hx
      simp only [List.mem_map] at hx
      obtain ⟨d, hdm, rfl⟩ := hx
      have := hd d hdm
      simp only [STree.packable, Leaf.packable]
      omega
    · simpa using hr
  · apply packable_enumDict
    · intro x hx
      simp only [List.mem_map] at hx
      obtain ⟨p, hp, rfl⟩ := hx
      have hpl := length_piece_le _ _ _ p hp
      simp only [STree.packable, Leaf.packable]
      have hl := length_ndToBytes_le { dtype := a.dtype, shape := [p.length / isz a.dtype], data := p }
      simp only [List.length_cons, List.length_nil] at hl
      have hdiv : p.length / isz a.dtype ≤ p.length := Nat.div_le_self _ _
      refine ⟨by simp, ?_, by simp only; omega, by simp only; omega, by omega⟩
      intro d hd'
      simp only [List.mem_cons, List.not_mem_nil, or_false] at hd'
      subst hd'
      omega
    · have := length_splitEvery_le (max 1 (T / isz a.dtype) * isz a.dtype) a.data.length a.data
      simp only [List.length_map]
      omega

/-! ### state dicts -/

mutual
  theorem packable_chunkLeaves (T : Nat) (isz : String → Nat) : ∀ (s : STree),
      s.wf = true → s.sizesOk = true → (chunkLeaves T isz s).packable
    | .leaf v, _, hs => by
      simp only [STree.sizesOk] at hs
      cases v with
      | ndarray a =>
        simp only [chunkLeaves]
        split
        · exact packable_chunk T isz a hs
        · exact leaf_packable_of_sizesOk _ hs
      | _ => simpa [chunkLeaves, STree.packable] using leaf_packable_of_sizesOk _ hs
    | .dict kvs, hw, hs => by
      simp only [STree.wf, Bool.and_eq_true, decide_eq_true_eq] at hw
      simp only [STree.sizesOk, Bool.and_eq_true, decide_eq_true_eq] at hs
      simp only [chunkLeaves, STree.packable, keys_chunkKvs]
      refine ⟨?_, hw.1, packable_chunkKvs T isz kvs hw.2 hs.2⟩
      have : (chunkKvs T isz kvs).length = kvs.length := by
        have := congrArg List.length (keys_chunkKvs T isz kvs)
        simpa [keys] using this
      omega
  theorem packable_chunkKvs (T : Nat) (isz : String → Nat) : ∀ (kvs : List (String × STree)),
      swfKvs kvs = true → sszKvs kvs = true → packableKvs (chunkKvs T isz kvs)
    | [], _, _ => by simp [chunkKvs, packableKvs]
    | (k, v) :: r, hw, hs => by
      simp only [swfKvs, Bool.and_eq_true] at hw
      simp only [sszKvs, Bool.and_eq_true, decide_eq_true_eq] at hs
      simp only [chunkKvs, packableKvs]
      exact ⟨hs.1.1, packable_chunkLeaves T isz v hw.1 hs.1.2, packable_chunkKvs T isz r hw.2 hs.2⟩
end

/-! ### from the pytree to its state dict -/

theorem toSDList_eq : ∀ (xs : List Tree) (i : Nat), toSDList i xs = enumL i (xs.map toStateDict)
  | [], _ => by simp [toSDList, enumL]
  | x :: r, i => by simp [toSDList, enumL, toSDList_eq r (i + 1)]

theorem sszKvs_enumL : ∀ (xs : List STree) (i : Nat), (∀ x ∈ xs, x.sizesOk = true) → i + xs.length < 2 ^ 32 →
    sszKvs (enumL i xs) = true
  | [], _, _, _ => by simp [enumL, sszKvs]
  | x :: r, i, hx, hl => by
    simp only [List.length_cons] at hl
    have := utf8_idx_le i
    simp only [enumL, sszKvs, Bool.and_eq_true, decide_eq_true_eq]
    exact ⟨⟨by omega, hx x (by simp)⟩, sszKvs_enumL r (i + 1) (fun y hy => hx y (by simp [hy])) (by omega)⟩

theorem swfKvs_enumL : ∀ (xs : List STree) (i : Nat), (∀ x ∈ xs, x.wf = true) → swfKvs (enumL i xs) = true
  | [], _, _ => by simp [enumL, swfKvs]
  | x :: r, i, hx => by
    simp only [enumL, swfKvs, Bool.and_eq_true]
    exact ⟨hx x (by simp), swfKvs_enumL r (i + 1) (fun y hy => hx y (by simp [hy]))⟩

mutual
  theorem stateDict_ok : ∀ (t : Tree), t.wf = true → t.sizesOk = true →
      (toStateDict t).wf = true ∧ (toStateDict t).sizesOk = true
    | .leaf v, _, hs => by simpa [toStateDict, STree.wf, STree.sizesOk, Tree.sizesOk] using hs
    | .dict kvs, hw, hs => by
      simp only [Tree.wf, Bool.and_eq_true, decide_eq_true_eq] at hw
      simp only [Tree.sizesOk, Bool.and_eq_true, decide_eq_true_eq] at hs
      have := stateDict_fields kvs hw.2 hs.2
      simp only [toStateDict, STree.wf, STree.sizesOk, keys_toSDFields, Bool.and_eq_true, decide_eq_true_eq]
      exact ⟨⟨hw.1, this.1⟩, by rw [this.2.2]; exact hs.1, this.2.1⟩
    | .fdict kvs, hw, hs => by
      simp only [Tree.wf, Bool.and_eq_true, decide_eq_true_eq] at hw
      simp only [Tree.sizesOk, Bool.and_eq_true, decide_eq_true_eq] at hs
      have := stateDict_fields kvs hw.2 hs.2
      simp only [toStateDict, STree.wf, STree.sizesOk, keys_toSDFields, Bool.and_eq_true, decide_eq_true_eq]
      exact ⟨⟨hw.1, this.1⟩, by rw [this.2.2]; exact hs.1, this.2.1⟩
    | .named _ kvs, hw, hs => by
      simp only [Tree.wf, Bool.and_eq_true, decide_eq_true_eq] at hw
      simp only [Tree.sizesOk, Bool.and_eq_true, decide_eq_true_eq] at hs
      have := stateDict_fields kvs hw.2 hs.2
      simp only [toStateDict, STree.wf, STree.sizesOk, keys_toSDFields, Bool.and_eq_true, decide_eq_true_eq]
      exact ⟨⟨hw.1, this.1⟩, by rw [this.2.2]; exact hs.1, this.2.1⟩
    | .struct _ kvs _, hw, hs => by
      simp only [Tree.wf, Bool.and_eq_true, decide_eq_true_eq] at hw
      simp only [Tree.sizesOk, Bool.and_eq_true, decide_eq_true_eq] at hs
      have := stateDict_fields kvs hw.2 hs.2
      simp only [toStateDict, STree.wf, STree.sizesOk, keys_toSDFields, Bool.and_eq_true, decide_eq_true_eq]
      exact ⟨⟨hw.1, this.1⟩, by rw [this.2.2]; exact hs.1, this.2.1⟩
    | .list xs, hw, hs => by
      simp only [Tree.wf] at hw
      simp only [Tree.sizesOk, Bool.and_eq_true, decide_eq_true_eq] at hs
      have := stateDict_list xs hw hs.2
      simp only [toStateDict, toSDList_eq, STree.wf, STree.sizesOk, Bool.and_eq_true, decide_eq_true_eq,
        length_enumL, List.length_map]
      exact ⟨⟨nodup_keys_enumL _ 0, swfKvs_enumL _ 0 this.1⟩, hs.1,
        sszKvs_enumL _ 0 this.2 (by simpa using hs.1)⟩
    | .tuple xs, hw, hs => by
      simp only [Tree.wf] at hw
      simp only [Tree.sizesOk, Bool.and_eq_true, decide_eq_true_eq] at hs
      have := stateDict_list xs hw hs.2
      simp only [toStateDict, toSDList_eq, STree.wf, STree.sizesOk, Bool.and_eq_true, decide_eq_true_eq,
        length_enumL, List.length_map]
      exact ⟨⟨nodup_keys_enumL _ 0, swfKvs_enumL _ 0 this.1⟩, hs.1,
        sszKvs_enumL _ 0 this.2 (by simpa using hs.1)⟩
  theorem stateDict_fields : ∀ (kvs : List (String × Tree)), wfFields kvs = true → szFields kvs = true →
      swfKvs (toSDFields kvs) = true ∧ sszKvs (toSDFields kvs) = true ∧ (toSDFields kvs).length = kvs.length
    | [], _, _ => by simp [toSDFields, swfKvs, sszKvs]
    | (k, v) :: r, hw, hs => by
      simp only [wfFields, Bool.and_eq_true] at hw
      simp only [szFields, Bool.and_eq_true, decide_eq_true_eq] at hs
      have h1 := stateDict_ok v hw.1 hs.1.2
      have h2 := stateDict_fields r hw.2 hs.2
      simp only [toSDFields, swfKvs, sszKvs, Bool.and_eq_true, decide_eq_true_eq, List.length_cons]
      exact ⟨⟨h1.1, h2.1⟩, ⟨⟨hs.1.1, h1.2⟩, h2.2.1⟩, by rw [h2.2.2]⟩
  theorem stateDict_list : ∀ (xs : List Tree), wfList xs = true → szList xs = true →
      (∀ x ∈ xs.map toStateDict, x.wf = true) ∧ (∀ x ∈ xs.map toStateDict, x.sizesOk = true)
    | [], _, _ => by simp
    | x :: r, hw, hs => by
      simp only [wfList, Bool.and_eq_true] at hw
      simp only [szList, Bool.and_eq_true] at hs
      have h1 := stateDict_ok x hw.1 hs.1
      have h2 := stateDict_list r hw.2 hs.2
      simp only [List.map_cons, List.mem_cons]
      exact ⟨fun y hy => hy.elim (fun e => e ▸ h1.1) (h2.1 y), fun y hy => hy.elim (fun e => e ▸ h1.2) (h2.2 y)⟩
end

/-- **the chunked state dict of a tree of moderate sizes fits msgpack's limits, at every threshold** -/
theorem wf_tree_packable' (T : Nat) (isz : String → Nat) (t : Tree) (h : WFSizes t = true) :
    (chunkLeaves T isz (toStateDict t)).packable := by
  simp only [WFSizes, Bool.and_eq_true] at h
  have := stateDict_ok t h.1.1 h.2
  exact packable_chunkLeaves T isz _ this.1 this.2

end Flax.Serial
