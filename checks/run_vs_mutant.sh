#!/bin/bash
# usage: checks/run_vs_mutant.sh <worktree-or-dir-with-flax> <PROP> [tier]  — runs the check against a scratch copy of that tree's flax
set -u
src=$1; prop=$2; tier=${3:-quick}
d=$(mktemp -d /tmp/mutrun.XXXXXX)
cp -r "$src/flax" "$d/"
cd /verif
VERIF_REPO=$d timeout 1800 /venv/bin/python checks/run.py "$prop" --tier "$tier" 2>&1 | grep -E "^\[C|^VIOLATION|^KNOWN|INFRA|what:" | cut -c1-330
rc=${PIPESTATUS[0]}
rm -rf "$d"
echo "exit=$rc"
