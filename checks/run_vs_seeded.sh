#!/bin/bash
# usage: checks/run_vs_seeded.sh <seeded-name> [tier] — applies /verif/seeded/<name>/patch.diff to a scratch copy of /repo's
# current flax/ and runs the property's check against it (never touches /repo). Prints the verdict lines and exit code.
set -u
name=$1; tier=${2:-quick}
prop=$(python3 -c "import json;print(json.load(open('/verif/seeded/$name/meta.json'))['property'])")
d=$(mktemp -d /tmp/seedrun.XXXXXX)
cp -r /repo/flax "$d/"
( cd "$d" && patch -p1 -s < /verif/seeded/$name/patch.diff ) || { echo "patch does not apply"; rm -rf "$d"; exit 3; }
cd /verif
VERIF_REPO=$d timeout 1800 /venv/bin/python checks/run.py "$prop" --tier "$tier" 2>&1 | grep -E "^\[C|^VIOLATION|INFRA" | cut -c1-200
rc=${PIPESTATUS[0]}
rm -rf "$d"
echo "seeded=$name property=$prop exit=$rc"
