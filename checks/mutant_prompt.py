"""Prints the prompt for an independent 'seeded breakage' agent (gets the property text only, nothing from /verif)."""
import json, sys
pid, wt = sys.argv[1], sys.argv[2]
hint = sys.argv[3] if len(sys.argv) > 3 else ''
p = next(json.loads(l) for l in open('/verif/properties.jsonl') if json.loads(l)['id'] == pid)
print(f"""You are a careful engineer asked to produce a REALISTIC REGRESSION in the Python library google/flax, for the purpose of
testing an independent verification effort you know nothing about. Sealed sandbox, no network.

Your private scratch checkout of the library is the git worktree {wt} (a worktree of /repo at HEAD). Work ONLY inside {wt}
(and /tmp/{pid}_demo_* for scratch files). Do NOT read, list or use anything under /verif, and do not modify /repo itself.

THE PROPERTY the library is supposed to satisfy (this text is all you get):
  title: {p['title']}
  statement: {p['statement']}
  quantifier: {p['quantifier']['text']}
  code it is anchored in: {', '.join(p['anchors']['files'])}

TASK: make ONE small source change under {wt}/flax/ (a few lines, the kind of slip a real refactor or "optimisation" introduces)
such that
  (a) the library still imports and the EXISTING test suite's results do not change: run
        cd {wt} && /venv/bin/python -m pytest -q -p no:cacheprovider --timeout=900 --continue-on-collection-errors -x -q <the test files relevant to your change> 
      before and after your change and compare the sets of passing tests — many tests fail in this sandbox for unrelated
      reasons (see the note below); what matters is that no test that passed before fails after. Also run at least
      tests/core tests/serialization_test.py tests/struct_test.py tests/traverse_util_test.py tests/checkpoints_test.py tests/jax_utils_test.py
      tests/linen/linen_module_test.py (the files where most passing tests live) if your change could touch them. Confirm with
      `python -c "import flax; print(flax.__file__)"` run from {wt} that the worktree's flax is the one imported.
  (b) the property above is now violated, but ONLY under specific circumstances: it must need something particular to manifest —
      an unusual input or nesting depth, a multi-step sequence of operations, a particular combination of options, a specific
      interleaving or crash point, or two cooperating sites that each look fine alone — NOT something ordinary use or a
      one-line smoke test would expose at once. Prefer a change that a reviewer could plausibly approve.
  (c) you provide a demonstration: a small standalone Python script {wt}/demo_{pid}.py that exits 0 on the unmodified library and
      exits non-zero (assertion failure) with your change, by exercising the public API in the way the property describes.
      The script must start with the sandbox shim below if it needs Linen/NNX modules.
{hint}
SANDBOX NOTE (unrelated to your task but needed to run anything): this flax (0.10.5) runs against a newer jax (0.11.2) that
removed three entry points, so most of Linen/NNX raises AttributeError unless a script first does:
    import os, sys; sys.path.insert(0, os.getcwd())
    import jax, jax.core, jax.extend.core
    if not hasattr(jax.core, 'get_opaque_trace_state'):
        jax.core.get_opaque_trace_state = jax.extend.core.get_opaque_trace_state
(and `jax.jit(..., abstracted_axes=None)` in flax/nnx/transforms/compilation.py and `jax.remat(..., concrete=False)` in
flax/core/lift.py need those kwargs dropped — avoid nnx.jit / nn.remat in your demo unless you patch that in the demo itself).
Run scripts with /venv/bin/python from inside {wt} so that the worktree's flax is imported.

DELIVERABLE (final message): (1) `git -C {wt} diff` output saved as {wt}/patch.diff (unified diff against HEAD, paths relative to the
repo root, applicable with `git apply`); (2) the demo script path; (3) what you ran to check (a) and the before/after pass counts;
(4) two or three sentences on what exactly is needed for the violation to manifest. NEVER use `git stash` (the stash is shared by all worktrees of /repo and other agents work in sibling worktrees): to compare before/after, save your diff to a file and use `git apply -R <file>` / `git apply <file>`. Leave the worktree with your change applied
and the two files in place; do not commit.
""")
