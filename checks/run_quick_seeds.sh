#!/bin/bash
# quick tier of every claimed check for a range of seeds (false-alarm soak): prints only non-clean summary lines.
# usage: checks/run_quick_seeds.sh <from> <to>
cd "$(dirname "$0")/.."
( cd lean && lake build $(python3 -c "import json;print(' '.join(f'Flax.Props.{k} drv_{k.lower()}' for k in sorted(json.load(open('../checks/claimed.json'))) if k.startswith('C')))") ) 2>&1 | tail -1
props=$(python3 -c "import json;print(' '.join(sorted(k for k in json.load(open('checks/claimed.json')) if k.startswith('C'))))")
for s in $(seq $1 $2); do
  echo "== seed $s"
  echo $props | tr ' ' '\n' | xargs -P 5 -I{} sh -c "VERIF_SEED=$s timeout 1200 /venv/bin/python checks/run.py {} --tier quick 2>&1 | grep -E '^\[C|^VIOLATION|INFRA|what:' | grep -v 'violations=0' | cut -c1-300"
done
echo "== done"
