#!/bin/bash
# thorough tier of every claimed check, 3 at a time (for background soak runs: `vp run -- checks/run_thorough_all.sh`)
cd "$(dirname "$0")/.."
( cd lean && lake build $(python3 -c "import json;print(' '.join(f'Flax.Props.{k} drv_{k.lower()}' for k in sorted(json.load(open('../checks/claimed.json'))) if k.startswith('C')))") ) 2>&1 | tail -2
props=$(python3 -c "import json;print(' '.join(sorted(k for k in json.load(open('checks/claimed.json')) if k.startswith('C'))))")
echo $props | tr ' ' '\n' | xargs -P 3 -I{} sh -c "VERIF_SEED=${VERIF_SEED:-11} timeout 5400 /venv/bin/python checks/run.py {} --tier thorough 2>&1 | grep -E '^\[C|^VIOLATION|INFRA|what:' | cut -c1-300"
