"""Prints the builder-agent prompt for one property (used by the coordinator)."""
import json, sys
pid = sys.argv[1]
extra = sys.argv[2] if len(sys.argv) > 2 else ''
p = next(json.loads(l) for l in open('/verif/properties.jsonl') if json.loads(l)['id'] == pid)
print(f"""You are building the verification machinery for ONE property ({pid}) of google/flax in a sealed sandbox (no network).
The technique is fixed: machine-checked proof in Lean 4 about a hand-written executable model, tied to the real
code in /repo by a differential correspondence check that runs on every invocation.

READ FIRST, in this order:
  1. /verif/BUILDING.md  (conventions, file ownership, what you may not touch — binding)
  2. /verif/DESIGN.md: sections 1, 2, 3, 5, 7 and the section "### {pid} —" in §4, and the rows of §6 that mention {pid}
  3. the worked example: /verif/lean/Flax/Model/Filter.lean, /verif/lean/Flax/Props/C14.lean,
     /verif/lean/Flax/Driver/C14.lean, /verif/harness/props/c14.py, /verif/harness/common.py
  4. the flax source the property is anchored in (under /repo), listed below.

THE PROPERTY (fixed text; do not reinterpret it beyond DESIGN.md §7):
  id: {pid}
  title: {p['title']}
  statement: {p['statement']}
  quantifier: {p['quantifier']['text']}
  why tests cannot settle it: {p['why_tests_cant']}
  anchored in: {', '.join(p['anchors']['files'])}
  mechanisms: {json.dumps(p['anchors'].get('mechanism', []))[:1500]}

YOUR DELIVERABLE (all under /verif, only the files BUILDING.md says {pid} owns):
  * Lean model(s) of the code the property is anchored in, transcribed from the code that exists (not from what it should do)
  * lean/Flax/Props/{pid}.lean: the property's clauses as theorems at full strength, proved (no sorry/axiom/native_decide), with non-vacuity examples
  * lean/Flax/Driver/{pid}.lean: line-protocol driver exposing the model's executable definitions
  * harness/props/{pid.lower()}.py: generators (seeded), implementation adapters calling the real flax in /repo, canonicalisation,
    correspondence model-vs-implementation, and property oracles evaluated directly on the implementation; replay support
  * corpus/{pid}/ regression cases
  The check `cd /verif && /venv/bin/python checks/run.py {pid} --tier quick` must exit 0 with no VIOLATION line on the current /repo
  for seeds 0,1,2,3,7 (VERIF_SEED), run in < 90 s, and write a schema-valid evidence/{pid}.json (validate: `python3-vt checks/validate.py`).
  Then prove it has teeth, WITHOUT touching /repo: `mkdir -p /tmp/{pid}/repo && cp -r /repo/flax /tmp/{pid}/repo/` and run the check
  against the copy with `VERIF_REPO=/tmp/{pid}/repo /venv/bin/python checks/run.py {pid} --tier quick` (harness/compat.py puts
  $VERIF_REPO first on sys.path). Make 4-6 small plausible property-breaking edits to the copy ONE AT A TIME (restore the file from
  /repo after each) — prefer subtle ones that need a particular input or a multi-step sequence to manifest — and confirm the check
  exits 1 with a VIOLATION line for each; strengthen generators/oracles where it does not. Report which mutations were caught.
  Delete /tmp/{pid} when done. (Other agents are working on other properties at the same time against /repo: never leave /repo
  in a mutated state; the only edits allowed there are genuine `fix:` commits as described in BUILDING.md.)

PRIORITIES: (1) never a false alarm on correct code — compare only what the property promises; (2) real theorems over the
model with the property's own quantifier, the more of the DESIGN.md section's [core] list the better, but a smaller set of
genuinely proved full-strength theorems beats a long list of weak ones; (3) a tight tie: exhaustive small-scope
correspondence where the domain allows, measured generator distributions. If a theorem resists after serious effort, keep
the full statement in a comment, prove a `…_partial` version, and say exactly what is missing. Work for as long as it takes to
do this well (several hours is expected); keep extending the model and theorems while time remains.

{extra}

FINAL REPORT (your last message; it is all the coordinator sees): files written; list of theorems proved with one line each and
which are partial; what the correspondence compares and the measured numbers of a quick run; wall time; every genuine defect
found in /repo (input that fails, whether you committed a `fix:` — give the commit hash — or propose a known finding with its `key`);
mutations tried and whether caught; a suggested `checks/claimed.json` entry (text + note) for {pid}; anything in shared files you need changed.
""")
