#!/bin/bash
# usage: checks/process_mutant.sh <PROP> <worktree-suffix> <seeded-name> "<what it needs to manifest>"
# runs the property's check against the delivered change, confirms it (demo + baseline with/without), files it under
# seeded/<name>/ and removes the scratch worktree.
set -u
prop=$1; suf=$2; name=$3; needs=$4
wt=/tmp/mut/${prop}_${suf}
cd /verif
echo "=== ${prop}_${suf} -> $name"
checks/run_vs_mutant.sh $wt $prop | grep -v KNOWN | grep -E "^VIOLATION|^\[C|exit=" | cut -c1-160 | head -4
/venv/bin/python checks/confirm_mutant.py $wt $prop $name "$needs" 2>&1 | grep -E '"confirmed"|newly' | tr -d '\n'; echo
git -C /repo worktree remove --force $wt
