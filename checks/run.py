#!/venv/bin/python
"""Single entry point of every registered check.

  /venv/bin/python checks/run.py C14 --tier quick|thorough [--seed N]
  /venv/bin/python checks/run.py C14 --replay replays/<file>.json

Environment: VERIF_SEED (int), VERIF_TIER (quick|thorough), VERIF_REPO (default /repo).
"""
import importlib
import os
import sys

ROOT = os.path.dirname(os.path.dirname(os.path.abspath(__file__)))
sys.path.insert(0, ROOT)
os.chdir(ROOT)


def main():
  if len(sys.argv) < 2:
    print(__doc__)
    return 2
  prop = sys.argv[1]
  from harness import common

  try:
    mod = importlib.import_module(f'harness.props.{prop.lower()}')
  except Exception as e:  # flax import failure etc. is infrastructure, not a verdict
    import traceback

    traceback.print_exc()
    print(f'[{prop}] INFRASTRUCTURE FAILURE (exit 2): cannot load check module: {e}', file=sys.stderr)
    return 2
  return common.main_check(prop, mod, sys.argv[2:])


if __name__ == '__main__':
  sys.exit(main())
