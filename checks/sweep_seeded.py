#!/venv/bin/python
"""Re-runs every filed seeded change against the current checks (scratch copies, never /repo) and records the
outcome in seeded/<name>/meta.json under `detected_by` (history of earlier misses is kept in `note`).
  /venv/bin/python checks/sweep_seeded.py [name-substring]  """
import concurrent.futures as cf, glob, json, os, re, subprocess, sys
V = '/verif'
names = sorted(os.path.basename(os.path.dirname(p)) for p in glob.glob(f'{V}/seeded/*/meta.json'))
if len(sys.argv) > 1:
  names = [n for n in names if sys.argv[1] in n]


def one(name):
  p = subprocess.run([f'{V}/checks/run_vs_seeded.sh', name], capture_output=True, text=True)
  out = p.stdout
  keys, concrete = [], False
  for line in out.splitlines():
    m = re.match(r'VIOLATION property=(\S+) replay=\S*/(?:C\d+)_(.+?)_\d+\.json( no-failing-input-found)?', line)
    if m:
      keys.append(m.group(2))
      concrete = concrete or not m.group(3)
  rc = re.search(r'exit=(\d+)', out)
  return name, int(rc.group(1)) if rc else -1, keys, concrete


with cf.ThreadPoolExecutor(4) as ex:
  for name, rc, keys, concrete in ex.map(one, names):
    f = f'{V}/seeded/{name}/meta.json'
    m = json.load(open(f))
    old = m.get('detected_by', {})
    note = old.get('note', '')
    if rc == 1:
      if 'MISSED' in note and 'now caught' not in note:
        note = note.rstrip('. ') + '; now caught after the strengthening (re-run recorded here)'
      m['detected_by'] = {'check': f"{m['property']} quick", 'violation_keys': keys[:6], 'concrete_failing_input': concrete,
                          'how': f'checks/run_vs_seeded.sh {name} -> exit 1', 'note': note}
    else:
      m['detected_by'] = {'check': f"{m['property']} quick", 'violation_keys': [], 'concrete_failing_input': False,
                          'how': f'checks/run_vs_seeded.sh {name} -> exit {rc}', 'note': (note + ' | ' if note else '') + f'NOT caught at the last sweep (exit {rc})'}
    json.dump(m, open(f, 'w'), indent=1)
    print(f'{name:55s} exit={rc} concrete={concrete} keys={keys[:3]}')
