#!/venv/bin/python
"""Creates one scratch worktree + prompt per property for the next round of independent seeded-change agents.
The hint lists the sites already seeded for that property (from seeded/*/patch.diff) so the agent picks a new one.
  /venv/bin/python checks/prepare_mutants.py [C01 C05 ...]   -> prints the worktree suffix per property"""
import json, glob, os, subprocess, collections, sys, re
seeded = collections.defaultdict(list)
for f in sorted(glob.glob('/verif/seeded/*/meta.json')):
  m = json.load(open(f))
  d = os.path.dirname(f)
  funcs = set()
  for l in open(d + '/patch.diff'):
    if l.startswith('+++ b/'):
      cur = os.path.basename(l[6:].strip())
    mm = re.match(r'^@@.*@@\s*(?:def|class)\s+(\w+)', l)
    if mm:
      funcs.add(f'{cur}:{mm.group(1)}')
  seeded[m['property']].append((m['name'], sorted(funcs)))
letters = 'abcdefghijklmnop'
extra = {
  'C11': ' If possible make it a change that only shows under a CRASH at a particular file-system operation, or a particular history of saves (keep / keep_every_n_steps / overwrite / prefix), or the Orbax back-end.',
  'C20': ' If possible make it a change that only shows under a particular thread interleaving or a particular batch-size / device-count arithmetic corner.',
  'C04': ' If possible make it need a multi-call history (trace-cache hit after an edit), a loop transform, or aliasing across two arguments.',
  'C05': ' If possible make it need a call history (second call after something changed) or two cooperating sites.',
  'C09': ' If possible make it need a particular sequence of draws / re-entered child / split-restore sequence.',
  'C03': ' If possible make it need sharing, a cycle, or a particular combination of filters.',
}
props = sys.argv[1:] or [f'C{n:02d}' for n in range(1, 21)]
os.makedirs('/tmp/mut', exist_ok=True)
for p in props:
  n = len(seeded[p]); s = letters[n]
  done = '; '.join(f"{nm.split('_', 2)[2].replace('_', ' ')} [{', '.join(fs) or '?'}]" for nm, fs in seeded[p])
  hint = (f"  Other engineers already seeded changes for this property (short description [file:enclosing function]): {done}. "
          f"Choose a DIFFERENT function and a different clause of the property than all of those; read the anchored files and pick a spot none of them touches.{extra.get(p, '')}")
  wt = f'/tmp/mut/{p}_{s}'
  subprocess.run(['git', '-C', '/repo', 'worktree', 'add', '-q', '--detach', wt, 'HEAD'], check=True)
  out = subprocess.run(['/venv/bin/python', '/verif/checks/mutant_prompt.py', p, wt, hint], capture_output=True, text=True).stdout
  open(wt + '.prompt', 'w').write(out)
  print(p, s)
