#!/venv/bin/python
"""Confirms a seeded change delivered in a scratch worktree, then files it under /verif/seeded/<name>/.

  /venv/bin/python checks/confirm_mutant.py <worktree> <PROP> <name> "<what it needs to manifest>"

Checks, all in the worktree (never /repo): (1) demo exits 0 without the change and non-zero with it,
(2) the baseline test command gives the same set of passing tests with and without the change
(pytest -n 8 over the whole suite), (3) records the patch, the demo and meta.json.
"""
import json, os, re, shutil, subprocess, sys

wt, prop, name, needs = sys.argv[1:5]
demo = os.path.join(wt, f'demo_{prop}.py')
assert os.path.exists(demo), demo


def sh(cmd, **kw):
  return subprocess.run(cmd, shell=True, cwd=wt, capture_output=True, text=True, **kw)


patch = sh('git diff HEAD -- flax').stdout
assert patch.strip(), 'empty patch'
open(os.path.join(wt, 'patch.diff'), 'w').write(patch)


def run_tests():
  p = sh('/venv/bin/python -m pytest -q -p no:cacheprovider --timeout=900 --continue-on-collection-errors -n 8 -rp 2>&1 | grep "^PASSED" | sort')
  return set(p.stdout.splitlines())


def run_demo():
  return sh(f'/venv/bin/python {demo}').returncode


with_rc = run_demo()
with_pass = run_tests()
assert sh('git apply -R patch.diff').returncode == 0
try:
  without_rc = run_demo()
  without_pass = run_tests()
finally:
  assert sh('git apply patch.diff').returncode == 0
ok = with_rc != 0 and without_rc == 0 and without_pass <= with_pass
meta = {
  'property': prop,
  'name': name,
  'needs_to_manifest': needs,
  'demo_rc_without_change': without_rc,
  'demo_rc_with_change': with_rc,
  'tests_passing_without_change': len(without_pass),
  'tests_passing_with_change': len(with_pass),
  'tests_newly_failing_with_change': sorted(without_pass - with_pass)[:20],
  'confirmed': ok,
  'what_was_run': 'in the scratch worktree: demo with/without the change; `pytest -q -p no:cacheprovider --timeout=900 --continue-on-collection-errors -n 8 -rp` with/without the change, comparing the sets of PASSED test ids',
  'base_commit': sh('git rev-parse HEAD').stdout.strip(),
}
print(json.dumps(meta, indent=1))
if ok:
  d = os.path.join('/verif/seeded', name)
  os.makedirs(d, exist_ok=True)
  shutil.copy(os.path.join(wt, 'patch.diff'), os.path.join(d, 'patch.diff'))
  shutil.copy(demo, os.path.join(d, os.path.basename(demo)))
  json.dump(meta, open(os.path.join(d, 'meta.json'), 'w'), indent=1)
sys.exit(0 if ok else 1)
