"""Regenerates the generated tables in DESIGN.md §10 (between <!-- GEN:x --> … <!-- /GEN:x --> markers)
from known_findings.json, seeded/*/meta.json, checks/claimed.json and evidence/*.json."""
import glob, json, os, re
V = '/verif'
d = open(f'{V}/DESIGN.md').read()


def put(tag, body):
  global d
  a, b = f'<!-- GEN:{tag} -->', f'<!-- /GEN:{tag} -->'
  assert a in d and b in d, tag
  d = d[: d.index(a) + len(a)] + '\n' + body.rstrip() + '\n' + d[d.index(b) :]


kf = json.load(open(f'{V}/known_findings.json'))
rows = ['| id | property | status | commit(s) | key | what |', '|---|---|---|---|---|---|']
for e in sorted(kf, key=lambda e: (int(re.sub(r'\D', '', e['id']) or 0), e['property'])):
  what = re.sub(r'^fixed: property=\S+ [0-9a-f /]+ ', '', e['what']).replace('|', '\\|')
  rows.append(f"| {e['id']} | {e['property']} | {e['status']} | {e.get('commit','')} | `{e['key']}` | {what} |")
put('findings', '\n'.join(rows))

rows = ['| seeded change | property | needs, to manifest | caught by (violation keys) | concrete input | note |', '|---|---|---|---|---|---|']
for f in sorted(glob.glob(f'{V}/seeded/*/meta.json')):
  m = json.load(open(f))
  det = m.get('detected_by', {})
  rows.append(
    f"| `{m['name']}` | {m['property']} | {m['needs_to_manifest']} | {', '.join('`'+k+'`' for k in det.get('violation_keys', [])) or '—'} | {'yes' if det.get('concrete_failing_input') else 'no'} | {det.get('note','')} |"
  )
put('seeded', '\n'.join(rows))

claimed = json.load(open(f'{V}/checks/claimed.json'))
rows = ['| property | theorems (discharged/obligations) | quick: cases / distinct non-trivial | wall (s) | partial theorems |', '|---|---|---|---|---|']
for p in sorted(k for k in claimed if k.startswith('C')):
  ev = f'{V}/evidence/{p}.json'
  if not os.path.exists(ev):
    continue
  e = json.load(open(ev))
  c = e['coverage']
  mp = c.get('model_partial') or []
  rows.append(f"| {p} | {c['discharged']}/{c['obligations']} | {c['evaluations']} / {c['distinct_nontrivial']} | {e['wall_s']} | {len(mp)} |")
put('status', '\n'.join(rows))
open(f'{V}/DESIGN.md', 'w').write(d)
print('ok')
