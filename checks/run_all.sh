#!/bin/bash
# Runs every claimed check (quick by default) against /repo, 4 at a time; prints one summary line per property.
tier=${1:-quick}; seed=${VERIF_SEED:-0}
cd /verif
props=$(python3 -c "import json;print(' '.join(sorted(k for k in json.load(open('checks/claimed.json')) if k.startswith('C'))))")
echo $props | tr ' ' '\n' | xargs -P 4 -I{} sh -c "VERIF_SEED=$seed timeout 3600 /venv/bin/python checks/run.py {} --tier $tier 2>&1 | grep -E '^\[C|^VIOLATION|INFRA' | cut -c1-220"
