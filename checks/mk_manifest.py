import json,sys
sys.path.insert(0,'/verif')
props=[json.loads(l) for l in open('/verif/properties.jsonl')]
claimed=json.load(open('/verif/checks/claimed.json'))
checks=[]
for p in props:
    pid=p['id']
    if pid not in claimed: continue
    c=claimed[pid]
    checks.append({
      "property_id":pid,
      "quick_cmd":f"/venv/bin/python checks/run.py {pid} --tier quick",
      "thorough_cmd":f"/venv/bin/python checks/run.py {pid} --tier thorough",
      "replay_cmd_template":f"/venv/bin/python checks/run.py {pid} --replay {{path}}",
      "evidence_file":f"evidence/{pid}.json",
      "engine":"lean-proofs+correspondence",
      "level_claimed":{"category":"proof","text":c["text"],"design_ref":f"DESIGN.md §4 {pid}"},
      "level_note":c["note"],
      "technique":c.get("technique","Lean 4 theorems about a hand-written model + seeded/exhaustive correspondence against /repo"),
    })
na=[{"property_id":p['id'],"reason":claimed.get('_pending_reason')} for p in props if p['id'] not in claimed]
m={
 "version":1,
 "setup_cmd":"cd lean && lake build "+" ".join(f"Flax.Props.{c['property_id']} drv_{c['property_id'].lower()}" for c in checks),
 "hooks":{"guard":"GOOGLE_FLAX_VERIF","enable":"none: no source hooks are needed; checks import flax from /repo's working tree in-process with the harness-side JAX compat shim harness/compat.py",
          "baseline_off_cmd":"cd /repo && /venv/bin/python -m pytest -ra -q -p no:cacheprovider --timeout=900 --continue-on-collection-errors",
          "source_commits":[],"add_only":True},
 "engines":[{"name":"lean-proofs+correspondence","path":"lean/ harness/ checks/run.py","serves_properties":[c["property_id"] for c in checks],
             "kind_free_text":"Lean 4 models and kernel-checked theorems (lean/Flax), tied to /repo on every run by a differential correspondence check driven through a compiled line-protocol driver"}],
 "checks":checks,
 "not_applicable":na,
 "notes":"All 20 properties are claimed; not_applicable is empty. Every check = lake build of its theorems + axiom audit (exit 2 if that fails: infrastructure, not a verdict) + differential correspondence of the Lean model against /repo's working tree + property oracles on the implementation. KNOWN-FINDING lines come from known_findings.json (committed, never written at run time). Partial levels (C07 derivatives, C12/C13 floating point) are stated per check in level_claimed and in DESIGN.md §10.4/§10.5. VERIF_SEED selects the exploration; VERIF_REPO (optional) points the checks at a scratch copy of flax/ instead of /repo.",
}
json.dump(m,open('/verif/MANIFEST.json','w'),indent=1)
print(len(checks),'claimed',len(na),'unclaimed')
