"""Shared machinery of the C01 / C02 checks: the `SProg` program DSL on the Python side.

  * seeded generators of module programs (valid stream, declaration-first stream for the setup style,
    malformed stream with deliberate name clashes) as JSON — the same JSON the Lean driver decodes;
  * three renderings of one program that call the REAL flax in /repo: a `flax.core` scope function,
    a compact-style Linen Module hierarchy, a setup-style one (classes are built with `type()`); the
    statements are executed by a small interpreter that only ever calls the public Scope / Module API;
  * conversion between nested variable dicts (dict / FrozenDict, numpy leaves, sown tuples) and the flat
    `{"cols", "vars"}` form of the model; input snapshots (structure, array bytes, identity of container
    objects, module `__dict__`);
  * error classification (exception class only, never the message).

Values: every array is float32 and holds small integers; every arithmetic result is checked against
2**24 (`Guard`), so float32 arithmetic is exact and can be compared with the model's `Int`s. A run whose
peak magnitude exceeds the bound is discarded (counted), never compared.
"""
from __future__ import annotations

import dataclasses
import itertools

from harness import compat  # noqa: F401  (must precede flax)

import numpy as np
import jax
import jax.numpy as jnp

import flax
import flax.linen as nn
from flax import errors as flax_errors
from flax.core import scope as core_scope
from flax.core.frozen_dict import FrozenDict, freeze, unfreeze  # noqa: F401

F32 = np.float32
np.seterr(over='ignore', invalid='ignore')  # overflowing runs are detected by Guard and discarded
LIMIT = float(2**24)


# ------------------------------------------------------------------------------------------------
# exact small-integer arithmetic in float32
# ------------------------------------------------------------------------------------------------


class Guard:
  peak = 0.0
  inits = 0  # concrete (non-traced) calls of a parameter initialiser
  calls = None  # list of (path tuple, arg, ret) when recording
  shadow = None  # {(col, path tuple, name): total last written by the program through put / variable init}
  stale = None  # reads that did not return the value the program last wrote there
  leaked = None  # Scope objects seen during the call (when recording): they outlive it
  nested = None  # results of nested applies, in execution order (when recording)

  @classmethod
  def reset(cls):
    cls.peak = 0.0
    cls.inits = 0
    cls.calls = None
    cls.shadow = None
    cls.stale = None
    cls.leaked = None
    cls.nested = None

  @classmethod
  def wrote(cls, col, path, name, tot):
    if cls.shadow is not None and not is_tracer(tot):
      cls.shadow[(col, tuple(path), name)] = float(tot)

  @classmethod
  def forget(cls, col, path, name):
    if cls.shadow is not None:
      cls.shadow.pop((col, tuple(path), name), None)

  @classmethod
  def read(cls, col, path, name, tot):
    if cls.shadow is not None and not is_tracer(tot):
      k = (col, tuple(path), name)
      if k in cls.shadow and cls.shadow[k] != float(tot):
        cls.stale.append((list(k[1]) + [name], col, cls.shadow[k], float(tot)))

  @classmethod
  def see(cls, v):
    a = abs(float(v))
    if a > cls.peak:
      cls.peak = a


def is_tracer(x):
  return isinstance(x, jax.core.Tracer)


def total(v):
  """The scalar a program reads a leaf as: sum of its entries (sown tuples: sum over the elements)."""
  if v is None:
    return F32(0)
  if isinstance(v, tuple):
    acc = F32(0)
    for t in v:
      acc = add(acc, total(t))
    return acc
  if is_tracer(v):
    return jnp.sum(v)
  a = np.asarray(v)
  Guard.see(np.sum(np.abs(a), dtype=np.float64))
  return F32(np.sum(a, dtype=F32))


def add(a, b):
  r = a + b
  if not is_tracer(r):
    Guard.see(r)
  return r


def mul(a, b):
  r = a * b
  if not is_tracer(r):
    Guard.see(r)
  return r


def full(shape, val):
  if is_tracer(val):
    return jnp.full(tuple(shape), val, jnp.float32)
  n = int(np.prod(shape)) if shape else 1
  Guard.see(float(val) * max(n, 1))
  return np.full(tuple(shape), val, F32)


def ev(e, x, env):
  if isinstance(e, int):
    return F32(e)
  if e == 'x':
    return x
  if 'l' in e:
    return env[e['l']]
  if '+' in e:
    return add(ev(e['+'][0], x, env), ev(e['+'][1], x, env))
  if '*' in e:
    return mul(ev(e['*'][0], x, env), ev(e['*'][1], x, env))
  raise ValueError(e)


def scalar_of(x):
  """the scalar a body computes with: the argument itself, or the common entry of a `full((w,), v)` argument"""
  if getattr(x, 'ndim', 0) == 0:
    return x
  return x.reshape(-1)[0]


def resolve_shape(shape, x):
  """literal dims and 'W' = `x.shape[-1:]` (the argument's last axis; nothing for a scalar argument)"""
  out = ()
  for d in shape:
    out += tuple(np.shape(x)[-1:]) if d == 'W' else (d,)
  return out


def make_arg(a, w):
  return a if w is None else full((w,), a)


def put_leaves(st):
  """the leaves of one (possibly dict-valued) put statement: [(rel, name, expr)]"""
  return [(st.get('rel', []), st['n'], st['e'])] + [(r, n, e) for r, n, e in st.get('more', [])]


def do_put(api, st, x, env):
  """`put_variable(col, n, leaf)` or, with a relative path, ONE `put_variable(col, rel0, {... {n: leaf}})`"""
  leaves = [(rel, n, ev(e, x, env)) for rel, n, e in put_leaves(st)]
  col = st['c']
  here = api.path()
  if not leaves[0][0]:
    rel, n, v = leaves[0]
    api.put(col, n, full((), v))
    Guard.wrote(col, here, n, v)
    return
  tree = {}
  for rel, n, v in leaves:
    d = tree
    for k in rel[1:]:
      d = d.setdefault(k, {})
    d[n] = full((), v)
  api.put(col, leaves[0][0][0], tree)
  for rel, n, v in leaves:
    Guard.wrote(col, tuple(here) + tuple(rel), n, v)


def const_init(k):
  def init_fn(key, shape):
    if not is_tracer(key):
      Guard.inits += 1
    return np.full(tuple(shape), k, F32)

  return init_fn


# ------------------------------------------------------------------------------------------------
# the interpreter: one body, one API adaptor
# ------------------------------------------------------------------------------------------------


def _init_var(c, path, n, shape, val):
  v = full(shape, val)
  Guard.wrote(c, path, n, total(v) if not is_tracer(val) else val)
  return v


class CoreApi:
  """Statements on a `flax.core.Scope` (functional core)."""

  style = 'core'

  def __init__(self, scope):
    self.scope = scope
    if Guard.leaked is not None:
      Guard.leaked.append(scope)

  def path(self):
    return tuple(self.scope.path)

  def param(self, n, shape, init):
    return self.scope.param(n, const_init(init), tuple(shape))

  def variable(self, c, n, shape, val):
    return self.scope.variable(c, n, lambda: _init_var(c, self.path(), n, shape, val))

  def get(self, c, n):
    return self.scope.get_variable(c, n)

  def put(self, c, n, v):
    self.scope.put_variable(c, n, v)

  def child(self, st):
    body = st['body']

    def fn(scope, x):
      return run_body(CoreApi(scope), body, x)

    fn.__name__ = st['cls']
    fn.__qualname__ = st['cls']
    before = set(self.scope.reservations)
    f = self.scope.child(fn, name=st['name'])
    new = set(self.scope.reservations) - before
    f.scope_name = next(iter(new)) if len(new) == 1 else st['name']
    return f

  def call(self, k, a):
    return k(a)

  def kid_name(self, k):
    return k.scope_name


class LinenApi:
  """Statements on a Linen Module inside a compact method."""

  style = 'compact'

  def __init__(self, module, classes):
    self.m = module
    self.classes = classes
    if Guard.leaked is not None:
      Guard.leaked.append(module.scope)

  def path(self):
    return tuple(self.m.path)

  def param(self, n, shape, init):
    return self.m.param(n, const_init(init), tuple(shape))

  def variable(self, c, n, shape, val):
    return self.m.variable(c, n, lambda: _init_var(c, self.path(), n, shape, val))

  def get(self, c, n):
    return self.m.get_variable(c, n)

  def put(self, c, n, v):
    self.m.put_variable(c, n, v)

  def sow(self, c, n, v):
    self.m.sow(c, n, v)

  def perturb(self, c, n, v):
    return self.m.perturb(n, v, collection=c)

  def child(self, st):
    cls = self.classes.compact_class(st)
    return cls(name=st['name']) if st['name'] is not None else cls()

  def call(self, k, a):
    return k(a)

  def kid_name(self, k):
    return k.name

  def nested(self, st, a):
    """`y, state = Sub().apply(V, a, mutable=m, capture_intermediates=False)` (or init_with_output) on a sub-network"""
    key = ('n', id(st))
    if key not in self.classes.cache:
      stmt = {'op': 'child', 'cls': 'Sub', 'name': None, 'body': st['body']}
      self.classes.cache[key] = (self.classes.compact_class(stmt), stmt)
    sub = self.classes.cache[key][0](parent=None)  # detached: not a submodule of the enclosing module
    mut = filter_py(st['m'])
    rngs = {'params': the_key()}
    inits0 = Guard.inits  # initialisations inside the nested call belong to its own scope, not to the enclosing one
    try:
      if st.get('init'):
        r = sub.init_with_output(rngs, a, mutable=mut)
      else:
        r = sub.apply(unflatten_vars(st['vars']), a, rngs=rngs, mutable=mut)
    finally:
      Guard.inits = inits0
    y, state = (r, {}) if mut is False else (r[0], r[1])
    dg = F32(1000 * len(state))
    fj, _ = flatten_vars(state) if not is_tracer(y) else ({'cols': [], 'vars': []}, [])
    for c in sorted(state.keys()):
      for leaf in jax.tree_util.tree_leaves(unfreeze(state[c]) if isinstance(state[c], FrozenDict) else state[c]):
        dg = add(dg, total(leaf))
    if Guard.nested is not None and not is_tracer(y):
      Guard.nested.append((out_int(y), fj))
    return y, dg


def run_body(api, body, xin):
  """Executes the statements of one module body through `api`; returns the body's result."""
  env, kids, out = [], [], F32(0)
  x = scalar_of(xin)
  for st in body:
    op = st['op']
    if op == 'bind':
      env.append(ev(st['e'], x, env))
    elif op == 'ret':
      out = ev(st['e'], x, env)
    elif op == 'param':
      env.append(total(api.param(st['n'], resolve_shape(st['shape'], xin), st['init'])))
    elif op == 'variable':
      iv = ev(st['e'], x, env)
      v = api.variable(st['c'], st['n'], st['shape'], iv)
      t = total(v.value)
      Guard.read(st['c'], api.path(), st['n'], t)
      env.append(t)
    elif op == 'get':
      t = total(api.get(st['c'], st['n']))
      Guard.read(st['c'], api.path(), st['n'], t)
      env.append(t)
    elif op == 'put':
      do_put(api, st, x, env)
    elif op == 'sow':
      Guard.forget(st['c'], api.path(), st['n'])
      api.sow(st['c'], st['n'], full((), ev(st['e'], x, env)))
    elif op == 'perturb':
      Guard.forget(st['c'], api.path(), st['n'])
      env.append(total(api.perturb(st['c'], st['n'], full((), ev(st['e'], x, env)))))
    elif op == 'child':
      kids.append(api.child(st))
    elif op == 'call':
      a = ev(st['e'], x, env)
      env.append(api.call(kids[st['slot']], make_arg(a, st.get('w'))))
    elif op == 'nested':
      y, dg = api.nested(st, ev(st['e'], x, env))
      env.append(y)
      env.append(dg)
    else:
      raise ValueError(op)
  if Guard.calls is not None and not is_tracer(out) and not is_tracer(x):
    Guard.calls.append((api.path(), x, out, body, (None if np.ndim(xin) == 0 else int(np.shape(xin)[-1]))))
  return out


def is_decl(st):
  return st['op'] in ('param', 'variable', 'child')


def split_decls(body):
  i = 0
  while i < len(body) and is_decl(body[i]):
    i += 1
  return body[:i], body[i:]


class Classes:
  """Builds (and caches) the Module classes of one program, compact and setup style."""

  def __init__(self, attr_prefix='k'):
    self.cache = {}
    self.attr_prefix = attr_prefix

  def compact_class(self, st):
    key = ('c', id(st))
    if key not in self.cache:
      body = st['body']
      classes = self

      def __call__(self, x):
        return run_body(LinenApi(self, classes), body, x)

      self.cache[key] = (type(st['cls'], (nn.Module,), {'__call__': nn.compact(__call__)}), st)
    return self.cache[key][0]

  def setup_class(self, st):
    key = ('s', id(st))
    if key not in self.cache:
      body = st['body']
      decls, actions = split_decls(body)
      classes = self
      prefix = self.attr_prefix

      def setup(self):
        slot = 0
        for i, d in enumerate(decls):
          if d['op'] == 'param':
            setattr(self, f'p_{i}', self.param(d['n'], const_init(d['init']), tuple(d['shape'])))
          elif d['op'] == 'variable':
            iv = ev(d['e'], None, [])
            setattr(self, f'v_{i}', self.variable(d['c'], d['n'], lambda d=d, iv=iv, pth=tuple(self.path): _init_var(d['c'], pth, d['n'], d['shape'], iv)))
          else:
            cls = classes.setup_class(d)
            setattr(self, f'{prefix}{slot}', cls(name=d['name']) if d['name'] is not None else cls())
            slot += 1

      def __call__(self, xin):
        env, kids, out = [], [], F32(0)
        x = scalar_of(xin)
        slot = 0
        api = LinenApi(self, classes)
        for i, d in enumerate(decls):
          if d['op'] == 'param':
            env.append(total(getattr(self, f'p_{i}')))
          elif d['op'] == 'variable':
            t = total(getattr(self, f'v_{i}').value)
            Guard.read(d['c'], api.path(), d['n'], t)
            env.append(t)
          else:
            kids.append(getattr(self, f'{prefix}{slot}'))
            slot += 1
        for st2 in actions:
          op = st2['op']
          if op == 'bind':
            env.append(ev(st2['e'], x, env))
          elif op == 'ret':
            out = ev(st2['e'], x, env)
          elif op == 'get':
            t = total(api.get(st2['c'], st2['n']))
            Guard.read(st2['c'], api.path(), st2['n'], t)
            env.append(t)
          elif op == 'put':
            do_put(api, st2, x, env)
          elif op == 'sow':
            Guard.forget(st2['c'], api.path(), st2['n'])
            api.sow(st2['c'], st2['n'], full((), ev(st2['e'], x, env)))
          elif op == 'perturb':
            Guard.forget(st2['c'], api.path(), st2['n'])
            env.append(total(api.perturb(st2['c'], st2['n'], full((), ev(st2['e'], x, env)))))
          elif op == 'call':
            a = ev(st2['e'], x, env)
            env.append(kids[st2['slot']](make_arg(a, st2.get('w'))))
          elif op == 'nested':
            y, dg = api.nested(st2, ev(st2['e'], x, env))
            env.append(y)
            env.append(dg)
          else:
            raise ValueError(op)
        if Guard.calls is not None and not is_tracer(out) and not is_tracer(x):
          Guard.calls.append((tuple(self.path), x, out, body, (None if np.ndim(xin) == 0 else int(np.shape(xin)[-1]))))
        return out

      self.cache[key] = (type(st['cls'], (nn.Module,), {'setup': setup, '__call__': __call__}), st)
    return self.cache[key][0]


TOP = 'Top'


def top_stmt(prog):
  return {'op': 'child', 'cls': TOP, 'name': None, 'body': prog}


# --- static predicates on programs ------------------------------------------------------------


def walk(body):
  for st in body:
    yield st
    if st['op'] == 'child':
      yield from walk(st['body'])


def uses_linen_only(body):
  return any(st['op'] in ('sow', 'perturb', 'nested') for st in walk(body))


def expr_const(e):
  if isinstance(e, int):
    return True
  if isinstance(e, str):
    return False
  if 'l' in e:
    return False
  k = '+' if '+' in e else '*'
  return expr_const(e[k][0]) and expr_const(e[k][1])


def setup_eligible(body):
  """declaration-first bodies with constant initialisers, and nothing but `param` touches 'params'"""
  decls, actions = split_decls(body)
  if any(is_decl(st) for st in actions):
    return False
  for d in decls:
    if d['op'] == 'param' and 'W' in d['shape']:
      return False  # the argument is not available in setup()
    if d['op'] == 'variable' and (not expr_const(d['e']) or d['c'] == 'params'):
      return False
    if d['op'] == 'child' and not setup_eligible(d['body']):
      return False
  for a in actions:
    if a['op'] in ('put', 'sow', 'perturb') and a['c'] == 'params':
      return False
  return True


def read_only(body):
  return not any(st['op'] in ('put', 'sow', 'perturb') for st in walk(body))


def executed(body):
  """Statements in execution order (following calls), assuming no error: yields (depth_path, stmt)."""
  kids = []
  for st in body:
    if st['op'] == 'child':
      kids.append(st)
      yield st
    elif st['op'] == 'call':
      yield st
      if st['slot'] < len(kids):
        yield from executed(kids[st['slot']]['body'])
    else:
      yield st


def param_shapes_by_site(body, w=None, chain=()):
  """{(construction-site chain, param statement): set of shapes requested}, following calls with their widths;
  one site = one variable, so two shapes at one site must make init raise ScopeParamShapeError"""
  out = {}
  kids = []
  for st in body:
    if st['op'] == 'param':
      shape = tuple(d2 for d in st['shape'] for d2 in (([w] if w is not None else []) if d == 'W' else [d]))
      out.setdefault(chain + (id(st),), set()).add(shape)
    elif st['op'] == 'child':
      kids.append(st)
    elif st['op'] == 'call' and st['slot'] < len(kids):
      k = kids[st['slot']]
      for site, shapes in param_shapes_by_site(k['body'], st.get('w'), chain + (id(k),)).items():
        out.setdefault(site, set()).update(shapes)
  return out


def gen_width_prog(rng):
  """A submodule whose parameter shapes follow the argument's last axis, called two or three times — with the
  same width (plain sharing) or with different widths (the second use must raise, also during init)."""
  inner_stmts = [{'op': 'param', 'n': 'scale', 'shape': rng.choice([['W'], ['W'], [2, 'W'], ['W', 1]]), 'init': rng.randrange(1, 4)}]
  if rng.random() < 0.5:
    inner_stmts.append({'op': 'param', 'n': 'w1', 'shape': rng.choice([[], [2]]), 'init': 1})
  if rng.random() < 0.4:
    inner_stmts.append({'op': 'variable', 'c': 'stats', 'n': 'v0', 'shape': [], 'e': 0})
  inner_stmts.append({'op': 'ret', 'e': {'+': [{'*': ['x', {'l': 0}]}, {'l': len(inner_stmts) - 1}]}})
  name = rng.choice([None, None, 'c0', 'foo'])
  w1 = rng.choice([1, 2, 3, 4])
  r = rng.random()
  ws = [w1, w1] if r < 0.4 else ([w1, rng.choice([w for w in (1, 2, 3, 4) if w != w1])] if r < 0.85 else [w1, None])
  if rng.random() < 0.3:
    ws.append(rng.choice(ws))
  body = [{'op': 'child', 'cls': rng.choice(CLS), 'name': name, 'body': inner_stmts}]
  nenv = 0
  if rng.random() < 0.4:
    body.insert(0, {'op': 'param', 'n': 'w0', 'shape': [2], 'init': 1})
    nenv = 1
  for w in ws:
    c = {'op': 'call', 'slot': 0, 'e': 'x' if nenv == 0 or rng.random() < 0.5 else {'l': nenv - 1}}
    if w is not None:
      c['w'] = w
    body.append(c)
    nenv += 1
  body.append({'op': 'ret', 'e': {'+': [{'l': nenv - 1}, {'l': nenv - 2}]}})
  if rng.random() < 0.35:
    # one level down
    body = [{'op': 'child', 'cls': 'C', 'name': None, 'body': body}, {'op': 'call', 'slot': 0, 'e': 'x'}, {'op': 'ret', 'e': {'l': 0}}]
  return body


def erase_observers(body, perturb_too=True):
  out = []
  for st in body:
    if st['op'] == 'sow':
      continue
    if st['op'] == 'perturb' and perturb_too:
      out.append({'op': 'bind', 'e': st['e']})
    elif st['op'] == 'child':
      out.append(dict(st, body=erase_observers(st['body'], perturb_too)))
    else:
      out.append(st)
  return out


def cols_of(body, ops):
  return {('params' if st['op'] == 'param' else st['c']) for st in walk(body) if st['op'] in ops}


def obs_safe(body):
  """sow / perturb collections are used by nothing else (and not by each other)"""
  sow = cols_of(body, ('sow',))
  per = cols_of(body, ('perturb',))
  other = cols_of(body, ('param', 'variable', 'get', 'put'))
  return not (sow & other) and not (per & other) and not (sow & per)


# ------------------------------------------------------------------------------------------------
# filters
# ------------------------------------------------------------------------------------------------


def filter_py(j, rng=None):
  """JSON filter -> Python filter (collections in a random concrete container type)."""
  if isinstance(j, (bool, str)):
    return j
  if isinstance(j, dict):
    return core_scope.DenyList(filter_py(j['deny'], rng))
  form = rng.randrange(4) if rng is not None else 0
  return [list, tuple, set, frozenset][form](j)


def in_filter_ref(j, col):
  """Independent reading of the documented filter semantics (the oracle does not trust flax's in_filter)."""
  if isinstance(j, bool):
    return j
  if isinstance(j, str):
    return col == j
  if isinstance(j, dict):
    return not in_filter_ref(j['deny'], col)
  return col in j


COLS = ['params', 'stats', 'cache', 'inter', 'intermediates', 'perturbations']


def gen_filter(rng):
  r = rng.random()
  if r < 0.14:
    return False
  if r < 0.30:
    return True
  if r < 0.42:
    return rng.choice(COLS)
  if r < 0.62:
    return sorted(rng.sample(COLS, rng.randrange(0, 5)))
  if r < 0.76:
    return {'deny': rng.choice(COLS)}
  if r < 0.88:
    return {'deny': sorted(rng.sample(COLS, rng.randrange(0, 4)))}
  if r < 0.96:
    return {'deny': {'deny': rng.choice([rng.choice(COLS), sorted(rng.sample(COLS, 2)), True, False])}}
  return {'deny': rng.choice([True, False])}


# ------------------------------------------------------------------------------------------------
# variable trees
# ------------------------------------------------------------------------------------------------


def leaf_json(v):
  """numpy / jax array -> {"t": shape, "d": ints}; None when some entry is not an integer."""
  a = np.asarray(v)
  flat = a.reshape(-1).astype(np.float64)
  if not np.all(np.isfinite(flat)):
    return None
  ints = [int(z) for z in flat]
  if any(float(i) != float(z) for i, z in zip(ints, flat)):
    return None
  return {'t': list(a.shape), 'd': ints}


def val_json(v):
  if isinstance(v, tuple):
    els = [leaf_json(t) for t in v]
    if any(e is None for e in els):
      return None
    return {'tup': els}
  return leaf_json(v)


def flatten_vars(tree):
  """nested dict / FrozenDict -> model form. Returns (json, problems)."""
  cols, out, problems = [], [], []

  def rec(path, node):
    if isinstance(node, (dict, FrozenDict)):
      if len(node) == 0 and len(path) > 1:
        problems.append(('empty-nested-dict', list(path)))
      for k in node.keys():
        if not isinstance(k, str):
          problems.append(('non-str-key', list(path)))
          continue
        rec(path + [k], node[k])
    else:
      j = val_json(node)
      if j is None:
        problems.append(('non-integer-leaf', list(path)))
      else:
        out.append([list(path), j])

  for c in tree.keys():
    cols.append(c)
    rec([c], tree[c])
  return {'cols': sorted(cols), 'vars': sorted(out, key=lambda kv: kv[0])}, problems


def val_py(j):
  if 'tup' in j:
    return tuple(val_py(t) for t in j['tup'])
  return np.asarray(j['d'], F32).reshape(tuple(j['t']))


def unflatten_vars(j, frozen=False, empties=None):
  """`empties`: paths [col, name, ...] at which an EMPTY dict placeholder is created (nested ones are outside the
  flat model form)"""
  tree = {c: {} for c in j['cols']}
  for path in empties or []:
    d = tree.setdefault(path[0], {})
    for k in path[1:]:
      d = d.setdefault(k, {})
  for path, v in j['vars']:
    d = tree
    for k in path[:-1]:
      d = d.setdefault(k, {})
    d[path[-1]] = val_py(v)
  return freeze(tree) if frozen else tree


def gen_empty_placeholder(rng, V):
  """Replaces one collection, or one submodule subtree inside a collection (depth 1-3), by an EMPTY dict placeholder
  (state not created yet). -> (V', empties, col) or None"""
  cands = set()
  for p, _ in V['vars']:
    for k in range(1, len(p)):
      cands.add(tuple(p[:k]))
  for c in V['cols']:
    cands.add((c,))
  cands = sorted(c for c in cands if c[0] != 'params' or rng.random() < 0.2)
  if not cands:
    return None
  pre = list(rng.choice(cands))
  V2 = {'cols': list(V['cols']), 'vars': [kv for kv in V['vars'] if kv[0][:len(pre)] != pre]}
  return V2, ([pre] if len(pre) > 1 else []), pre[0]


def canon_vars(j):
  """order-insensitive canonical form of the model form"""
  return {'cols': sorted(j['cols']), 'vars': sorted(([list(p), v] for p, v in j['vars']), key=lambda kv: kv[0])}


def shapes_of(tree):
  """{path: (shape, dtype)} of a nested variable dict whose leaves may be ShapeDtypeStructs."""
  out = {}

  def rec(path, node):
    if isinstance(node, (dict, FrozenDict)):
      for k in node.keys():
        rec(path + (k,), node[k])
    elif isinstance(node, tuple):
      out[path] = tuple((tuple(t.shape), str(t.dtype)) for t in node)
    else:
      out[path] = (tuple(node.shape), str(node.dtype))

  rec((), tree)
  return out


# ------------------------------------------------------------------------------------------------
# snapshots
# ------------------------------------------------------------------------------------------------


def snap_tree(tree):
  """(value snapshot, ids of container objects) of a nested variable dict."""
  ids = []

  def rec(node):
    if isinstance(node, (dict, FrozenDict)):
      ids.append(id(node))
      return (type(node).__name__, tuple((k, rec(node[k])) for k in node.keys()))
    if isinstance(node, tuple):
      return ('tuple', tuple(rec(t) for t in node))
    a = np.asarray(node)
    return ('leaf', type(node).__name__, str(a.dtype), a.shape, a.tobytes())

  return rec(tree), ids


def container_ids(tree):
  """ids of every dict / FrozenDict object reachable in a returned tree (through plain dicts only)."""
  ids = set()

  def rec(node):
    if isinstance(node, dict):
      ids.add(id(node))
      for v in node.values():
        rec(v)
    elif isinstance(node, FrozenDict):
      ids.add(id(node))

  rec(tree)
  return ids


def snap_module(m, seen=None):
  seen = seen if seen is not None else set()
  if id(m) in seen:
    return ('cycle',)
  seen.add(id(m))
  items = []
  for k in sorted(m.__dict__.keys()):
    v = m.__dict__[k]
    if isinstance(v, nn.Module):
      items.append((k, snap_module(v, seen)))
    elif k == '_state':
      items.append((k, tuple((f.name, repr(getattr(v, f.name))) for f in dataclasses.fields(v))))
    else:
      items.append((k, repr(v)))
  return (type(m).__name__, tuple(items))


def snap_key(key):
  return np.asarray(jax.random.key_data(key)).tobytes() if jnp.issubdtype(key.dtype, jax.dtypes.prng_key) else np.asarray(key).tobytes()


# ------------------------------------------------------------------------------------------------
# errors
# ------------------------------------------------------------------------------------------------

ERR_CLASSES = [
  (flax_errors.NameInUseError, 'NameInUseError'),
  (flax_errors.ModifyScopeVariableError, 'ModifyScopeVariableError'),
  (flax_errors.ScopeCollectionNotFound, 'ScopeCollectionNotFound'),
  (flax_errors.ScopeParamNotFoundError, 'ScopeParamNotFoundError'),
  (flax_errors.ScopeVariableNotFoundError, 'ScopeVariableNotFoundError'),
  (flax_errors.ScopeParamShapeError, 'ScopeParamShapeError'),
  (flax_errors.InvalidRngError, 'InvalidRngError'),
  (flax_errors.ApplyScopeInvalidVariablesStructureError, 'ApplyScopeInvalidVariablesStructureError'),
  (flax_errors.LazyInitError, 'LazyInitError'),
  (flax_errors.InvalidScopeError, 'InvalidScopeError'),
]


def classify(e):
  for cls, name in ERR_CLASSES:
    if isinstance(e, cls):
      return name
  return type(e).__name__


def model_err_names(err, style, prog=None):
  """Exception class names the implementation may use for a model error enum.  A name clash is a
  NameInUseError when Module.param/variable/submodule creation detects it and a plain ValueError when
  Scope.reserve does (functional core; Module.sow / Module.perturb call it directly)."""
  linen_clash = {'NameInUseError'}
  if prog is None or uses_linen_only(prog):
    linen_clash = {'NameInUseError', 'ValueError'}
  table = {
    'nameInUse': {'ValueError'} if style == 'core' else linen_clash,
    'modifyImmutable': {'ModifyScopeVariableError'},
    'collectionNotFound': {'ScopeCollectionNotFound'},
    'paramNotFound': {'ScopeParamNotFoundError'},
    'variableNotFound': {'ScopeVariableNotFoundError'},
    'paramShape': {'ScopeParamShapeError'},
    'noRng': {'InvalidRngError'},
    'perturbMissing': {'ValueError'},
    'invalidStructure': {'ApplyScopeInvalidVariablesStructureError'},
    'invalidScope': {'InvalidScopeError'},
  }
  return table.get(err)


# ------------------------------------------------------------------------------------------------
# running one program on the implementation
# ------------------------------------------------------------------------------------------------


class Rendered:
  """One program in one style, ready to init / apply on the real flax."""

  def __init__(self, prog, style, attr_prefix='k'):
    self.prog = prog
    self.style = style
    self.classes = Classes(attr_prefix)
    if style == 'core':
      def fn(scope, x):
        return run_body(CoreApi(scope), prog, x)

      fn.__name__ = TOP
      self.fn = fn
      self.module = None
    elif style == 'compact':
      self.module = self.classes.compact_class(self._top())()
    elif style == 'setup':
      self.module = self.classes.setup_class(self._top())()
    else:
      raise ValueError(style)

  def _top(self):
    if not hasattr(self, '_top_stmt'):
      self._top_stmt = top_stmt(self.prog)
    return self._top_stmt

  def init(self, rngs, x, mutable, capture=False):
    """-> ('ok', (y, vars)) | ('err', name)"""
    try:
      if self.style == 'core':
        r = core_scope.init(self.fn, mutable=mutable)(rngs, x)
      else:
        kw = {'capture_intermediates': _capture_arg(capture)} if capture else {}
        r = self.module.init_with_output(rngs, x, mutable=mutable, **kw)
      if mutable is False and not capture:
        return ('ok', (r, None))  # init goes through core.apply, which returns the bare output then
      return ('ok', (r[0], r[1]))
    except Exception as e:  # every exception raised by flax is an observation
      return ('err', classify(e))

  def apply(self, variables, x, rngs, mutable, capture=False):
    """-> ('ok', (y, vars or None)) | ('err', name)"""
    try:
      if self.style == 'core':
        r = core_scope.apply(self.fn, mutable=mutable)(variables, x, rngs=rngs)
      else:
        kw = {'capture_intermediates': _capture_arg(capture)} if capture else {}
        r = self.module.apply(variables, x, rngs=rngs, mutable=mutable, **kw)
      if mutable is False and not capture:
        return ('ok', (r, None))
      return ('ok', (r[0], r[1]))
    except Exception as e:
      return ('err', classify(e))


def _capture_arg(capture):
  """True, or an equivalent user filter (`capture='fn'`)"""
  return (lambda mdl, method_name: method_name == '__call__') if capture == 'fn' else True


def styles_for(prog):
  st = ['compact']
  if not uses_linen_only(prog):
    st.append('core')
  if setup_eligible(prog):
    st.append('setup')
  return st


def out_int(y):
  f = float(np.asarray(y))
  if not np.isfinite(f):
    return None
  return int(f) if float(int(f)) == f else None


def probe_conventions():
  """Learns the autoname conventions from the implementation (DESIGN §7): (sep, base) per style."""
  conv = {}

  class Q(nn.Module):
    @nn.compact
    def __call__(self, x):
      return x

  class P(nn.Module):
    @nn.compact
    def __call__(self, x):
      a, b = Q(), Q()
      return a.name, b.name

  (n0, n1), _ = P().init_with_output(jax.random.key(0), 0.0)
  conv['compact'] = _infer('Q', n0, n1)

  # core: read the names through the variable tree
  def q2(scope, x):
    scope.put_variable('c', 'v', 1)
    return x

  q2.__name__ = 'Q'

  def p2(scope, x):
    scope.child(q2)(x)
    scope.child(q2)(x)
    return x

  _, v = core_scope.init(p2, mutable=True)(jax.random.key(0), 0.0)
  ks = sorted(v['c'].keys())
  conv['core'] = _infer('Q', ks[0], ks[1])
  conv['setup'] = conv['compact']
  return conv


def _infer(cls, n0, n1):
  if not (n0.startswith(cls) and n1.startswith(cls)):
    return None
  r0, r1 = n0[len(cls):], n1[len(cls):]
  i = len(r0)
  while i > 0 and r0[i - 1].isdigit():
    i -= 1
  sep = r0[:i]
  try:
    b0, b1 = int(r0[i:]), int(r1[len(sep):])
  except ValueError:
    return None
  if not r1.startswith(sep) or b1 != b0 + 1:
    return None
  return {'sep': sep, 'base': b0}


def cfg_json(style, conv, capture=False, attr='k'):
  c = conv.get(style) or {'sep': '_', 'base': 0}
  return {'style': style, 'sep': c['sep'], 'base': c['base'], 'attr': attr, 'capture': capture}


# ------------------------------------------------------------------------------------------------
# program generators
# ------------------------------------------------------------------------------------------------

CLS = ['A', 'B', 'C']
PNAMES = ['w0', 'w1', 'w2']
VNAMES = ['v0', 'v1', 'v2', 'w0']  # 'w0' on purpose: same name as a param, other collection
SNAMES = ['s0', 's1']
KNAMES = ['c0', 'c1', 'foo', 'A_1']
VCOLS = ['stats', 'cache', 'stats', 'cache', 'inter']
SCOLS = ['inter', 'intermediates', 'inter', 'intermediates', 'stats']
PCOLS = ['perturbations', 'perturbations', 'pert2']
SHAPES = [[], [2], [3], [2, 2], [1], [0]]


def gen_expr(rng, nenv, depth=2, const_only=False):
  r = rng.random()
  if depth == 0 or r < 0.35:
    opts = ['k']
    if not const_only:
      opts += ['x'] + ['l'] * (2 if nenv else 0)
    c = rng.choice(opts)
    if c == 'k':
      return rng.randrange(-2, 4)
    if c == 'x':
      return 'x'
    return {'l': rng.randrange(nenv)}
  k = '+' if rng.random() < 0.6 else '*'
  return {k: [gen_expr(rng, nenv, depth - 1, const_only), gen_expr(rng, nenv, depth - 1, const_only)]}


def state_paths(body, depth=2):
  """(relative path, collection, name) of the variables a body declares, itself and through explicitly named children"""
  out = []
  for st in body:
    if st['op'] == 'variable':
      out.append(([], st['c'], st['n']))
    elif st['op'] == 'child' and st['name'] is not None and depth > 0:
      out += [([st['name']] + r, c, n) for r, c, n in state_paths(st['body'], depth - 1)]
  return out


def gen_body(rng, depth, nstmts, decl_first=False, linen=True, explicit_p=0.4, wdims=False):
  """One module body. Valid stream: no name is declared twice in a way that clashes."""
  body = []
  kid_stmts = []
  nenv = 0
  kids = 0
  taken = {}  # name -> set of cols (None for a child)
  declared = []  # (col, name) of variables available for get/put

  def free_for(name, col):
    s = taken.get(name)
    if not s:
      return True
    if col is None or None in s:
      return False
    return col not in s

  def take(name, col):
    taken.setdefault(name, set()).add(col)

  def decl():
    nonlocal nenv, kids
    r = rng.random()
    if r < 0.4:
      n = rng.choice(PNAMES)
      if free_for(n, 'params'):
        take(n, 'params')
        shape = list(rng.choice(SHAPES))
        if wdims and rng.random() < 0.45:
          shape = rng.choice([['W'], shape + ['W'], ['W'] + shape[:1]])
        body.append({'op': 'param', 'n': n, 'shape': shape, 'init': rng.randrange(-2, 4)})
        nenv += 1
    elif r < 0.7 or depth == 0:
      c, n = rng.choice(VCOLS), rng.choice(VNAMES)
      if free_for(n, c):
        take(n, c)
        e = gen_expr(rng, nenv, 1, const_only=decl_first)
        body.append({'op': 'variable', 'c': c, 'n': n, 'shape': rng.choice(SHAPES[:5]), 'e': e})
        declared.append((c, n))
        nenv += 1
    else:
      name = rng.choice(KNAMES) if rng.random() < explicit_p else None
      if name is None or free_for(name, None):
        cls = rng.choice(CLS)
        # an automatic name may collide with an explicit one ('A_1'): leave that to the malformed stream
        if name is None and any(k.startswith(cls + '_') for k in taken):
          return
        if name is not None:
          take(name, None)
        else:
          take(f'{cls}_auto{kids}', None)
        sub = gen_body(rng, depth - 1, rng.randrange(2, max(3, nstmts - 1)), decl_first, linen, explicit_p,
                       wdims=not decl_first and rng.random() < 0.5)
        body.append({'op': 'child', 'cls': cls, 'name': name, 'body': sub})
        kid_stmts.append(body[-1])
        kids += 1

  def action():
    nonlocal nenv
    r = rng.random()
    if r < 0.16:
      body.append({'op': 'bind', 'e': gen_expr(rng, nenv)})
      nenv += 1
    elif r < 0.32:
      if declared and rng.random() < 0.8:
        c, n = rng.choice(declared)
      else:
        c, n = rng.choice(VCOLS), rng.choice(VNAMES[:3])
      body.append({'op': 'get', 'c': c, 'n': n})
      nenv += 1
    elif r < 0.5:
      if declared and rng.random() < 0.85:
        c, n = rng.choice(declared)
      else:
        c, n = rng.choice(VCOLS), rng.choice(['u0', 'u1'])
      body.append({'op': 'put', 'c': c, 'n': n, 'e': gen_expr(rng, nenv)})
    elif r < 0.66 and linen:
      body.append({'op': 'sow', 'c': rng.choice(SCOLS), 'n': rng.choice(SNAMES), 'e': gen_expr(rng, nenv)})
    elif r < 0.76 and linen:
      c, n = rng.choice(PCOLS), rng.choice(['p0', 'p1'])
      if free_for(n, c) or (c, n) in [(s['c'], s['n']) for s in body if s['op'] == 'perturb']:
        take(n, c)
        body.append({'op': 'perturb', 'c': c, 'n': n, 'e': gen_expr(rng, nenv)})
        nenv += 1
    elif kids and r < 0.8 and any(k['name'] is not None for k in kid_stmts):
      # a dict-valued write over (part of) the subtree of an explicitly named child
      k = rng.choice([k for k in kid_stmts if k['name'] is not None])
      sp = state_paths(k['body'])
      if sp:
        rel0, c, n0 = rng.choice(sp)
        same = [(r_, n_) for r_, c_, n_ in sp if c_ == c and (r_, n_) != (rel0, n0)]
        st = {'op': 'put', 'c': c, 'rel': [k['name']] + rel0, 'n': n0, 'e': gen_expr(rng, nenv, 1)}
        if same and rng.random() < 0.5:
          r_, n_ = rng.choice(same)
          st['more'] = [[[k['name']] + r_, n_, gen_expr(rng, nenv, 1)]]
        body.append(st)
    elif kids:
      call = {'op': 'call', 'slot': rng.randrange(kids), 'e': gen_expr(rng, nenv, 1)}
      if rng.random() < 0.3:
        call['w'] = rng.choice([1, 2, 2, 3, 4])
      body.append(call)
      nenv += 1

  if decl_first:
    for _ in range(max(1, nstmts // 2)):
      decl()
    for _ in range(nstmts - nstmts // 2):
      action()
  else:
    for _ in range(nstmts):
      if rng.random() < 0.45:
        decl()
      else:
        action()
  # make sure children get called (mostly)
  called = {s['slot'] for s in body if s['op'] == 'call'}
  for k in range(kids):
    if k not in called and rng.random() < 0.85:
      body.append({'op': 'call', 'slot': k, 'e': gen_expr(rng, nenv, 1)})
      nenv += 1
  # calls of one child mostly agree on the argument width (a width-dependent parameter is shared between them)
  for k in range(kids):
    cs = [s_ for s_ in body if s_['op'] == 'call' and s_['slot'] == k]
    if len(cs) > 1 and rng.random() < 0.7:
      for c_ in cs[1:]:
        if 'w' in cs[0]:
          c_['w'] = cs[0]['w']
        else:
          c_.pop('w', None)
  body.append({'op': 'ret', 'e': gen_expr(rng, nenv)})
  return body


def gen_prog(rng, depth=None, flavour=None):
  flavour = flavour or rng.choice(['mixed', 'mixed', 'decl_first', 'decl_first', 'core_ok'])
  depth = rng.choice([0, 1, 1, 2, 2, 3]) if depth is None else depth
  n = rng.randrange(3, 9)
  if flavour == 'decl_only':
    body = gen_body(rng, depth, n, decl_first=rng.random() < 0.5, linen=False)
    return strip_to_decls(body)
  if flavour == 'decl_first':
    return gen_body(rng, depth, n, decl_first=True, linen=rng.random() < 0.6)
  if flavour == 'core_ok':
    return gen_body(rng, depth, n, linen=False)
  return gen_body(rng, depth, n)


def strip_to_decls(body):
  """drops get/put/sow/perturb (they push at most one env slot: replace by a bind of 0 to keep indices)"""
  out = []
  for st in body:
    if st['op'] in ('get', 'perturb'):
      out.append({'op': 'bind', 'e': 0})
    elif st['op'] in ('put', 'sow'):
      continue
    elif st['op'] == 'child':
      out.append(dict(st, body=strip_to_decls(st['body'])))
    else:
      out.append(st)
  return out


def gen_restore_prog(rng):
  """A chain of explicitly named submodules (2-3 deep) ending in a counter; some ancestor first calls the chain
  (every nested scope now refers to its part of the state tree), then writes a dict-valued variable over the
  subtree of its child — two or more levels above the counter —, then calls the chain again.  Declaration-first,
  so it also renders in the setup style; children are re-called."""
  col = rng.choice(['stats', 'cache', 'stats'])
  names = rng.sample(['c0', 'g0', 'h0', 'foo', 'c1'], rng.choice([2, 2, 3]))
  writer = rng.randrange(-1, len(names) - 2)  # -1 = the top-level module; the write lands >= 2 levels above the counter
  extra = rng.random() < 0.5  # a second variable next to the counter

  def leaf():
    b = [{'op': 'variable', 'c': col, 'n': 'cnt', 'shape': [], 'e': rng.randrange(0, 3)}]
    if extra:
      b.append({'op': 'variable', 'c': col, 'n': 'aux', 'shape': rng.choice([[], [2]]), 'e': 1})
    b.append({'op': 'put', 'c': col, 'n': 'cnt', 'e': {'+': [{'l': 0}, 1]}})
    b.append({'op': 'get', 'c': col, 'n': 'cnt'})
    b.append({'op': 'ret', 'e': {'+': [{'l': len(b) - 2}, 'x']} if rng.random() < 0.5 else {'l': len(b) - 2}})
    return b

  def level(i):
    # body of the module that constructs names[i]
    inner = leaf() if i == len(names) - 1 else level(i + 1)
    b = [{'op': 'child', 'cls': rng.choice(CLS), 'name': names[i], 'body': inner}]
    if i >= 0 and rng.random() < 0.4:
      b.insert(0, {'op': 'param', 'n': 'w0', 'shape': [2], 'init': 1})
    nenv = len(b) - 1
    b.append({'op': 'call', 'slot': 0, 'e': 'x'})
    nenv += 1
    if writer == i - 1:
      rel = names[i:]
      st = {'op': 'put', 'c': col, 'rel': rel, 'n': 'cnt', 'e': rng.choice([10, 7, {'+': ['x', 20]}])}
      if extra and rng.random() < 0.6:
        st['more'] = [[rel, 'aux', rng.randrange(2, 6)]]
      b.append(st)
      for _ in range(rng.choice([1, 1, 2])):
        b.append({'op': 'call', 'slot': 0, 'e': {'l': nenv - 1}})
        nenv += 1
    elif rng.random() < 0.3:
      b.append({'op': 'call', 'slot': 0, 'e': {'l': nenv - 1}})
      nenv += 1
    b.append({'op': 'ret', 'e': {'l': nenv - 1}})
    return b

  return level(0)


def gen_nested_prog(rng):
  """a module that functionalises a sub-network inside its body: `y, st = Sub().apply(V, e, mutable=m)` (inner
  variables constant, obtained from an inner init run by the generator) or `Sub().init_with_output(...)`, and
  returns a value that depends on both the inner output and the returned state"""
  inner = gen_body(rng, rng.choice([0, 0, 1]), rng.randrange(2, 6), linen=True)
  body, nenv = [], 0
  if rng.random() < 0.5:
    body.append({'op': 'param', 'n': 'w0', 'shape': rng.choice([[], [2]]), 'init': rng.randrange(1, 3)})
    nenv += 1
  if rng.random() < 0.3:
    body.append({'op': 'sow', 'c': 'intermediates', 'n': 's0', 'e': 'x'})
  st = {'op': 'nested', 'body': inner, 'e': gen_expr(rng, nenv, 1), 'vars': {'cols': [], 'vars': []}}
  wide = [True, True, {'deny': 'params'}, {'deny': 'intermediates'}, ['intermediates', 'stats', 'cache', 'inter', 'params', 'perturbations'],
          {'deny': []}]
  if rng.random() < 0.45:
    st['init'] = True
    st['m'] = rng.choice(wide)
  else:
    Guard.reset()
    r = Rendered(inner, 'compact').init({'params': the_key()}, np.asarray(1, F32), True)
    if r[0] == 'ok' and Guard.peak < LIMIT:
      fj, probs = flatten_vars(r[1][1])
      if not probs:
        st['vars'] = fj
        st['m'] = rng.choice(wide + [False, 'stats', gen_filter(rng), gen_filter(rng)])
    if 'm' not in st:
      st['init'] = True
      st['m'] = True
  body.append(st)
  body.append({'op': 'ret', 'e': {'+': [{'l': nenv}, {'l': nenv + 1}]}})
  if rng.random() < 0.3:
    body = [{'op': 'child', 'cls': 'C', 'name': None, 'body': body}, {'op': 'call', 'slot': 0, 'e': 'x'}, {'op': 'ret', 'e': {'l': 0}}]
  return body


CLASH_KINDS = [
  'child-child', 'child-auto', 'var-var', 'param-param', 'child-var', 'var-child', 'param-var-other-col',
  'var-var-other-col', 'sow-child', 'param-child',
]


def gen_clash(rng, kind):
  """A small body with one deliberate naming situation; returns (body, should_clash)."""
  sub = lambda: [{'op': 'param', 'n': 'w0', 'shape': [2], 'init': 1}, {'op': 'ret', 'e': {'+': ['x', {'l': 0}]}}]
  pre = []
  if rng.random() < 0.5:
    pre.append({'op': 'param', 'n': 'w2', 'shape': [], 'init': 2})
  mid = []
  if rng.random() < 0.5:
    mid.append({'op': 'bind', 'e': 1})
  a, b, clash = None, None, True
  if kind == 'child-child':
    a = {'op': 'child', 'cls': 'A', 'name': 'foo', 'body': sub()}
    b = {'op': 'child', 'cls': rng.choice(['A', 'B']), 'name': 'foo', 'body': sub()}
  elif kind == 'child-auto':
    # explicit name equal to the automatic name of the next unnamed child of that class
    a = {'op': 'child', 'cls': 'B', 'name': 'A_0', 'body': sub()}
    b = {'op': 'child', 'cls': 'A', 'name': None, 'body': sub()}
    clash = 'linen-only'  # the functional core skips to the first free name
  elif kind == 'var-var':
    a = {'op': 'variable', 'c': 'stats', 'n': 'v0', 'shape': [], 'e': 1}
    b = {'op': 'variable', 'c': 'stats', 'n': 'v0', 'shape': [], 'e': 2}
  elif kind == 'param-param':
    a = {'op': 'param', 'n': 'w0', 'shape': [2], 'init': 1}
    b = {'op': 'param', 'n': 'w0', 'shape': [2], 'init': 1}
  elif kind == 'child-var':
    a = {'op': 'child', 'cls': 'A', 'name': 'foo', 'body': sub()}
    b = {'op': 'variable', 'c': 'stats', 'n': 'foo', 'shape': [], 'e': 1}
  elif kind == 'var-child':
    a = {'op': 'variable', 'c': 'stats', 'n': 'foo', 'shape': [], 'e': 1}
    b = {'op': 'child', 'cls': 'A', 'name': 'foo', 'body': sub()}
  elif kind == 'param-child':
    a = {'op': 'param', 'n': 'foo', 'shape': [], 'init': 1}
    b = {'op': 'child', 'cls': 'A', 'name': 'foo', 'body': sub()}
  elif kind == 'param-var-other-col':
    a = {'op': 'param', 'n': 'w0', 'shape': [2], 'init': 1}
    b = {'op': 'variable', 'c': 'stats', 'n': 'w0', 'shape': [], 'e': 1}
    clash = False
  elif kind == 'var-var-other-col':
    a = {'op': 'variable', 'c': 'cache', 'n': 'v0', 'shape': [], 'e': 1}
    b = {'op': 'variable', 'c': 'stats', 'n': 'v0', 'shape': [], 'e': 1}
    clash = False
  elif kind == 'sow-child':
    a = {'op': 'child', 'cls': 'A', 'name': 'foo', 'body': sub()}
    b = {'op': 'sow', 'c': 'inter', 'n': 'foo', 'e': 1}
  body = pre + [a] + mid + [b] + [{'op': 'ret', 'e': 'x'}]
  if rng.random() < 0.5 and kind not in ('sow-child',):
    # put the situation one level down
    body = [{'op': 'child', 'cls': 'C', 'name': None, 'body': body}, {'op': 'call', 'slot': 0, 'e': 'x'}, {'op': 'ret', 'e': {'l': 0}}]
  return body, clash


DECL_KINDS = ['param', 'var:stats', 'var:cache', 'var:params', 'sub']


def decl_stmt(kind, name, i):
  if kind == 'param':
    return {'op': 'param', 'n': name, 'shape': [2] if i % 2 else [], 'init': 1 + i}
  if kind == 'sub':
    return {'op': 'child', 'cls': 'A', 'name': name, 'body': [{'op': 'ret', 'e': 'x'}]}
  return {'op': 'variable', 'c': kind.split(':')[1], 'n': name, 'shape': [3] if i % 2 else [], 'e': 2 + i}


def decl_col(kind):
  return None if kind == 'sub' else ('params' if kind == 'param' else kind.split(':')[1])


def decl_sequence_expect(kinds):
  """index of the first declaration that must raise: some earlier declaration of the same name in this scope has the
  same collection, or either one is a submodule (None reservation); None when the sequence is legal"""
  for i, k in enumerate(kinds):
    for k0 in kinds[:i]:
      c0, c1 = decl_col(k0), decl_col(k)
      if c0 is None or c1 is None or c0 == c1:
        return i
  return None


def decl_sequence_prog(kinds, nested_level=False, other=False):
  body = [decl_stmt(k, 'n0', i) for i, k in enumerate(kinds)]
  if other:
    body.insert(1, {'op': 'variable', 'c': 'stats', 'n': 'zz1', 'shape': [], 'e': 0})
  body.append({'op': 'ret', 'e': 'x'})
  if nested_level:
    body = [{'op': 'child', 'cls': 'C', 'name': None, 'body': body}, {'op': 'call', 'slot': 0, 'e': 'x'}, {'op': 'ret', 'e': {'l': 0}}]
  return body


def depth_of(body):
  return 1 + max([depth_of(st['body']) for st in body if st['op'] == 'child'] + [0])


def count_ops(body):
  c = {}
  for st in walk(body):
    c[st['op']] = c.get(st['op'], 0) + 1
  return c


# ------------------------------------------------------------------------------------------------
# scenarios: one call of init / apply on the implementation, observed; and the matching model request
# ------------------------------------------------------------------------------------------------

_KEY = None


def the_key():
  global _KEY
  if _KEY is None:
    _KEY = jax.random.key(0)
  return _KEY


def canon_result(r):
  """('ok', out_int, vars_json|None, problems) | ('err', name)"""
  if r[0] == 'err':
    return ('err', r[1])
  y, v = r[1]
  if v is None:
    return ('ok', out_int(y), None, [])
  fj, probs = flatten_vars(v)
  return ('ok', out_int(y), fj, probs)


def run_scenario(R, sc):
  """Runs scenario `sc` (dict) on the rendered program `R`; returns the observation dict.

  sc: kind 'init'|'apply', mutable (json), x (int), rngs (bool), capture (bool), ncalls (1..3),
      for apply: vars (model-form json) and frozen (bool).
  Everything the property promises about the *inputs* is checked here, on the real objects."""
  obs = {}
  Guard.reset()
  mut = filter_py(sc['mutable'], sc.get('_rng'))
  x = np.asarray(sc['x'], F32) if sc.get('xw') is None else np.full((sc['xw'],), sc['x'], F32)
  key = the_key()
  rngs = {'params': key} if sc['rngs'] else None
  if sc['kind'] == 'init' and rngs is None:
    rngs = {}
  V = unflatten_vars(sc['vars'], sc.get('frozen', False), sc.get('empties')) if sc['kind'] == 'apply' else None
  # snapshots
  s_x = x.tobytes()
  s_key = snap_key(key)
  s_rngs = None if rngs is None else tuple(sorted(rngs.keys()))
  s_V, ids_V = snap_tree(V) if V is not None else (None, [])
  s_mod = snap_module(R.module) if R.module is not None else None
  s_mut = repr(mut)
  results = []
  peaks = []
  lost = []
  for _ in range(sc.get('ncalls', 1)):
    Guard.peak = 0.0
    Guard.inits = 0
    Guard.shadow, Guard.stale = {}, []
    Guard.nested = []
    if sc['kind'] == 'init':
      r = R.init(rngs, x, mut, capture=sc.get('capture', False))
    else:
      r = R.apply(V, x, rngs, mut, capture=sc.get('capture', False))
    results.append((r, Guard.inits))
    peaks.append(Guard.peak)
    lost += written_values_lost(r, Guard.shadow, Guard.stale)
    obs['nested'] = Guard.nested
    Guard.shadow, Guard.stale, Guard.nested = None, None, None
  obs['lost_writes'] = lost
  obs['peak'] = max(peaks)
  obs['inits'] = results[0][1]
  obs['raw'] = results[0][0]
  obs['result'] = canon_result(results[0][0])
  obs['repeat_equal'] = all(canon_result(r) == obs['result'] and i == obs['inits'] for r, i in results[1:])
  # inputs afterwards
  changed = []
  if x.tobytes() != s_x:
    changed.append('argument')
  if snap_key(key) != s_key:
    changed.append('rng-key')
  if (None if rngs is None else tuple(sorted(rngs.keys()))) != s_rngs:
    changed.append('rngs-dict')
  if V is not None:
    s_V2, ids_V2 = snap_tree(V)
    if s_V2 != s_V:
      changed.append('variables')
    elif not sc.get('frozen', False) and ids_V2 != ids_V:
      changed.append('variables-containers-replaced')
  if R.module is not None:
    if snap_module(R.module) != s_mod:
      changed.append('module')
    if R.module.scope is not None:
      changed.append('module-bound')
  if repr(mut) != s_mut:
    changed.append('mutable-filter')
  obs['inputs_changed'] = changed
  # aliasing between returned and supplied containers
  alias = False
  r0 = results[0][0]
  if r0[0] == 'ok' and r0[1][1] is not None and V is not None:
    out_ids = container_ids(r0[1][1]) if isinstance(r0[1][1], dict) else set()
    alias = bool(out_ids & set(ids_V))
  obs['alias'] = alias
  obs['ret_type'] = type(r0[1][1]).__name__ if r0[0] == 'ok' else None
  return obs


def written_values_lost(r, shadow, stale):
  """"Their new values are returned": every value the program itself wrote (put_variable — leaf or dict-valued —
  or a variable initialiser) and did not overwrite later must be what a later read in the same call saw, and what
  the returned collection holds at that path.  Independent of the model: a shadow dict kept by the interpreter."""
  out = [f'read at {p} in {c!r} returned {got}, the program last wrote {want}' for p, c, want, got in stale]
  if r[0] == 'ok' and r[1][1] is not None:
    ret = r[1][1]
    for (col, path, name), want in shadow.items():
      if col not in ret:
        continue  # not selected by `mutable`: such a write raised, nothing was recorded after it
      node = ret[col]
      try:
        for k in path:
          node = node[k]
        got = float(total(node[name]))
      except (KeyError, TypeError, IndexError):
        out.append(f'{col!r}{list(path) + [name]} was written ({want}) but is missing from the returned collection')
        continue
      if got != want:
        out.append(f'{col!r}{list(path) + [name]}: returned {got}, the program last wrote {want}')
  return out


def model_request(sc, conv):
  cfg = cfg_json(sc['style'], conv, capture=bool(sc.get('capture', False)))
  V = sc['vars'] if sc['kind'] == 'apply' else {'cols': [], 'vars': []}
  return ('apply', [cfg, sc['prog'], sc['mutable'], V, ['params'] if sc['rngs'] else [], sc['x'], sc.get('xw')])


def public(sc):
  """the replayable part of a scenario"""
  return {k: v for k, v in sc.items() if not k.startswith('_')}


def compare_with_model(sc, obs, m):
  """-> None when the model agrees with the implementation, else a short description.
  `m` is the driver reply ('ok', outcome-json) / ('err', enum)."""
  if m[0] != 'ok':
    return f'driver error {m[1]}'
  mo = m[1]
  res = obs['result']
  if 'error' in mo:
    if mo['error'] in ('unsupported', 'sowOnLeaf', 'badSlot', 'fuel'):
      return 'skip:' + mo['error']
    names = model_err_names(mo['error'], sc['style'], sc['prog'])
    if sc.get('empties') and mo['error'] == 'collectionNotFound' and res[0] == 'err' and res[1] in (
        'ScopeVariableNotFoundError', 'ScopeParamNotFoundError'):
      return None  # a collection holding only empty placeholder dicts is "non-empty" for the code, empty in the flat form
    if res[0] != 'err':
      return f"model raises {mo['error']}, implementation returned out={res[1]}"
    if names is None or res[1] not in names:
      return f"model raises {mo['error']}, implementation raised {res[1]}"
    return None
  if res[0] == 'err':
    return f"implementation raised {res[1]}, model returns out={mo['out']}"
  _, out, ret, probs = res
  if sc.get('empties'):
    # empty placeholder subtrees the program did not fill come back as they were: not part of the flat form
    probs = [p_ for p_ in probs if p_[0] != 'empty-nested-dict']
  if out != mo['out']:
    return f"output {out} (implementation) vs {mo['out']} (model)"
  if probs:
    return f'returned tree not representable: {probs[:2]}'
  mret = canon_vars(mo['ret'])
  if ret is None:
    if mret['cols'] or mret['vars']:
      return f'implementation returned no variables, model returns {mret}'
  elif ret != mret:
    return f'returned variables differ: implementation {ret} vs model {mret}'
  if mo['inits'] != obs['inits']:
    return f"parameter initialisations: implementation {obs['inits']}, model {mo['inits']}"
  if mo['dirty']:
    return 'model reports a write into a caller-owned collection'
  return None


def returned_keys_oracle(sc, obs):
  """every existing collection matching `mutable`, and no other (independent filter semantics)"""
  res = obs['result']
  if res[0] != 'ok' or res[2] is None:
    return None
  mj = sc['mutable']
  eff = (lambda c: in_filter_ref(mj, c) or (sc.get('capture', False) and c == 'intermediates'))
  got = set(res[2]['cols'])
  bad = sorted(c for c in got if not eff(c))
  if bad:
    return f'collections {bad} returned although they do not match mutable={mj!r}'
  if sc['kind'] == 'apply':
    missing = sorted(c for c in sc['vars']['cols'] if eff(c) and c not in got)
    if missing:
      return f'collections {missing} exist and match mutable={mj!r} but were not returned'
  heads = sorted({p[0] for p, _ in res[2]['vars']} - got)
  if heads:
    return f'returned leaves outside returned collections: {heads}'
  return None


def immutable_write_oracle(sc, obs):
  """a successful call cannot have executed a write into a collection outside `mutable`"""
  if obs['result'][0] != 'ok':
    return None
  mj = sc['mutable']
  for st in executed(sc['prog']):
    if st['op'] == 'put' and not in_filter_ref(mj, st['c']) and not (sc.get('capture', False) and st['c'] == 'intermediates'):
      return f"put_variable('{st['c']}', '{st['n']}') executed with mutable={mj!r} and the call returned"
  return None


# ------------------------------------------------------------------------------------------------
# a hand-shaped family with a module instance shared between two parents (passed as attribute);
# no Lean counterpart: used for implementation-side oracles only
# ------------------------------------------------------------------------------------------------


class SharedLeaf(nn.Module):
  shape: tuple = (2,)
  init: int = 2

  @nn.compact
  def __call__(self, x):
    w = self.param('w', const_init(self.init), self.shape)
    c = self.variable('stats', 'cnt', lambda: full((), F32(0)))
    c.value = full((), add(total(c.value), F32(1)))
    return add(mul(x, total(w)), total(c.value))


class SharedMid(nn.Module):
  inner: nn.Module
  bias: int = 1

  @nn.compact
  def __call__(self, x):
    b = self.param('b', const_init(self.bias), ())
    return add(self.inner(x), total(b))


class SharedTop(nn.Module):
  shared: nn.Module
  names: tuple = ('a', 'b')

  @nn.compact
  def __call__(self, x):
    u = SharedMid(self.shared, name=self.names[0])
    v = SharedMid(self.shared, bias=3, name=self.names[1])
    return add(u(x), v(x))


class SharedTopSetup(nn.Module):
  shared: nn.Module

  def setup(self):
    self.m0 = SharedMid(self.shared)
    self.m1 = SharedMid(self.shared, bias=3)

  def __call__(self, x):
    return add(self.m0(x), self.m1(x))


def shared_case(rng):
  shape = tuple(rng.choice([[], [2], [3], [2, 2]]))
  init = rng.randrange(-2, 4)
  names = tuple(rng.sample(['a', 'b', 'c0', 'foo'], 2))
  setup_style = rng.random() < 0.5
  x = rng.randrange(-3, 4)
  return {'kind': 'shared', 'shape': list(shape), 'init': init, 'names': list(names), 'setup': setup_style, 'x': x,
          'mutable': rng.choice([False, True, 'stats', {'deny': 'params'}])}


def run_shared(case):
  """-> dict of observations for the shared-instance family"""
  leaf = SharedLeaf(shape=tuple(case['shape']), init=case['init'])
  top = SharedTopSetup(leaf) if case['setup'] else SharedTop(leaf, names=tuple(case['names']))
  x = np.asarray(case['x'], F32)
  key = the_key()
  snap0 = snap_module(top)
  out = {}
  Guard.reset()
  try:
    y0, V = top.init_with_output({'params': key}, x)
  except Exception as e:
    return {'init': ('err', classify(e))}
  out['init'] = ('ok', out_int(y0))
  Vj, probs = flatten_vars(V)
  out['tree'] = Vj
  out['problems'] = probs
  out['module_after_init'] = snap_module(top) == snap0 and top.scope is None and leaf.scope is None and leaf.name is None
  mut = filter_py(case['mutable'])
  Vin = unflatten_vars(Vj)
  sV, ids = snap_tree(Vin)
  rs = []
  for _ in range(2):
    try:
      r = top.apply(Vin, x, mutable=mut)
      rs.append(('ok', out_int(r if mut is False else r[0]), None if mut is False else flatten_vars(r[1])[0]))
    except Exception as e:
      rs.append(('err', classify(e)))
  out['apply'] = rs
  out['vars_unchanged'] = snap_tree(Vin)[0] == sV
  out['module_after_apply'] = snap_module(top) == snap0 and top.scope is None and leaf.scope is None and leaf.name is None
  out['peak'] = Guard.peak
  return out


def shared_expect(case):
  """what the documented semantics give for the shared-instance family (independent of flax and of the model)"""
  n = 1
  for d in case['shape']:
    n *= d
  W = case['init'] * n
  x = case['x']
  mids = ['m0', 'm1'] if case['setup'] else list(case['names'])
  tree = {'cols': ['params', 'stats'], 'vars': sorted([
    [['params', mids[0], 'b'], {'t': [], 'd': [1]}], [['params', mids[1], 'b'], {'t': [], 'd': [3]}],
    [['params', 'shared', 'w'], {'t': list(case['shape']), 'd': [case['init']] * n}],
    [['stats', 'shared', 'cnt'], {'t': [], 'd': [2]}]], key=lambda kv: kv[0])}
  init_out = 2 * x * W + 7
  stats_mutable = in_filter_ref(case['mutable'], 'stats')
  apply_out = ('ok', 2 * x * W + 11) if stats_mutable else ('err', 'ModifyScopeVariableError')
  return {'tree': tree, 'init_out': init_out, 'apply': apply_out}


def check_shared(ctx, case, prop):
  """oracles on the shared-instance family; `prop` selects which clauses are judged (C01 / C02)"""
  o = run_shared(case)
  ctx.case(case)
  ctx.count('shared_family', 'setup' if case['setup'] else 'compact')
  if o.get('peak', 0) >= LIMIT:
    return
  want = shared_expect(case)
  if prop == 'C01':
    if o['init'][0] == 'ok':
      if not o['module_after_init'] or not o['module_after_apply']:
        ctx.violation('input-mutated:module', 'init/apply changed the module object or a module held in one of its fields (shared instance)', case)
      elif not o['vars_unchanged']:
        ctx.violation('input-mutated:variables', 'apply changed the variables passed in (shared-instance family)', case)
      elif o['apply'][0] != o['apply'][1]:
        ctx.violation('repeated-call-differs', f"apply repeated on the same inputs: {o['apply'][0][:2]} then {o['apply'][1][:2]}", case)
    return
  if o['init'] != ('ok', want['init_out']):
    ctx.violation('shared-instance-wrong', f"init returned {o['init']}, the shared submodule semantics give {want['init_out']}", case)
  elif o['problems'] or o['tree'] != want['tree']:
    ctx.violation('shared-instance-tree', f"variables of an instance shared by two parents: got {o['tree']}, expected one subtree under its attribute name: {want['tree']}", case)
  elif tuple(o['apply'][0][:2]) != want['apply']:
    ctx.violation('shared-instance-wrong', f"apply returned {o['apply'][0][:2]}, expected {want['apply']}", case)


# ------------------------------------------------------------------------------------------------
# scope objects that leak out of apply (Scope.temporary / invalidate / _check_valid)
# ------------------------------------------------------------------------------------------------


def gen_leak_ops(rng, V, path):
  """operations to try on a leaked scope at `path`: existing variables for put/get, fresh names for the rest"""
  here = [(p[0], p[-1]) for p, v in V['vars'] if p[1:-1] == list(path) and 't' in v]
  ops = []
  for _ in range(rng.randrange(2, 6)):
    k = rng.choice(['put', 'put', 'get', 'variable', 'param', 'push', 'rewound'])
    if k in ('put', 'get'):
      c, n = rng.choice(here) if here and rng.random() < 0.7 else (rng.choice(VCOLS), 'zq0')
      ops.append({'op': k, 'c': c, 'n': n, 'v': rng.randrange(5, 9)} if k == 'put' else {'op': k, 'c': c, 'n': n})
    elif k == 'variable':
      ops.append({'op': k, 'c': rng.choice(VCOLS), 'n': rng.choice(['zq1', 'zq2']), 'v': rng.randrange(1, 4)})
    elif k == 'param':
      ops.append({'op': k, 'n': rng.choice(['zq3', 'zq4']), 'shape': rng.choice([[], [2]]), 'init': 1})
    elif k == 'push':
      ops.append({'op': k, 'name': rng.choice(['zq5', 'zq6'])})
    else:
      ops.append({'op': k})
  # within one list a fresh name is declared at most once (the scope object keeps its reservations)
  seen, out = set(), []
  for o in ops:
    key = (o['op'], o.get('n'), o.get('name'))
    if o['op'] in ('variable', 'param', 'push') and (o.get('n') or o.get('name')) in seen:
      continue
    seen.add(o.get('n') or o.get('name'))
    out.append(o)
  return out


def run_leak(sc, which):
  """apply, keeping every Scope object seen; then tries sc['ops'] on one of them.
  -> None when not applicable, else dict(handle, results, inputs_changed, returned_after)"""
  R = Rendered(sc['prog'], sc['style'])
  Guard.reset()
  Guard.leaked = []
  mut = filter_py(sc['mutable'])
  V = unflatten_vars(sc['vars'])
  sV, _ = snap_tree(V)
  x = np.asarray(sc['x'], F32)
  r = R.apply(V, x, {'params': the_key()} if sc['rngs'] else None, mut)
  leaked, peak = Guard.leaked, Guard.peak
  Guard.leaked = None
  if peak >= LIMIT or not leaked:
    return None
  roots = [s_ for s_ in leaked if s_ is not None and s_.parent is None]
  kids = [s_ for s_ in leaked if s_ is not None and s_.parent is not None]
  pool = roots if which == 'root' else kids
  if not pool:
    return None
  scope = pool[sc['pick'] % len(pool)]
  path = list(scope.path)
  ops = sc['ops'] if sc.get('ops') is not None else gen_leak_ops(sc['_rng'], sc['vars'], path)
  try:
    scope.reservations.clear()  # the attempts start from a scope without pending declarations, like the model's
  except Exception:
    pass
  results = []
  for o in ops:
    try:
      if o['op'] == 'put':
        scope.put_variable(o['c'], o['n'], np.asarray(o['v'], F32))
      elif o['op'] == 'get':
        scope.get_variable(o['c'], o['n'])
      elif o['op'] == 'variable':
        scope.variable(o['c'], o['n'], lambda o=o: np.asarray(o['v'], F32))
      elif o['op'] == 'param':
        scope.param(o['n'], const_init(o['init']), tuple(o['shape']))
      elif o['op'] == 'push':
        scope.push(o['name'])
      elif o['op'] == 'rewound':
        scope.rewound()
      results.append('ok')
    except Exception as e:
      results.append(classify(e))
  return {'handle': {'path': path, 'invalid': bool(scope.invalid)}, 'ops': ops, 'results': results,
          'inputs_changed': snap_tree(V)[0] != sV, 'apply_result': canon_result(r)}


# ------------------------------------------------------------------------------------------------
# layouts: module instances shared between several parents (dataclass fields at any position, lists /
# dicts of the same instance, created outside or in setup), depth 1-3.  Implementation-side oracles with an
# independent reference semantics; no Lean counterpart beyond `clone_preserves_sharing`.
#
# spec:  leaf   {'k': 'leaf', 'id': i}                      one GLeaf instance per id (same id = same object)
#        holder {'k': 'holder', 'fields': [[name, value, coef], ...], 'bias': b, 'setup': bool}
#        value  = leaf | holder | {'k': 'list', 'items': [value..]} | {'k': 'dict', 'items': {key: value}}
# semantics: leaf(x) = x * sum(w) + cnt   (cnt := cnt + 1 first; one counter per instance)
#            holder(x) = bias_param + sum_i coef_i * field_i(x), fields in declaration order, containers in
#            index / sorted-key order
# ------------------------------------------------------------------------------------------------


class GLeaf(nn.Module):
  shape: tuple = ()
  init: int = 1

  @nn.compact
  def __call__(self, x):
    w = self.param('w', const_init(self.init), self.shape)
    c = self.variable('stats', 'cnt', lambda: full((), F32(0)))
    c.value = full((), add(total(c.value), F32(1)))
    return add(mul(x, total(w)), total(c.value))


_HOLDER_CLASSES = {}


def _call_value(v, coef_x):
  """sum of the calls of every module in a field value (module / tuple / FrozenDict), in flax's naming order"""
  if isinstance(v, nn.Module):
    return v(coef_x)
  if isinstance(v, (tuple, list)):
    acc = F32(0)
    for e in v:
      acc = add(acc, _call_value(e, coef_x))
    return acc
  acc = F32(0)
  for k in sorted(v.keys()):
    acc = add(acc, _call_value(v[k], coef_x))
  return acc


def holder_class(names, coefs, bias, in_setup, spec_fields=None, leaves_cfg=None):
  key = (tuple(names), tuple(coefs), bias, in_setup, id(spec_fields) if in_setup else None)
  if key in _HOLDER_CLASSES:
    return _HOLDER_CLASSES[key]

  def __call__(self, x):
    out = total(self.param('b', const_init(bias), ()))
    for n, c in zip(names, coefs):
      out = add(out, mul(F32(c), _call_value(getattr(self, n), x)))
    return out

  ns = {'__call__': nn.compact(__call__)}
  if in_setup:
    def setup(self):
      made = {}
      for n, v, _ in spec_fields:
        setattr(self, n, build_value(v, made, leaves_cfg))

    ns['setup'] = setup
    ns['__call__'] = __call__  # setup + compact cannot be mixed with `param` in a compact method: declare b in setup
    def setup2(self, _s=setup):
      _s(self)
      self.b_ = self.param('b', const_init(bias), ())

    def call2(self, x):
      out = total(self.b_)
      for n, c in zip(names, coefs):
        out = add(out, mul(F32(c), _call_value(getattr(self, n), x)))
      return out

    ns = {'setup': setup2, '__call__': call2}
  else:
    ns['__annotations__'] = {n: object for n in names}
  cls = type('H' + ''.join(n[0] for n in names), (nn.Module,), ns)
  _HOLDER_CLASSES[key] = cls
  return cls


def build_value(v, made, leaves_cfg):
  if v['k'] == 'leaf':
    if v['id'] not in made:
      sh, ini = leaves_cfg[str(v['id'])]
      made[v['id']] = GLeaf(shape=tuple(sh), init=ini)
    return made[v['id']]
  if v['k'] == 'list':
    return [build_value(e, made, leaves_cfg) for e in v['items']]
  if v['k'] == 'dict':
    return {k: build_value(e, made, leaves_cfg) for k, e in v['items'].items()}
  names = [f[0] for f in v['fields']]
  coefs = [f[2] for f in v['fields']]
  if v.get('setup'):
    return holder_class(names, coefs, v['bias'], True, v['fields'], leaves_cfg)()
  cls = holder_class(names, coefs, v['bias'], False)
  return cls(**{n: build_value(val, made, leaves_cfg) for n, val, _ in v['fields']})


def layout_reference(spec, leaves_cfg, x, W=None, cnt0=None):
  """independent evaluation: output, expected variable tree (first adopting path per instance), use counts.
  Instances created inside a setup-holder are local to it (a fresh `made` per setup holder)."""
  tree = {}  # path tuple -> ('w', id) / ('b', value)
  state = {}  # instance key -> dict(W, cnt, path)

  def inst_key(v, scope_key):
    return (scope_key, v['id'])

  def adopt(v, path, scope_key):
    """registration pass: DFS in field order; containers by index / sorted key"""
    if v['k'] == 'leaf':
      k = inst_key(v, scope_key)
      if k not in state:
        sh, ini = leaves_cfg[str(v['id'])]
        n = 1
        for d in sh:
          n *= d
        state[k] = {'W': ini * n, 'cnt': 0, 'path': path, 'shape': list(sh), 'init': ini, 'n': n}
      return
    if v['k'] == 'holder':
      sk = scope_key + (path,) if v.get('setup') else scope_key
      tree[path + ('b',)] = v['bias']
      for n, val, _ in v['fields']:
        adopt_value(val, path, n, sk)

  def adopt_value(val, path, name, sk):
    if val['k'] == 'list':
      for i, e in enumerate(val['items']):
        adopt_value_named(e, path, f'{name}_{i}', sk)
    elif val['k'] == 'dict':
      for k in sorted(val['items']):
        adopt_value_named(val['items'][k], path, f'{name}_{k}', sk)
    else:
      adopt(val, path + (name,), sk)

  def adopt_value_named(e, path, name, sk):
    if e['k'] in ('list', 'dict'):
      adopt_value(e, path, name, sk)
    else:
      adopt(e, path + (name,), sk)

  adopt(spec, (), ())
  if W is not None:
    for k, w in W.items():
      state[k]['W'] = w
  if cnt0 is not None:
    for k, c in cnt0.items():
      state[k]['cnt'] = c

  def run(v, xx, path, scope_key):
    if v['k'] == 'leaf':
      st = state[inst_key(v, scope_key)]
      st['cnt'] += 1
      return xx * st['W'] + st['cnt']
    if v['k'] == 'list':
      return sum(run(e, xx, path, scope_key) for e in v['items'])
    if v['k'] == 'dict':
      return sum(run(v['items'][k], xx, path, scope_key) for k in sorted(v['items']))
    sk = scope_key + (path,) if v.get('setup') else scope_key
    out = v['bias']
    for n, val, c in v['fields']:
      out += c * run(val, xx, path + (n,), sk)
    return out

  y = run(spec, x, (), ())
  return y, tree, state


def layout_expected_vars(tree, state):
  vs = []
  for p, b in tree.items():
    vs.append([['params'] + list(p), {'t': [], 'd': [b]}])
  for k, st in state.items():
    vs.append([['params'] + list(st['path']) + ['w'], {'t': st['shape'], 'd': [st['init']] * st['n']}])
    vs.append([['stats'] + list(st['path']) + ['cnt'], {'t': [], 'd': [st['cnt']]}])
  return {'cols': ['params', 'stats'], 'vars': sorted(vs, key=lambda kv: kv[0])}


def gen_layout(rng):
  """a top-level holder (depth 1-3) in which leaf instance 0 is referenced from 2-3 places, at every position"""
  leaves_cfg = {'0': [rng.choice([[], [2], [3]]), rng.randrange(1, 4)], '1': [rng.choice([[], [2]]), rng.randrange(1, 3)]}
  depth = rng.choice([1, 2, 2, 3])
  names_pool = ['enc', 'dec', 'tab', 'aux', 'm0', 'zz']

  def leafref(i):
    return {'k': 'leaf', 'id': i}

  def wrap(v):
    r = rng.random()
    if r < 0.15:
      return {'k': 'list', 'items': [v, leafref(1)] if rng.random() < 0.5 else [v]}
    if r < 0.3:
      return {'k': 'dict', 'items': {rng.choice(['a', 'z']): v}}
    return v

  def holder(d, must_share, setup_ok=True):
    nf = rng.randrange(1, 4)
    names = rng.sample(names_pool, nf)
    fields = []
    for n in names:
      r = rng.random()
      if d > 1 and r < 0.6:
        val = holder(d - 1, must_share, setup_ok=False)
      elif r < 0.85 or must_share:
        val = wrap(leafref(0))
      else:
        val = leafref(1)
      fields.append([n, val, rng.randrange(1, 3)])
    return {'k': 'holder', 'fields': fields, 'bias': rng.randrange(0, 3), 'setup': False}

  spec = holder(depth, True)
  # make sure instance 0 occurs at least twice and in two different fields of the top-level holder
  uses = _count_leaf(spec, 0)
  if uses < 2:
    pos = rng.randrange(len(spec['fields']) + 1)
    name = next(n for n in names_pool + ['q1', 'q2'] if n not in [f[0] for f in spec['fields']])
    spec['fields'].insert(pos, [name, wrap(leafref(0)) if rng.random() < 0.5 else
                                {'k': 'holder', 'fields': [['tab', leafref(0), 1]], 'bias': 0, 'setup': False}, 1])
    if _count_leaf(spec, 0) < 2:
      name2 = next(n for n in ['q3', 'q4'] if n not in [f[0] for f in spec['fields']])
      spec['fields'].insert(rng.randrange(len(spec['fields']) + 1), [name2, {'k': 'holder', 'fields': [['tab', leafref(0), 2]], 'bias': 1, 'setup': False}, 1])
  if rng.random() < 0.25:
    spec['setup'] = True  # the whole layout is created inside the top module's setup()
  return {'kind': 'layout', 'spec': spec, 'leaves': leaves_cfg, 'x': rng.randrange(-2, 3)}


def _count_leaf(v, i):
  if v['k'] == 'leaf':
    return 1 if v['id'] == i else 0
  if v['k'] == 'list':
    return sum(_count_leaf(e, i) for e in v['items'])
  if v['k'] == 'dict':
    return sum(_count_leaf(e, i) for e in v['items'].values())
  return sum(_count_leaf(f[1], i) for f in v['fields'])


def module_positions(m, ident):
  """per dataclass field of `m`, the identities (via `ident`) at every module-valued position inside it, in
  visiting order: the module itself, then (recursively) the positions of its own fields"""
  import dataclasses as _dc

  def inside(v, out):
    if isinstance(v, nn.Module):
      out.append(ident(v))
      for f in _dc.fields(v):
        if f.name not in ('parent', 'name') and f.init:
          inside(getattr(v, f.name), out)
    elif isinstance(v, (list, tuple)):
      for e in v:
        inside(e, out)
    elif isinstance(v, (dict, FrozenDict)):
      for k in sorted(v.keys()):
        inside(v[k], out)

  fields = []
  for f in _dc.fields(m):
    if f.name not in ('parent', 'name') and f.init:
      out = []
      inside(getattr(m, f.name), out)
      fields.append(out)
  return fields


def partition(fields):
  """canonical numbering of identities by first occurrence, keeping the field structure"""
  seen = {}
  return [[seen.setdefault(i, len(seen)) for i in f] for f in fields]


def check_clone(ctx, case, top, pending):
  """Module.clone(_deep_clone=True) keeps exactly the sharing of the original (oracle) and matches the model"""
  orig = module_positions(top, id)
  try:
    cl = top.clone(_deep_clone=True)
  except Exception as e:
    ctx.violation('clone-raises', f'clone(_deep_clone=True) raised {classify(e)}', case)
    return
  new = module_positions(cl, lambda m: m._id)
  objs = module_positions(cl, id)
  ctx.count('oracle', 'clone-preserves-sharing')
  if partition(new) != partition(orig) or partition(objs) != partition(orig):
    ctx.violation('clone-breaks-sharing', f'sharing pattern of the module-valued positions per field: original {partition(orig)}, after clone(_deep_clone=True) {partition(new)}', case)
    return
  flat_o = {i for f in orig for i in f}
  if any(i in flat_o for f in objs for i in f):
    ctx.violation('clone-aliases-original', 'a deep clone still holds a submodule object of the original', case)
    return
  if pending is not None:
    pending.append(({'kind': 'clone', 'fields': partition(orig), 'want': partition(new)}, None))


def check_layout(ctx, case, prop, pending=None):
  spec, leaves_cfg, x = case['spec'], case['leaves'], case['x']
  ctx.case(case)
  ctx.count('layout', 'setup' if spec.get('setup') else 'fields')
  ctx.count('layout_uses_of_shared', _count_leaf(spec, 0))
  top = build_value(spec, {}, leaves_cfg)
  snap0 = snap_module(top)
  xin = np.asarray(x, F32)
  Guard.reset()
  try:
    y0, V = top.init_with_output({'params': the_key()}, xin)
  except Exception as e:
    ctx.violation('shared-layout-init-raises', f'init of a layout with a shared instance raised {classify(e)}', case)
    return
  if Guard.peak >= LIMIT:
    return
  y_ref, tree, state = layout_reference(spec, leaves_cfg, x)
  want = layout_expected_vars(tree, state)
  got, probs = flatten_vars(V)
  if prop == 'C01':
    if snap_module(top) != snap0 or top.scope is not None:
      ctx.violation('input-mutated:module', 'init changed the module object or a module held in one of its fields (shared layout)', case)
    return
  if not spec.get('setup'):
    check_clone(ctx, case, top, pending)
  nleaves = sum(1 for p, _ in got['vars'] if p[0] == 'params' and p[-1] == 'w')
  if nleaves != len(state):
    ctx.violation('shared-instance-duplicated', f'{len(state)} distinct submodule instances but init returned {nleaves} parameter subtrees: {[p for p, _ in got["vars"] if p[-1] == "w"]}', case)
    return
  if probs or got != want:
    ctx.violation('shared-instance-tree', f'variables of a layout with shared instances: got {got}, expected one subtree per instance under its first adopting path: {want}', case)
    return
  if out_int(y0) != y_ref:
    ctx.violation('shared-instance-wrong', f'init returned {out_int(y0)}, the sharing semantics give {y_ref}', case)
    return
  # apply, and apply with the shared leaf edited: every parent must see the new value
  cnt0 = {k: st['cnt'] for k, st in state.items()}
  for edit in (False, True):
    Vj = {'cols': got['cols'], 'vars': [list(kv) for kv in got['vars']]}
    W = None
    if edit:
      k0 = next(k for k in state if k[-1] == 0)
      st = state[k0]
      newv = st['init'] + 2
      for kv in Vj['vars']:
        if kv[0] == ['params'] + list(st['path']) + ['w']:
          kv[1] = {'t': st['shape'], 'd': [newv] * st['n']}
      W = {k0: newv * st['n']}
    y_ref2, _, state2 = layout_reference(spec, leaves_cfg, x, W=W, cnt0=cnt0)
    Guard.reset()
    try:
      y2, upd = top.apply(unflatten_vars(Vj), xin, mutable='stats')
    except Exception as e:
      ctx.violation('shared-instance-wrong', f'apply on init\'s variables raised {classify(e)} (edited={edit})', case)
      return
    if Guard.peak >= LIMIT:
      return
    ctx.count('oracle', 'layout-apply' + ('-edited' if edit else ''))
    if out_int(y2) != y_ref2:
      ctx.violation('shared-instance-wrong', f'apply (shared leaf edited={edit}) returned {out_int(y2)}, every parent reading the one shared variable gives {y_ref2}', case)
      return
    cnts = {tuple(p[1:-1]): v['d'][0] for p, v in flatten_vars(upd)[0]['vars'] if p[0] == 'stats'}
    if cnts != {tuple(st['path']): st['cnt'] for st in state2.values()}:
      ctx.violation('shared-instance-wrong', f'use counters after apply {cnts}, expected {[(st["path"], st["cnt"]) for st in state2.values()]}', case)
      return
  # bind / unbind: the shared instance reached through ANY parent hands back the one shared state
  if not spec.get('setup'):
    try:
      bound = top.bind(unflatten_vars(got))
      for n, val, _ in spec['fields']:
        if val['k'] == 'holder':
          for n2, val2, _ in val['fields']:
            if val2['k'] == 'leaf':
              _, lv = getattr(getattr(bound, n), n2).unbind()
              st = state[((), val2['id'])]
              lj, _ = flatten_vars(lv)
              wv = [v for p, v in lj['vars'] if p == ['params', 'w']]
              ctx.count('oracle', 'layout-unbind-shared')
              if wv != [{'t': st['shape'], 'd': [st['init']] * st['n']}]:
                ctx.violation('shared-instance-unbind', f'unbind of the shared instance reached through {n}.{n2} returned {lj}', case)
                return
    except Exception as e:
      ctx.violation('shared-instance-unbind', f'bind/unbind on a layout with a shared instance raised {classify(e)}', case)


# ------------------------------------------------------------------------------------------------
# functional calls on an ALREADY BOUND submodule: `self.bar.apply(vars, x, ...)` / `.init_with_output(...)` from
# inside another module's method, and `foo.bind(V).bar.apply(other_vars, ...)`.  `bar` is a layout (holders with
# dataclass-field submodules, depth >= 2, leaves with counters).  Implementation-side oracles: the nested call equals
# the stand-alone call on the same variables, and the enclosing call is untouched by it.
# ------------------------------------------------------------------------------------------------

_FOO_CLASSES = {}


def foo_class(as_field, spec_key, spec, leaves_cfg):
  key = (as_field, spec_key)
  if key not in _FOO_CLASSES:
    if as_field:
      def __call__(self, x):
        return self.bar(x)

      _FOO_CLASSES[key] = type('FooF', (nn.Module,), {'__annotations__': {'bar': object}, '__call__': __call__})
    else:
      def setup(self):
        self.bar = build_value(spec, {}, leaves_cfg)

      def __call__(self, x):
        return self.bar(x)

      _FOO_CLASSES[key] = type('FooS', (nn.Module,), {'setup': setup, '__call__': __call__})
  return _FOO_CLASSES[key]


def gen_bound_nested(rng):
  lay = gen_layout(rng)
  spec = lay['spec']
  spec['setup'] = False
  # the FIRST module-valued field of `bar` holds a module attribute itself (depth >= 2), and there are >= 2 fields
  first = {'k': 'holder', 'fields': [['leaf', {'k': 'leaf', 'id': rng.choice([0, 1])}, 1]] +
           ([['aux', {'k': 'leaf', 'id': 1}, 2]] if rng.random() < 0.5 else []), 'bias': rng.randrange(0, 2), 'setup': False}
  if rng.random() < 0.5:
    first = {'k': 'holder', 'fields': [['mid', first, 1]], 'bias': 0, 'setup': False}
  names = [f[0] for f in spec['fields']]
  spec['fields'].insert(0, [next(n for n in ['fst', 'fs2'] if n not in names), first, 1])
  return {'kind': 'bound-nested', 'spec': spec, 'leaves': lay['leaves'], 'x': lay['x'], 'as_field': rng.random() < 0.5,
          'mode': rng.choice(['nested_only', 'nested_only', 'both', 'reinit', 'bind']),
          'mut': rng.choice([['stats'], 'stats', True, {'deny': 'params'}, ['stats', 'params']]),
          'outer_mut': rng.choice([False, False, 'stats', True])}


def _state_json(st):
  return None if st is None else flatten_vars(st)[0]


def _try(fn):
  try:
    return ('ok', fn())
  except Exception as e:
    return ('err', classify(e))


def check_bound_nested(ctx, case):
  spec, leaves_cfg, x = case['spec'], case['leaves'], case['x']
  mode, mj, omj = case['mode'], case['mut'], case['outer_mut']
  ctx.case(case)
  ctx.count('bound_nested', mode + (':field' if case['as_field'] else ':setup'))
  xin = np.asarray(x, F32)
  key = the_key()
  mk_bar = lambda: build_value(spec, {}, leaves_cfg)
  Foo = foo_class(case['as_field'], id(spec), spec, leaves_cfg)
  foo = Foo(bar=mk_bar()) if case['as_field'] else Foo()
  snap0 = snap_module(foo)
  Guard.reset()
  r0 = _try(lambda: foo.init_with_output({'params': key}, xin))
  rb = _try(lambda: mk_bar().init_with_output({'params': key}, xin))
  if r0[0] != 'ok' or rb[0] != 'ok' or Guard.peak >= LIMIT:
    return
  foo_vars, _ = flatten_vars(r0[1][1])
  bj, _ = flatten_vars(rb[1][1])
  # the variables handed to the nested call differ from the enclosing ones: other weights, other counters
  for kv in bj['vars']:
    bump = 2 if kv[0][0] == 'params' else 5
    kv[1] = {'t': kv[1]['t'], 'd': [d + bump for d in kv[1]['d']]}
  mut, omut = filter_py(mj), filter_py(omj)
  FV, BV = unflatten_vars(foo_vars), unflatten_vars(bj)
  sF, _ = snap_tree(FV)
  sB, _ = snap_tree(BV)

  def canon(r):
    if r[0] == 'err':
      return r
    v = r[1]
    if isinstance(v, tuple) and len(v) == 2 and isinstance(v[1], (dict, FrozenDict)):
      return ('ok', out_int(v[0]), _state_json(v[1]))
    return ('ok', out_int(v), None)

  Guard.reset()
  ref = canon(_try(lambda: mk_bar().apply(unflatten_vars(bj), xin, mutable=mut)))
  ref_init = canon(_try(lambda: mk_bar().init_with_output({'params': key}, xin)))
  results = []
  for _ in range(2):
    if mode == 'bind':
      res = _try(lambda: foo.bind(FV).bar.apply(BV, xin, mutable=mut))
      results.append((canon(res), None))
      continue
    if mode == 'nested_only':
      meth = lambda m, a, iv: m.bar.apply(iv, a, mutable=mut)
    elif mode == 'both':
      meth = lambda m, a, iv: (m.bar(a), m.bar.apply(iv, a, mutable=mut))
    else:
      meth = lambda m, a, iv: (m.bar(a), m.bar.init_with_output({'params': key}, a))
    res = _try(lambda: foo.apply(FV, xin, BV, method=meth, mutable=omut))
    upd = None
    if res[0] == 'ok' and omut is not False:
      res, upd = ('ok', res[1][0]), _state_json(res[1][1])
    if res[0] == 'ok' and mode in ('both', 'reinit'):
      y_outer, inner = res[1]
      results.append((canon(('ok', inner)), (out_int(y_outer), upd)))
    else:
      results.append((canon(res) if res[0] == 'ok' else res, (None, upd)))
  if Guard.peak >= LIMIT:
    return
  # what the enclosing call alone does (same method without the nested call)
  outer_alone = None
  if mode in ('both', 'reinit'):
    oa = _try(lambda: foo.apply(unflatten_vars(foo_vars), xin, method=lambda m, a: m.bar(a), mutable=omut))
    if oa[0] == 'ok':
      outer_alone = (out_int(oa[1][0]), _state_json(oa[1][1])) if omut is not False else (out_int(oa[1]), None)
    else:
      outer_alone = oa
  want = ref_init if mode == 'reinit' else ref
  got, outer = results[0]
  ctx.count('bound_nested_result', 'ok' if got[0] == 'ok' else str(got[1]))
  if results[1] != results[0]:
    ctx.violation('nested-on-bound-child:repeat-differs', f'the same call twice: {results[0]} then {results[1]}', case)
  elif mode in ('both', 'reinit') and isinstance(outer_alone, tuple) and outer_alone[0] == 'err':
    pass  # the enclosing stateful call itself is refused by the enclosing filter: nothing to compare
  elif got != want and not (got[0] == 'err' and mode in ('both', 'reinit') and omut is False):
    ctx.violation('nested-on-bound-child:differs-from-standalone', f'a functional call on a bound submodule ({mode}) gave {got}; the same submodule applied stand-alone on the same variables gives {want}', case)
  elif mode in ('both', 'reinit') and got[0] == 'ok' and outer_alone is not None and outer != outer_alone:
    ctx.violation('nested-on-bound-child:leaks-into-enclosing', f'enclosing call output/returned collections {outer} with the nested functional call, {outer_alone} without it', case)
  elif snap_tree(FV)[0] != sF or snap_tree(BV)[0] != sB:
    ctx.violation('input-mutated:variables', 'a nested functional call on a bound submodule changed the variables of the enclosing call or its own', case)
  elif snap_module(foo) != snap0 or foo.scope is not None:
    ctx.violation('input-mutated:module', 'a nested functional call on a bound submodule changed the module object', case)


# ------------------------------------------------------------------------------------------------
# apply / init on modules that are (or hold) ALREADY BOUND submodules, with variables that differ from the bound ones
# ------------------------------------------------------------------------------------------------


def _sub_vars(V, path):
  out = {'cols': [], 'vars': []}
  n = len(path)
  for p, v in V['vars']:
    if len(p) > n + 1 and p[1:n + 1] == list(path):
      out['vars'].append([[p[0]] + p[n + 1:], v])
      if p[0] not in out['cols']:
        out['cols'].append(p[0])
  return canon_vars(out)


def _bump(V, dp, ds):
  return {'cols': list(V['cols']), 'vars': [[p, {'t': v['t'], 'd': [d + (dp if p[0] == 'params' else ds) for d in v['d']]}] for p, v in V['vars']]}


def _leaf_ids(v):
  if v['k'] == 'leaf':
    return {v['id']}
  if v['k'] == 'list':
    return set().union(*[_leaf_ids(e) for e in v['items']]) if v['items'] else set()
  if v['k'] == 'dict':
    return set().union(*[_leaf_ids(e) for e in v['items'].values()]) if v['items'] else set()
  return set().union(*[_leaf_ids(f[1]) for f in v['fields']]) if v['fields'] else set()


def check_bound_apply(ctx, case):
  """C02: what a module consumes is the variables it is given — also when it, or a module in one of its dataclass
  fields, is already bound to other variables; init -> apply agree for a module wrapping a bound submodule"""
  spec, leaves_cfg, x = case['spec'], case['leaves'], case['x']
  ctx.case(case)
  xin = np.asarray(x, F32)
  key = the_key()
  top = build_value(spec, {}, leaves_cfg)
  Guard.reset()
  r0 = _try(lambda: top.init_with_output({'params': key}, xin))
  if r0[0] != 'ok' or Guard.peak >= LIMIT:
    return
  V1, probs = flatten_vars(r0[1][1])
  if probs:
    return
  V2 = _bump(V1, 2, 5)
  _, _, state = layout_reference(spec, leaves_cfg, x)

  def canon(r):
    if r[0] == 'err':
      return r
    v = r[1]
    if isinstance(v, tuple) and len(v) == 2 and isinstance(v[1], (dict, FrozenDict)):
      return ('ok', out_int(v[0]), flatten_vars(v[1])[0])
    return ('ok', out_int(v), None)

  bound = top.bind(unflatten_vars(V1))
  # (0) the bound top-level module applied to other variables
  got = canon(_try(lambda: bound.apply(unflatten_vars(V2), xin, mutable='stats')))
  want = canon(_try(lambda: build_value(spec, {}, leaves_cfg).apply(unflatten_vars(V2), xin, mutable='stats')))
  ctx.count('oracle', 'bound-apply:top')
  if Guard.peak < LIMIT and got != want:
    ctx.violation('bound-apply-ignores-variables', f'apply on a bound module with other variables gave {got[:2]}, the unbound module on the same variables gives {want[:2]}', dict(case, where='top'))
    return
  for n, val, _ in spec['fields']:
    if val['k'] != 'holder':
      continue
    # (a) a bound submodule whose own fields hold further bound modules, applied to ANOTHER subtree
    self_contained = all(state[((), i)]['path'][:1] == (n,) for i in _leaf_ids(val))
    if self_contained:
      sub = getattr(bound, n)
      subV2 = _sub_vars(V2, [n])
      Guard.reset()
      got = canon(_try(lambda: sub.apply(unflatten_vars(subV2), xin, mutable='stats')))
      want = canon(_try(lambda: build_value(val, {}, leaves_cfg).apply(unflatten_vars(subV2), xin, mutable='stats')))
      ctx.count('oracle', 'bound-apply:submodule')
      if Guard.peak < LIMIT and got != want:
        ctx.violation('bound-apply-ignores-variables', f'apply on the bound submodule {n!r} with another subtree gave {got}, the stand-alone submodule on that subtree gives {want}', dict(case, where=n))
        return
    # (b) a bound (grand)child wrapped as a dataclass field of a NEW unbound module: init -> apply
    for n2, val2, _ in val['fields']:
      if val2['k'] not in ('leaf', 'holder') or (val2['k'] == 'holder' and not all(
          state[((), i)]['path'][:2] == (n, n2) for i in _leaf_ids(val2))):
        continue
      if val2['k'] == 'leaf' and state[((), val2['id'])]['path'] != (n, n2):
        continue
      Wrap = holder_class(['inner'], [1], 1, False)
      inner_bound = getattr(getattr(bound, n), n2)
      outer = Wrap(inner=inner_bound)
      ref = Wrap(inner=build_value(val2, {}, leaves_cfg))
      Guard.reset()
      ri = _try(lambda: outer.init_with_output({'params': key}, xin))
      rr = _try(lambda: ref.init_with_output({'params': key}, xin))
      ctx.count('oracle', 'rewrapped-bound:init-apply')
      if Guard.peak >= LIMIT:
        continue
      if canon(ri) != canon(rr):
        ctx.violation('rewrapped-bound-init-differs', f'init of a new module holding the bound submodule {n}.{n2} gave {canon(ri)}, with the unbound submodule {canon(rr)}', dict(case, where=[n, n2]))
        return
      if ri[0] != 'ok':
        continue
      v3 = _bump(flatten_vars(ri[1][1])[0], 3, 7)
      got = canon(_try(lambda: outer.apply(unflatten_vars(v3), xin, mutable='stats')))
      want = canon(_try(lambda: ref.apply(unflatten_vars(v3), xin, mutable='stats')))
      if Guard.peak < LIMIT and got != want:
        ctx.violation('rewrapped-bound-init-apply-disagree', f"the variables init returned for a module holding the bound submodule {n}.{n2}, re-applied (other weights), give {got[:2]}; what apply must consume gives {want[:2]}", dict(case, where=[n, n2]))
        return
      v3m = {'cols': v3['cols'], 'vars': [kv for kv in v3['vars'] if not (kv[0][0] == 'params' and kv[0][1] == 'inner')]}
      miss = _try(lambda: outer.apply(unflatten_vars(v3m), xin, mutable='stats'))
      if miss[0] == 'ok' and any(kv[0][0] == 'params' and kv[0][1] == 'inner' for kv in v3['vars']):
        ctx.violation('missing-param-accepted', f'apply without the parameters of the wrapped (bound) submodule returned {out_int(miss[1][0])} instead of raising', dict(case, where=[n, n2]))
        return
      break
