"""C16 — Flatten/unflatten of nested dicts and NNX State conversions are mutual inverses.

Theorems: lean/Flax/Props/C16.lean over lean/Flax/Model/Traverse.lean and lean/Flax/Model/State.lean.
Correspondence: exhaustive small scope + seeded random, the real flax (traverse_util, nnx.traversals,
nnx.statelib) against the compiled Lean driver. Dicts are compared as dicts (key order is not part of the
property; order agreement is only counted), errors by class, leaves by value and kind. The property oracles
(round trips, prune, first-match partition, later-wins, set difference) are evaluated directly on the
implementation with independent Python reference routines.
"""
from __future__ import annotations

import functools
import warnings
from collections.abc import Mapping

from harness import compat  # noqa: F401  (must precede flax)
from harness.common import LeanDriver, load_corpus

from flax import nnx
from flax import traverse_util as tu
from flax.core.frozen_dict import FrozenDict
from flax.nnx import statelib
from flax.nnx import traversals as nt

SPEC = {
  'exes': ['drv_c16'],
  'rule': (
    'Nested dicts: every string-keyed tree with <= N nodes (quick N=4, thorough N=5) over keys {a,b,"","0"} incl. '
    'empty dicts, leaves numbered depth-first, x keep_empty_nodes x sep in {None,"/","::"} x is_leaf in {none, '
    'depth-1, depth-2, last-key, has-key, always}, both libraries (traverse_util and nnx.traversals), dict and '
    'FrozenDict inputs; seeded random deeper trees over 12 keys; flat maps (prefix-free, shuffled) for the other '
    'direction; a malformed stream (keys containing or overlapping the separator, prefix conflicts, empty path). '
    'NNX State: random States with str/int keys and VariableState or plain leaves, pairs with overlapping paths, '
    'filter lists of 1-6 filters: callable / path predicates, plain Variable classes from a subclass hierarchy (Variable, Param, LoRAParam, '
    'MyParam, MyLoRA, BatchStat, Cache, Intermediate; overlapping, base-first and subclass-first, every ordered pair exhaustively) and a closing `...`, '
    'through split_state, filter_state, State.split/filter and FlatState.split/filter. A case is non-trivial when the tree has at least one leaf below '
    'the first level or an empty sub-dict; distinct = distinct canonical JSON of the case.'
  ),
  'trusted_base': [
    'hand-written Lean models lean/Flax/Model/Traverse.lean and lean/Flax/Model/State.lean (tied to /repo by this run)',
    'harness/props/c16.py (generators, canonicalisation, reference routines), harness/compat.py (JAX shim)',
    'Python dict insertion order / str.join / str.split / tuple comparison as rendered by the model (A-PY)',
  ],
  'assumptions': [
    'is_leaf is never true at the root (DESIGN §7; the excluded point is theorem root_leaf_guard, finding F7: observed, not reported)',
    'a leaf is never the empty_node sentinel itself; leaves are not Mappings',
    'the tree model is container-kind agnostic: a dict node stands for any accepted mapping (dict or FrozenDict, mixed at any depth); the harness feeds plain, frozen and mixed inputs',
    'separator-joined keys: the separator does not occur in key + sep[:-1] (NoOverlap); for a 1-character separator this is '
    '"not in any key"; the weaker reading fails for longer separators (theorem sep_overlap_counterexample, proposed finding sep-overlap)',
    'sibling keys of a State are all str or all int (Python cannot sort mixed paths); try_convert_int is modelled on optional "-" + ASCII digits',
    'dict equality is the structural, order-insensitive DictEq (Python ==); theorem dictEq_iff_content_perm ties it to equality of the complete path->value content up to permutation, which is what the permutation-level theorems establish',
  ],
  'model_partial': [],
}

# ------------------------------------------------------------------------------------------------
# encodings
# ------------------------------------------------------------------------------------------------


def leaf_val(x):
  if isinstance(x, (nnx.VariableState, nnx.Variable)):
    return x.value
  return x


def leaf_kind(x):
  if isinstance(x, nnx.VariableState):
    return 'vs:' + x.type.__name__
  return type(x).__name__


def tj(t):
  """python nested mapping -> tree JSON (items in iteration order)"""
  if isinstance(t, Mapping):
    return {'D': [[k, tj(v)] for k, v in t.items()]}
  return {'L': leaf_val(t)}


def jt(j, leaf=lambda n: n):
  if 'L' in j:
    return leaf(j['L'])
  return {k: jt(v, leaf) for k, v in j['D']}


def _ksort(k):
  return (isinstance(k, str), k)


def canon(j):
  """order-insensitive canonical form of a tree JSON"""
  if j is None:
    return None
  if 'L' in j:
    return j
  return {'D': sorted(([k, canon(v)] for k, v in j['D']), key=lambda kv: _ksort(kv[0]))}


def canon_flat(entries):
  """entries [[key, fval]] -> sorted, values canonical; key is a list (tuple path) or a str"""

  def kk(k):  # total even when an implementation mixes str and tuple keys
    return (1, tuple(_ksort(x) for x in k)) if isinstance(k, (list, tuple)) else (0, (str(k),))

  return sorted(([k, (v if v == 'E' else {'V': canon(v['V'])}) if not isinstance(v, int) else v] for k, v in entries), key=lambda e: kk(e[0]))


def tree_size(j):
  if 'L' in j:
    return 1
  return 1 + sum(tree_size(v) for _, v in j['D'])


def tree_depth(j):
  if 'L' in j or not j['D']:
    return 0
  return 1 + max(tree_depth(v) for _, v in j['D'])


def has_empty(j, root=True):
  if 'L' in j:
    return False
  if not j['D'] and not root:
    return True
  return any(has_empty(v, False) for _, v in j['D'])


def all_keys(j):
  if 'L' in j:
    return []
  out = []
  for k, v in j['D']:
    out.append(k)
    out += all_keys(v)
  return out


ERRMAP_TRAV = {AssertionError: 'NotMapping', IndexError: 'EmptyPath', TypeError: 'NotDict', ValueError: 'BadSep'}


def call(fn, *a, errmap=ERRMAP_TRAV, **k):
  """Runs flax code; every exception is an observation."""
  try:
    with warnings.catch_warnings():
      warnings.simplefilter('ignore')
      return ('ok', fn(*a, **k))
  except Exception as e:  # noqa: BLE001
    for cls, name in errmap.items():
      if type(e) is cls:
        return ('err', name)
    return ('err', 'Exception:' + type(e).__name__)


LIBS = {
  'tu': (tu.flatten_dict, tu.unflatten_dict, tu.empty_node),
  'nnx': (nt.flatten_mapping, nt.unflatten_mapping, nt.empty_node),
}


def py_isleaf(spec):
  if spec == 'none':
    return None
  if spec == 'always':
    return lambda p, v: True
  if 'depth' in spec:
    n = spec['depth']
    return lambda p, v: len(p) == n
  if 'last' in spec:
    k = spec['last']
    return lambda p, v: len(p) > 0 and p[-1] == k
  if 'haskey' in spec:
    k = spec['haskey']
    return lambda p, v: k in v
  raise ValueError(spec)


def overlaps(sep, key):
  """the hypothesis of theorem unflatten_flatten_sep fails for this key"""
  return sep in (key + sep[:-1])


# ------------------------------------------------------------------------------------------------
# reference routines (the property statement, independent of the model and of flax)
# ------------------------------------------------------------------------------------------------


def ref_norm(t, keep, isleaf, prefix=()):
  """what must survive flatten+unflatten of the child `t`; returns (present, value)"""
  if not isinstance(t, Mapping):
    return True, t
  if isleaf is not None and isleaf(prefix, t):
    return True, t
  if not t:
    return (True, {}) if keep else (False, None)
  out = {}
  for k, v in t.items():
    ok, nv = ref_norm(v, keep, isleaf, prefix + (k,))
    if ok:
      out[k] = nv
  if not out:
    return False, None
  return True, out


def ref_norm_root(t, keep, isleaf):
  out = {}
  for k, v in t.items():
    ok, nv = ref_norm(v, keep, isleaf, (k,))
    if ok:
      out[k] = nv
  return out


def ref_flat(t, keep, isleaf, empty, prefix=()):
  """every leaf (and, with keep, every empty sub-dict) with its full path"""
  out = {}
  for k, v in t.items():
    p = prefix + (k,)
    if not isinstance(v, Mapping) or (isleaf is not None and isleaf(p, v)):
      out[p] = v
    elif not v:
      if keep:
        out[p] = empty
    else:
      out.update(ref_flat(v, keep, isleaf, empty, p))
  return out


def ref_map(f, t, prefix=()):
  if not isinstance(t, Mapping):
    return f(prefix, t)
  return {k: ref_map(f, v, prefix + (k,)) for k, v in t.items()}


def ref_leaves(t, prefix=()):
  out = []
  for k, v in t.items():
    if isinstance(v, Mapping):
      out += ref_leaves(v, prefix + (k,))
    else:
      out.append((prefix + (k,), v))
  return out


def plain(t):
  """FrozenDict / State -> plain nested dict (values untouched)"""
  if isinstance(t, Mapping):
    return {k: plain(v) for k, v in t.items()}
  return t


# ------------------------------------------------------------------------------------------------
# nested dicts: flatten -> unflatten
# ------------------------------------------------------------------------------------------------


def dict_paths(j, prefix=()):
  """paths of the dict nodes below the root (empty dicts included)"""
  out = []
  if 'L' in j:
    return out
  for k, v in j['D']:
    if 'D' in v:
      out.append(list(prefix) + [k])
      out += dict_paths(v, tuple(prefix) + (k,))
  return out


def build_tree(j, frozen=False, fpaths=()):
  """the Python input for a tree JSON: plain dicts, with a FrozenDict at the root (`frozen`) and/or at the given
  inner paths (`fpaths`) — mixed containers. The model is container-kind agnostic (any Mapping is a dict node)."""
  fset = {tuple(p) for p in fpaths}

  def go(t, path):
    if 'L' in t:
      return t['L']
    d = {k: go(v, path + (k,)) for k, v in t['D']}
    return FrozenDict(d) if (path in fset or (frozen and path == ())) else d

  return go(j, ())


def gen_fpaths(rng, j, p=0.45):
  dps = [q for q in dict_paths(j) if len(q) <= 3]
  if not dps or rng.random() > p:
    return []
  return rng.sample(dps, min(len(dps), rng.randrange(1, 3)))


def fv_json(v, empty):
  return 'E' if v is empty else {'V': tj(v)}


def check_rt(ctx, drv, cases, libs=('tu', 'nnx')):
  """cases: dicts {kind:'rt', tree, keep, isleaf, sep, frozen}"""
  reqs = [('fr', [c['tree'], c['keep'], c['isleaf'], c['sep']]) for c in cases]
  seq_idx = {}
  for i, c in enumerate(cases):
    if 'nnx' in libs and c['sep'] is None and not c['keep']:
      seq_idx[i] = len(reqs)
      reqs.append(('to_seq', [c['tree'], c['isleaf']]))
  outs = drv.run(reqs)
  for ci, (c, m) in enumerate(zip(cases, outs)):
    tree, keep, spec, sep = c['tree'], c['keep'], c['isleaf'], c['sep']
    isleaf = py_isleaf(spec)
    x0 = jt(tree)
    root_leaf = isleaf is not None and bool(isleaf((), x0))
    keys = all_keys(tree)
    sep_bad = sep is not None and (sep == '' or any(overlaps(sep, k) for k in keys))
    in_domain = not root_leaf and not sep_bad
    nontrivial = tree_depth(tree) >= 2 or has_empty(tree)
    ctx.case({k: c.get(k) for k in ('kind', 'tree', 'keep', 'isleaf', 'sep', 'frozen', 'fpaths')}, nontrivial=nontrivial)
    ctx.count('rt_containers', ('frozen-root+' if c.get('frozen') else 'dict-root+') + ('frozen-inside' if c.get('fpaths') else 'plain-inside'))
    ctx.count('rt_domain', 'in' if in_domain else ('root-leaf' if root_leaf else 'sep-overlap'))
    ctx.count('rt_isleaf', next(iter(spec)) if isinstance(spec, dict) else spec)
    ctx.count('rt_sep', repr(sep))
    ctx.count('rt_size', tree_size(tree) - 1)
    if m[0] != 'ok':
      ctx.violation('rt-model-driver', f'driver refused {c}: {m}', c, concrete=False)
      continue
    m_flat, m_rt = m[1]
    for lib in libs:
      flatten, unflatten, empty = LIBS[lib]
      # (outside the domain a declared-leaf FrozenDict may be assigned into, which the dict model does not render)
      x = build_tree(tree, bool(c.get('frozen')), c.get('fpaths', ())) if in_domain else jt(tree)
      f = call(flatten, x, keep_empty_nodes=keep, is_leaf=isleaf, sep=sep)
      u = None
      snap = None
      if f[0] == 'ok':
        # snapshot first: outside the domain unflatten may assign into a dict that the flat map shares with the input
        snap = canon_flat([[list(k) if isinstance(k, tuple) else k, fv_json(v, empty)] for k, v in f[1].items()])
        u = call(unflatten, f[1], sep=sep)
      cc = dict(c, lib=lib)
      # ---- property oracle (only inside the property's domain)
      if in_domain:
        if f[0] != 'ok' or u[0] != 'ok':
          ctx.violation('rt-raises', f'{lib}: flatten/unflatten raised {f if f[0] != "ok" else u} on {cc}', cc)
          continue
        badk = [k for k in f[1] if not isinstance(k, (tuple if sep is None else str))]
        if badk:
          ctx.violation('flatten-key-not-joined', f'{lib}: flatten{(keep, spec, sep)} of {x0!r} has keys {badk!r}: with sep every key (empty-node entries included) must be the str sep.join(path), without it a tuple', cc)
          continue
        want_flat = ref_flat(x0, keep, isleaf, empty)
        if sep is not None:
          want_keyed = {sep.join(p): v for p, v in want_flat.items()}
        else:
          want_keyed = want_flat
        if not _flat_equal(f[1], want_keyed, empty):
          ctx.violation('flatten-wrong-entries', f'{lib}: flatten{(keep, spec, sep)} of {x0!r} = {_show_flat(f[1], empty)}, every leaf with its full path is {_show_flat(want_keyed, empty)}', cc)
          continue
        want = ref_norm_root(x0, keep, isleaf)
        got = plain(u[1]) if keep else ref_norm_root(plain(u[1]), False, isleaf)
        if got != want:
          key = 'rt-keep-not-identity' if keep else 'rt-prune-mismatch'
          ctx.violation(key, f'{lib}: unflatten(flatten(t, keep_empty_nodes={keep}, is_leaf={spec}, sep={sep!r})) = {plain(u[1])!r} for t = {x0!r}; expected {want!r}', cc)
          continue
      # ---- correspondence with the model
      if f[0] == 'ok':
        i_flat = ('ok', snap)
        i_rt = ('ok', canon(tj(u[1]))) if u[0] == 'ok' else u
      else:
        i_flat, i_rt = f, f
      mm_flat = ('ok', canon_flat(m_flat['ok'])) if 'ok' in m_flat else ('err', m_flat['err'])
      mm_rt = ('ok', canon(m_rt['ok'])) if 'ok' in m_rt else ('err', m_rt['err'])
      if (i_flat, i_rt) != (mm_flat, mm_rt):
        if root_leaf:
          ctx.count('excluded_point', 'root-leaf-model-differs')
          continue
        ctx.disagreements_checked += 1
        ctx.violation(
          'rt-model-mismatch' + ('' if in_domain else '-sep-overlap'),
          f'{lib}: model and implementation differ on {cc}: impl flat={i_flat} rt={i_rt}; model flat={mm_flat} rt={mm_rt}', cc, concrete=False)
      elif f[0] == 'ok' and 'ok' in m_flat:
        same_order = [e[0] for e in m_flat['ok']] == [list(k) if isinstance(k, tuple) else k for k in f[1].keys()]
        ctx.count('flat_order_agrees', same_order)
      if root_leaf:
        ctx.count('excluded_point', 'root-leaf:' + (i_rt[1] if i_rt[0] == 'err' else 'wrapped'))
      # ---- nnx.traversals.flatten_to_sequence / unflatten_mapping on a list of pairs
      if lib == 'nnx' and ci in seq_idx:
        xs = build_tree(tree, bool(c.get('frozen')), c.get('fpaths', ())) if in_domain else jt(tree)
        sq = call(nt.flatten_to_sequence, xs, is_leaf=isleaf)
        ctx.count('to_seq', sq[0])
        if in_domain:
          ok = sq[0] == 'ok' and f[0] == 'ok' and len(sq[1]) == len(f[1]) and _flat_equal(dict(sq[1]), f[1], empty)
          back = call(nt.unflatten_mapping, sq[1]) if ok else None
          if not ok or back[0] != 'ok' or ref_norm_root(plain(back[1]), False, isleaf) != ref_norm_root(x0, False, isleaf):
            ctx.violation('to-seq-wrong', f'nnx: flatten_to_sequence({x0!r}, is_leaf={spec}) = {sq}; flatten_mapping gives {f}; unflatten_mapping of the sequence gives {back}', cc)
            continue
        ms = outs[seq_idx[ci]]
        i_sq = ('ok', canon_flat([[list(k), fv_json(v, empty)] for k, v in sq[1]])) if sq[0] == 'ok' else sq
        m_sq = ('ok', canon_flat(ms[1])) if ms[0] == 'ok' else ms
        if i_sq != m_sq and not root_leaf:
          ctx.disagreements_checked += 1
          ctx.violation('to-seq-model-mismatch', f'flatten_to_sequence differs from the model on {cc}: impl {i_sq}, model {m_sq}', cc, concrete=False)
        elif sq[0] == 'ok' and ms[0] == 'ok':
          ctx.count('seq_order_agrees', [e[0] for e in ms[1]] == [list(k) for k, _ in sq[1]])


def _flat_equal(got, want, empty):
  if set(got.keys()) != set(want.keys()):
    return False
  for k, v in got.items():
    w = want[k]
    if (v is empty) != (w is empty):
      return False
    if v is not empty and plain(v) != plain(w):
      return False
  return True


def _show_flat(d, empty):
  return {k: ('<empty_node>' if v is empty else plain(v)) for k, v in d.items()}


# ------------------------------------------------------------------------------------------------
# flat maps: unflatten -> flatten
# ------------------------------------------------------------------------------------------------


def prefix_free(paths):
  ps = [tuple(p) for p in paths]
  for i, p in enumerate(ps):
    if len(p) == 0:
      return False
    for j, q in enumerate(ps):
      if i != j and p == q[: len(p)]:
        return False
  return True


def check_unflat(ctx, drv, cases, libs=('tu', 'nnx')):
  """cases: {kind:'unflat', flat:[[path(list), 'E'|{'V':tree}]], sep, keep}; with sep the key is sep.join(path)"""
  reqs = []
  for c in cases:
    sep = c['sep']
    ent = [[(p if sep is None else sep.join(p)), v] for p, v in c['flat']]
    reqs.append(('unflatten', [ent, sep]))
  outs = drv.run(reqs)
  for c, m in zip(cases, outs):
    sep, keep = c['sep'], c['keep']
    paths = [p for p, _ in c['flat']]
    leafy = all(v == 'E' or 'L' in v['V'] for _, v in c['flat'])
    sep_bad = sep is not None and (sep == '' or any(overlaps(sep, k) for p in paths for k in p))
    valid = prefix_free(paths) and leafy and not sep_bad and (keep or all(v != 'E' for _, v in c['flat']))
    ctx.case(c, nontrivial=len(paths) >= 2)
    ctx.count('unflat_stream', 'valid' if valid else 'malformed')
    ctx.count('unflat_entries', len(paths))
    for lib in libs:
      flatten, unflatten, empty = LIBS[lib]
      d = {}
      for p, v in c['flat']:
        d[tuple(p) if sep is None else sep.join(p)] = empty if v == 'E' else jt(v['V'])
      u = call(unflatten, d, sep=sep)
      cc = dict(c, lib=lib)
      ctx.count('unflat_result', u[1] if u[0] == 'err' else 'ok')
      if valid:
        if u[0] != 'ok':
          ctx.violation('unflatten-raises', f'{lib}: unflatten raised {u[1]} on the prefix-free flat map {d!r}', cc)
          continue
        back = call(flatten, u[1], keep_empty_nodes=keep, sep=sep)
        if back[0] != 'ok' or not _flat_equal(back[1], d, empty):
          ctx.violation('flatten-unflatten-not-identity', f'{lib}: flatten(unflatten(m)) = {back} for m = {_show_flat(d, empty)}', cc)
          continue
      i = ('ok', canon(tj(u[1]))) if u[0] == 'ok' else u
      mm = ('ok', canon(m[1])) if m[0] == 'ok' else m
      if i != mm:
        ctx.disagreements_checked += 1
        ctx.violation('unflatten-model-mismatch' + ('' if valid else '-malformed'), f'{lib}: unflatten differs from the model on {cc}: impl {i}, model {mm}', cc, concrete=False)


# ------------------------------------------------------------------------------------------------
# path_aware_map
# ------------------------------------------------------------------------------------------------


def py_f(spec):
  if 'affine' in spec:
    m = spec['affine']
    return lambda p, v: v + m * len(p) + (7 if 'a' in p else 0)
  k = spec['wrap']
  return lambda p, v: {'w': v, 'n': len(p)} if p[-1] == k else v + 1


def check_pam(ctx, drv, cases):
  """cases: {kind:'pam', tree, f, frozen}"""
  reqs = []
  for c in cases:
    reqs.append(('path_aware_map', [c['tree'], c['f']]))
    reqs.append(('path_aware_calls', [c['tree']]))
  outs = drv.run(reqs)
  for i, c in enumerate(cases):
    m_res, m_calls = outs[2 * i], outs[2 * i + 1]
    x0 = jt(c['tree'])
    x = build_tree(c['tree'], bool(c.get('frozen')), c.get('fpaths', ()))
    f = py_f(c['f'])
    calls = []

    def g(p, v, f=f, calls=calls):
      calls.append((tuple(p), v))
      return f(p, v)

    r = call(tu.path_aware_map, g, x)
    ctx.case(c, nontrivial=tree_depth(c['tree']) >= 2 or has_empty(c['tree']))
    ctx.count('pam_f', next(iter(c['f'])))
    ctx.count('pam_containers', ('frozen-root+' if c.get('frozen') else 'dict-root+') + ('frozen-inside' if c.get('fpaths') else 'plain-inside'))
    if r[0] != 'ok':
      ctx.violation('pam-raises', f'path_aware_map raised {r[1]} on {x0!r}', c)
      continue
    want = ref_map(f, x0)
    if plain(r[1]) != want:
      ctx.violation('pam-wrong-result', f'path_aware_map(f, {x0!r}) = {plain(r[1])!r}; f applied to every leaf with its path gives {want!r}', c)
      continue
    if sorted(calls) != sorted(ref_leaves(x0)):
      ctx.violation('pam-visits', f'path_aware_map called f on {sorted(calls)}; the leaves are {sorted(ref_leaves(x0))}', c)
      continue
    i_res = ('ok', canon(tj(r[1])))
    i_calls = ('ok', sorted([[list(p), {'L': v}] for p, v in calls]))
    mm_res = ('ok', canon(m_res[1])) if m_res[0] == 'ok' else m_res
    mm_calls = ('ok', sorted(m_calls[1])) if m_calls[0] == 'ok' else m_calls
    if i_res != mm_res or i_calls != mm_calls:
      ctx.disagreements_checked += 1
      ctx.violation('pam-model-mismatch', f'path_aware_map differs from the model on {c}: impl {i_res} {i_calls}; model {mm_res} {mm_calls}', c, concrete=False)


# ------------------------------------------------------------------------------------------------
# NNX State
# ------------------------------------------------------------------------------------------------

LEAF = {'int': lambda n: n, 'vs': lambda n: nnx.VariableState(nnx.Param, n)}


class MyParam(nnx.Param):
  pass


class MyLoRA(nnx.LoRAParam):
  pass


# a Variable-type hierarchy: type filters are NOT disjoint (Variable ⊇ Param ⊇ LoRAParam ⊇ MyLoRA, Param ⊇ MyParam)
VTYPES = {
  'Variable': nnx.Variable, 'Param': nnx.Param, 'LoRAParam': nnx.LoRAParam, 'MyParam': MyParam, 'MyLoRA': MyLoRA,
  'BatchStat': nnx.BatchStat, 'Cache': nnx.Cache, 'Intermediate': nnx.Intermediate,
}
_VCLS = {c: n for n, c in VTYPES.items()}


def mro_names(tname):
  """the names (within VTYPES) of the class and of all its base classes: what the model's `ofType` looks at"""
  if tname == 'int':
    return []
  return [_VCLS[c] for c in VTYPES[tname].__mro__ if c in _VCLS]


SUBCLASS_PAIRS = [(a, b) for a in VTYPES for b in VTYPES if a != b and issubclass(VTYPES[b], VTYPES[a])]  # (base, sub)
ERR_STATE = {TypeError: 'NotDict', IndexError: 'EmptyPath', AssertionError: 'NotMapping', AttributeError: 'AttributeError'}
ERR_SPLIT = {**ERR_STATE, ValueError: 'NonExhaustive'}
ERR_REPL = {**ERR_STATE, ValueError: 'KeyNotInState'}


def mk_state(j, kind, ltypes=None):
  if kind == 'typed':
    def leaf(n):
      t = ltypes[str(n)]
      return n if t == 'int' else nnx.VariableState(VTYPES[t], n)
    return nnx.State(jt(j, leaf))
  return nnx.State(jt(j, LEAF[kind]))


def types_table(c):
  """[[leaf value, MRO names]] for the model's type predicates"""
  vals = [v for _, v in ref_leaves(jt(c['state']))]
  if c['leaf'] == 'typed':
    return [[v, mro_names(c['ltypes'][str(v)])] for v in vals]
  if c['leaf'] == 'vs':
    return [[v, mro_names('Param')] for v in vals]
  return []


def py_filter(spec):
  """the filter object handed to flax: a plain class for a type filter, `...` for the ellipsis, a callable otherwise"""
  if spec == 'ellipsis':
    return ...
  if isinstance(spec, dict) and 'type' in spec:
    return VTYPES[spec['type']]
  return py_pred(spec)


def oracle_pred(spec):
  """what the filter means, written from the documentation and independent of filterlib: a type filter matches a leaf
  whose variable type is that class or a subclass of it"""
  if spec == 'ellipsis':
    return lambda p, v: True
  if isinstance(spec, dict) and 'type' in spec:
    cls = VTYPES[spec['type']]
    return lambda p, v: (isinstance(v, nnx.VariableState) and issubclass(v.type, cls)) or isinstance(v, cls)
  return py_pred(spec)


def model_pred(spec):
  return 'all' if spec == 'ellipsis' else spec


def leaf_sig(x):
  return (leaf_kind(x), leaf_val(x))


def leaves_sig(t):
  return sorted(((tuple(_ksort(k) for k in p), leaf_sig(v)) for p, v in ref_leaves(plain(t))))


def py_pred(spec):
  if spec == 'all':
    return lambda p, v: True
  if spec == 'none':
    return lambda p, v: False
  if 'contains' in spec:
    k = spec['contains']
    return lambda p, v: k in p
  if 'pathin' in spec:
    ps = {tuple(q) for q in spec['pathin']}
    return lambda p, v: tuple(p) in ps
  if 'lt' in spec:
    n = spec['lt']
    return lambda p, v: leaf_val(v) < n
  if 'mod' in spec:
    m, r = spec['mod']
    return lambda p, v: leaf_val(v) % m == r
  raise ValueError(spec)


def as_list(x):
  return list(x) if isinstance(x, tuple) else [x]


def _cmp(ctx, key, what, case, impl, model, canonf=canon):
  """model vs implementation for one observation: ('ok', tree-json) / ('err', enum)"""
  i = ('ok', canonf(impl[1])) if impl[0] == 'ok' else impl
  m = ('ok', canonf(model[1])) if model[0] == 'ok' else model
  if i != m:
    ctx.disagreements_checked += 1
    ctx.violation(key, f'{what}: impl {i}, model {m} on {case}', case, concrete=False)
    return False
  return True


def _ok_tree(r):
  return ('ok', tj(r[1])) if r[0] == 'ok' else r


def check_conv(ctx, drv, cases):
  """cases: {kind:'st-conv', state, leaf}: to_flat_state / from_flat_state / to_pure_dict / replace_by_pure_dict"""
  recs = []
  reqs = []
  for c in cases:
    kind = c['leaf']
    s = mk_state(c['state'], kind)
    base = plain(s)
    L = ref_leaves(base)
    rec = {'L': L, 'base': base}
    fl = call(statelib.to_flat_state, s, errmap=ERR_STATE)
    rec['fl'] = fl
    flat_j = None
    if fl[0] == 'ok':
      flat_j = [[list(p), leaf_val(v)] for p, v in zip(fl[1].paths, fl[1].leaves)]
      rec['back'] = call(statelib.from_flat_state, fl[1], errmap=ERR_STATE)
    rec['pd'] = call(statelib.to_pure_dict, s, errmap=ERR_STATE)
    rec['flat_j'] = flat_j
    reqs.append(('to_flat', [c['state']]))
    reqs.append(('from_flat', [flat_j if flat_j is not None else []]))
    reqs.append(('to_pure', [c['state']]))
    # replace: identity, shifted values, stringified int keys
    rec['repl'] = []
    if rec['pd'][0] == 'ok':
      pd = rec['pd'][1]
      variants = [('same', pd), ('shift', _map_vals(pd, lambda v: v + 100))]
      if any(isinstance(k, int) for p, _ in L for k in p) and not any(isinstance(k, str) and _looks_int(k) for p, _ in L for k in p):
        variants.append(('strkeys', _map_keys(_map_vals(pd, lambda v: v + 100), lambda k: str(k) if isinstance(k, int) else k)))
      for name, pdv in variants:
        s2 = mk_state(c['state'], kind)
        r = call(statelib.replace_by_pure_dict, s2, pdv, errmap=ERR_REPL)
        rec['repl'].append((name, pdv, r, s2))
        reqs.append(('replace_pure', [c['state'], tj(pdv)]))
    recs.append(rec)
  outs = drv.run(reqs)
  k = 0
  for c, rec in zip(cases, recs):
    m_flat, m_back, m_pure = outs[k], outs[k + 1], outs[k + 2]
    k += 3
    m_repl = outs[k : k + len(rec['repl'])]
    k += len(rec['repl'])
    L, base = rec['L'], rec['base']
    ctx.case(c, nontrivial=tree_depth(c['state']) >= 2)
    ctx.count('state_leaves', min(len(L), 12))
    ctx.count('state_leafkind', c['leaf'])
    ctx.count('state_intkeys', any(isinstance(x, int) for p, _ in L for x in p))
    fl = rec['fl']
    if fl[0] != 'ok':
      ctx.violation('to-flat-raises', f'to_flat_state raised {fl[1]} on {base!r}', c)
      continue
    paths = list(fl[1].paths)
    byp = dict(L)
    if sorted(paths, key=lambda p: tuple(_ksort(x) for x in p)) != sorted(byp, key=lambda p: tuple(_ksort(x) for x in p)) or any(v is not byp[p] for p, v in zip(paths, fl[1].leaves)):
      ctx.violation('to-flat-lossy', f'to_flat_state({base!r}) has paths {paths}; the leaves are at {sorted(byp)}', c)
      continue
    ctx.count('flat_sorted', paths == sorted(paths))
    back = rec['back']
    want = ref_norm_root(base, False, None)
    if back[0] != 'ok' or _pruned(back[1]) != want or any(v is not byp[p] for p, v in ref_leaves(plain(back[1]))):
      ctx.violation('flat-roundtrip-lossy', f'from_flat_state(to_flat_state(s)) = {back} for s = {base!r}; expected {want!r}', c)
      continue
    pd = rec['pd']
    want_pd = _map_vals(want, leaf_val)
    if pd[0] != 'ok' or _pruned(pd[1]) != want_pd:
      ctx.violation('to-pure-wrong', f'to_pure_dict({base!r}) = {pd}; expected {want_pd!r}', c)
      continue
    bad = False
    for (name, pdv, r, s2), mr in zip(rec['repl'], m_repl):
      shift = 0 if name == 'same' else 100
      want_leaves = sorted((tuple(_ksort(x) for x in p), (leaf_kind(v), leaf_val(v) + shift)) for p, v in L)
      if r[0] != 'ok' or leaves_sig(s2) != want_leaves:
        keyn = 'pure-roundtrip-raises' if r[0] != 'ok' else 'pure-roundtrip-lossy'
        if r[0] != 'ok' and any(isinstance(x, str) and _looks_int(x) for p, _ in L for x in p):
          keyn += '-digit-string-keys'
        ctx.violation(keyn, f'replace_by_pure_dict(s, {pdv!r}) [{name}] gave {r if r[0] != "ok" else plain(s2)} for s = {base!r}', dict(c, variant=name))
        bad = True
        break
      if not _cmp(ctx, 'replace-model-mismatch', f'replace_by_pure_dict [{name}]', dict(c, variant=name), ('ok', tj(s2)), mr):
        bad = True
        break
    if bad:
      continue
    flat_ok = m_flat[0] == 'ok' and sorted(m_flat[1], key=lambda e: tuple(_ksort(x) for x in e[0])) == sorted(rec['flat_j'], key=lambda e: tuple(_ksort(x) for x in e[0]))
    if not flat_ok:
      ctx.disagreements_checked += 1
      ctx.violation('to-flat-model-mismatch', f'to_flat_state: impl {rec["flat_j"]}, model {m_flat} on {c}', c, concrete=False)
      continue
    ctx.count('flat_order_model_agrees', m_flat[1] == rec['flat_j'])
    if not _cmp(ctx, 'from-flat-model-mismatch', 'from_flat_state', c, _ok_tree(back), m_back):
      continue
    _cmp(ctx, 'to-pure-model-mismatch', 'to_pure_dict', c, _ok_tree(pd), m_pure)


def _pruned(t):
  return ref_norm_root(plain(t), False, None)


def _looks_int(s):
  t = s[1:] if s.startswith('-') else s
  return t.isascii() and t.isdigit()


def _map_vals(t, f):
  if isinstance(t, Mapping):
    return {k: _map_vals(v, f) for k, v in t.items()}
  return f(t)


def _map_keys(t, f):
  if isinstance(t, Mapping):
    return {f(k): _map_keys(v, f) for k, v in t.items()}
  return t


def check_replace(ctx, drv, cases):
  """cases: {kind:'st-replace', state, pure, leaf}: arbitrary pure dicts, including paths missing from the state"""
  reqs = [('replace_pure', [c['state'], c['pure']]) for c in cases]
  outs = drv.run(reqs)
  for c, m in zip(cases, outs):
    s = mk_state(c['state'], c['leaf'])
    base = plain(s)
    pd = jt(c['pure'])
    r = call(statelib.replace_by_pure_dict, s, pd, errmap=ERR_REPL)
    ctx.case(c, nontrivial=True)
    ctx.count('replace_result', r[1] if r[0] == 'err' else 'ok')
    # oracle: every leaf of the pure dict addresses a leaf of the state (as given, or with int-looking keys as ints)
    have = {p: v for p, v in ref_leaves(base)}
    want = {p: leaf_sig(v) for p, v in have.items()}
    missing = False
    for p, v in ref_leaves(pd):
      q = p if p in have else tuple(int(x) if isinstance(x, str) and _looks_int(x) else x for x in p)
      if q not in have:
        missing = True
        break
      want[q] = (leaf_kind(have[q]), v)
    if missing:
      if r != ('err', 'KeyNotInState'):
        ctx.violation('replace-accepts-unknown-path', f'replace_by_pure_dict({base!r}, {pd!r}) = {r}; a path of the pure dict is not in the state', c)
        continue
    else:
      got = {p: leaf_sig(v) for p, v in ref_leaves(plain(s))}
      if r[0] != 'ok' or got != want:
        ctx.violation('replace-wrong', f'replace_by_pure_dict({base!r}, {pd!r}) gave {r if r[0] != "ok" else plain(s)}', c)
        continue
    _cmp(ctx, 'replace-model-mismatch', 'replace_by_pure_dict', c, ('ok', tj(s)) if r[0] == 'ok' else r, m)


def check_split(ctx, drv, cases):
  """cases: {kind:'st-split', state, preds, leaf[, ltypes]}: split_state / filter_state (and the State / FlatState
  methods that share `_split_state`) / merge_state of the parts. Filters: callables, path filters, plain Variable
  classes (overlapping: Variable ⊇ Param ⊇ LoRAParam …) and a trailing `...`."""
  recs = []
  reqs = []
  for c in cases:
    s = mk_state(c['state'], c['leaf'], c.get('ltypes'))
    flt = [py_filter(p) for p in c['preds']]
    sp = call(statelib.split_state, s, *flt, errmap=ERR_SPLIT)
    fi = call(statelib.filter_state, s, *flt, errmap=ERR_SPLIT)
    mg = None
    if sp[0] == 'ok':
      sts = as_list(sp[1])
      mg = call(statelib.merge_state, *sts, errmap=ERR_STATE)
      reqs.append(('merge', [[tj(x) for x in sts]]))
    recs.append((s, sp, fi, mg))
    mp = [model_pred(p) for p in c['preds']]
    tbl = types_table(c)
    reqs.append(('split', [mp, c['state'], tbl]))
    reqs.append(('filter', [mp, c['state'], tbl]))
  outs = drv.run(reqs)
  k = 0
  for c, (s, sp, fi, mg) in zip(cases, recs):
    m_merge = None
    if sp[0] == 'ok':
      m_merge = outs[k]
      k += 1
    m_split, m_filter = outs[k], outs[k + 1]
    k += 2
    base = plain(s)
    L = ref_leaves(base)
    preds = [py_filter(p) for p in c['preds']]
    opreds = [oracle_pred(p) for p in c['preds']]
    n = len(preds)
    idx = []
    for p, v in L:
      i = n
      for j, f in enumerate(opreds):
        if f(p, v):
          i = j
          break
      idx.append(i)
    exhaustive = all(i < n for i in idx)
    ntype = sum(1 for p in c['preds'] if isinstance(p, dict) and 'type' in p)
    lead = 0
    for p in c['preds']:
      if not (isinstance(p, dict) and 'type' in p):
        break
      lead += 1
    shadow = any(
      isinstance(c['preds'][i], dict) and 'type' in c['preds'][i] and isinstance(c['preds'][j], dict) and 'type' in c['preds'][j]
      and (c['preds'][i]['type'], c['preds'][j]['type']) in SUBCLASS_PAIRS
      for i in range(n) for j in range(i + 1, n))
    ctx.case(c, nontrivial=n >= 2)
    ctx.count('split_nfilters', n)
    ctx.count('split_exhaustive', exhaustive)
    ctx.count('split_type_filters', min(ntype, 4))
    ctx.count('split_leading_type_run', min(lead, 4))
    ctx.count('split_base_before_subclass', shadow)
    ctx.count('split_leafkind', c['leaf'])
    want = [{p: v for (p, v), i in zip(L, idx) if i == b} for b in range(n)]

    def parts_ok(r, flat=False):
      sts = as_list(r[1])
      if len(sts) != n:
        return False
      for st, w in zip(sts, want):
        got = dict(st) if flat else dict(ref_leaves(plain(st)))
        if set(got) != set(w) or any(got[p] is not w[p] for p in w):
          return False
      return True

    def show(r, flat=False):
      if r[0] != 'ok':
        return r
      return [dict(x) if flat else plain(x) for x in as_list(r[1])]

    # every entry point that shares _split_state: the functions, the (deprecated) State methods, FlatState methods
    variants = [
      ('split_state', True, False, sp),
      ('filter_state', False, False, fi),
      ('State.split', True, False, call(lambda: s.split(*preds), errmap=ERR_SPLIT)),
      ('State.filter', False, False, call(lambda: s.filter(*preds), errmap=ERR_SPLIT)),
      ('FlatState.split', True, True, call(lambda: statelib.to_flat_state(s).split(*preds), errmap=ERR_SPLIT)),
      ('FlatState.filter', False, True, call(lambda: statelib.to_flat_state(s).filter(*preds), errmap=ERR_SPLIT)),
    ]
    bad = False
    for name, is_split, flat, r in variants:
      if is_split and not exhaustive:
        if r != ('err', 'NonExhaustive'):
          ctx.violation('split-lossy', f'{name}({base!r}, {c["preds"]}) = {show(r, flat)} although some leaf matches no filter', dict(c, api=name))
          bad = True
          break
        continue
      if r[0] != 'ok' or not parts_ok(r, flat):
        key = ('split' if is_split else 'filter') + '-not-first-match' + ('-overlapping-type-filters' if shadow else '')
        ctx.violation(key, f'{name}({base!r}, {c["preds"]}) = {show(r, flat)}; every leaf must land in the FIRST filter that matches it: {want}', dict(c, api=name))
        bad = True
        break
    if bad:
      continue
    if sp[0] == 'ok':
      wantm = ref_norm_root(base, False, None)
      byp = dict(L)
      if mg[0] != 'ok' or _pruned(mg[1]) != wantm or any(v is not byp[p] for p, v in ref_leaves(plain(mg[1]))):
        ctx.violation('merge-not-inverse-of-split', f'merge_state(*split_state(s, {c["preds"]})) = {_show(mg)} for s = {base!r}', c)
        continue
    # ---- set laws as algebra (oracles on the implementation)
    if sp[0] == 'ok' and n >= 2:
      sts = as_list(sp[1])
      order = list(range(n))
      ctx.rng.shuffle(order)
      mg2 = call(statelib.merge_state, *[sts[j] for j in order], errmap=ERR_STATE)
      byp = dict(L)
      if mg2[0] != 'ok' or _pruned(mg2[1]) != ref_norm_root(base, False, None) or any(v is not byp[p] for p, v in ref_leaves(plain(mg2[1]))):
        ctx.violation('merge-order-dependent', f'merge_state of the parts of split_state(s, {c["preds"]}) in order {order} = {_show(mg2)} for s = {base!r}', dict(c, order=order))
        continue
    if fi[0] == 'ok':
      fsts = as_list(fi[1])
      i0 = ctx.rng.randrange(n)
      again = call(statelib.filter_state, fsts[i0], *preds, errmap=ERR_SPLIT)
      wantL = dict(ref_leaves(plain(fsts[i0])))
      okk = again[0] == 'ok'
      if okk:
        for j, st in enumerate(as_list(again[1])):
          got = dict(ref_leaves(plain(st)))
          wj = wantL if j == i0 else {}
          if set(got) != set(wj) or any(got[p] is not wj[p] for p in wj):
            okk = False
      if not okk:
        ctx.violation('filter-not-idempotent', f'filter_state(filter_state(s, F)[{i0}], F) = {_show(again)} for s = {base!r}, F = {c["preds"]}', dict(c, part=i0))
        continue
    i_sp = ('ok', [tj(x) for x in as_list(sp[1])]) if sp[0] == 'ok' else sp
    i_fi = ('ok', [tj(x) for x in as_list(fi[1])]) if fi[0] == 'ok' else fi
    cl = lambda l: [canon(x) for x in l]  # noqa: E731
    if not _cmp(ctx, 'split-model-mismatch', 'split_state', c, i_sp, m_split, cl):
      continue
    if not _cmp(ctx, 'filter-model-mismatch', 'filter_state', c, i_fi, m_filter, cl):
      continue
    if sp[0] == 'ok':
      _cmp(ctx, 'merge-model-mismatch', 'merge_state of the split', c, _ok_tree(mg), m_merge)


def homog(t):
  """sibling keys all str or all int, at every level (Python can sort the paths)"""
  if not isinstance(t, Mapping):
    return True
  return len({type(k) for k in t}) <= 1 and all(homog(v) for v in t.values())


def _merge_plain(x, y):
  out = {k: v for k, v in x.items()}
  for k, v in y.items():
    if isinstance(v, Mapping) and isinstance(out.get(k), Mapping):
      out[k] = _merge_plain(out[k], v)
    else:
      out[k] = v
  return out


def _show(r):
  if r is None or r[0] != 'ok':
    return r
  v = r[1]
  return [plain(x) for x in v] if isinstance(v, tuple) else plain(v)


def _incomp_or_equal(p, q):
  n = min(len(p), len(q))
  return p == q or p[:n] != q[:n]


def check_pair(ctx, drv, cases):
  """cases: {kind:'st-pair', a, b, leaf}: merge_state(a, b), a | b, diff(a, b), a - b"""
  reqs = []
  for c in cases:
    reqs += [('merge', [[c['a'], c['b']]]), ('or', [c['a'], c['b']]), ('diff', [c['a'], c['b']])]
  outs = drv.run(reqs)
  for i, c in enumerate(cases):
    m_merge, m_or, m_diff = outs[3 * i : 3 * i + 3]
    a, b = mk_state(c['a'], c['leaf']), mk_state(c['b'], c['leaf'])
    pa, pb = plain(a), plain(b)
    La, Lb = dict(ref_leaves(pa)), dict(ref_leaves(pb))
    mg = call(statelib.merge_state, a, b, errmap=ERR_STATE)
    orr = call(lambda: a | b, errmap=ERR_STATE)
    d1 = call(statelib.diff, a, b, errmap=ERR_STATE)
    d2 = call(lambda: a - b, errmap=ERR_STATE)
    allp = list(La) + list(Lb)
    compat = all(_incomp_or_equal(p, q) for p in allp for q in allp)
    overlap = len(set(La) & set(Lb))
    ctx.case(c, nontrivial=overlap > 0)
    ctx.count('pair_compatible', compat)
    ctx.count('pair_overlap', min(overlap, 5))
    ctx.count('pair_b_empty', len(pb) == 0)

    def holds(r, want):
      if r[0] != 'ok':
        return False
      got = dict(ref_leaves(plain(r[1])))
      return set(got) == set(want) and all(got[p] is want[p] for p in want)

    if compat:
      want = dict(La)
      want.update(Lb)
      if not holds(mg, want):
        ctx.violation('merge-later-wins', f'merge_state({pa!r}, {pb!r}) = {_show(mg)}; later state must win on shared paths: {want!r}', c)
        continue
      if not holds(orr, want):
        ctx.violation('or-later-wins', f'{pa!r} | {pb!r} = {_show(orr)}; expected leaves {want!r}', c)
        continue
    wantd = {p: v for p, v in La.items() if p not in Lb}
    bad = False
    for name, d in (('diff', d1), ('sub', d2)):
      if not holds(d, wantd):
        ctx.violation('diff-wrong' + ('-raises-' + d[1] if d[0] == 'err' else ''), f'{name}: {pa!r} - {pb!r} = {_show(d)}; paths of a absent from b with a\'s leaves: {wantd!r}', dict(c, op=name))
        bad = True
        break
    if bad:
      continue
    # ---- set laws as algebra (oracles on the implementation; skipped when Python could not sort the merged paths)
    if compat and homog({**_merge_plain(pa, pb)}):
      ab = call(lambda: (a | b) - b, errmap=ERR_STATE)
      if not holds(ab, wantd):
        ctx.violation('or-diff-not-subset', f'({pa!r} | {pb!r}) - {pb!r} = {_show(ab)}; expected the leaves of a absent from b: {wantd!r}', c)
        continue
    if 'c' in c:
      cst = mk_state(c['c'], c['leaf'])
      pc = plain(cst)
      Lc = dict(ref_leaves(pc))
      bc = list(Lb) + list(Lc)
      if all(_incomp_or_equal(p, q) for p in bc for q in bc) and homog(_merge_plain(pb, pc)):
        lhs = call(lambda: statelib.diff(statelib.diff(a, b), cst), errmap=ERR_STATE)
        rhs = call(lambda: statelib.diff(a, b | cst), errmap=ERR_STATE)
        wantdd = {p: v for p, v in La.items() if p not in Lb and p not in Lc}
        ctx.count('diff_diff_checked', True)
        if not holds(lhs, wantdd) or not holds(rhs, wantdd):
          ctx.violation('diff-diff-law', f'a - b - c = {_show(lhs)} and a - (b | c) = {_show(rhs)} for a = {pa!r}, b = {pb!r}, c = {pc!r}; both must hold {wantdd!r}', c)
          continue
    key_sfx = '' if compat else '-incompatible'
    if not _cmp(ctx, 'merge-model-mismatch' + key_sfx, 'merge_state(a, b)', c, _ok_tree(mg), m_merge):
      continue
    if not _cmp(ctx, 'or-model-mismatch' + key_sfx, 'a | b', c, _ok_tree(orr), m_or):
      continue
    _cmp(ctx, 'diff-model-mismatch', 'diff(a, b)', c, _ok_tree(d1), m_diff)


# ------------------------------------------------------------------------------------------------
# generators
# ------------------------------------------------------------------------------------------------

EX_KEYS = ['a', 'b', '', '0']


@functools.lru_cache(None)
def _node(s):
  out = [('L',)] if s == 1 else []
  out += [('D', f) for f in _forest(s - 1, 0)]
  return out


@functools.lru_cache(None)
def _forest(s, ki):
  """all dict item lists over EX_KEYS[ki:] (in that order) with exactly s nodes"""
  if s == 0:
    return [()]
  if ki >= len(EX_KEYS):
    return []
  out = list(_forest(s, ki + 1))
  for sz in range(1, s + 1):
    for t in _node(sz):
      for rest in _forest(s - sz, ki + 1):
        out.append(((EX_KEYS[ki], t),) + rest)
  return out


def _number(f, counter):
  items = []
  for k, t in f:
    if t[0] == 'L':
      counter[0] += 1
      items.append([k, {'L': counter[0]}])
    else:
      items.append([k, _number(t[1], counter)])
  return {'D': items}


def exhaustive_trees(n):
  out = []
  for s in range(0, n + 1):
    for f in _forest(s, 0):
      out.append(_number(f, [0]))
  return out


STR_KEYS = ['a', 'b', 'c', '', '0', '1', '10', '-1', 'params', 'kernel', 'x.y', 'a b']
BAD_KEYS = ['a/b', '/', 'a:', ':', '::', 'b::c', ':a']
INT_KEYS = [0, 1, 2, 10, -1]


def gen_tree(rng, depth, maxkids, p_leaf=0.55, p_empty=0.12, keys=STR_KEYS, int_ok=False, counter=None, leaf0=0):
  counter = counter if counter is not None else [leaf0]

  def node(d):
    r = rng.random()
    if d == 0 or r < p_leaf:
      counter[0] += 1
      return {'L': counter[0]}
    if r < p_leaf + p_empty:
      return {'D': []}
    return dct(d - 1)

  def dct(d):
    n = rng.randrange(1, maxkids + 1)
    if int_ok and rng.random() < 0.25:
      ks = rng.sample(INT_KEYS, min(n, len(INT_KEYS)))
    else:
      ks = rng.sample(keys, min(n, len(keys)))
    return {'D': [[k, node(d)] for k in ks]}

  return dct(depth)


ISLEAF_SPECS = ['none', {'depth': 1}, {'depth': 2}, {'last': 'a'}, {'haskey': 'b'}, 'always']
SEPS = [None, '/', '::']


def shuffled(rng, j):
  if 'L' in j:
    return j
  items = [[k, shuffled(rng, v)] for k, v in j['D']]
  rng.shuffle(items)
  return {'D': items}


def flat_of_tree(j, keep, prefix=()):
  """reference flat map of a tree JSON (is_leaf none) as [[path, fval]]"""
  out = []
  for k, v in j['D']:
    p = list(prefix) + [k]
    if 'L' in v:
      out.append([p, {'V': v}])
    elif not v['D']:
      if keep:
        out.append([p, 'E'])
    else:
      out += flat_of_tree(v, keep, p)
  return out


def gen_unflat_cases(rng, n):
  out = []
  for _ in range(n):
    t = gen_tree(rng, rng.randrange(1, 5), 3)
    keep = rng.random() < 0.5
    flat = flat_of_tree(t, keep)
    rng.shuffle(flat)
    sep = rng.choice(SEPS)
    r = rng.random()
    if r < 0.25 and flat:  # malformed stream
      kind = rng.randrange(5)
      p, v = rng.choice(flat)
      if kind == 0:
        flat.insert(rng.randrange(len(flat) + 1), [p[: rng.randrange(0, len(p))], {'V': {'L': 99}}])  # proper prefix (may be empty)
      elif kind == 1:
        flat.insert(rng.randrange(len(flat) + 1), [p + ['z'], {'V': {'L': 98}}])  # extension of a leaf path
      elif kind == 2:
        flat.append([p + [rng.choice(BAD_KEYS)], {'V': {'L': 97}}])  # key touching the separator
      elif kind == 3:
        flat.append([[rng.choice(STR_KEYS)], {'V': {'D': [['q', {'L': 96}]]}}])  # a dict as a value
      else:
        flat.append([[], {'V': {'L': 95}}])  # empty path
      # keep paths distinct as dict keys
      seen = set()
      flat = [e for e in flat if not (tuple(e[0]) in seen or seen.add(tuple(e[0])))]
    if sep is not None:
      seenk = set()
      flat = [e for e in flat if not (sep.join(e[0]) in seenk or seenk.add(sep.join(e[0])))]
    out.append({'kind': 'unflat', 'flat': flat, 'sep': sep, 'keep': keep})
  return out


PRED_ATOMS = ['all', 'none', {'contains': 'a'}, {'contains': 0}, {'contains': 'params'}, {'lt': 3}, {'lt': 6}, {'mod': [2, 0]}, {'mod': [3, 1]}]


def gen_preds(rng, state_j):
  n = rng.randrange(1, 5)
  leaves = [p for p, _ in ref_leaves(jt(state_j))]
  out = []
  for _ in range(n):
    if leaves and rng.random() < 0.25:
      out.append({'pathin': [list(p) for p in rng.sample(leaves, rng.randrange(0, min(3, len(leaves)) + 1))]})
    else:
      out.append(rng.choice(PRED_ATOMS))
  if rng.random() < 0.55:
    out.append('all')
  return out


TYPE_NAMES = list(VTYPES)


def gen_typed_split(rng, st):
  """a State whose leaves have variable types from the hierarchy, and a filter list whose type filters overlap in both
  orders (base class first / subclass first), mixed with path and callable filters, usually closed by `...`"""
  vals = [v for _, v in ref_leaves(jt(st))]
  ltypes = {str(v): (rng.choice(TYPE_NAMES) if rng.random() < 0.92 else 'int') for v in vals}
  preds = []
  r = rng.random()
  if r < 0.2:
    preds.append(rng.choice(PRED_ATOMS[2:]))  # a path / callable filter in front of the type filters
  # the leading run of type filters
  if rng.random() < 0.75:
    base, sub = rng.choice(SUBCLASS_PAIRS)
    pair = [base, sub] if rng.random() < 0.6 else [sub, base]
    run = [{'type': t} for t in pair]
    for _ in range(rng.randrange(0, 3)):
      run.insert(rng.randrange(len(run) + 1), {'type': rng.choice(TYPE_NAMES)})
  else:
    run = [{'type': rng.choice(TYPE_NAMES)} for _ in range(rng.randrange(1, 4))]
  preds += run
  for _ in range(rng.randrange(0, 3)):
    x = rng.random()
    if x < 0.4:
      preds.append({'type': rng.choice(TYPE_NAMES)})
    else:
      preds.append(rng.choice(PRED_ATOMS[1:]))
  x = rng.random()
  if x < 0.6:
    preds.append('ellipsis')
  elif x < 0.75:
    preds.append('all')
  return {'kind': 'st-split', 'state': st, 'preds': preds, 'leaf': 'typed', 'ltypes': ltypes}


def typed_pair_cases():
  """small exhaustive scope: one leaf of every variable type (plus a plain leaf), every ordered pair of type filters,
  alone, behind a path filter, and without the closing `...`"""
  st = {'D': [['enc', {'D': [[n, {'L': i + 1}] for i, n in enumerate(TYPE_NAMES[:4])]}],
              ['dec', {'D': [[n, {'L': i + 5}] for i, n in enumerate(TYPE_NAMES[4:])] + [['plain', {'L': 9}]]}]]}
  ltypes = {str(i + 1): n for i, n in enumerate(TYPE_NAMES)}
  ltypes['9'] = 'int'
  out = []
  for t1 in TYPE_NAMES:
    for t2 in TYPE_NAMES:
      if t1 == t2:
        continue
      for preds in ([{'type': t1}, {'type': t2}, 'ellipsis'], [{'contains': 'enc'}, {'type': t1}, {'type': t2}, 'ellipsis'],
                    [{'type': t1}, {'type': t2}], [{'type': t1}, {'type': t2}, {'type': 'Variable'}, {'lt': 100}]):
        out.append({'kind': 'st-split', 'state': st, 'preds': preds, 'leaf': 'typed', 'ltypes': ltypes})
  return out


def gen_pair(rng):
  a = gen_tree(rng, rng.randrange(1, 4), rng.randrange(2, 5), p_leaf=0.45, int_ok=True, keys=STR_KEYS[:8])
  la = ref_leaves(jt(a))
  r = rng.random()
  if r < 0.08:
    b = {'D': []}
  elif r < 0.2:
    b = gen_tree(rng, rng.randrange(1, 4), 3, int_ok=True, keys=STR_KEYS[:8], leaf0=100)
  else:
    # b shares some paths of a (other values), drops some, adds some
    paths = [p for p, _ in la if rng.random() < 0.6]
    extra = ref_leaves(jt(gen_tree(rng, rng.randrange(1, 3), 2, keys=['n1', 'n2', 'a', 'b'], leaf0=200)))
    m = {}
    n = 100
    for p in paths + [q for q, _ in extra if rng.random() < 0.5]:
      n += 1
      cur = m
      ok = True
      for k in p[:-1]:
        # keep sibling keys homogeneous so that Python can sort the paths
        if k not in cur and not all(isinstance(x, type(k)) for x in cur):
          ok = False
          break
        nxt = cur.setdefault(k, {})
        if not isinstance(nxt, dict):
          ok = False
          break
        cur = nxt
      if ok and not isinstance(cur.get(p[-1]), dict):
        if all(isinstance(x, type(p[-1])) for x in cur):
          cur[p[-1]] = n
    m = _drop_empty(m)
    b = tj(m)
    if rng.random() < 0.12 and la:
      # malformed stream: a path of b is a proper prefix / an extension of a path of a (str keys only)
      p = list(rng.choice(la)[0])
      if all(isinstance(k, str) for k in p):
        q = p[:-1] if len(p) >= 2 and rng.random() < 0.5 else p + ['zz']
        cur = m
        for k in q[:-1]:
          nxt = cur.setdefault(k, {})
          if not isinstance(nxt, dict) or not all(isinstance(x, str) for x in nxt):
            cur = None
            break
          cur = nxt
        if cur is not None and all(isinstance(x, str) for x in cur):
          cur[q[-1]] = 999
          b = tj(_drop_empty(m))
    if rng.random() < 0.15:
      b['D'].append(['empty_' + str(rng.randrange(3)), {'D': []}])
  out = {'kind': 'st-pair', 'a': a, 'b': b, 'leaf': rng.choice(['int', 'vs'])}
  # a third state for a - b - c = a - (b | c): a sub-selection of a's paths plus fresh ones
  m3 = {}
  n3 = 300
  for p, _ in la:
    if rng.random() < 0.4:
      n3 += 1
      cur = m3
      for k in p[:-1]:
        cur = cur.setdefault(k, {})
      cur[p[-1]] = n3
  if rng.random() < 0.5:
    m3['c_only'] = {'z': 399}
  out['c'] = tj(m3)
  return out


def _drop_empty(m):
  out = {}
  for k, v in m.items():
    if isinstance(v, dict):
      v = _drop_empty(v)
      if not v:
        continue
    out[k] = v
  return out


def gen_replace(rng):
  st = gen_tree(rng, rng.randrange(1, 4), 3, int_ok=True, keys=STR_KEYS[:8], p_empty=0.05)
  L = ref_leaves(jt(st))
  m = {}
  n = 500
  for p, _ in L:
    if rng.random() < 0.7:
      n += 1
      q = [str(k) if isinstance(k, int) and rng.random() < 0.5 else k for k in p]
      cur = m
      for k in q[:-1]:
        cur = cur.setdefault(k, {})
        if not isinstance(cur, dict):
          break
      else:
        if not isinstance(cur.get(q[-1]), dict):
          cur[q[-1]] = n
  if rng.random() < 0.3:
    m[rng.choice(['zz', '7', 'a'])] = {'nope': 999} if rng.random() < 0.5 else 998
  return {'kind': 'st-replace', 'state': st, 'pure': tj(m), 'leaf': rng.choice(['int', 'vs'])}


# ------------------------------------------------------------------------------------------------
# entry points
# ------------------------------------------------------------------------------------------------

BATCH = 25000


def _batched(fn, ctx, drv, cases, **kw):
  for i in range(0, len(cases), BATCH):
    fn(ctx, drv, cases[i : i + BATCH], **kw)


def run(ctx):
  drv = LeanDriver('drv_c16')
  thorough = ctx.tier == 'thorough'
  rng = ctx.rng

  for fn, obj in load_corpus('C16'):
    ctx.corpus_replayed += 1
    _run_case(ctx, drv, obj)

  # ---- exhaustive small scope: every tree x keep x sep x is_leaf, both libraries
  n_ex = 4 if not thorough else 5
  trees = exhaustive_trees(n_ex)
  ctx.extra['exhaustive_scope'] = (
    f'all {len(trees)} string-keyed trees with <= {n_ex} nodes over keys {EX_KEYS} (leaves numbered depth-first) '
    f'x keep_empty_nodes x sep {SEPS} x is_leaf {ISLEAF_SPECS} x 2 libraries'
  )
  cases = []
  for t in trees:
    for keep in (False, True):
      for sep in SEPS:
        for spec in ISLEAF_SPECS:
          if spec == 'always' and (sep == '::' or keep):
            continue  # the excluded root point: a few combinations are enough
          cases.append({'kind': 'rt', 'tree': t, 'keep': keep, 'isleaf': spec, 'sep': sep, 'frozen': False})
  _batched(check_rt, ctx, drv, cases)
  ctx.sample(cases[len(cases) // 2])

  # ---- random deeper trees; FrozenDict inputs; shuffled key order; keys touching the separator (malformed stream)
  n_rand = 2500 if not thorough else 40000
  rcases = []
  for i in range(n_rand):
    bad = rng.random() < 0.25
    keys = STR_KEYS + (BAD_KEYS if bad else [])
    t = shuffled(rng, gen_tree(rng, rng.randrange(1, 6), rng.randrange(1, 5), keys=keys))
    spec = rng.choice(ISLEAF_SPECS[:5]) if rng.random() < 0.95 else 'always'
    if isinstance(spec, dict) and 'last' in spec:
      spec = {'last': rng.choice(STR_KEYS)}
    if isinstance(spec, dict) and 'haskey' in spec:
      spec = {'haskey': rng.choice(STR_KEYS)}
    if isinstance(spec, dict) and 'depth' in spec:
      spec = {'depth': rng.randrange(1, 5)}
    sep = rng.choice(SEPS + ['.', '0', 'ab'])
    rcases.append({'kind': 'rt', 'tree': t, 'keep': rng.random() < 0.5, 'isleaf': spec, 'sep': sep, 'frozen': rng.random() < 0.3, 'fpaths': gen_fpaths(rng, t, 0.3)})
  _batched(check_rt, ctx, drv, rcases)
  ctx.sample(rcases[0])

  # ---- the other direction, from flat maps
  ucases = []
  for t in (trees if thorough else trees[:: 7]):
    for keep in (False, True):
      flat = flat_of_tree(t, keep)
      rng.shuffle(flat)
      ucases.append({'kind': 'unflat', 'flat': flat, 'sep': rng.choice(SEPS), 'keep': keep})
  ucases += gen_unflat_cases(rng, 2500 if not thorough else 30000)
  _batched(check_unflat, ctx, drv, ucases)
  ctx.sample(ucases[-1])

  # ---- path_aware_map
  pcases = []
  for t in (trees if thorough else trees[:: 5]):
    pcases.append({'kind': 'pam', 'tree': t, 'f': {'affine': 100}, 'frozen': False})
    pcases.append({'kind': 'pam', 'tree': t, 'f': {'wrap': 'b'}, 'frozen': False})
    dps = dict_paths(t)
    if dps:  # mixed containers: every dict at depth 1 frozen / one inner dict frozen under a frozen or plain root
      pcases.append({'kind': 'pam', 'tree': t, 'f': {'affine': 100}, 'frozen': False, 'fpaths': [q for q in dps if len(q) == 1]})
      pcases.append({'kind': 'pam', 'tree': t, 'f': {'wrap': 'a'}, 'frozen': rng.random() < 0.5, 'fpaths': [rng.choice(dps)]})
  for _ in range(800 if not thorough else 10000):
    t = shuffled(rng, gen_tree(rng, rng.randrange(1, 6), rng.randrange(1, 5)))
    f = {'affine': rng.randrange(1, 1000)} if rng.random() < 0.6 else {'wrap': rng.choice(STR_KEYS)}
    pcases.append({'kind': 'pam', 'tree': t, 'f': f, 'frozen': rng.random() < 0.3, 'fpaths': gen_fpaths(rng, t)})
  _batched(check_pam, ctx, drv, pcases)
  ctx.sample(pcases[-1])

  # ---- NNX State
  n_st = 1200 if not thorough else 15000
  conv, splits, pairs, repls = [], [], [], []
  fixed = [
    {'D': [['layers', {'D': [['0', {'L': 1}], ['x', {'L': 2}]]}]]},  # F14: digit-string key
    {'D': [['layers', {'D': [[0, {'L': 1}], [1, {'L': 2}]]}], ['e', {'D': []}]]},
    {'D': []},
    {'D': [['a', {'D': [['b', {'D': []}]]}]]},
  ]
  for st in fixed:
    for kind in ('int', 'vs'):
      conv.append({'kind': 'st-conv', 'state': st, 'leaf': kind})
  for _ in range(n_st):
    st = shuffled(rng, gen_tree(rng, rng.randrange(1, 5), rng.randrange(2, 5), p_leaf=0.45, int_ok=True, keys=STR_KEYS[:9], p_empty=0.08))
    kind = rng.choice(['int', 'vs'])
    conv.append({'kind': 'st-conv', 'state': st, 'leaf': kind})
    splits.append({'kind': 'st-split', 'state': st, 'preds': gen_preds(rng, st), 'leaf': kind})
    splits.append(gen_typed_split(rng, st))
    pairs.append(gen_pair(rng))
    repls.append(gen_replace(rng))
  pairs.append({'kind': 'st-pair', 'a': fixed[1], 'b': {'D': [['layers', {'D': [[1, {'L': 7}]]}]]}, 'leaf': 'vs'})
  _batched(check_conv, ctx, drv, conv)
  splits += typed_pair_cases()
  _batched(check_split, ctx, drv, splits)
  _batched(check_pair, ctx, drv, pairs)
  _batched(check_replace, ctx, drv, repls)
  ctx.sample(conv[-1])
  ctx.sample(splits[-1])
  ctx.sample(pairs[-2])
  ctx.extra['exhaustive'] = False
  ctx.extra['driver_calls'] = drv.calls


def _run_case(ctx, drv, obj):
  case = obj.get('case', obj)
  case = {k: v for k, v in case.items() if k not in ('lib', 'variant', 'op', 'origin', 'order', 'part', 'api')}
  kind = case.get('kind')
  if kind == 'rt':
    case.setdefault('frozen', False)
    check_rt(ctx, drv, [case])
  elif kind == 'unflat':
    check_unflat(ctx, drv, [case])
  elif kind == 'pam':
    check_pam(ctx, drv, [case])
  elif kind == 'st-conv':
    check_conv(ctx, drv, [case])
  elif kind == 'st-replace':
    check_replace(ctx, drv, [case])
  elif kind == 'st-split':
    check_split(ctx, drv, [case])
  elif kind == 'st-pair':
    check_pair(ctx, drv, [case])
  else:
    ctx.notes.append(f'unknown corpus case kind {kind}')


def replay(ctx, obj):
  drv = LeanDriver('drv_c16')
  _run_case(ctx, drv, obj)
  for v in ctx.violations:
    print('  ', v['key'], '-', v['what'][:300])
  return bool(ctx.violations)
