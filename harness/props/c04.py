"""C04 — NNX transforms keep Python reference semantics: same result and state as eager.

Theorems: lean/Flax/Props/C04.lean over lean/Flax/Model/NnxProtocol.lean (on Heap.lean / Graph.lean of C03).

What this harness does on every run
  * generates small abstract object graphs (graph nodes and Variables with aliasing, cycles, static / array / None /
    container attributes; payloads are int32 scalars), argument tuples with deliberate cross-argument aliasing,
    function bodies in the mutation DSL of the model (reads, Variable updates, attribute add / delete / re-bind,
    new nodes and Variables, new aliasing; 1-8 operations) and call histories (1-4 calls of the SAME transformed
    function with eager edits of the caller's objects between calls: trace-cache hits and misses);
  * builds every graph TWICE as real nnx objects; runs the history eagerly (plain Python) on one build and under
    the real nnx.jit / remat / cond / switch / fori_loop / while_loop / cached_partial from /repo on the other;
  * observes both with an independent walker (object identity -> the caller's recipe address, `vars(obj)`), and
    canonicalises: DFS labelling of everything reachable from (arguments, results), where every object carries
    "which of the caller's objects it is" (or `new`) -- so a copy in place of the caller's own object is visible;
  * property oracle: after every call, same outcome class, same canonical form (values, attributes, aliasing,
    identity of the caller's objects, returned values) as the eager run; transforms that must reject structure
    changes (cond / switch / loops / cached_partial) are checked against the model's verdict instead;
  * correspondence: the same history through the compiled Lean model (drv_c04), both the protocol and the eager
    semantics, compared step by step, plus the number of times the Python body ran (trace counter).
"""
from __future__ import annotations

import copy
import json

from harness import compat  # noqa: F401  (must precede flax)
from harness.common import LeanDriver, load_corpus, load_findings, InfraError

import numpy as np
import jax
import jax.numpy as jnp
from flax import nnx

from harness.props import c03 as g3  # graph JSON format, real classes, static value codec (imported, not modified)

NODE_CLASSES = dict(g3.NODE_CLASSES)
# graph nodes whose truth value is not "always true": re-use of the caller's object in the outer merge must be decided by
# presence in outer_index_outer_ref, never by the object's value
NODE_CLASSES['L'] = type('L', (nnx.Module,), {'__len__': lambda self: len(vars(self)) - 1})  # empty => falsy
NODE_CLASSES['F'] = type('F', (nnx.Module,), {'__bool__': lambda self: False})  # always falsy
NODE_CLASSES['Rngs'] = nnx.Rngs  # the library's own container: `nnx.Rngs()` is empty, its __len__ is 0
FALSY_CLASSES = ['L', 'F', 'Rngs']
VTYPES = g3.VTYPES
VT_MRO = g3.VT_MRO
static_value = g3.static_value
static_repr = g3.static_repr
sorted_items = g3.sorted_items

SPEC = {
  'exes': ['drv_c04'],
  'rule': (
    'One case = one object graph (1-4 graph nodes, 1-3 Variables, aliasing / cycles / static, array, None and container '
    'attributes) x an argument tuple (1-3 arguments: nodes, Variables, arrays; ~60% with an object reachable from two '
    'arguments or passed twice) x a transform in {jit, remat, cond, switch, fori_loop, while_loop, cached_partial} x '
    'function bodies of 1-8 DSL operations x a history of 1-4 calls of the same transformed function with eager edits '
    'between calls. Every call is run eagerly on one build of the graph and under the real transform on another; '
    'compared after every step: outcome class, canonical form of everything reachable from (arguments, results) '
    'including which caller object each object is, returned values, and the trace counter. A case is non-trivial when '
    'it has cross-argument aliasing, a structural edit, or >= 2 calls; distinct = distinct canonical JSON of the case.'
  ),
  'trusted_base': [
    'hand-written Lean models lean/Flax/Model/NnxProtocol.lean, Heap.lean, Graph.lean (tied to /repo by this correspondence run)',
    'harness/props/c04.py (generators, DSL interpreter on real objects, independent observer / canonicaliser), harness/props/c03.py (graph JSON, classes), harness/compat.py (JAX shim)',
    'A-JIT / A-REMAT / A-COND / A-WHILE: jax.jit and jax.checkpoint are the identity on pure functions of pytrees (cache keyed by static structure), lax.cond / switch select a branch and reject mismatched output structures, lax.while_loop / fori_loop iterate a body with invariant carry structure',
    'Python data model: id() identity, vars(obj) as a map (A-PY)',
  ],
  'assumptions': [
    'function bodies are straight-line programs over reads, Variable value updates, attribute set / delete / re-bind, new nodes / Variables (no data-dependent Python control flow: a traced function cannot have any); payloads are int32 scalars (XLA wrap-around modelled by wrap32)',
    'interpretation: the state compared after a call is everything reachable from the arguments and the results; an object of the caller that the function DETACHED from the arguments (e.g. `c = m.c; c.w.value += 1; del m.c`) is not updated by a transform (the outer merge never sees it) although eager Python mutates it -- measured as `detached_state_differs`, not a violation',
    'Variable metadata is not edited inside a transformed function (nnx.jit sends raw values: metadata edits of existing Variables are not propagated)',
    'arguments are flat: each argument is a graph node, a Variable or an array (containers of graph nodes as arguments are pytrees handled by JAX)',
    'ctx.split -> nested State -> ctx.merge re-sorts leaves by path; on flatten output that is the identity (C03 merge_any_order), so the model passes leaves in emission order',
    'cond / switch / fori_loop / while_loop reject structure changes (StructureMismatch), cached_partial rejects them (cacheMutated): for those the oracle checks the rejection and that accepted calls equal eager',
    'cached_partial runs the function on clones of the cached graph nodes that share the caller\'s Variables: returned graph nodes are clones (only value updates and array results are compared)',
  ],
  'model_partial': [
    'switch_total / cond_total / fori_loop_total / while_loop_total give the unconditional forms (closed heap; Heap.wf for loops): first eagerly failing branch => its error; all branches ok and equal traced output structures => accepted and refines; otherwise structureMismatch (exhaustive trichotomy); a loop body is accepted iff the eager body returns the carry with the same graphdef and the same objects in the same order (loop_body_outcome). NOT proved in Lean: for loops, which error is returned when a LATER iteration (not the traced first application) fails or stops keeping the carry -- programs have no data-dependent structure, so in the implementation this cannot happen after a successful trace; the model re-checks every iteration and the correspondence compares outcomes.',
    'while_loop theorems assume a predicate built from reads only (Fn.readOnly) that returns one array, and termination within the budget.',
    'cached_partial_detects: the model keeps the observable contract of nnx.cached_partial (run jit(f), demand final graphdef == graphdef.with_same_outer_index() for the cached arguments, propagate Variable updates). NOT modelled: the StaticCache fast paths themselves (cached graphdef / Variable list / fingerprint indices) and that the function runs on CLONES of the cached graph nodes (a returned graph node is a clone, not the caller\'s object); tied by correspondence on value-only bodies returning arrays.',
    'refinement theorems compare everything reachable from (arguments, results) AFTER the call; the excluded region is stated in Lean: detached_object_update_lost (finding F31: a detached caller object keeps its pre-call state under jit, RefinesEager.frame) and metadata_edit_dropped_by_raw_leaves (finding F32: raw leaves keep the caller\'s old Variable metadata, VariableState leaves replace it); the DSL has no metadata-edit statement.',
  ],
}

# ------------------------------------------------------------------------------------------------
# payloads, building and observing real objects
# ------------------------------------------------------------------------------------------------


def wrap32(x: int) -> int:
  return (x + 2**31) % 2**32 - 2**31


def arr(d):
  return jnp.asarray(int(d), dtype=jnp.int32)


def data_of(v):
  try:
    a = np.asarray(v)
    if a.shape == () and a.dtype.kind in 'iub':
      return int(a)
    return ['nonscalar', str(a.dtype), list(a.shape), [int(x) for x in a.reshape(-1)[:4]]]
  except Exception as e:  # a leaked tracer etc.
    return ['unreadable', type(e).__name__]


def build(G):
  """Real nnx objects for an abstract heap; returns (objects by address, value builder)."""
  objs = []
  for o in G['heap']:
    if 'cls' in o:
      objs.append(NODE_CLASSES[o['cls']]())
    else:
      objs.append(VTYPES[o['vt'][0]](arr(o['val']), **{k: static_value(v) for k, v in o['md']}))

  def val(p):
    if p is None:
      return None
    if 's' in p:
      return static_value(p['s'])
    if 'a' in p:
      return arr(p['a'])
    if 'r' in p:
      return objs[p['r']]
    if 'l' in p:
      return [val(x) for x in p['l']]
    if 't' in p:
      return tuple(val(x) for x in p['t'])
    if 'd' in p:
      return {k: val(x) for k, x in p['d']}
    raise ValueError(p)

  for o, spec in zip(objs, G['heap']):
    if 'cls' in spec:
      for k, v in spec['attrs']:
        setattr(o, k, val(v))
  return objs, val


class Obs:
  """Independent observation of real objects: identity -> address (the caller's objects keep their recipe
  address, anything else gets the next free one), `vars()` read directly."""

  def __init__(self, objs):
    self.addr = {}
    self.keep = []
    for o in objs:
      self.add(o)
    self.n0 = len(self.keep)

  def add(self, o):
    i = self.addr.get(id(o))
    if i is None:
      i = len(self.keep)
      self.addr[id(o)] = i
      self.keep.append(o)
    return i

  def val(self, v):
    if isinstance(v, (nnx.Variable, nnx.Object)):
      return {'r': self.add(v)}
    if v is None:
      return None
    if isinstance(v, list):
      return {'l': [self.val(x) for x in v]}
    if isinstance(v, tuple):
      return {'t': [self.val(x) for x in v]}
    if isinstance(v, dict):
      return {'d': [[k, self.val(x)] for k, x in v.items()]}
    if isinstance(v, (np.ndarray, jax.Array, np.generic)):
      return {'a': data_of(v)}
    return {'s': static_repr(v)}

  def obj(self, o):
    if isinstance(o, nnx.Variable):
      return {'vt': g3.mro_names(type(o)), 'val': data_of(o.raw_value), 'md': [[k, static_repr(v)] for k, v in o.get_metadata().items()]}
    return {'cls': type(o).__name__, 'attrs': [[k, self.val(v)] for k, v in vars(o).items() if k != '_object__state']}

  def snapshot(self, roots):
    rootv = {'t': [self.val(r) for r in roots]}
    heap = []
    i = 0
    while i < len(self.keep):
      heap.append(self.obj(self.keep[i]))
      i += 1
    return {'heap': heap, 'root': rootv}


def canon_id(G, n0):
  """Canonical form of the rooted graph with identity: DFS in sorted key order, objects labelled by first visit,
  every object tagged with the caller's address it is (`a < n0`) or 'new'. Addresses of new objects, attribute
  insertion order and dict order are forgotten."""
  heap = G['heap']
  label = {}

  def cv(v):
    if v is None:
      return None
    if 's' in v:
      return ['s', v['s']]
    if 'a' in v:
      return ['a', v['a']]
    if 'l' in v:
      return ['l', [cv(x) for x in v['l']]]
    if 't' in v:
      return ['t', [cv(x) for x in v['t']]]
    if 'd' in v:
      return ['d', [[k, cv(x)] for k, x in sorted_items(v['d'])]]
    a = v['r']
    if a in label:
      return ['ref', label[a]]
    n = label[a] = len(label)
    who = a if a < n0 else 'new'
    o = heap[a]
    if 'cls' in o:
      return ['node', n, who, o['cls'], [[k, cv(x)] for k, x in sorted_items(o['attrs'])]]
    return ['var', n, who, o['vt'], o['val'], sorted(o['md'])]

  return cv(G['root'])


def caller_state(G, n0):
  """state of ALL the caller's objects (reachable or not), attribute order forgotten: used only to measure the
  detached-object observation"""
  def nv(v):
    if isinstance(v, dict):
      if 'd' in v:
        return {'d': [[k, nv(x)] for k, x in sorted_items(v['d'])]}
      if 'l' in v or 't' in v:
        k = 'l' if 'l' in v else 't'
        return {k: [nv(x) for x in v[k]]}
    return v

  out = []
  for o in G['heap'][:n0]:
    if 'cls' in o:
      out.append(['node', o['cls'], [[k, json.dumps(nv(v), sort_keys=True)] for k, v in sorted_items(o['attrs'])]])
    else:
      out.append(['var', o['vt'], o['val'], sorted(o['md'])])
  return out


# ------------------------------------------------------------------------------------------------
# the DSL on abstract heaps (used by the generator to stay mostly valid) and on real objects
# ------------------------------------------------------------------------------------------------


class AbsErr(Exception):
  pass


def abs_eval(e, env):
  if 'c' in e:
    return wrap32(e['c'])
  if 'r' in e:
    v = env[e['r']]
    if not (isinstance(v, dict) and 'a' in v):
      raise AbsErr('typeError')
    return v['a']
  for k, f in (('add', lambda a, b: wrap32(a + b)), ('mul', lambda a, b: wrap32(a * b)), ('lt', lambda a, b: 1 if a < b else 0)):
    if k in e:
      return f(abs_eval(e[k][0], env), abs_eval(e[k][1], env))
  raise ValueError(e)


def _node_at(heap, env, r):
  v = env[r]
  if not (isinstance(v, dict) and 'r' in v and 'cls' in heap[v['r']]):
    raise AbsErr('typeError')
  return heap[v['r']]


def _var_at(heap, env, r):
  v = env[r]
  if not (isinstance(v, dict) and 'r' in v and 'vt' in heap[v['r']]):
    raise AbsErr('typeError')
  return heap[v['r']]


def abs_op(heap, env, op):
  k = op['op']
  if k == 'getAttr':
    o = _node_at(heap, env, op['r'])
    for kk, v in o['attrs']:
      if kk == op['k']:
        env.append(copy.deepcopy(v))
        return
    raise AbsErr('attrError')
  if k == 'readVar':
    env.append({'a': _var_at(heap, env, op['r'])['val']})
  elif k == 'setVar':
    o = _var_at(heap, env, op['r'])
    o['val'] = abs_eval(op['e'], env)
  elif k == 'setAttr':
    o = _node_at(heap, env, op['r'])
    v = copy.deepcopy(env[op['src']])
    for kv in o['attrs']:
      if kv[0] == op['k']:
        kv[1] = v
        return
    o['attrs'].append([op['k'], v])
  elif k == 'delAttr':
    o = _node_at(heap, env, op['r'])
    if not any(kk == op['k'] for kk, _ in o['attrs']):
      raise AbsErr('attrError')
    o['attrs'] = [kv for kv in o['attrs'] if kv[0] != op['k']]
  elif k == 'newNode':
    heap.append({'cls': op['cls'], 'attrs': []})
    env.append({'r': len(heap) - 1})
  elif k == 'newVar':
    heap.append({'vt': op['vt'], 'val': abs_eval(op['e'], env), 'md': op['md']})
    env.append({'r': len(heap) - 1})
  elif k == 'litStatic':
    env.append({'s': op['s']})
  elif k == 'litNone':
    env.append(None)
  elif k == 'data':
    env.append({'a': abs_eval(op['e'], env)})
  else:
    raise ValueError(op)


def abs_run(fn, heap, args):
  """(rets, heap) of the eager semantics on an abstract heap (mutates `heap`)."""
  env = [copy.deepcopy(a) for a in args]
  for op in fn['body']:
    abs_op(heap, env, op)
  return [env[r] for r in fn['ret']]


def py_eval(e, regs):
  if 'c' in e:
    return jnp.asarray(e['c'], dtype=jnp.int32)
  if 'r' in e:
    return regs[e['r']]
  if 'add' in e:
    return py_eval(e['add'][0], regs) + py_eval(e['add'][1], regs)
  if 'mul' in e:
    return py_eval(e['mul'][0], regs) * py_eval(e['mul'][1], regs)
  if 'lt' in e:
    return (py_eval(e['lt'][0], regs) < py_eval(e['lt'][1], regs)).astype(jnp.int32)
  raise ValueError(e)


def interp(fn, args, counter=None):
  """The function body as plain Python on real objects (also what gets traced under a transform)."""
  if counter is not None:
    counter[0] += 1
  regs = list(args)
  for op in fn['body']:
    k = op['op']
    if k == 'getAttr':
      regs.append(getattr(regs[op['r']], op['k']))
    elif k == 'readVar':
      regs.append(regs[op['r']].value)
    elif k == 'setVar':
      regs[op['r']].value = py_eval(op['e'], regs)
    elif k == 'setAttr':
      setattr(regs[op['r']], op['k'], regs[op['src']])
    elif k == 'delAttr':
      delattr(regs[op['r']], op['k'])
    elif k == 'newNode':
      regs.append(NODE_CLASSES[op['cls']]())
    elif k == 'newVar':
      regs.append(VTYPES[op['vt'][0]](py_eval(op['e'], regs), **{kk: static_value(v) for kk, v in op['md']}))
    elif k == 'litStatic':
      regs.append(static_value(op['s']))
    elif k == 'litNone':
      regs.append(None)
    elif k == 'data':
      regs.append(py_eval(op['e'], regs))
    else:
      raise ValueError(op)
  return tuple(regs[r] for r in fn['ret'])


# ------------------------------------------------------------------------------------------------
# running one history on the implementation
# ------------------------------------------------------------------------------------------------

STRUCT_KINDS = ('cond', 'switch', 'fori', 'while')
CP_SAME_NODE_TWICE = True  # nnx.cached_partial(f, m, m) raised KeyError before fix 7640b7e (corpus/C04/cp_same_node_twice.json)


def classify(kind, e):
  """exception -> error enum shared with the model (class of exception + which transform raised it; no messages)"""
  if isinstance(e, AttributeError):
    return 'attrError'
  if kind in STRUCT_KINDS and isinstance(e, (TypeError, ValueError)):
    return 'structureMismatch'
  if kind == 'cached_partial' and isinstance(e, ValueError):
    return 'cacheMutated'
  return 'Exception:' + type(e).__name__


def clamp(i, n):
  return 0 if i < 0 else min(i, n - 1)


WHILE_CAP = 64


def eager_call(spec, args, i, n):
  kind = spec['kind']
  if kind in ('jit', 'remat', 'cached_partial'):
    return interp(spec['fn'], args)
  if kind == 'switch':
    return interp(spec['fns'][clamp(i, len(spec['fns']))], args)
  if kind == 'cond':
    return interp(spec['t'] if i != 0 else spec['f'], args)
  if kind == 'fori':
    vals = tuple(args)
    for t in range(n):
      vals = interp(spec['fn'], (jnp.asarray(wrap32(i + t), dtype=jnp.int32),) + tuple(vals))
    return vals
  if kind == 'while':
    vals = tuple(args)
    for _ in range(n):
      c = interp(spec['c'], vals)
      if int(np.asarray(c[0])) == 0:
        return vals
      vals = interp(spec['fn'], vals)
    raise RuntimeError('while budget')
  raise ValueError(kind)


class Transformed:
  """The transformed function of one history (created once: the SAME nnx.jit object serves every call)."""

  def __init__(self, spec):
    self.spec = spec
    self.counter = [0]
    self.kind = spec['kind']
    c = self.counter
    if self.kind == 'jit':
      fn = spec['fn']
      wrap = spec.get('wrap')  # the results nested in a list / dict (a JAX pytree around the returned graph nodes)
      if wrap == 'list':
        self.f = nnx.jit(lambda *a: [list(interp(fn, a, c))])
      elif wrap == 'dict':
        self.f = nnx.jit(lambda *a: {'out': {str(i): r for i, r in enumerate(interp(fn, a, c))}})
      else:
        self.f = nnx.jit(lambda *a: interp(fn, a, c))
    elif self.kind == 'cached_partial':
      fn = spec['fn']
      self.jf = nnx.jit(lambda *a: interp(fn, a, c))
      self.cp = None

  def __call__(self, args, i, n):
    spec, c = self.spec, self.counter
    k = self.kind
    if k == 'jit':
      out = self.f(*args)
      wrap = spec.get('wrap')
      if wrap == 'list':
        return tuple(out[0])
      if wrap == 'dict':
        return tuple(out['out'][str(i)] for i in range(len(out['out'])))
      return out
    if k == 'remat':
      fn = spec['fn']
      return nnx.remat(lambda *a: interp(fn, a, c))(*args)
    if k == 'cached_partial':
      nc = spec.get('ncached', len(args))
      if self.cp is None:
        self.cp = nnx.cached_partial(self.jf, *args[:nc])
      return self.cp(*args[nc:])
    if k == 'switch':
      fns = [(lambda f: (lambda *a: interp(f, a, c)))(f) for f in spec['fns']]
      return nnx.switch(jnp.asarray(i, dtype=jnp.int32), fns, *args)
    if k == 'cond':
      t, f = spec['t'], spec['f']
      return nnx.cond(jnp.asarray(i != 0), lambda *a: interp(t, a, c), lambda *a: interp(f, a, c), *args)
    if k == 'fori':
      fn = spec['fn']
      return nnx.fori_loop(i, i + n, lambda j, val: interp(fn, (jnp.asarray(j, dtype=jnp.int32),) + tuple(val), c), tuple(args))
    if k == 'while':
      cf, fn = spec['c'], spec['fn']
      return nnx.while_loop(lambda val: interp(cf, val)[0] != 0, lambda val: interp(fn, val, c), tuple(args))
    raise ValueError(k)


def run_impl(case, eager):
  """Runs the history on a fresh build. Returns the list of step records."""
  G = case['G']
  objs, val = build(G)
  obs = Obs(objs)
  n0 = obs.n0
  spec = case['spec']
  tf = None if eager else Transformed(spec)
  out = []
  for st in case['steps']:
    if 'call' in st:
      args = [val(a) for a in st['call']]
      i, n = st.get('i', 0), st.get('n', 0)
      try:
        rets = eager_call(spec, args, i, n) if eager else tf(args, i, n)
        rets = tuple(rets) if isinstance(rets, (tuple, list)) else (rets,)
        snap = obs.snapshot(list(args) + list(rets))
        rec = {'res': 'ok', 'canon': canon_id(snap, n0), 'nret': len(rets), 'caller': caller_state(snap, n0)}
      except Exception as e:  # every exception from flax / jax is an observation
        rec = {'res': 'err', 'err': classify(spec['kind'], e), 'etype': type(e).__name__}
        if not eager:
          snap = obs.snapshot([val(a) for a in st['call']])
          rec['caller'] = caller_state(snap, n0)
      rec['traces'] = 0 if eager else tf.counter[0]
      out.append(rec)
      if rec['res'] == 'err' and eager:
        break
    else:
      args = [val(a) for a in st['edit']['args']]
      try:
        rets = interp(st['edit']['fn'], args)
        snap = obs.snapshot(list(args) + list(rets))
        out.append({'res': 'ok', 'canon': canon_id(snap, n0), 'edit': True, 'traces': 0 if eager else tf.counter[0]})
      except Exception as e:
        out.append({'res': 'err', 'err': classify('edit', e), 'edit': True, 'abort': True})
        break
  return out, n0


def model_records(case, n0, reply):
  """Model step records in the same shape as run_impl's."""
  if reply[0] != 'ok':
    return [{'res': 'err', 'err': 'driver:' + str(reply[1])}]
  out = []
  for st, r in zip(case['steps'], reply[1]):
    if 'ok' in r:
      args = st['call'] if 'call' in st else st['edit']['args']
      G = {'heap': r['ok']['heap'], 'root': {'t': list(args) + list(r['ok']['rets'])}}
      out.append({'res': 'ok', 'canon': canon_id(G, n0), 'traces': r.get('traces', 0)})
    else:
      out.append({'res': 'err', 'err': r['err'], 'traces': r.get('traces', 0), 'abort': r.get('abort', False)})
  return out


# ------------------------------------------------------------------------------------------------
# generators
# ------------------------------------------------------------------------------------------------

ATTRS = ['a', 'b', 'c', 'w', 'k', 'z', 'bias']
STATICS = ['i:0', 'i:3', 's:relu', 'b:True']
METAS = [[], [], [], [['tag', 's:x']], [['n', 'i:3']]]
VT_NAMES = ['Param', 'BatchStat', 'Cache', 'MyParam', 'Variable']
CLS_NAMES = ['A', 'B', 'C', 'O', 'A', 'B', 'L', 'F', 'Rngs']


def gen_graph(rng):
  n_nodes = rng.choice([1, 2, 2, 3, 3, 4])
  n_vars = rng.choice([1, 2, 2, 3])
  heap = [{'cls': rng.choice(CLS_NAMES), 'attrs': []} for _ in range(n_nodes)]
  var_addrs = []
  for _ in range(n_vars):
    var_addrs.append(len(heap))
    heap.append({'vt': VT_MRO[rng.choice(VT_NAMES)], 'val': rng.randrange(0, 10), 'md': [list(x) for x in rng.choice(METAS)]})

  def leafval():
    r = rng.random()
    if r < 0.3:
      return {'r': rng.randrange(n_nodes)}
    if r < 0.72:
      return {'r': rng.choice(var_addrs)}
    if r < 0.82:
      return {'s': rng.choice(STATICS)}
    if r < 0.93:
      return {'a': rng.randrange(0, 10)}
    return None

  for i in range(n_nodes):
    if heap[i]['cls'] in FALSY_CLASSES and rng.random() < 0.5:
      continue  # an empty (falsy) container
    for nm in rng.sample(ATTRS, rng.randrange(1, 4)):
      if rng.random() < 0.08:
        items = [leafval() for _ in range(rng.randrange(1, 3))]
        v = rng.choice([{'l': items}, {'t': items}, {'d': [[k, it] for k, it in zip(rng.sample(ATTRS, len(items)), items)]}])
      else:
        v = leafval()
      heap[i]['attrs'].append([nm, v])
  for i in range(1, n_nodes):  # a spine so that most nodes are reachable from node 0
    if rng.random() < 0.7:
      p = rng.randrange(0, i)
      nm = rng.choice(ATTRS)
      if all(k != nm for k, _ in heap[p]['attrs']):
        heap[p]['attrs'].append([nm, {'r': i}])
  # every Variable is referenced somewhere
  for va in var_addrs:
    if rng.random() < 0.5:
      p = rng.randrange(n_nodes)
      nm = rng.choice(ATTRS)
      if all(k != nm for k, _ in heap[p]['attrs']):
        heap[p]['attrs'].append([nm, {'r': va}])
  return {'heap': heap}


def reach_from(heap, a):
  seen, stack = [], [{'r': a}]
  while stack:
    v = stack.pop()
    if v is None or 's' in v or 'a' in v:
      continue
    if 'r' in v:
      if v['r'] in seen:
        continue
      seen.append(v['r'])
      o = heap[v['r']]
      if 'cls' in o:
        stack.extend(x for _, x in o['attrs'])
    else:
      kind = next(iter(v))
      stack.extend((x[1] if kind == 'd' else x) for x in v[kind])
  return seen


def gen_args(rng, G, nodes_only=False, with_counter=False):
  """argument tuple with deliberate cross-argument aliasing; returns (args, aliased?)"""
  heap = G['heap']
  nodes = [i for i, o in enumerate(heap) if 'cls' in o]
  pool = nodes if nodes_only else list(range(len(heap)))
  n = rng.choice([1, 2, 2, 3])
  first = rng.choice(nodes) if rng.random() < 0.85 else rng.choice(pool)
  args = [{'r': first}]
  while len(args) < n:
    r = rng.random()
    sub = [a for a in reach_from(heap, first)[1:] if a in pool]
    if r < 0.45 and sub:
      args.append({'r': rng.choice(sub)})  # something reachable from the first argument
    elif r < 0.55:
      args.append({'r': first})  # the same object twice
    elif r < 0.85 or nodes_only:
      args.append({'r': rng.choice(pool)})
    else:
      args.append({'a': rng.randrange(0, 10)})
  rng.shuffle(args)
  if with_counter:
    args.append({'a': 0})
  sets = [set(reach_from(heap, a['r'])) for a in args if 'r' in a]
  aliased = any(sets[i] & sets[j] for i in range(len(sets)) for j in range(i + 1, len(sets)))
  return args, aliased


class ProgGen:
  """Builds a program op by op while running it on an abstract copy of the heap (so that most ops are valid)."""

  def __init__(self, rng, heap, args):
    self.rng = rng
    self.heap = copy.deepcopy(heap)
    self.n0 = len(heap)
    self.env = [copy.deepcopy(a) for a in args]
    self.body = []
    self.structural = False
    self.fail = None

  def regs(self, pred):
    return [i for i, v in enumerate(self.env) if pred(v)]

  def node_regs(self):
    return self.regs(lambda v: isinstance(v, dict) and 'r' in v and 'cls' in self.heap[v['r']])

  def var_regs(self):
    return self.regs(lambda v: isinstance(v, dict) and 'r' in v and 'vt' in self.heap[v['r']])

  def arr_regs(self):
    return self.regs(lambda v: isinstance(v, dict) and 'a' in v)

  def expr(self, depth=2):
    rng = self.rng
    ar = self.arr_regs()
    r = rng.random()
    if depth == 0 or r < 0.3:
      if ar and rng.random() < 0.7:
        return {'r': rng.choice(ar)}
      return {'c': rng.randrange(0, 6)}
    if r < 0.75:
      return {'add': [self.expr(depth - 1), self.expr(depth - 1)]}
    if r < 0.93:
      return {'mul': [self.expr(depth - 1), {'c': rng.choice([2, 3])}]}
    return {'lt': [self.expr(depth - 1), self.expr(depth - 1)]}

  def emit(self, op):
    self.body.append(op)
    try:
      abs_op(self.heap, self.env, op)
    except AbsErr as e:
      self.fail = str(e)

  def explore(self):
    """getAttr / readVar: bring an inner object or a value into a register"""
    rng = self.rng
    nr = self.node_regs()
    vr = self.var_regs()
    if nr and (not vr or rng.random() < 0.6):
      r = rng.choice(nr)
      attrs = self.heap[self.env[r]['r']]['attrs']
      if attrs:
        self.emit({'op': 'getAttr', 'r': r, 'k': rng.choice(attrs)[0]})
        return True
    if vr:
      self.emit({'op': 'readVar', 'r': rng.choice(vr)})
      return True
    return False

  def value_op(self):
    rng = self.rng
    vr = self.var_regs()
    r = rng.random()
    if vr and r < 0.75:
      self.emit({'op': 'setVar', 'r': rng.choice(vr), 'e': self.expr()})
      return True
    if r < 0.9:
      self.emit({'op': 'data', 'e': self.expr()})
      return True
    # overwrite an existing array attribute with a new array (an ArrayAttr leaf: structure unchanged)
    for nreg in self.node_regs():
      for k, v in self.heap[self.env[nreg]['r']]['attrs']:
        if isinstance(v, dict) and 'a' in v and self.arr_regs():
          self.emit({'op': 'setAttr', 'r': nreg, 'k': k, 'src': rng.choice(self.arr_regs())})
          return True
    return False

  def struct_op(self):
    rng = self.rng
    nr = self.node_regs()
    r = rng.random()
    if r < 0.1:
      self.emit({'op': 'newNode', 'cls': rng.choice(CLS_NAMES)})
      return True
    if r < 0.22:
      self.emit({'op': 'newVar', 'vt': VT_MRO[rng.choice(VT_NAMES)], 'e': self.expr(1), 'md': [list(x) for x in rng.choice(METAS)]})
      return True
    if r < 0.27:
      self.emit({'op': 'litStatic', 's': rng.choice(STATICS)} if rng.random() < 0.8 else {'op': 'litNone'})
      return True
    if not nr:
      return False
    tgt = rng.choice(nr)
    attrs = self.heap[self.env[tgt]['r']]['attrs']
    if r < 0.45 and attrs:
      self.structural = True
      self.emit({'op': 'delAttr', 'r': tgt, 'k': rng.choice(attrs)[0]})
      return True
    # setAttr: new key or re-bind an existing one; sources biased towards references (new aliasing) and fresh objects
    refs = self.regs(lambda v: isinstance(v, dict) and 'r' in v)
    others = list(range(len(self.env)))
    src = rng.choice(refs) if refs and rng.random() < 0.75 else rng.choice(others)
    key = rng.choice(attrs)[0] if attrs and rng.random() < 0.4 else rng.choice(ATTRS)
    self.structural = True
    self.emit({'op': 'setAttr', 'r': tgt, 'k': key, 'src': src})
    return True

  def bad_op(self):
    nr = self.node_regs()
    if nr:
      self.emit({'op': self.rng.choice(['getAttr', 'delAttr']), 'r': self.rng.choice(nr), 'k': 'missing_attr'})

  def fn(self, ret):
    return {'body': self.body, 'ret': ret}

  def pick_ret(self, allow_refs=True):
    rng = self.rng
    ar = self.arr_regs()
    refs = self.regs(lambda v: isinstance(v, dict) and 'r' in v) if allow_refs else []
    if allow_refs == 'vars':
      # cached_partial: returned Variables of the arguments are the caller's own objects; returned graph nodes are clones;
      # a NEW bare Variable as result hits `assert isinstance(graphdef, NodeDef)` (probe `cached-partial-bare-variable-result`)
      refs = [r for r in self.var_regs() if self.env[r]['r'] < self.n0]
    ret = []
    if ar:
      ret.append(rng.choice(ar))
    if refs and rng.random() < (0.7 if allow_refs == 'vars' else 0.45):
      ret.append(rng.choice(refs))
      if allow_refs == 'vars' and rng.random() < 0.4:
        ret.append(rng.choice(refs))
    if not ret:
      self.emit({'op': 'data', 'e': {'c': 7}})
      ret.append(len(self.env) - 1)
    if rng.random() < 0.3:
      rng.shuffle(ret)
    return ret


def gen_fn(rng, heap, args, n_ops, structural, allow_refs=True, p_bad=0.04):
  g = ProgGen(rng, heap, args)
  for _ in range(rng.randrange(1, 3)):
    g.explore()
  while len(g.body) < n_ops and g.fail is None:
    r = rng.random()
    if r < p_bad:
      g.bad_op()
    elif r < 0.3:
      g.explore()
    elif structural and r < 0.7:
      g.struct_op()
    else:
      g.value_op() or g.explore()
  ret = g.pick_ret(allow_refs) if g.fail is None else [0]
  return g.fn(ret), g


def gen_edit(rng, heap, args, structural):
  """an eager edit of the caller's objects between two calls (never fails)"""
  g = ProgGen(rng, heap, args)
  g.explore()
  if structural:
    nr = g.node_regs()
    tgt = rng.choice(nr) if nr else None
    r = rng.random()
    if tgt is not None and r < 0.45:
      g.emit({'op': 'litStatic', 's': rng.choice(STATICS)})
      g.emit({'op': 'setAttr', 'r': tgt, 'k': 'flag', 'src': len(g.env) - 1})
    elif tgt is not None and r < 0.7:
      g.struct_op()
    else:
      g.value_op()
  else:
    g.value_op()
  if g.fail is not None:
    return None, g
  return g.fn([]), g


def undo_flag_edit(args, heap):
  """delete the `flag` attribute again if the first node argument has it (brings an earlier structure back)"""
  for i, a in enumerate(args):
    if 'r' in a and 'cls' in heap[a['r']] and any(k == 'flag' for k, _ in heap[a['r']]['attrs']):
      return {'body': [{'op': 'delAttr', 'r': i, 'k': 'flag'}], 'ret': []}
  return None


def strip_arrays(v):
  """array attributes -> None (cached_partial does not support array attributes of graph nodes: TODO in graph.py)"""
  if isinstance(v, dict):
    if 'a' in v:
      return None
    if 'l' in v or 't' in v:
      k = 'l' if 'l' in v else 't'
      return {k: [strip_arrays(x) for x in v[k]]}
    if 'd' in v:
      return {'d': [[k, strip_arrays(x)] for k, x in v['d']]}
  return v


def gen_twin_case(rng):
  """two structurally identical nodes (graphdefs equal up to `outer_index`): permuted loop carries, attribute swaps in
  one branch only, swapped arguments on a cache hit -- the places where only the outer_index stamps tell objects apart"""
  vt = VT_MRO[rng.choice(VT_NAMES)]
  with_vars = rng.random() < 0.6
  if with_vars:
    heap = [{'cls': 'A', 'attrs': [['w', {'r': 2}], ['b', {'r': 3}]]}, {'cls': 'A', 'attrs': [['w', {'r': 4}], ['b', {'r': 5}]]}]
    heap += [{'vt': vt, 'val': rng.randrange(0, 10), 'md': []} for _ in range(4)]
  else:
    heap = [{'cls': 'A', 'attrs': [['w', {'a': rng.randrange(0, 5)}], ['b', {'a': rng.randrange(5, 9)}]]} for _ in range(2)]
  if rng.random() < 0.4:
    heap.append({'cls': 'B', 'attrs': [['l', {'r': 0}], ['r', {'r': 1}]]})
  args = [{'r': 0}, {'r': 1}]
  kind = rng.choice(['jit', 'cond', 'switch', 'fori', 'while', 'cached_partial', 'remat'])
  if kind == 'cached_partial' and not with_vars:
    kind = 'jit'
  off = 1 if kind == 'fori' else 0
  tgt = off + rng.randrange(2)

  def swap_fn():
    b = [{'op': 'getAttr', 'r': tgt, 'k': 'w'}, {'op': 'getAttr', 'r': tgt, 'k': 'b'}]
    n = off + 2 + (1 if kind == 'while' else 0)
    b += [{'op': 'setAttr', 'r': tgt, 'k': 'w', 'src': n + 1}, {'op': 'setAttr', 'r': tgt, 'k': 'b', 'src': n}]
    return b, n + 2

  def upd_fn():
    n = off + 2 + (1 if kind == 'while' else 0)
    if with_vars:
      return [{'op': 'getAttr', 'r': tgt, 'k': 'w'}, {'op': 'readVar', 'r': n}, {'op': 'setVar', 'r': n, 'e': {'add': [{'r': n + 1}, {'c': rng.randrange(1, 5)}]}}], n + 2
    return [{'op': 'getAttr', 'r': tgt, 'k': 'w'}, {'op': 'data', 'e': {'add': [{'r': n}, {'c': 1}]}}, {'op': 'setAttr', 'r': tgt, 'k': 'b', 'src': n + 1}], n + 2

  def fn_of(body_n, ret):
    body, n = body_n
    return {'body': body + [{'op': 'data', 'e': {'c': 1}}], 'ret': ret if ret is not None else [n]}

  case = {'kind': 'history', 'G': {'heap': heap}, 'aliased': len(heap) == 7 or len(heap) == 3}
  steps = []
  if kind in ('jit', 'remat', 'cached_partial'):
    spec = {'kind': kind, 'fn': fn_of(swap_fn() if rng.random() < 0.6 else upd_fn(), None)}
    steps = [{'call': args}, {'call': args}]
    if kind == 'jit':
      steps.append({'call': [args[1], args[0]]})
  elif kind in ('cond', 'switch'):
    a = fn_of(swap_fn() if rng.random() < 0.7 else upd_fn(), None)
    b = fn_of(swap_fn() if rng.random() < 0.4 else upd_fn(), None)
    spec = {'kind': 'cond', 't': a, 'f': b} if kind == 'cond' else {'kind': 'switch', 'fns': [a, b, a]}
    steps = [{'call': args, 'i': rng.choice([0, 1])}, {'call': args, 'i': rng.choice([0, 1, 2])}]
  elif kind == 'fori':
    ret = [2, 1] if rng.random() < 0.6 else [1, 2]
    spec = {'kind': 'fori', 'fn': fn_of(upd_fn() if rng.random() < 0.7 else swap_fn(), ret)}
    steps = [{'call': args, 'i': 0, 'n': rng.choice([1, 2])}]
  else:
    args = args + [{'a': 0}]
    ret = [1, 0] if rng.random() < 0.6 else [0, 1]
    body, n = upd_fn() if rng.random() < 0.7 else swap_fn()
    body = body + [{'op': 'data', 'e': {'add': [{'r': 2}, {'c': 1}]}}]
    spec = {'kind': 'while', 'c': {'body': [{'op': 'data', 'e': {'lt': [{'r': 2}, {'c': 2}]}}], 'ret': [3]}, 'fn': {'body': body, 'ret': ret + [n]}}
    steps = [{'call': args, 'n': WHILE_CAP}]
  case['spec'] = spec
  case['steps'] = steps
  case['twin'] = True
  return case


def gen_falsy_case(rng):
  """a caller graph node that is FALSY when the outputs are merged back (empty `__len__` container, `__bool__` False, the
  library's empty `nnx.Rngs()`), alone, nested or both, as the root argument; the body adds its first attribute / stream,
  re-binds it or only updates values, and returns it"""
  cls = rng.choice(FALSY_CLASSES)
  pvt = VT_MRO[rng.choice(VT_NAMES)]
  heap = [{'cls': cls, 'attrs': []}, {'cls': rng.choice(['A', 'B']), 'attrs': [['k', {'r': 0}], ['w', {'r': 2}]]},
          {'vt': pvt, 'val': rng.randrange(0, 10), 'md': []}]
  if rng.random() < 0.3:
    heap[0]['attrs'].append(['w', {'r': 2}])  # non-empty: falsy only for class F
  args = rng.choice([[{'r': 0}], [{'r': 1}], [{'r': 1}, {'r': 0}], [{'r': 0}, {'r': 1}], [{'r': 0}, {'r': 0}]])
  kind = rng.choice(['jit', 'jit', 'remat', 'cond', 'switch', 'fori'])

  def body(variant):
    g = ProgGen(rng, heap, ([{'a': 0}] if kind == 'fori' else []) + args)
    off = 1 if kind == 'fori' else 0
    if args[0]['r'] == 0:
      tgt = off
    else:
      g.emit({'op': 'getAttr', 'r': off, 'k': 'k'})
      tgt = len(g.env) - 1
    if variant == 'add':
      g.emit({'op': 'newVar', 'vt': pvt, 'e': {'c': 5}, 'md': []})
      g.emit({'op': 'setAttr', 'r': tgt, 'k': 'a', 'src': len(g.env) - 1})
    elif variant == 'alias':
      vr = [i for i in g.var_regs()] or None
      if vr is None:
        nr = g.node_regs()
        g.emit({'op': 'getAttr', 'r': [r for r in nr if g.env[r]['r'] == 1][0], 'k': 'w'}) if any(g.env[r]['r'] == 1 for r in nr) else g.emit({'op': 'newVar', 'vt': pvt, 'e': {'c': 1}, 'md': []})
        vr = [len(g.env) - 1]
      g.emit({'op': 'setAttr', 'r': tgt, 'k': 'b', 'src': vr[0]})
    else:
      g.value_op()
    g.emit({'op': 'data', 'e': {'c': 1}})
    return g, tgt

  if kind in ('jit', 'remat'):
    g, tgt = body(rng.choice(['add', 'add', 'alias', 'value']))
    spec = {'kind': kind, 'fn': g.fn([tgt, len(g.env) - 1])}
    steps = [{'call': args}, {'call': args}]
  elif kind in ('cond', 'switch'):
    v = rng.choice(['add', 'alias', 'value'])
    g1, t1 = body(v)
    g2, t2 = body(v)
    f1, f2 = g1.fn([len(g1.env) - 1]), g2.fn([len(g2.env) - 1])
    spec = {'kind': 'cond', 't': f1, 'f': f2} if kind == 'cond' else {'kind': 'switch', 'fns': [f1, f2]}
    steps = [{'call': args, 'i': rng.choice([0, 1])}]
  else:
    g, tgt = body('value')
    spec = {'kind': 'fori', 'fn': g.fn(list(range(1, 1 + len(args))))}
    steps = [{'call': args, 'i': 0, 'n': rng.choice([1, 2])}]
  sets = [set(reach_from(heap, a['r'])) for a in args]
  return {'kind': 'history', 'G': {'heap': heap}, 'spec': spec, 'steps': steps, 'falsy': True,
          'aliased': any(sets[i] & sets[j] for i in range(len(sets)) for j in range(i + 1, len(sets)))}


def gen_moved_case(rng):
  """the function creates a new node, MOVES a pre-existing sub-object / Variable of an argument into it (detaching it from
  every argument by `del` or by re-binding the attribute), optionally updates it, and returns the new node: the moved
  object is reachable from the results after the call, so it must still be the caller's own object"""
  pvt = VT_MRO[rng.choice(VT_NAMES)]
  heap = [{'cls': 'A', 'attrs': [['head', {'r': 1}], ['w', {'r': 3}], ['s', {'s': 'i:3'}]]},
          {'cls': rng.choice(['B', 'C']), 'attrs': [['w', {'r': 2}]]},
          {'vt': pvt, 'val': rng.randrange(0, 10), 'md': []}, {'vt': pvt, 'val': rng.randrange(0, 10), 'md': []}]
  twice = rng.random() < 0.25
  if twice:
    heap[0]['attrs'].append(['alias', {'r': 1}])  # a second reference that is removed as well
  args = [{'r': 0}] + ([{'a': rng.randrange(0, 5)}] if rng.random() < 0.3 else [])
  g = ProgGen(rng, heap, args)
  what = rng.choice(['node', 'node', 'var'])
  key = 'head' if what == 'node' else 'w'
  g.emit({'op': 'newNode', 'cls': rng.choice(['A', 'B'])})
  box = len(g.env) - 1
  g.emit({'op': 'getAttr', 'r': 0, 'k': key})
  moved = len(g.env) - 1
  if rng.random() < 0.7:  # update the moved object (before or after moving)
    if what == 'node':
      g.emit({'op': 'getAttr', 'r': moved, 'k': 'w'})
      v = len(g.env) - 1
    else:
      v = moved
    g.emit({'op': 'readVar', 'r': v})
    g.emit({'op': 'setVar', 'r': v, 'e': {'add': [{'r': len(g.env) - 1}, {'c': rng.randrange(1, 5)}]}})
  g.emit({'op': 'setAttr', 'r': box, 'k': 'item', 'src': moved})
  if rng.random() < 0.6:
    g.emit({'op': 'delAttr', 'r': 0, 'k': key})
  else:  # re-bind the attribute to a fresh object
    if what == 'node':
      g.emit({'op': 'newNode', 'cls': 'B'})
    else:
      g.emit({'op': 'newVar', 'vt': pvt, 'e': {'c': 0}, 'md': []})
    g.emit({'op': 'setAttr', 'r': 0, 'k': key, 'src': len(g.env) - 1})
  if twice:
    g.emit({'op': 'delAttr', 'r': 0, 'k': 'alias'})
  ret = [box]
  if rng.random() < 0.5:
    g.emit({'op': 'data', 'e': {'c': 7}})
    ret = rng.choice([[box, len(g.env) - 1], [len(g.env) - 1, box]])
  spec = {'kind': 'jit', 'fn': g.fn(ret)}
  w = rng.choice([None, None, 'list', 'dict'])
  if w:
    spec['wrap'] = w
  # later calls: the attribute is gone (AttributeError, compared) unless it was re-bound; re-binding keeps the history going
  steps = [{'call': args} for _ in range(rng.choice([1, 2, 3]))]
  return {'kind': 'history', 'G': {'heap': heap}, 'spec': spec, 'steps': steps, 'moved': True, 'aliased': False}


def unsorted_keys(rng, n, ints=False):
  """`n` distinct dict keys in an insertion order that is NOT the sorted order"""
  pool = [5, 1, 10, 2, 0, 7] if ints else ['total', 'count', 'b', 'a', 'z', 'mean', 'k10', 'k2']
  keys = rng.sample(pool, n)
  while n >= 2 and keys == sorted(keys):
    rng.shuffle(keys)
  return keys


def gen_dict_graph(rng):
  """`_gen_dict_graph_once`, redrawn (from the same rng, so still deterministic per seed) until the dicts really hold
  at least two Variables: a draw whose dict entries are all arrays / empty nested dicts has nothing to alias"""
  while True:
    try:
      G = _gen_dict_graph_once(rng)
    except IndexError:  # no Variable was created by this draw
      continue
    if sum(1 for o in G['heap'] if 'vt' in o) >= 2:
      return G


def _gen_dict_graph_once(rng):
  """a node holding a plain Python dict attribute (also nested dicts, a dict inside a list) with >= 2 Variables whose keys
  were inserted in non-sorted order and whose values are pairwise different; an alias attribute that sorts AFTER the dict
  lets the body update one of them"""
  vt = VT_MRO[rng.choice(VT_NAMES)]
  same_type = rng.random() < 0.6
  heap = [{'cls': rng.choice(['A', 'B', 'O']), 'attrs': []}]
  vals = rng.sample(range(1, 40), 6)

  def new_var():
    heap.append({'vt': vt if same_type else VT_MRO[rng.choice(VT_NAMES)], 'val': vals[(len(heap) - 1) % 6], 'md': []})
    return {'r': len(heap) - 1}

  def mkdict(depth):
    n = rng.choice([2, 2, 3])
    items = []
    for k in unsorted_keys(rng, n, ints=rng.random() < 0.2):
      r = rng.random()
      if depth > 0 and r < 0.25:
        items.append([k, mkdict(depth - 1)])
      elif depth > 0 and r < 0.35:
        items.append([k, {'l': [mkdict(depth - 1), new_var()]}])
      elif r < 0.45 and depth == 0:
        items.append([k, {'a': rng.randrange(0, 10)}])
      else:
        items.append([k, new_var()])
    return {'d': items}

  shape = rng.choice(['dict', 'dict', 'list-of-dict', 'two-dicts'])
  if shape == 'dict':
    heap[0]['attrs'].append(['d', mkdict(1)])
  elif shape == 'list-of-dict':
    heap[0]['attrs'].append(['d', {'l': [mkdict(0), mkdict(1)]}])
  else:
    heap[0]['attrs'].append(['stats', mkdict(0)])
    heap[0]['attrs'].append(['d', mkdict(1)])
  var_addrs = [i for i, o in enumerate(heap) if 'vt' in o]
  for nm in rng.sample(['x', 'y', 'zz'], rng.choice([1, 2])):  # aliases of Variables that live in the dict (sort after it)
    heap[0]['attrs'].append([nm, {'r': rng.choice(var_addrs)}])
  if rng.random() < 0.3:  # a parent holding the node
    heap.append({'cls': 'C', 'attrs': [['child', {'r': 0}], ['w', {'r': rng.choice(var_addrs)}]]})
  return {'heap': heap}


def dict_roundtrip_oracle(ctx, case):
  """split / merge / update directly on the dict-holding graph: every path keeps its own Variable value"""
  G = case['G']
  objs, _ = build(G)
  obs = Obs(objs)
  n0 = obs.n0
  root = objs[0]
  before = canon_id(obs.snapshot([root]), n0)
  where = {k: case[k] for k in ('kind', 'G')}
  try:
    clone = nnx.merge(*nnx.split(root))
    o2 = Obs([clone])
    c2 = canon_id(o2.snapshot([clone]), 0)
    o1 = Obs([root])
    c1 = canon_id(o1.snapshot([root]), 0)
    if c1 != c2:
      ctx.violation('split-merge-dict-attribute', f'merge(split(m)) differs from m for a module holding a plain dict: {_first_diff(c2, c1)}', dict(where, got=c2, want=c1))
      return
    nnx.update(root, nnx.state(root, nnx.Variable))  # Variables only: a raw array inside a dict cannot be `update`d (C03)
    after = canon_id(obs.snapshot([root]), n0)
    if after != before:
      ctx.violation('update-state-dict-attribute', f'update(m, state(m)) changes m for a module holding a plain dict: {_first_diff(after, before)}', dict(where, got=after, want=before))
  except Exception as e:
    ctx.violation('split-merge-dict-attribute', f'split / merge / update raised {type(e).__name__} on a module holding a plain dict', where)


def gen_cp_shared_case(rng):
  """cached_partial on an argument with INTRA-argument sharing (tied Variables, the same Variable twice in a list, a
  shared sub-node) followed by further Variables / sub-nodes in traversal order; the body updates values and RETURNS
  Variables of the cached argument (they are the caller's own objects); optional extra graph arguments alias objects
  inside the cached one; repeated calls after in-place edits"""
  vt = VT_MRO[rng.choice(VT_NAMES)]
  vals = rng.sample(range(1, 40), 5)
  heap = [{'cls': 'A', 'attrs': []}, {'cls': 'B', 'attrs': [['w', {'r': 3}]]},
          {'vt': vt, 'val': vals[0], 'md': []}, {'vt': vt, 'val': vals[1], 'md': []},
          {'vt': vt, 'val': vals[2], 'md': []}, {'vt': vt, 'val': vals[3], 'md': []}]
  a0 = heap[0]['attrs']
  share = rng.choice(['tied', 'tied', 'list', 'subnode', 'all'])
  if share in ('tied', 'all'):
    a0 += [['emb', {'r': 2}], ['head', {'r': 2}]]
  if share in ('list', 'all'):
    a0 += [['items', {'l': [{'r': 2}, {'r': 2}]}]]
  if share in ('subnode', 'all'):
    a0 += [['c1', {'r': 1}], ['c2', {'r': 1}]]
  if share == 'list':
    a0 += [['emb', {'r': 2}]]
  # registered AFTER the duplicate in traversal order (sorted attribute names)
  a0 += [['scale', {'r': 4}], ['zsub', {'r': len(heap)}]]
  heap.append({'cls': 'C', 'attrs': [['w', {'r': 5}], ['t', {'r': 2}]]})
  zsub = len(heap) - 1
  heap.append({'cls': 'O', 'attrs': [['v', {'r': rng.choice([2, 4, 5])}]]})  # a holder (not part of the cached argument)
  holder = len(heap) - 1
  rng.shuffle(a0)
  args = [{'r': 0}]
  nc = 1
  r = rng.random()
  if r < 0.3:
    args.append({'a': rng.randrange(1, 6)})
  elif r < 0.75:
    # an extra graph NODE at every call: a holder of one of the cached argument's Variables, or one of its sub-nodes
    args.append({'r': rng.choice([holder, holder, 1, zsub])})
    if rng.random() < 0.4:
      args.append({'a': rng.randrange(1, 6)})
  g = ProgGen(rng, heap, args)
  names = [k for k, v in a0 if isinstance(v, dict) and 'r' in v]
  for nm in rng.sample(names, min(len(names), rng.choice([2, 3]))):
    g.emit({'op': 'getAttr', 'r': 0, 'k': nm})
  for _ in range(rng.randrange(1, 4)):
    g.value_op() or g.explore()
  vr = g.var_regs()
  ret = []
  for nm in rng.sample(['scale', 'emb', 'head'], rng.choice([1, 2])):
    if any(k == nm for k, _ in a0):
      g.emit({'op': 'getAttr', 'r': 0, 'k': nm})
      ret.append(len(g.env) - 1)
  if not ret and vr:
    ret.append(rng.choice(vr))
  if rng.random() < 0.6 or not ret:
    g.emit({'op': 'data', 'e': g.expr(1)})
    ret.insert(rng.randrange(len(ret) + 1), len(g.env) - 1)
  spec = {'kind': 'cached_partial', 'fn': g.fn(ret), 'ncached': nc}
  steps = []
  h = copy.deepcopy(heap)
  for c in range(rng.choice([1, 2, 3])):
    steps.append({'call': args})
    try:
      abs_call(spec, h, args, 0, 0)
    except Exception:
      break
    ed, _ = gen_edit(rng, h, args, structural=False)
    if ed is not None and rng.random() < 0.7:
      try:
        abs_run(ed, h, args)
        steps.append({'edit': {'fn': ed, 'args': args}})
      except Exception:
        pass
  while steps and 'edit' in steps[-1]:
    steps.pop()
  return {'kind': 'history', 'G': {'heap': heap}, 'spec': spec, 'steps': steps, 'cpshared': True, 'aliased': len(args) > 1 and 'r' in args[1]}


def gen_dict_case(rng):
  case = gen_case(rng, kind=rng.choice(['cond', 'switch', 'remat', 'fori', 'while', 'jit', 'remat', 'cond']), G=gen_dict_graph(rng))
  case['dictcase'] = True
  return case


def gen_case(rng, kind=None, G=None):
  if kind is None and rng.random() < 0.1:
    return gen_twin_case(rng)
  if kind is None and rng.random() < 0.08:
    return gen_moved_case(rng)
  if kind is None and rng.random() < 0.09:
    return gen_falsy_case(rng)
  if kind is None and rng.random() < 0.1:
    return gen_dict_case(rng)
  if kind is None and rng.random() < 0.08:
    return gen_cp_shared_case(rng)
  G = G or gen_graph(rng)
  heap = G['heap']
  kind = kind or rng.choices(['jit', 'remat', 'cond', 'switch', 'fori', 'while', 'cached_partial'], [38, 12, 10, 8, 12, 8, 12])[0]
  if kind == 'cached_partial':
    for o in heap:
      if 'cls' in o:
        o['attrs'] = [[k, strip_arrays(v)] for k, v in o['attrs']]
  n_calls = rng.choice([1, 2, 2, 3, 3, 4])
  case = {'kind': 'history', 'G': G}
  if kind in ('jit', 'remat'):
    args, aliased = gen_args(rng, G)
    fn, g = gen_fn(rng, heap, args, rng.randrange(1, 9), structural=rng.random() < 0.75)
    spec = {'kind': kind, 'fn': fn}
  elif kind == 'cached_partial':
    args, aliased = gen_args(rng, G, nodes_only=True)
    if not CP_SAME_NODE_TWICE:
      seen = set()
      args = [a for a in args if not (a['r'] in seen or seen.add(a['r']))]
    nc = len(args)
    extra_graph = False
    if rng.random() < 0.45:  # cached_partial(f, *nodes)(x[, y]): arrays passed at every call
      args = args + [{'a': rng.randrange(0, 10)} for _ in range(rng.choice([1, 1, 2]))]
    if rng.random() < 0.4:  # extra graph arguments at every call, most of them aliasing objects inside the cached ones
      # graph NODES only: a bare Variable that is not inside a cached argument, passed next to cached arguments, hits
      # `assert isinstance(graphdef, NodeDef)` in MergeContext.unflatten (probe `cached-partial-bare-variable-extra-arg`,
      # same root cause as F29); Variables inside the cached argument are reached through holder nodes instead
      nodes_all = [i for i, o in enumerate(heap) if 'cls' in o]
      inside = [a for c in args[:nc] for a in reach_from(heap, c['r'])[1:] if a in nodes_all]
      for _ in range(rng.choice([1, 1, 2])):
        args = args + [{'r': rng.choice(inside) if inside and rng.random() < 0.75 else rng.choice(nodes_all)}]
      extra_graph = True
    # with extra graph arguments the body only updates values: the function sees CLONES of the cached nodes next to the
    # caller's original extra arguments, so a structural edit would (legitimately) act on two different objects
    fn, g = gen_fn(rng, heap, args, rng.randrange(1, 7), structural=(not extra_graph) and rng.random() < 0.12, allow_refs='vars', p_bad=0.02)
    spec = {'kind': kind, 'fn': fn, 'ncached': nc}
  elif kind in ('cond', 'switch'):
    args, aliased = gen_args(rng, G)
    nb = 2 if kind == 'cond' else rng.choice([2, 3])
    fns = []
    shared_struct = rng.random() < 0.1  # every branch makes the same structural change: accepted
    for b in range(nb):
      if shared_struct:
        g = ProgGen(rng, heap, args)
        nr = g.node_regs()
        if nr:
          g.emit({'op': 'newVar', 'vt': VT_MRO['Param'], 'e': {'c': b + 1}, 'md': []})
          g.emit({'op': 'setAttr', 'r': nr[0], 'k': 'added', 'src': len(g.env) - 1})
        g.value_op()
        g.emit({'op': 'data', 'e': g.expr(1)})
        fns.append(g.fn([len(g.env) - 1]))
      else:
        f, g = gen_fn(rng, heap, args, rng.randrange(1, 6), structural=rng.random() < 0.08, allow_refs=False, p_bad=0.02)
        f['ret'] = f['ret'][:1]
        fns.append(f)
    spec = {'kind': 'cond', 't': fns[0], 'f': fns[1]} if kind == 'cond' else {'kind': 'switch', 'fns': fns}
  else:
    with_counter = kind == 'while'
    args, aliased = gen_args(rng, G, with_counter=with_counter)
    pre = [{'a': 0}] if kind == 'fori' else []
    g = ProgGen(rng, heap, pre + args)
    off = len(pre)
    for _ in range(rng.randrange(1, 3)):
      g.explore()
    structural = rng.random() < 0.08
    for _ in range(rng.randrange(1, 6)):
      if g.fail is not None:
        break
      r = rng.random()
      if r < 0.03:
        g.bad_op()
      elif structural and r < 0.5:
        g.struct_op()
      elif r < 0.35:
        g.explore()
      else:
        g.value_op() or g.explore()
    ret = []
    for j, a in enumerate(args):
      if 'a' in a:
        if with_counter and j == len(args) - 1:
          g.emit({'op': 'data', 'e': {'add': [{'r': off + j}, {'c': 1}]}})
        else:
          g.emit({'op': 'data', 'e': {'add': [{'r': off + j}, g.expr(1)]}})
        ret.append(len(g.env) - 1)
      else:
        ret.append(off + j)
    if rng.random() < 0.06 and len(ret) >= 2:
      ret[0], ret[1] = ret[1], ret[0]  # the carry comes back permuted
    fn = g.fn(ret)
    if kind == 'fori':
      spec = {'kind': 'fori', 'fn': fn}
    else:
      cj = len(args) - 1
      spec = {'kind': 'while', 'c': {'body': [{'op': 'data', 'e': {'lt': [{'r': cj}, {'c': rng.randrange(0, 4)}]}}], 'ret': [len(args)]}, 'fn': fn}
  case['spec'] = spec
  # the history: calls with eager edits between them, tracked on an abstract heap so that edits stay valid
  steps = []
  h = copy.deepcopy(heap)
  alive = True
  for c in range(n_calls):
    st = {'call': args}
    if kind == 'cond':
      st['i'] = rng.choice([0, 1])
    elif kind == 'switch':
      st['i'] = rng.choice([0, 1, 2, 2, 5, -1])
    elif kind == 'fori':
      st['i'] = rng.choice([0, 0, 1, 3])
      st['n'] = rng.choice([0, 1, 2, 3])
    elif kind == 'while':
      st['n'] = WHILE_CAP
    steps.append(st)
    # advance the abstract heap with the eager semantics (to generate valid edits); stop the history on an error
    try:
      if not abs_welltyped(spec, h, args, st.get('i', 0)):
        raise AbsErr('typeError')
      abs_call(spec, h, args, st.get('i', 0), st.get('n', 0))
    except AbsErr as e:
      alive = False
      if str(e) != 'attrError':
        steps.pop()  # ill-typed after an edit (e.g. `.value` of an array): outside the DSL's domain
        while steps and 'edit' in steps[-1]:
          steps.pop()
    except Exception:
      alive = False
    if not alive or c == n_calls - 1:
      break
    if kind == 'cached_partial':
      ed, ge = gen_edit(rng, h, args, structural=False)
    else:
      r = rng.random()
      undo = undo_flag_edit(args, h) if r < 0.5 else None
      if undo is not None:
        ed, ge = undo, None
      else:
        ed, ge = gen_edit(rng, h, args, structural=r < 0.45)
    if ed is not None:
      try:
        abs_run(ed, h, args)
        steps.append({'edit': {'fn': ed, 'args': args}})
      except Exception:
        pass
  case['steps'] = steps
  case['aliased'] = aliased
  return case


def abs_welltyped(spec, h, args, i):
  """every branch / loop body is TRACED at every call, also the ones eager Python would not run: all of them must be
  well-typed programs on the current heap (e.g. no `.value = …` on a graph node, which Python would accept)"""
  kind = spec['kind']
  progs = []
  if kind == 'switch':
    progs = [(f, args) for f in spec['fns']]
  elif kind == 'cond':
    progs = [(spec['t'], args), (spec['f'], args)]
  elif kind == 'fori':
    progs = [(spec['fn'], [{'a': wrap32(i)}] + list(args))]
  elif kind == 'while':
    progs = [(spec['c'], args), (spec['fn'], args)]
  for f, a in progs:
    try:
      abs_run(f, copy.deepcopy(h), a)
    except AbsErr as e:
      if str(e) != 'attrError':
        return False
  return True


def abs_call(spec, h, args, i, n):
  kind = spec['kind']
  if kind in ('jit', 'remat', 'cached_partial'):
    return abs_run(spec['fn'], h, args)
  if kind == 'switch':
    return abs_run(spec['fns'][clamp(i, len(spec['fns']))], h, args)
  if kind == 'cond':
    return abs_run(spec['t'] if i != 0 else spec['f'], h, args)
  if kind == 'fori':
    vals = list(args)
    for t in range(n):
      vals = abs_run(spec['fn'], h, [{'a': wrap32(i + t)}] + vals)
    # the carried graph nodes are the same objects; arrays are new values: edits keep addressing the originals
    return vals
  if kind == 'while':
    vals = list(args)
    for _ in range(n):
      c = abs_run(spec['c'], h, vals)
      if c[0]['a'] == 0:
        return vals
      vals = abs_run(spec['fn'], h, vals)
    raise AbsErr('fuel')
  raise ValueError(kind)


# ------------------------------------------------------------------------------------------------
# checking
# ------------------------------------------------------------------------------------------------


def features(case):
  ops = []
  sp = case['spec']
  for key in ('fn', 't', 'f', 'c'):
    if key in sp:
      ops += [o['op'] for o in sp[key]['body']]
  for f in sp.get('fns', []):
    ops += [o['op'] for o in f['body']]
  structural = any(o in ('setAttr', 'delAttr', 'newNode', 'newVar') for o in ops)
  n_calls = sum(1 for s in case['steps'] if 'call' in s)
  return ops, structural, n_calls


def check_cases(ctx, drv, cases, stream):
  reqs = []
  for case in cases:
    reqs.append(('history', [False, case['spec'], case['G']['heap'], case['steps']]))
    reqs.append(('history', [True, case['spec'], case['G']['heap'], case['steps']]))
  replies = drv.run(reqs)
  for ci, case in enumerate(cases):
    kind = case['spec']['kind']
    ops, structural, n_calls = features(case)
    lite = {k: case[k] for k in ('kind', 'G', 'spec', 'steps')}
    impl_e, n0 = run_impl(case, eager=True)
    impl_t, _ = run_impl(case, eager=False)
    mod_t = model_records(case, n0, replies[2 * ci])
    mod_e = model_records(case, n0, replies[2 * ci + 1])
    ctx.case(lite, nontrivial=bool(case.get('aliased')) or structural or n_calls >= 2)
    ctx.count('transform', kind)
    ctx.count('calls_per_history', n_calls)
    ctx.count('aliased_args', bool(case.get('aliased')))
    ctx.count('stream', stream + ('-twin' if case.get('twin') else '') + ('-falsy' if case.get('falsy') else '') + ('-moved' if case.get('moved') else '') + ('-dict' if case.get('dictcase') else '') + ('-cpshared' if case.get('cpshared') else ''))
    if case.get('dictcase'):
      dict_roundtrip_oracle(ctx, case)
    for o in set(ops):
      ctx.count('ops_used', o)
    ctx.count('body_ops', min(len(ops), 12))
    prev_traces = 0
    for si, st in enumerate(case['steps']):
      if si >= len(impl_t):
        break
      it = impl_t[si]
      ie = impl_e[si] if si < len(impl_e) else None
      mt = mod_t[si] if si < len(mod_t) else None
      me = mod_e[si] if si < len(mod_e) else None
      where = dict(lite, step=si)
      is_call = 'call' in st
      if is_call:
        ctx.count('call_outcome', it['res'] if it['res'] == 'ok' else it['err'])
        if kind == 'jit':
          ctx.count('jit_trace', 'hit' if it['traces'] == prev_traces else 'miss')
        prev_traces = it['traces']
      if ie is None:
        break  # the eager run stopped at an error: the two builds have diverged
      # ---- property oracle: transform vs eager on the implementation ---------------------------------
      # cond / switch / loops trace EVERY branch / the body before running anything (A-COND, A-WHILE): an error
      # of a branch that is not selected, or of a zero-trip body, is raised although eager Python never runs it
      rejecting = is_call and it['res'] == 'err' and (
        it['err'] in ('structureMismatch', 'cacheMutated') or (kind in STRUCT_KINDS and ie['res'] == 'ok' and mt is not None and mt['res'] == 'err' and mt['err'] == it['err'])
      )
      if rejecting:
        # allowed only for transforms that cannot express structure changes, and only if the model agrees
        if mt is None or mt['res'] != 'err' or mt['err'] != it['err']:
          if ie['res'] == 'ok':
            ctx.violation(f'{kind}-rejects-valid-call', f'step {si}: {kind} raised {it["etype"]} on a call that runs eagerly and that the protocol accepts', where)
          else:
            ctx.disagreements_checked += 1
            ctx.violation(f'{kind}-model-mismatch', f'step {si}: implementation rejects with {it["err"]}, model says {mt}', where, concrete=False)
        ctx.count('rejections', it['err'])
        break
      if it['res'] != ie['res'] or (it['res'] == 'err' and it['err'] != ie['err']):
        ctx.violation(
          f'{kind}-outcome-differs-from-eager',
          f'step {si}: under {kind} -> {it["res"]}/{it.get("err")} ({it.get("etype")}), eagerly -> {ie["res"]}/{ie.get("err")}',
          where,
        )
        break
      if it['res'] == 'ok' and it['canon'] != ie['canon']:
        ctx.violation(
          f'{kind}-state-differs-from-eager' + ('-aliased-args' if case.get('aliased') else ''),
          f'step {si}: objects reachable from (arguments, results) differ between {kind} and eager: {_first_diff(it["canon"], ie["canon"])}',
          dict(where, got=it['canon'], want=ie['canon']),
        )
        break
      if it['res'] == 'ok' and is_call and it.get('caller') != ie.get('caller'):
        ctx.count('detached_state_differs', kind)
      # ---- correspondence with the model -----------------------------------------------------------------
      if me is not None and (me['res'] != ie['res'] or (me['res'] == 'ok' and me['canon'] != ie['canon']) or (me['res'] == 'err' and me['err'] != ie['err'])):
        ctx.disagreements_checked += 1
        ctx.violation('eager-model-mismatch', f'step {si}: the DSL run eagerly differs between model and real objects: model {me.get("err") or _first_diff(me.get("canon"), ie.get("canon"))}', where, concrete=False)
        break
      if mt is not None and (mt['res'] != it['res'] or (mt['res'] == 'ok' and mt['canon'] != it['canon']) or (mt['res'] == 'err' and mt['err'] != it['err'])):
        ctx.disagreements_checked += 1
        ctx.violation(f'{kind}-model-mismatch', f'step {si}: model {mt["res"]}/{mt.get("err")} vs implementation {it["res"]}/{it.get("err")}: {_first_diff(mt.get("canon"), it.get("canon"))}', where, concrete=False)
        break
      if is_call and kind == 'jit' and mt is not None and mt['traces'] != it['traces']:
        ctx.disagreements_checked += 1
        ctx.violation('jit-trace-count-mismatch', f'step {si}: body ran {it["traces"]} times, the cache model says {mt["traces"]}', where, concrete=False)
        break
      if it['res'] == 'err':
        break


def _first_diff(a, b, path=()):
  if type(a) != type(b) or not isinstance(a, list):
    return None if a == b else f'at {list(path)}: {json.dumps(a)[:120]} vs {json.dumps(b)[:120]}'
  if len(a) != len(b):
    return f'at {list(path)}: lengths {len(a)} vs {len(b)}: {json.dumps(a)[:120]} vs {json.dumps(b)[:120]}'
  for i, (x, y) in enumerate(zip(a, b)):
    d = _first_diff(x, y, path + (i,))
    if d:
      return d
  return None


# ------------------------------------------------------------------------------------------------
# entry points
# ------------------------------------------------------------------------------------------------


def _norm_case(obj):
  case = obj.get('case', obj)
  while 'spec' not in case and 'case' in case:
    case = case['case']
  case = json.loads(json.dumps({k: case[k] for k in ('kind', 'G', 'spec', 'steps') if k in case}))
  case.setdefault('kind', 'history')

  def fix(o):
    if isinstance(o, dict):
      if 'vt' in o and o['vt'] and o['vt'][0] in VT_MRO:
        o['vt'] = VT_MRO[o['vt'][0]]
      for v in o.values():
        fix(v)
    elif isinstance(o, list):
      for v in o:
        fix(v)

  fix(case)
  args = [a for st in case['steps'] if 'call' in st for a in st['call']]
  sets = [set(reach_from(case['G']['heap'], a['r'])) for a in (case['steps'][0].get('call') or []) if isinstance(a, dict) and 'r' in a]
  case['aliased'] = any(sets[i] & sets[j] for i in range(len(sets)) for j in range(i + 1, len(sets)))
  return case


PROBES = [
  # (key, what, case): inputs on which the implementation is known to fail; outside the generated domain
  (
    'cached-partial-bare-variable-arg',
    "nnx.cached_partial(f, v) with a bare nnx.Variable as cached argument raises RuntimeError('Unsupported type ... this is a bug') "
    '(create_static_cache accepts Variables, graph.fingerprint does not); eagerly and under nnx.jit the same call works',
    {'G': {'heap': [{'vt': VT_MRO['Param'], 'val': 3, 'md': []}]},
     'spec': {'kind': 'cached_partial', 'fn': {'body': [{'op': 'readVar', 'r': 0}, {'op': 'setVar', 'r': 0, 'e': {'add': [{'r': 1}, {'c': 1}]}}], 'ret': [1]}},
     'steps': [{'call': [{'r': 0}]}]},
  ),
  (
    'cached-partial-bare-variable-extra-arg',
    'nnx.cached_partial(f, m)(v) with a bare nnx.Variable that is NOT part of a cached argument passed at call time raises '
    'AssertionError (MergeContext.unflatten: `assert isinstance(graphdef, NodeDef)` on the static-cache path; a Variable inside a '
    'cached argument comes back as a NodeRef and works); eagerly and under nnx.jit the call works',
    {'G': {'heap': [{'cls': 'A', 'attrs': [['w', {'r': 1}]]}, {'vt': VT_MRO['Param'], 'val': 3, 'md': []}, {'vt': VT_MRO['Param'], 'val': 5, 'md': []}]},
     'spec': {'kind': 'cached_partial', 'ncached': 1, 'fn': {'body': [{'op': 'readVar', 'r': 1}, {'op': 'setVar', 'r': 1, 'e': {'add': [{'r': 2}, {'c': 1}]}}], 'ret': [2]}},
     'steps': [{'call': [{'r': 0}, {'r': 2}]}]},
  ),
  (
    'cached-partial-bare-variable-result',
    'a function under nnx.cached_partial that RETURNS a new bare nnx.Variable (return nnx.Param(...)) raises AssertionError '
    '(MergeContext.unflatten: `assert isinstance(graphdef, NodeDef)` on the static-cache path); returning one of the '
    "arguments' own Variables, or the new Variable inside a new node, works, and so does the same function under nnx.jit",
    {'G': {'heap': [{'cls': 'A', 'attrs': [['w', {'r': 1}]]}, {'vt': VT_MRO['Param'], 'val': 3, 'md': []}]},
     'spec': {'kind': 'cached_partial', 'ncached': 1, 'fn': {'body': [{'op': 'newVar', 'vt': VT_MRO['Param'], 'e': {'c': 4}, 'md': []}], 'ret': [1]}},
     'steps': [{'call': [{'r': 0}]}]},
  ),
  (
    'cached-partial-array-attribute',
    'nnx.cached_partial on a graph node that has an array attribute raises AttributeError (StaticCache.variables holds the raw array; '
    'documented TODO in graph.py: "support Array attribute updates for graph nodes")',
    {'G': {'heap': [{'cls': 'A', 'attrs': [['x', {'a': 1}], ['w', {'r': 1}]]}, {'vt': VT_MRO['Param'], 'val': 3, 'md': []}]},
     'spec': {'kind': 'cached_partial', 'fn': {'body': [{'op': 'getAttr', 'r': 0, 'k': 'w'}, {'op': 'readVar', 'r': 1}], 'ret': [2]}},
     'steps': [{'call': [{'r': 0}]}]},
  ),
]


def _probe_detached():
  """`c = m.c; c.w.value += 1; del m.c`: eager Python updates the detached object, nnx.jit does not"""
  A = NODE_CLASSES['A']

  def mk():
    m = A()
    m.c = A()
    m.c.w = nnx.Param(arr(1))
    return m

  def f(m):
    c = m.c
    c.w.value = c.w.value + 1
    del m.c

  m = mk()
  c0 = m.c
  f(m)
  eager = data_of(c0.w.raw_value)
  m = mk()
  c0 = m.c
  nnx.jit(f)(m)
  return eager != data_of(c0.w.raw_value)


def _probe_metadata():
  """`m.w.tag = 'x'` inside the function: kept eagerly and under remat, dropped by nnx.jit (raw leaves)"""
  A = NODE_CLASSES['A']

  def mk():
    m = A()
    m.w = nnx.Param(arr(1))
    return m

  def g(m):
    m.w.tag = 'x'

  m = mk()
  g(m)
  eager = dict(m.w.get_metadata())
  m = mk()
  nnx.jit(g)(m)
  return eager != dict(m.w.get_metadata())


DIRECT_PROBES = [
  ('detached-object-update-lost', 'an object of the caller that the function detaches from its arguments (c = m.c; c.w.value += 1; del m.c) keeps its old state under nnx.jit although eager Python updates it (the outer merge never sees it)', _probe_detached),
  ('jit-variable-metadata-edit-lost', 'editing the metadata of an existing Variable inside the function (m.w.tag = "x") is propagated eagerly and by remat / cond (VariableState leaves) but dropped by nnx.jit (raw leaves: make_variable only assigns raw_value)', _probe_metadata),
]


def run_probes(ctx):
  """Inputs excluded from the generators because the implementation fails on them. A probe whose key is registered in
  known_findings.json is reported through the normal channel (KNOWN-FINDING); otherwise it is recorded in the evidence as a
  candidate finding (never a verdict: the generated domain excludes it)."""
  known = {e.get('key') for e in load_findings('C04') if e.get('status') == 'finding'}
  out = []
  for key, what, case in PROBES:
    case = dict(case, kind='history')
    ie, _ = run_impl(case, eager=True)
    it, _ = run_impl(case, eager=False)
    fails = ie[0]['res'] == 'ok' and it[0]['res'] == 'err'
    out.append({'key': key, 'still_fails': fails, 'transform_outcome': it[0].get('etype') or it[0]['res']})
    ctx.count('probes', f'{key}:{"fails" if fails else "passes"}')
    if fails and key in known:
      ctx.violation(key, what, case, concrete=True)
  for key, what, fn in DIRECT_PROBES:
    try:
      fails = bool(fn())
      outcome = 'differs' if fails else 'same'
    except Exception as e:
      fails, outcome = True, type(e).__name__
    out.append({'key': key, 'still_fails': fails, 'transform_outcome': outcome})
    ctx.count('probes', f'{key}:{"fails" if fails else "passes"}')
    if fails and key in known:
      ctx.violation(key, what, {'probe': key}, concrete=True)
  ctx.extra['candidate_findings'] = out


def run(ctx):
  drv = LeanDriver('drv_c04')
  run_probes(ctx)
  thorough = ctx.tier == 'thorough'
  rng = ctx.rng
  corpus = [_norm_case(obj) for _, obj in load_corpus('C04')]
  ctx.corpus_replayed += len(corpus)
  if corpus:
    check_cases(ctx, drv, corpus, 'corpus')
  n_cases = 450 if not thorough else 4000
  cases = []
  budget_calls = 0
  for _ in range(n_cases):
    c = gen_case(rng)
    cases.append(c)
    budget_calls += sum(1 for s in c['steps'] if 'call' in s)
  for i in range(0, len(cases), 50):
    check_cases(ctx, drv, cases[i : i + 50], 'random')
  for c in cases[:4]:
    ctx.sample({k: c[k] for k in ('spec', 'steps')} | {'heap': c['G']['heap']})
  ctx.extra['transformed_calls'] = budget_calls + sum(1 for c in corpus for s in c['steps'] if 'call' in s)
  ctx.extra['driver_calls'] = drv.calls
  ctx.extra['exhaustive'] = False
  total = sum(ctx.dist.get('call_outcome', {}).values()) or 1
  if ctx.dist.get('call_outcome', {}).get('ok', 0) < 0.5 * total and not ctx.violations:
    raise InfraError('generator degenerated: fewer than half of the transformed calls succeed')


def replay(ctx, obj):
  drv = LeanDriver('drv_c04')
  check_cases(ctx, drv, [_norm_case(obj)], 'replay')
  for v in ctx.violations:
    print('  ', v['key'], '-', v['what'][:300])
  return bool(ctx.violations)
