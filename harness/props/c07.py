"""C07 — Lifted vjp / jvp / grad / value_and_grad / custom_vjp equal JAX autodiff of the pure apply function.

Theorems: lean/Flax/Props/C07.lean over lean/Flax/Model/LiftAD.lean (+ Lift.lean).  Labelled *partial*: automatic
differentiation is JAX's (assumption A-AD); the theorems are about what flax hands to it and does with the result.
Correspondence, three voices: (1) nn.vjp / nn.jvp / nn.value_and_grad / nn.grad / nn.custom_vjp inside a real Linen
module, (2) jax.vjp / jax.jvp / jax.value_and_grad of the pure function (variables, inputs) -> module.apply(...) on the
real flax, (3) the Lean model: plumbing through `pack` (primal values, aux, published variables, gradient key set)
and the *formal derivative* of the body (dual-number evaluation) for the numbers.  Bodies are integer polynomial
programs; all values are float32 holding small integers, so every comparison is exact.
"""
from __future__ import annotations

import json

from harness import compat  # noqa: F401
from harness.common import LeanDriver, load_corpus
from harness.props import liftprog as lp
from harness.props.liftprog import F

import jax
import jax.numpy as jnp
import numpy as np
import flax.linen as nn

SPEC = {
  'exes': ['drv_c07', 'drv_c05'],
  'rule': (
    'One case = (polynomial program of get/has/put/variable-with-init instructions, module attributes, 1-3 primal inputs of '
    'pytree shape scalar | 2-tuple | 2-dict, variable tree, `mutable` filter, root or named-child placement with sibling '
    'variables) x transform (nn.vjp with vjp_variables/variables filters, has_aux, 1-2 outputs and a random cotangent | nn.jvp '
    'with random tangents and variable_tangents incl. empty collections | nn.value_and_grad | nn.grad | nn.custom_vjp with a '
    'deliberately wrong backward rule). Compared exactly: primal outputs, aux, every cotangent / tangent (selected collections '
    'and inputs, incl. tree structure), the key set of the variable cotangent, the published mutable collections (publish-once), '
    'error kinds; for a sample of vjp/jvp/value_and_grad cases also the outer jax.grad (all variable collections and inputs) of the scalarised results vs the same outer jax.grad through jax.vjp/jvp/value_and_grad of module.apply. Non-trivial = the body reads at least one variable and one input; distinct = distinct canonical JSON.'
  ),
  'trusted_base': [
    'hand-written Lean models lean/Flax/Model/LiftAD.lean, lean/Flax/Model/Lift.lean (tied to /repo by this correspondence run)',
    'harness/props/c07.py, harness/props/liftprog.py, harness/compat.py',
    'A-AD: jax.vjp / jax.jvp / jax.custom_vjp return the primal value of the function they are given, cotangents with the structure of the primals, and depend only on the extension of that function (the model quantifies over every AD with this contract; JAX itself is not modelled)',
  ],
  'assumptions': [
    'partial: derivatives themselves are JAX\'s; exact comparison only for polynomial integer-valued programs (|values| < 2^24 in float32)',
    'the Lean model is single-scope; nn.vjp over several scopes (multi_scope=True, a module holding a module bound outside of it) is checked against jax.vjp of module.apply by the implementation oracle only',
    'bodies draw no rngs',
    'second-order agreement (the nn.vjp / nn.jvp / nn.value_and_grad results differentiated again by an outer jax.grad w.r.t. every variable collection and input) is tied by correspondence only: the model has no derivative of a derivative (A-AD)',
  ],
  'model_partial': [
    'multi-scope lifting: scope collection / hand-back (get_module_scopes / set_module_scopes) and _dedup_scopes / _dup_scopes are modelled (lean/Flax/Model/ModScopes.lean; theorem multi_scope_cotangent_positions here, set_get_module_scopes_id / dup_dedup_id in Props/C05) and tied by the modscopes correspondence on the real functions; pack over several scopes (per-scope groups, _transpose) and the cotangent values per scope are tied by the multiscope implementation oracle only',
    'A-AD (automatic differentiation is an abstract structure): the theorems establish what is differentiated, not the derivative; the numbers are tied by the three-voice exact comparison only',
  ],
}


# ------------------------------------------------------------------------------------------------
# rendering
# ------------------------------------------------------------------------------------------------

SHAPES = {'S': 1, 'T2': 2, 'D2': 2}


def build_tree(shapes, flat, conv=F):
  it = iter(flat)
  out = []
  for sh in shapes:
    if sh == 'S':
      out.append(conv(next(it)))
    elif sh == 'T2':
      out.append((conv(next(it)), conv(next(it))))
    else:
      out.append({'u': conv(next(it)), 'v': conv(next(it))})
  return out


def user_fn(case, y_only=False):
  """The scope function `fn(mdl, *primals)` of the case."""
  fn, attrs, nY, has_aux = case['fn'], case['attrs'], case['nY'], case.get('has_aux', False)

  def f(mdl, *primals):
    leaves = jax.tree.leaves(primals)
    vals, _ = lp.run_instrs(mdl, fn, leaves, attrs, conv=F)
    y = vals[0] if nY == 1 else tuple(vals[:nY])
    if y_only or not has_aux:
      return y
    return y, tuple(vals[nY:])

  return f


def y_tree(case, flat):
  return F(flat[0]) if case['nY'] == 1 else tuple(F(v) for v in flat[: case['nY']])


def make_cls(name, call):
  cls = type(name, (nn.Module,), {'__call__': nn.compact(call)})
  lp.KEEP_ALIVE.append(cls)
  return cls


def place(case, Inner):
  """Root placement: the module itself; child placement: a parent that creates it as `sub`."""
  if case['placement'] == 'root':
    return Inner, None

  def top(self, *primals):
    return Inner(name='sub')(*primals)

  return make_cls('Top', top), 'sub'


def full_vars(case, sub):
  tree = {}
  for c, coll in case['view'].items():
    tree[c] = {sub: {n: F(v) for n, v in coll.items()}} if sub else {n: F(v) for n, v in coll.items()}
  for c, n, v in case.get('siblings', []):
    tree.setdefault(c, {})[n] = F(v)
  return tree


def apply_mod(Mod, variables, primals, mutable):
  mut = lp.lf_python(mutable)
  if mut is False:
    return Mod().apply(variables, *primals, mutable=False), {}
  return Mod().apply(variables, *primals, mutable=mut)


def to_int(x):
  v = float(np.asarray(x))
  if not v.is_integer():
    raise ValueError(f'non-integer value {v}')
  return int(v)


def ints(tree):
  return [to_int(x) for x in jax.tree.leaves(tree)]


def view_of(tree, sub):
  out = {}
  for c, t in tree.items():
    t2 = t.get(sub, {}) if sub else t
    d = {n: to_int(v) for n, v in t2.items() if not hasattr(v, 'items')}
    if d:
      out[c] = d
  return out


def final_view(variables, mutated, sub):
  final = dict(variables)
  final.update(mutated)
  sib = {}
  if sub:
    for c, t in final.items():
      d = {n: to_int(v) for n, v in t.items() if n != sub}
      if d:
        sib[c] = d
  return view_of(final, sub), sib


def struct(tree):
  return str(jax.tree.structure(tree))


def selected_cols(case, filt):
  return [c for c in case['view'] if lp.in_filter_json(filt, c)]


# ---- the lifted program --------------------------------------------------------------------------------


def lifted_observe(case):
  kind = case['kind']
  V = lp.lf_python(case['variables'])
  shapes, args = case['primals'], case['args']
  primals = build_tree(shapes, args)
  f = user_fn(case)
  fy = user_fn(case, y_only=True)

  if kind == 'vjp':
    VJ = lp.lf_python(case['vjp_variables'])
    ct = y_tree(case, case['ct'])

    def call(self, *ps):
      res = nn.vjp(f, self, *ps, has_aux=case['has_aux'], vjp_variables=VJ, variables=V)
      y, bwd = res[0], res[1]
      aux = res[2] if case['has_aux'] else ()
      g = bwd(ct)
      return y, aux, g[0], tuple(g[1:])

  elif kind == 'jvp':
    tans = tuple(build_tree(shapes, case['tangents']))
    # a differentiated collection that `variables` does not match is handed to jax.jvp as a FrozenDict
    # (_partial_pack freezes in-only groups): the tangent must have the same container type
    from flax.core import freeze

    vt = {}
    for c, coll in case['vt'].items():
      t = {n: F(x) for n, x in coll.items()}
      vt[c] = t if (lp.in_filter_json(case['variables'], c) or not coll) else freeze(t)

    def call(self, *ps):
      y, ty = nn.jvp(fy, self, tuple(ps), tans, vt, variables=V)
      return y, (), ty, ()

  elif kind in ('vag', 'grad'):

    def call(self, *ps):
      if kind == 'vag':
        r = nn.value_and_grad(f, self, *ps, has_aux=case['has_aux'], variables=V)
        if case['has_aux']:
          (y, aux), g = r
        else:
          (y, g), aux = r, ()
      else:
        r = nn.grad(f, self, *ps, has_aux=case['has_aux'], variables=V)
        if case['has_aux']:
          g, aux = r
        else:
          g, aux = r, ()
        y = ()
      return y, aux, {}, tuple(g)

  else:  # custom_vjp: forward rule = nn.vjp of fn, backward rule deliberately scales every cotangent by 7
    GV = lp.lf_python(case['grad_vars'])

    def call(self, *ps):
      def fwd(mdl, *qs):
        return nn.vjp(fy, mdl, *qs, vjp_variables=GV)

      def bwd(vjp_fn, y_t):
        return jax.tree.map(lambda a: a * 7, tuple(vjp_fn(y_t)))

      cv = nn.custom_vjp(fy, forward_fn=fwd, backward_fn=bwd, grad_vars=GV)
      return cv(self, *ps), (), {}, ()

  Inner = make_cls('Lifted', call)
  Mod, sub = place(case, Inner)
  variables = full_vars(case, sub)
  r = lp.call(lambda: apply_mod(Mod, variables, primals, case['mutable']))
  if r[0] == 'err':
    return {'error': r[1]}, (Mod, sub, variables, primals)
  (y, aux, gv, gi), mutated = r[1]
  view, sib = final_view(variables, mutated, sub)
  obs = {'y': ints(y), 'aux': ints(aux), 'view': view, 'siblings': sib}
  if kind == 'vjp':
    obs['gvars'] = {c: {n: to_int(v) for n, v in coll.items()} for c, coll in gv.items()}
    obs['ginputs'] = ints(gi)
    obs['ginputs_struct_ok'] = struct(gi) == struct(tuple(primals))
  elif kind == 'jvp':
    obs['ty'] = ints(gv)
  elif kind in ('vag', 'grad'):
    obs['ginputs'] = ints(gi)
    obs['ginputs_struct_ok'] = struct(gi) == struct(tuple(primals))
  return obs, (Mod, sub, variables, primals)


# ---- the reference: JAX autodiff of the pure apply function --------------------------------------------


def reference_observe(case):
  kind = case['kind']
  shapes, args = case['primals'], case['args']
  primals = build_tree(shapes, args)
  f = user_fn(case)

  def call(self, *ps):
    r = f(self, *ps)
    if case.get('has_aux', False) and kind != 'custom' and kind != 'jvp':
      return r
    return r, ()

  Inner = make_cls('Plain', call)
  Mod, sub = place(case, Inner)
  variables = full_vars(case, sub)
  mutable = case['mutable']

  def pure(vsel, *ps):
    vs = dict(variables)
    vs.update(vsel)
    (y, aux), upd = apply_mod(Mod, vs, ps, mutable)
    return y, (aux, upd)

  def sel(filt):
    return {c: variables[c] for c in variables if lp.in_filter_json(filt, c) and c in case['view']}

  def thunk():
    if kind == 'vjp':
      vsel = sel(case['vjp_variables'])
      y, bwd, (aux, upd) = jax.vjp(pure, vsel, *primals, has_aux=True)
      g = bwd(y_tree(case, case['ct']))
      return y, aux, g[0], tuple(g[1:]), upd
    if kind == 'jvp':
      target = [c for c, coll in case['vt'].items() if coll]
      vsel = {c: variables[c] for c in target if c in variables}
      vt = {}
      for c in vsel:
        tcoll = {n: F(t) for n, t in case['vt'][c].items()}
        vt[c] = ({sub: tcoll, **{n: jnp.zeros_like(v) for n, v in variables[c].items() if n != sub}} if sub else tcoll)
      tans = tuple(build_tree(shapes, case['tangents']))
      py = lambda vsel, *ps: pure(vsel, *ps)[0]
      y, ty = jax.jvp(py, (vsel, *primals), (vt, *tans))
      _, (aux, upd) = pure(vsel, *primals)
      return y, (), ty, (), upd
    if kind in ('vag', 'grad'):
      (y, (aux, upd)), g = jax.value_and_grad(lambda *ps: pure({}, *ps), argnums=tuple(range(len(primals))), has_aux=True)(*primals)
      return (y if kind == 'vag' else ()), aux, {}, tuple(g), upd
    y, (aux, upd) = pure({}, *primals)
    return y, (), {}, (), upd

  r = lp.call(thunk)
  if r[0] == 'err':
    return {'error': r[1]}
  y, aux, gv, gi, upd = r[1]
  view, sib = final_view(variables, upd, sub)
  obs = {'y': ints(y), 'aux': ints(aux), 'view': view, 'siblings': sib}
  if kind == 'vjp':
    obs['gvars'] = {}
    for c, t in gv.items():
      t2 = t.get(sub, {}) if sub else t
      obs['gvars'][c] = {n: to_int(v) for n, v in t2.items() if not hasattr(v, 'items')}
    obs['ginputs'] = ints(gi)
  elif kind == 'jvp':
    obs['ty'] = ints(gv)
  elif kind in ('vag', 'grad'):
    obs['ginputs'] = ints(gi)
  return obs


# ---- the model ----------------------------------------------------------------------------------------


def attrs_json(attrs):
  return [[k, int(v)] for k, v in sorted(attrs.items())]


def model_observe(drv, case):
  kind = case['kind']
  sc = lp.scope_json(case['view'], case['mutable'], [], case['suffix'])
  at = attrs_json(case['attrs'])
  fn, args = case['fn'], case['args']
  V = case['variables']
  if kind == 'vjp':
    inF, outF = [case['vjp_variables'], V], [V]
    main = ('vjp', [case['vjp_variables'], V, True, case['has_aux'], case['nY'], at, fn, args, sc])
  elif kind == 'jvp':
    target = [c for c, coll in case['vt'].items() if coll]
    inF, outF = [target, V], [V]
    main = ('jvp', [lp.vars_json(case['vt']), V, True, at, fn, args, case['tangents'], sc])
  elif kind in ('vag', 'grad'):
    inF, outF = [V], [V]
    main = ('vag', [V, True, case['has_aux'], case['nY'], at, fn, args, sc])
  else:
    inF, outF = [case['grad_vars'], True], [case['grad_vars'], True]
    main = ('custom', [case['grad_vars'], at, fn, fn, case['nY'], args, sc])
  reqs = [main]
  # formal derivative of the pure apply on the packed scope: one direction per needed Jacobian column
  dirs = []
  zero_args = [0] * len(args)
  if kind == 'vjp':
    for c in selected_cols(case, case['vjp_variables']):
      for n in case['view'][c]:
        dirs.append((('var', c, n), zero_args, [[c, [[n, 1]]]]))
    for i in range(len(args)):
      dirs.append((('arg', i), [1 if j == i else 0 for j in range(len(args))], []))
  elif kind == 'jvp':
    tv = [[c, [[n, t] for n, t in coll.items()]] for c, coll in case['vt'].items() if coll and c in case['view']]
    dirs.append((('dir',), case['tangents'], tv))
  elif kind in ('vag', 'grad'):
    for i in range(len(args)):
      dirs.append((('arg', i), [1 if j == i else 0 for j in range(len(args))], []))
  for _, targs, tv in dirs:
    reqs.append(('jvp_num', [inF, outF, [True], at, fn, args, targs, sc, tv]))
  outs = drv.run(reqs)
  if outs[0][0] != 'ok':
    return {'error': 'Driver:' + str(outs[0][1])}
  m = outs[0][1]
  if 'error' in m:
    return {'error': m['error']}
  if kind == 'custom':
    return {'y': m['vals'], 'aux': [], 'view': lp.vars_from_json(m['vars'])}
  obs = {'y': m['y'], 'aux': m.get('aux') or [], 'view': lp.vars_from_json(m['vars'])}
  cols = []
  for (tag, o) in zip([d[0] for d in dirs], outs[1:]):
    if o[0] != 'ok' or 'error' in o[1]:
      return {'error': 'Driver-jvp_num:' + str(o[1])}
    cols.append((tag, o[1]['tans'][: case['nY']]))
  if kind == 'vjp':
    ct = case['ct'][: case['nY']]
    obs['gradkeys'] = {c: sorted(ns) for c, ns in m['gradkeys']}
    gv, gi = {}, []
    for tag, col in cols:
      val = sum(a * b for a, b in zip(ct, col))
      if tag[0] == 'var':
        gv.setdefault(tag[1], {})[tag[2]] = val
      else:
        gi.append(val)
    obs['gvars'], obs['ginputs'] = gv, gi
  elif kind == 'jvp':
    obs['ty'] = cols[0][1]
    obs['selkeys'] = {c: sorted(ns) for c, ns in m['selkeys']}
  else:
    obs['ginputs'] = [col[0] for _, col in cols]
    if kind == 'grad':
      obs['y'] = []
  return obs


# ------------------------------------------------------------------------------------------------
# the check of one case
# ------------------------------------------------------------------------------------------------


def covered(case):
  kind, fn = case['kind'], case['fn']
  V = case['variables']
  if kind == 'vjp':
    lifted = lambda c: lp.in_filter_json(case['vjp_variables'], c) or lp.in_filter_json(V, c)
  elif kind == 'jvp':
    target = [c for c, coll in case['vt'].items() if coll]
    lifted = lambda c: c in target or lp.in_filter_json(V, c)
  elif kind == 'custom':
    return True
  else:
    lifted = lambda c: lp.in_filter_json(V, c)
  if not all(lifted(c) for c in lp.fn_cols(fn)):
    return False
  for c in lp.fn_wcols(fn):
    if lp.in_filter_json(case['mutable'], c) and not lp.in_filter_json(V, c):
      return False
  return True


def check_case(ctx, drv, case):
  kind = case['kind']
  li, lctx = lifted_observe(case)
  ref = reference_observe(case)
  mo = model_observe(drv, case)
  cov = covered(case)
  reads_var = any(ins[0] in ('get', 'decl') for ins in case['fn']['body'])
  ctx.case(case, nontrivial=reads_var)
  ctx.count('transform', kind + ('/aux' if case.get('has_aux') else ''))
  ctx.count('placement', case['placement'])
  ctx.count('primal_shapes', '+'.join(case['primals']))
  ctx.count('lifted_outcome', li.get('error', 'ok'))
  ctx.count('covered_by_filters', cov)
  if cov and 'error' not in li and kind in ('vjp', 'jvp', 'vag') and case.get('outer_grad'):
    check_outer_grad(ctx, case, lctx)
  ctx.count('writes', 'yes' if lp.fn_wcols(case['fn']) else 'no')
  if kind == 'jvp':
    # candidate finding jvp-in-only-collection-frozen-container: such a collection reaches jax.jvp as a FrozenDict, a plain-dict
    # tangent is rejected (TypeError); the harness passes the tangent in the matching container and counts the occurrences
    need = any(coll and c in case['view'] and not lp.in_filter_json(case['variables'], c) for c, coll in case['vt'].items())
    ctx.count('jvp_tangent_container', 'frozen-needed' if need else 'plain')
  where = json.dumps(case)[:700]

  # ---- property oracle: equals JAX autodiff of the pure apply function -------------------------------
  if cov:
    if li.get('error') != ref.get('error'):
      ctx.violation(f'{kind}-outcome-differs', f'nn.{kind}: {li.get("error", "ok")} vs jax.{kind} of module.apply: {ref.get("error", "ok")} on {where}', case)
      return
    if 'error' not in li:
      fields = {'vjp': ['y', 'aux', 'gvars', 'ginputs', 'view', 'siblings'], 'jvp': ['y', 'ty', 'view', 'siblings'], 'vag': ['y', 'aux', 'ginputs', 'view', 'siblings'],
                'grad': ['aux', 'ginputs', 'view', 'siblings'], 'custom': ['y', 'view', 'siblings']}[kind]
      for k in fields:
        if li[k] != ref[k]:
          what = {'view': 'published collections (forward effects)', 'gvars': 'variable cotangents', 'ginputs': 'input cotangents', 'ty': 'output tangent'}.get(k, k)
          ctx.violation(f'{kind}-{k}-differ', f'nn.{kind}: {what} {li[k]} vs reference {ref[k]} on {where}', case)
          return
      if kind == 'vjp':
        want = sorted(selected_cols(case, case['vjp_variables']))
        if sorted(li['gvars']) != want:
          ctx.violation('vjp-grad-keys', f'nn.vjp: cotangent collections {sorted(li["gvars"])} but selected collections are {want} on {where}', case)
          return
      if not li.get('ginputs_struct_ok', True):
        ctx.violation(f'{kind}-input-grad-structure', f'nn.{kind}: input cotangents do not have the tree structure of the primals on {where}', case)
        return
  elif 'error' not in li and case.get('siblings'):
    want = {}
    for c, n, v in case['siblings']:
      want.setdefault(c, {})[n] = v
    if li['siblings'] != want:
      ctx.violation(f'{kind}-sibling-changed', f'nn.{kind}: variables of the parent changed: {li["siblings"]}', case)
      return

  # ---- model vs implementation ------------------------------------------------------------------------
  if 'error' in li or 'error' in mo:
    if li.get('error') != mo.get('error'):
      ctx.disagreements_checked += 1
      ctx.violation(f'{kind}-model-mismatch', f'nn.{kind}: implementation {li.get("error", "ok")} vs model {mo.get("error", "ok")} on {where}', case, concrete=False)
    return
  fields = {'vjp': ['y', 'aux', 'view', 'gvars', 'ginputs'], 'jvp': ['y', 'view', 'ty'], 'vag': ['y', 'aux', 'view', 'ginputs'], 'grad': ['aux', 'view', 'ginputs'], 'custom': ['y', 'view']}[kind]
  for k in fields:
    if li[k] != mo[k]:
      ctx.disagreements_checked += 1
      ctx.violation(f'{kind}-model-mismatch-{k}', f'nn.{kind}: implementation {k}={li[k]} vs model {mo[k]} on {where}', case, concrete=False)
      return
  if kind == 'vjp' and {c: sorted(v) for c, v in li['gvars'].items()} != mo['gradkeys']:
    ctx.disagreements_checked += 1
    ctx.violation('vjp-model-mismatch-gradkeys', f'nn.vjp: cotangent structure {li["gvars"]} vs model {mo["gradkeys"]} on {where}', case, concrete=False)


def check_custom_forward_only(ctx, case):
  """nn.custom_vjp evaluated WITHOUT differentiation (apply, init, the whole apply under jax.jit): the value and the
  mutable updates must be those of `fn`.  The user's forward rule here is observably different from `fn`: its primal is
  offset by 1000 and it leaves a marker in a mutable collection — neither may show."""
  shapes, args = case['primals'], case['args']
  primals = build_tree(shapes, args)
  c2 = dict(case, has_aux=False)
  fy = user_fn(c2, y_only=True)
  GV = lp.lf_python(case['grad_vars'])
  mark_col = case.get('mark_col', 'stats')

  def lifted_call(self, *ps):
    def fwd(mdl, *qs):
      y, vjp_fn = nn.vjp(fy, mdl, *qs, vjp_variables=GV)
      if mdl.is_mutable_collection(mark_col):
        mdl.put_variable(mark_col, 'fwd_mark', F(1))
      return y + 1000, vjp_fn

    def bwd(vjp_fn, y_t):
      return jax.tree.map(lambda a: a * 7, tuple(vjp_fn(y_t)))

    return nn.custom_vjp(fy, forward_fn=fwd, backward_fn=bwd, grad_vars=GV)(self, *ps)

  L = make_cls('CustomF', lifted_call)
  P = make_cls('CustomFP', lambda self, *ps: fy(self, *ps))
  variables = full_vars(dict(case, placement='root'), None)
  mutable = case['mutable']
  canon = lambda out: jax.tree.map(to_int, out)
  ctx.case(dict(case, sub='forward-only'))
  ctx.count('transform', 'custom/forward-only')
  runs = {
    'apply': lambda M: apply_mod(M, variables, primals, mutable),
    'jit(apply)': lambda M: jax.jit(lambda vs, *ps: apply_mod(M, vs, ps, mutable))(variables, *primals),
    'init': lambda M: M().init_with_output(jax.random.key(0), *primals),
  }
  for how, thunk in runs.items():
    a, b = lp.call(lambda: canon(thunk(L))), lp.call(lambda: canon(thunk(P)))
    if a != b:
      ctx.violation('custom-forward-value', f'nn.custom_vjp without differentiation ({how}): (value, updated collections) {a} but fn gives {b} — the forward rule (primal + 1000, marker in {mark_col!r}) must not be what runs, on {json.dumps(case)[:600]}', case)
      return


def check_custom_under_grad(ctx, case):
  """nn.custom_vjp under differentiation: the user's backward rule (x7) is what jax.grad sees, while the forward
  value stays that of fn."""
  shapes, args = case['primals'], case['args']
  primals = build_tree(shapes, args)
  c2 = dict(case, has_aux=False)
  fy = user_fn(c2, y_only=True)
  GV = lp.lf_python(case['grad_vars'])

  def lifted_call(self, *ps):
    def fwd(mdl, *qs):
      return nn.vjp(fy, mdl, *qs, vjp_variables=GV)

    def bwd(vjp_fn, y_t):
      return jax.tree.map(lambda a: a * 7, tuple(vjp_fn(y_t)))

    return nn.custom_vjp(fy, forward_fn=fwd, backward_fn=bwd, grad_vars=GV)(self, *ps)

  L = make_cls('CustomL', lifted_call)
  P = make_cls('CustomP', lambda self, *ps: fy(self, *ps))
  variables = full_vars(dict(case, placement='root'), None)
  gsel = {c: variables[c] for c in variables if lp.in_filter_json(case['grad_vars'], c)}

  def grads(Mod):
    def scalar(gv, *ps):
      vs = dict(variables)
      vs.update(gv)
      return Mod().apply(vs, *ps)

    val, g = jax.value_and_grad(scalar, argnums=tuple(range(len(primals) + 1)))(gsel, *primals)
    return to_int(val), ints(g)

  a, b = lp.call(lambda: grads(L)), lp.call(lambda: grads(P))
  ctx.case(dict(case, sub='under-grad'))
  ctx.count('transform', 'custom/under-grad')
  if a[0] != b[0]:
    ctx.violation('custom-under-grad-outcome', f'nn.custom_vjp under jax.grad: {a} vs plain {b} on {json.dumps(case)[:600]}', case)
    return
  if a[0] == 'err':
    ctx.count('custom_under_grad', 'error:' + a[1])
    return
  if a[1][0] != b[1][0]:
    ctx.violation('custom-forward-value', f'nn.custom_vjp changed the forward value: {a[1][0]} vs {b[1][0]}', case)
  elif a[1][1] != [7 * x for x in b[1][1]]:
    ctx.violation('custom-backward-rule', f'nn.custom_vjp under jax.grad: gradients {a[1][1]} are not the user rule (7 x {b[1][1]})', case)
  ctx.count('custom_under_grad', 'ok')


# ------------------------------------------------------------------------------------------------
# second order: the lifted results as JAX *functions* of (variables, inputs)
# ------------------------------------------------------------------------------------------------


def _weighted(leaves):
  """A fixed linear functional with distinct integer weights (keeps everything exactly representable)."""
  return sum((i + 1) * jnp.sum(l) for i, l in enumerate(leaves)) if leaves else F(0)


def check_outer_grad(ctx, case, lifted_ctx):
  """Outer jax.grad, w.r.t. ALL variable collections and all inputs, through the results of nn.vjp / nn.jvp /
  nn.value_and_grad (primal, aux and cotangents/tangent summed into a scalar) against the same outer jax.grad through
  jax.vjp / jax.jvp / jax.value_and_grad of module.apply.  Second-order agreement is tied by this comparison only."""
  kind = case['kind']
  Mod, sub, variables, primals = lifted_ctx
  mutable = case['mutable']
  shapes = case['primals']
  f = user_fn(case)

  def pcall(self, *ps):
    r = f(self, *ps)
    return r if (case.get('has_aux', False) and kind != 'jvp') else (r, ())

  PMod, _ = place(case, make_cls('PlainO', pcall))
  sel_cols = [c for c in variables if c in case['view'] and (
    lp.in_filter_json(case['vjp_variables'], c) if kind == 'vjp' else (kind == 'jvp' and bool(case['vt'].get(c))))]

  def view_leaves(tree):  # variable cotangents at the level of the module's own scope, in a fixed order
    out = []
    for c in sorted(tree):
      t = tree[c].get(sub, {}) if sub else tree[c]
      out += [t[n] for n in sorted(t) if not hasattr(t[n], 'items')]
    return out

  def lifted_scalar(vs, *ps):
    (y, aux, gv, gi), _ = apply_mod(Mod, vs, ps, mutable)
    gvl = jax.tree.leaves(gv) if kind == 'jvp' else [gv[c][n] for c in sorted(gv) for n in sorted(gv[c])]
    return _weighted(jax.tree.leaves(y) + jax.tree.leaves(aux) + gvl + jax.tree.leaves(gi))

  def ref_scalar(vs, *ps):
    def pure(vsel, *qs):
      full = dict(vs)
      full.update(vsel)
      (y, aux), upd = apply_mod(PMod, full, qs, mutable)
      return y, (aux, upd)

    vsel = {c: vs[c] for c in sel_cols}
    if kind == 'vjp':
      y, bwd, (aux, _) = jax.vjp(pure, vsel, *ps, has_aux=True)
      g = bwd(y_tree(case, case['ct']))
      return _weighted(jax.tree.leaves(y) + jax.tree.leaves(aux) + view_leaves(g[0]) + jax.tree.leaves(tuple(g[1:])))
    if kind == 'jvp':
      vt = {}
      for c in vsel:
        tcoll = {n: F(t) for n, t in case['vt'][c].items()}
        vt[c] = ({sub: tcoll, **{n: jnp.zeros_like(v) for n, v in vs[c].items() if n != sub}} if sub else tcoll)
      tans = tuple(build_tree(shapes, case['tangents']))
      y, ty = jax.jvp(lambda v, *qs: pure(v, *qs)[0], (vsel, *ps), (vt, *tans))
      return _weighted(jax.tree.leaves(y) + jax.tree.leaves(ty))
    (y, (aux, _)), g = jax.value_and_grad(lambda *qs: pure({}, *qs), argnums=tuple(range(len(ps))), has_aux=True)(*ps)
    return _weighted(jax.tree.leaves(y) + jax.tree.leaves(aux) + jax.tree.leaves(tuple(g)))

  argnums = tuple(range(len(primals) + 1))
  a = lp.call(lambda: jax.value_and_grad(lifted_scalar, argnums=argnums)(variables, *primals))
  b = lp.call(lambda: jax.value_and_grad(ref_scalar, argnums=argnums)(variables, *primals))
  ctx.case(dict(case, sub='outer-grad'))
  ctx.count('transform', kind + '/outer-grad')
  where = json.dumps(case)[:700]
  if a[0] != b[0] or (a[0] == 'err' and a[1] != b[1]):
    ctx.violation(f'{kind}-outer-grad-outcome', f'jax.grad through nn.{kind}: {a if a[0] == "err" else "ok"} vs through jax.{kind} of module.apply: {b if b[0] == "err" else "ok"} on {where}', case)
    return
  if a[0] == 'err':
    ctx.count('outer_grad', 'error:' + a[1])
    return
  ctx.count('outer_grad', 'ok')
  (va, ga), (vb, gb) = a[1], b[1]
  if to_int(va) != to_int(vb):
    ctx.violation(f'{kind}-outer-grad-value', f'scalarised nn.{kind} results {to_int(va)} vs reference {to_int(vb)} on {where}', case)
    return
  la = jax.tree_util.tree_leaves_with_path(ga)
  lb = jax.tree.leaves(gb)
  for (path, x), y in zip(la, lb):
    if to_int(x) != to_int(y):
      ctx.violation(f'{kind}-outer-grad-differs', f'd/d{jax.tree_util.keystr(path)} of the nn.{kind} results (primal + cotangents as a function of variables and inputs) is {to_int(x)}, through jax.{kind} of module.apply it is {to_int(y)} on {where}', case)
      return


# ------------------------------------------------------------------------------------------------
# several scopes: a module that holds another bound module as an attribute (nn.vjp(..., multi_scope=True))
# ------------------------------------------------------------------------------------------------


def check_multiscope_case(ctx, case):
  """`lift.vjp` over a scope tree with two scopes (`_dedup_scopes`, `_transpose`, `_bwd_wrapper`'s unflatten): the
  differentiated module `pair` uses a module `other` bound outside of it.  Oracle only (the Lean model is single-scope):
  primal, one variable cotangent dict per scope (in `get_module_scopes` order: attribute scopes, then the module's own),
  input cotangent, publish-once — against jax.vjp of the plain module's apply."""
  k, ct = case['k'], F(case['ct'])
  VJ = lp.lf_python(case['vjp_variables'])

  class Leaf(nn.Module):
    @nn.compact
    def __call__(self, x):
      w = self.param('w', lambda key: F(1))
      c = self.variable('consts', 'c', lambda: F(1))
      n = self.variable('stats', 'n', lambda: F(0))
      if self.is_mutable_collection('stats'):
        n.value = n.value + 1
      return w * x + c.value * k + n.value * w

  class Leaf2(nn.Module):  # a different parameter name and shape: binding it to the sibling's scope cannot go unnoticed
    @nn.compact
    def __call__(self, x):
      u = self.param('u', lambda key: jnp.asarray([1, 2], jnp.float32))
      return x * u[0] + u[1]

  lp.KEEP_ALIVE.extend([Leaf, Leaf2])
  anames = case.get('attr_names', ['other'])

  def pair_call(self, x):
    v = self.param('v', lambda key: F(1))
    y = v * x * x + getattr(self, anames[0])(x) * v
    if len(anames) > 1:
      y = y + getattr(self, anames[1])(x) * 3
    return y

  Pair = type('Pair', (nn.Module,), {'__annotations__': {a: nn.Module for a in anames}, '__call__': nn.compact(pair_call)})
  lp.KEEP_ALIVE.append(Pair)

  def mk_pair():
    kw = {anames[0]: Leaf(name=anames[0])}
    if len(anames) > 1:
      kw[anames[1]] = Leaf2(name=anames[1])
    return Pair(**kw, name='pair')

  def lifted(self, x):
    y, bwd = nn.vjp(lambda m, x: m(x), mk_pair(), x, vjp_variables=VJ, multi_scope=case['multi_scope'])
    g = bwd(ct)
    return y, g[0], g[1]

  def plain(self, x):
    return mk_pair()(x)

  L, P = make_cls('MSL', lifted), make_cls('MSP', plain)
  a0 = anames[0]
  vs = {'params': {a0: {'w': F(case['w'])}, 'pair': {'v': F(case['v'])}}, 'consts': {a0: {'c': F(case['c'])}}, 'stats': {a0: {'n': F(case['n'])}}}
  if len(anames) > 1:
    vs['params'][anames[1]] = {'u': jnp.asarray([case['v'] + 1, case['w'] - 1], jnp.float32)}
  mut = lp.lf_python(case['mutable'])
  x = F(case['x'])
  li = lp.call(lambda: apply_mod(L, vs, (x,), case['mutable']))
  sel = {c: vs[c] for c in vs if lp.in_filter_json(case['vjp_variables'], c)}

  def pure(vsel, x):
    full = dict(vs)
    full.update(vsel)
    y, upd = apply_mod(P, full, (x,), case['mutable'])
    return y, upd

  def ref_thunk():
    y, bwd, upd = jax.vjp(pure, sel, x, has_aux=True)
    g = bwd(ct)
    return y, g[0], g[1], upd

  ref = lp.call(ref_thunk)
  ctx.case(case)
  ctx.count('transform', 'vjp/multi_scope' if case['multi_scope'] else 'vjp/multi_scope-off')
  where = json.dumps(case)
  if not case['multi_scope']:
    # documented: several scopes need multi_scope=True
    if li != ('err', 'Exception:NotImplementedError'):
      ctx.violation('vjp-multiscope-flag', f'nn.vjp(multi_scope=False) on a module holding another module: {li if li[0] == "err" else "ok"} (NotImplementedError is documented) on {where}', case)
    return
  if li[0] != ref[0] or (li[0] == 'err' and li[1] != ref[1]):
    ctx.violation('vjp-multiscope-outcome', f'nn.vjp over two scopes: {li if li[0] == "err" else "ok"} vs jax.vjp of apply: {ref if ref[0] == "err" else "ok"} on {where}', case)
    return
  if li[0] == 'err':
    return
  (y, gv, gx), upd = li[1]
  ry, rgv, rgx, rupd = ref[1]
  # per-scope cotangents, order: attribute scope (`other`) first, then the module's own scope (`pair`)
  ti = lambda t: jax.tree.map(to_int, jax.tree.map(lambda a: np.asarray(a).tolist(), t))
  got = [{c: {n: ti(v) for n, v in d.items()} for c, d in scope_g.items()} for scope_g in gv]
  # attribute scopes in the traversal order of the attribute dict (sorted names), then the module's own scope
  want = [{c: {n: ti(v) for n, v in rgv[c][name].items()} for c in rgv if name in rgv[c]} for name in sorted(anames) + ['pair']]
  obs = (to_int(y), got, to_int(gx), jax.tree.map(to_int, dict(upd)))
  exp = (to_int(ry), want, to_int(rgx), jax.tree.map(to_int, dict(rupd)))
  names = ('primal output', 'variable cotangents per scope', 'input cotangent', 'published collections')
  for nm, a, b in zip(names, obs, exp):
    if a != b:
      ctx.violation('vjp-multiscope-differs', f'nn.vjp over two scopes: {nm} {a} vs jax.vjp of module.apply {b} on {where}', case)
      return


def gen_multiscope_case(rng):
  return {'kind': 'multiscope', 'k': rng.randrange(1, 3), 'ct': rng.randrange(-2, 4), 'w': rng.randrange(-2, 4), 'v': rng.randrange(-2, 4),
          'c': rng.randrange(-2, 4), 'n': rng.randrange(0, 3), 'x': rng.randrange(-2, 4),
          'vjp_variables': rng.choice(['params', 'params', ['params', 'consts'], 'consts', True]),
          'mutable': rng.choice([False, ['stats'], 'stats']), 'multi_scope': rng.random() < 0.85,
          'attr_names': rng.choice([['other'], ['scale', 'bias'], ['z', 'a'], ['proj', 'head'], ['a', 'b']])}


# ------------------------------------------------------------------------------------------------
# finding F34: nn.jvp rejects a plain-dict tangent for a differentiated collection that `variables` does not match
# ------------------------------------------------------------------------------------------------


def f34_probe(ctx):
  """`_partial_pack` freezes in-only groups, so a collection selected by `variable_tangents` but not matched by
  `variables` reaches jax.jvp as a FrozenDict; the user's plain-dict tangent (accepted by jax.jvp of module.apply) is
  rejected with a tree-structure TypeError."""
  def fy(mdl, x):
    return mdl.get_variable('stats', 'a') * x

  vs = {'stats': {'a': F(3)}, 'params': {'w': F(1)}}
  vt = {'stats': {'a': F(2)}}
  L = make_cls('F34L', lambda self, x: nn.jvp(fy, self, (x,), (F(1),), vt, variables=['params']))
  P = make_cls('F34P', lambda self, x: fy(self, x))
  li = lp.call(lambda: [to_int(v) for v in L().apply(vs, F(5))])
  ref = lp.call(lambda: [to_int(v) for v in jax.jvp(lambda sel, x: P().apply({**vs, **sel}, x), ({'stats': vs['stats']}, F(5)), (vt, F(1)))])
  case = {'kind': 'f34-probe', 'lifted': li, 'reference': ref}
  ctx.case({'kind': 'f34-probe'})
  ctx.count('f34_probe', 'differs' if li != ref else 'equal')
  if li != ref:
    from harness.common import load_findings

    what = f'nn.jvp with variable_tangents={{"stats": …}} (plain dict) and variables=["params"]: {li} vs jax.jvp of module.apply {ref}'
    if any(e.get('key') == 'jvp-in-only-collection-frozen-container' and e.get('status') == 'finding' for e in load_findings(ctx.prop)):
      ctx.violation('jvp-in-only-collection-frozen-container', what, case)
    else:
      ctx.notes.append('unregistered finding jvp-in-only-collection-frozen-container: ' + what)
      ctx.extra.setdefault('unregistered_findings', []).append('jvp-in-only-collection-frozen-container')


# ------------------------------------------------------------------------------------------------
# scope trees with exactly ONE scope: the variable cotangent mirrors the scope tree
# ------------------------------------------------------------------------------------------------


def check_onescope_tree_case(ctx, case):
  """`nn.vjp(..., multi_scope=True)` on a module that holds no outside module, and core `lift.vjp` over a one-element
  list / dict of scopes: the variable cotangent must have the structure of the scope tree ([{…}] / {'m': {…}}), as
  jax.vjp's cotangent w.r.t. the per-scope variable container has; values, primal and input cotangent equal."""
  from flax.core import lift as core_lift, apply as core_apply

  w, b, x, ct = F(case['w']), F(case['b']), F(case['x']), F(case['ct'])
  variables = {'params': {'w': w}, 'consts': {'b': b}}
  form = case['form']
  canon = lambda t: (str(jax.tree.structure(t)), [to_int(v) for v in jax.tree.leaves(t)])

  def poly(pw, pb, x):
    return pw * x * x + pb * x

  if form == 'linen':
    def call(self, x):
      fn = lambda m, x: poly(m.get_variable('params', 'w'), m.get_variable('consts', 'b'), x)
      y, bwd = nn.vjp(fn, self, x, vjp_variables='params', multi_scope=True)
      g = bwd(ct)
      return y, g[0], g[1]

    M = make_cls('OneScope', call)
    got = lp.call(lambda: tuple(canon(t) for t in M().apply(variables, x)))
    container = lambda p: [p]
  else:
    wrap = (lambda sc: [sc]) if form == 'list' else (lambda sc: {'m': sc})
    pick = (lambda scs: scs[0]) if form == 'list' else (lambda scs: scs['m'])

    def f(scope, x):
      def inner(scs, x):
        sc = pick(scs)
        return poly(sc.get_variable('params', 'w'), sc.get_variable('consts', 'b'), x)

      y, bwd = core_lift.vjp(inner, wrap(scope), x, vjp_variables='params')
      g = bwd(ct)
      return y, g[0], g[1]

    got = lp.call(lambda: tuple(canon(t) for t in core_apply(f)(variables, x)))
    container = (lambda p: [p]) if form == 'list' else (lambda p: {'m': p})

  def ref():
    y, bwd = jax.vjp(lambda cont, x: poly(jax.tree.leaves(cont)[0], b, x), container({'params': {'w': w}}), x)
    g = bwd(ct)
    return y, g[0], g[1]

  want = lp.call(lambda: tuple(canon(t) for t in ref()))
  ctx.case(case)
  ctx.count('transform', f'vjp/one-scope-{form}')
  if got != want:
    ctx.violation('vjp-scope-tree-structure', f'vjp over a scope tree with one scope ({form}): (primal, variable cotangent, input cotangent) as (tree structure, leaves) {got} vs jax.vjp w.r.t. the mirrored variable container {want} on {json.dumps(case)}', case)


def gen_onescope_case(rng):
  return {'kind': 'onescope', 'form': rng.choice(['linen', 'list', 'dict']), 'w': rng.randrange(-2, 4), 'b': rng.randrange(-2, 4),
          'x': rng.randrange(-2, 4), 'ct': rng.randrange(1, 4)}


# ------------------------------------------------------------------------------------------------
# mutable state >= 2 scope levels below the lifted scope, used directly before and after the lifted call
# ------------------------------------------------------------------------------------------------


def check_deepstate_case(ctx, case):
  """Net -> blk -> (… ->) ctr: a stateful sub-module `depth` levels below the module handed to nn.vjp / nn.value_and_grad /
  nn.jvp.  It is called directly before the lifted call (these calls also write a state entry `extra` the lifted call
  never rewrites), through the lifted transform (updates `count` only), and directly again afterwards; optionally a
  sibling `ctr2` is only ever used directly.  Reference: the same program over the pure function
  (params, state, x) -> Counter.apply, with jax.vjp / jax.value_and_grad / jax.jvp for the middle step.  Compared exactly:
  every output and the final mutable collection (publish = deep merge: updated entries new, untouched ones kept)."""
  mode, depth, two = case['mode'], case['depth'], case['two']
  scale0 = case['scale']

  class Counter(nn.Module):
    @nn.compact
    def __call__(self, x, mark):
      count = self.variable('state', 'count', lambda: F(0))
      extra = self.variable('state', 'extra', lambda: F(0))
      scale = self.param('scale', lambda key: F(scale0))
      count.value = count.value + 1
      if mark:
        extra.value = extra.value + 1
      return x * scale * count.value + extra.value

  def mk_mid(inner_cls, with_sibling):
    def setup(self):
      self.ctr = inner_cls()
      if with_sibling:
        self.ctr2 = Counter()

    def call(self, x, mark, which=0):
      if which:
        return self.ctr2(x, mark)
      return self.ctr(x, mark) if isinstance(self.ctr, Counter) else self.ctr(x, mark, 0)

    M = type('Blk', (nn.Module,), {'setup': setup, '__call__': call})
    lp.KEEP_ALIVE.append(M)
    return M

  lp.KEEP_ALIVE.append(Counter)
  chain = Counter
  for lvl in range(depth - 1):
    chain = mk_mid(chain, two and lvl == depth - 2)  # the sibling sits directly under Net.blk
  # path of the counter (and of its sibling) below Net.blk
  inner_path = ['ctr'] * (depth - 1)

  def nest(path, leaf):
    for k in reversed(path):
      leaf = {k: leaf}
    return leaf

  def setup(self):
    self.blk = chain()

  def direct(mdl, x, which=0):
    return mdl.blk(x, True, which) if depth > 1 else mdl.blk(x, True)

  def lifted_fn(mdl, x):
    return mdl.blk(x, False, 0) if depth > 1 else mdl.blk(x, False)

  def net_call(self, x):
    pre = tuple(direct(self, x) for _ in range(case['pre']))
    if two:
      pre = pre + (direct(self, x, 1),)
    if mode == 'vjp':
      y1, bwd = nn.vjp(lifted_fn, self, x)
      g = bwd(F(case['ct']))
      ad = (y1, tuple(jax.tree.leaves(g[0])), g[1])
    elif mode == 'vag':
      v, (gx,) = nn.value_and_grad(lambda m, x: lifted_fn(m, x) ** 2, self, x)
      ad = (v, gx)
    else:
      ptan = jax.tree.map(lambda a: jnp.zeros_like(a), self.variables['params'])
      ptan = jax.tree.map(lambda a: a, ptan)
      leafpath = ['blk'] + inner_path
      d = ptan
      for k in leafpath:
        d = d[k]
      d['scale'] = F(case['ts'])
      y1, t1 = nn.jvp(lifted_fn, self, (x,), (F(case['tx']),), {'params': ptan})
      ad = (y1, t1)
    post = tuple(direct(self, x) for _ in range(case['post']))
    if two:
      post = post + (direct(self, x, 1),)
    return pre, ad, post

  Net = type('Net', (nn.Module,), {'setup': setup, '__call__': net_call})
  lp.KEEP_ALIVE.append(Net)
  x = F(case['x'])
  leaf_p = {'scale': F(scale0)}
  leaf_s = {'count': F(case['count']), 'extra': F(case['extra'])}
  blk_p, blk_s = nest(inner_path, leaf_p), nest(inner_path, leaf_s)
  if two:
    blk_p = dict(blk_p, ctr2={'scale': F(case['scale2'])})
    blk_s = dict(blk_s, ctr2={'count': F(0), 'extra': F(5)})
  variables = {'params': {'blk': blk_p}, 'state': {'blk': blk_s}}
  canon = lambda t: jax.tree.map(to_int, t)
  got = lp.call(lambda: canon(Net().apply(jax.tree.map(lambda a: a, variables), x, mutable=['state'])))

  # reference: the same program over the pure apply of the stateful leaf
  def reference():
    sub = Counter()
    st = {0: dict(leaf_s), 1: {'count': F(0), 'extra': F(5)}}
    pr = {0: dict(leaf_p), 1: {'scale': F(case['scale2'])}}

    def pure(p, s, x, mark):
      return sub.apply({'params': p, 'state': s}, x, mark, mutable=['state'])

    def run_direct(which):
      y, upd = pure(pr[which], st[which], x, True)
      st[which] = dict(upd['state'])
      return y

    pre = tuple(run_direct(0) for _ in range(case['pre']))
    if two:
      pre = pre + (run_direct(1),)
    if mode == 'vjp':
      y1, bwd, upd = jax.vjp(lambda p, x: pure(p, st[0], x, False), pr[0], x, has_aux=True)
      gp, gx = bwd(F(case['ct']))
      gl = [gp['scale']] + ([jnp.zeros(())] if two else [])
      ad = (y1, tuple(gl), gx)
    elif mode == 'vag':
      def scalar(x):
        y, upd = pure(pr[0], st[0], x, False)
        return y ** 2, upd

      (v, upd), gx = jax.value_and_grad(scalar, has_aux=True)(x)
      ad = (v, gx)
    else:
      (y1, upd), (t1, _) = jax.jvp(lambda p, x: pure(p, st[0], x, False), (pr[0], x), ({'scale': F(case['ts'])}, F(case['tx'])))
      ad = (y1, t1)
    st[0] = dict(upd['state'])
    post = tuple(run_direct(0) for _ in range(case['post']))
    if two:
      post = post + (run_direct(1),)
    fs = nest(inner_path, st[0])
    if two:
      fs = dict(fs, ctr2=st[1])
    return (pre, ad, post), {'state': {'blk': fs}}

  want = lp.call(lambda: canon(reference()))
  ctx.case(case)
  ctx.count('transform', f'deepstate-{mode}/depth{depth}' + ('/sibling' if two else ''))
  if want[0] != 'ok':
    from harness.common import InfraError

    raise InfraError(f'deepstate reference failed: {want}')
  if got != want:
    parts = []
    if got[0] == 'ok':
      names = ('direct calls before', 'lifted autodiff results', 'direct calls after')
      parts = [n for n, a, b in zip(names, got[1][0], want[1][0]) if a != b]
      if got[1][1] != want[1][1]:
        parts.append('final mutable collection')
    ctx.violation(f'deepstate-{mode}-differs', f'nn.{mode} over a module whose stateful descendant (depth {depth}) is used directly before and after the lifted call: {parts or got} differ: got {got} vs pure-JAX reference {want} on {json.dumps(case)}', case)


def gen_deepstate_case(rng):
  depth = rng.choice([2, 2, 3])
  return {'kind': 'deepstate', 'mode': rng.choice(['vjp', 'vag', 'jvp']), 'depth': depth, 'two': rng.random() < 0.5,
          'scale': rng.randrange(1, 4), 'scale2': rng.randrange(1, 4), 'count': rng.randrange(0, 3), 'extra': rng.randrange(0, 3),
          'x': rng.randrange(1, 4), 'pre': rng.randrange(1, 3), 'post': rng.randrange(1, 3), 'ct': rng.randrange(1, 4),
          'ts': rng.randrange(0, 3), 'tx': rng.randrange(0, 3)}


# ------------------------------------------------------------------------------------------------
# generator
# ------------------------------------------------------------------------------------------------

COLS = ['params', 'consts', 'stats', 'aux']


def gen_case(rng, kind):
  attrs = {'k': rng.randrange(1, 3)}
  view = {}
  for c in COLS:
    if rng.random() < 0.75:
      coll = {n: rng.randrange(-2, 4) for n in lp.NAMES if rng.random() < 0.6}
      if coll:
        view[c] = coll
  if not view:
    view = {'params': {'a': 2}}
  shapes = [rng.choice(['S', 'S', 'T2', 'D2']) for _ in range(rng.randrange(1, 4))]
  nargs = sum(SHAPES[s] for s in shapes)
  args = [rng.randrange(-2, 4) for _ in range(nargs)]
  nY = 1 if kind in ('vag', 'grad', 'custom') else rng.choice([1, 1, 2])
  has_aux = kind in ('vjp', 'vag', 'grad') and rng.random() < 0.5
  # a polynomial body: reads, a few writes (counters), products of variables and inputs
  body, nregs = [], 0
  existing = [(c, n) for c in view for n in view[c]]
  for _ in range(rng.randrange(1, 5)):
    r = rng.random()
    if r < 0.6 and existing:
      c, n = rng.choice(existing) if rng.random() < 0.93 else (rng.choice(COLS), rng.choice(lp.NAMES))
      body.append(['get', c, n])
      nregs += 1
    elif r < 0.85 and nregs:
      c, n = rng.choice(existing) if existing and rng.random() < 0.7 else (rng.choice(COLS), rng.choice(lp.NAMES))
      body.append(['put', c, n, lp.gen_expr(rng, nregs, nargs, attrs, depth=1)])
    elif r < 0.92:
      body.append(['has', rng.choice(COLS), rng.choice(lp.NAMES)])
      nregs += 1
    elif not any(i[0] == 'decl' for i in body):  # Module.variable reserves the name
      body.append(['decl', rng.choice(COLS), 'd', lp.gen_expr(rng, nregs, nargs, attrs, depth=1)])
      nregs += 1
  nret = nY + (rng.randrange(1, 3) if has_aux else 0)
  ret = [lp.gen_expr(rng, nregs, nargs, attrs, depth=2) for _ in range(nret)]
  fn = {'body': body, 'ret': ret}
  wc = lp.fn_wcols(fn)
  if rng.random() < 0.75:
    xs = wc + [c for c in COLS if c not in wc and rng.random() < 0.3]
    mutable = rng.choice([True, xs, xs[0] if len(xs) == 1 else xs, {'deny': [c for c in COLS if c not in wc][:1]}])
  else:
    mutable = lp.gen_filter(rng, universe=COLS, p_true=0.2)
  placement = rng.choice(['root', 'child'])
  case = {'kind': kind, 'attrs': attrs, 'fn': fn, 'primals': shapes, 'args': args, 'view': view, 'mutable': mutable,
          'placement': placement, 'suffix': ['sub'] if placement == 'child' else [], 'nY': nY, 'has_aux': has_aux,
          'variables': True if rng.random() < 0.7 else lp.gen_filter(rng, universe=COLS, p_true=0.1)}
  if placement == 'child' and rng.random() < 0.6:
    case['siblings'] = [[rng.choice(sorted(view)), 'top_v', rng.randrange(1, 5)]]
  if kind == 'vjp':
    case['vjp_variables'] = rng.choice(['params', 'params', ['params', 'consts'], rng.choice(COLS), [c for c in COLS if rng.random() < 0.5], True, {'deny': 'stats'}, False])
    case['ct'] = [rng.randrange(-2, 4) for _ in range(nY)]
  elif kind == 'jvp':
    case['tangents'] = [rng.randrange(-2, 3) for _ in range(nargs)]
    vt = {}
    for c in view:
      r = rng.random()
      if r < 0.45:
        vt[c] = {n: rng.randrange(-1, 3) for n in view[c]}
      elif r < 0.7:
        vt[c] = {}
    case['vt'] = vt
  elif kind == 'custom':
    case['grad_vars'] = rng.choice(['params', ['params', 'consts'], rng.choice(COLS)])
    case['variables'] = True
  return case


# ------------------------------------------------------------------------------------------------
# entry points
# ------------------------------------------------------------------------------------------------


def run_case(ctx, drv, case):
  if case.get('kind') in ('vjp', 'jvp', 'vag', 'grad', 'custom'):
    check_case(ctx, drv, case)
    if case['kind'] == 'custom':
      check_custom_forward_only(ctx, case)
    if case['kind'] == 'custom' and case.get('under_grad'):
      check_custom_under_grad(ctx, case)
  elif case.get('kind') == 'multiscope':
    check_multiscope_case(ctx, case)
  elif case.get('kind') == 'deepstate':
    check_deepstate_case(ctx, case)
  elif case.get('kind') == 'onescope':
    check_onescope_tree_case(ctx, case)
  else:
    ctx.notes.append(f'unknown corpus case kind {case.get("kind")}')


def run(ctx):
  drv = LeanDriver('drv_c07')
  rng = ctx.rng
  thorough = ctx.tier == 'thorough'
  for fn, obj in load_corpus('C07'):
    ctx.corpus_replayed += 1
    run_case(ctx, drv, obj.get('case', obj))
  scale = 12 if thorough else 1
  plan = [('vjp', 110), ('jvp', 70), ('vag', 40), ('grad', 30), ('custom', 30)]
  # the scope collection / hand-back the multi-scope vjp relies on: real get/set_module_scopes vs the Lean model
  from harness.props import c05 as c05mod

  drv5 = LeanDriver('drv_c05')
  for _ in range(10 * scale):
    c05mod.check_modscopes_case(ctx, drv5, c05mod.gen_modscopes_case(rng))
  cases = [dict(gen_onescope_case(rng), form=fm) for fm in ('linen', 'list', 'dict') for _ in range(3 * scale)] + [gen_deepstate_case(rng) for _ in range(14 * scale)] + [gen_multiscope_case(rng) for _ in range(14 * scale)]
  for kind, n in plan:
    for _ in range(n * scale):
      c = gen_case(rng, kind)
      if kind in ('vjp', 'jvp', 'vag'):
        c['outer_grad'] = rng.random() < {'vjp': 0.5, 'jvp': 0.3, 'vag': 0.3}[kind]
      if kind == 'custom':
        if len([x for x in cases if x['kind'] == 'custom']) % 3 == 0:
          # every third case: a module without any variable in the `grad_vars` collections (parameter-free for the
          # custom rule), read-only body, differentiated w.r.t. its inputs — the user's rule must still be used
          # (`decl` pushes a register: replaced by `has`, which pushes one too, so the expressions stay well-formed)
          c['fn']['body'] = [(['has', ins[1], ins[2]] if ins[0] == 'decl' else ins) for ins in c['fn']['body'] if ins[0] != 'put']
          c['grad_vars'] = 'gradless'
          c['placement'], c['suffix'] = 'root', []
          c.pop('siblings', None)
        c['under_grad'] = not lp.fn_wcols(c['fn']) and c['placement'] == 'root'
      cases.append(c)
  for case in cases:
    run_case(ctx, drv, case)
    if not thorough and ctx.elapsed() > 75:
      ctx.notes.append('time budget reached, remaining generated cases skipped')
      break
  f34_probe(ctx)
  for k in ('vjp', 'jvp', 'vag', 'custom'):
    for c in cases:
      if c['kind'] == k:
        ctx.sample(c)
        break
  ctx.extra['driver_calls'] = drv.calls
  ctx.extra['exhaustive'] = False


def replay(ctx, obj):
  drv = LeanDriver('drv_c07')
  run_case(ctx, drv, obj.get('case', obj))
  for v in ctx.violations:
    print('  ', v['key'], '-', v['what'][:400])
  return bool(ctx.violations)
