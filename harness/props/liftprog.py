"""Shared helpers of the C05 / C07 checks: the little scope-program language of lean/Flax/Model/Lift.lean
rendered on real Linen modules, error classification, symbolic-key evaluation, canonical forms.

A body is {'body': [instr…], 'ret': [expr…]} with
  instr = ['get', c, n] | ['has', c, n] | ['put', c, n, expr] | ['decl', c, n, expr] | ['rng', stream]
  expr  = {'lit': v} | {'reg': i} | {'arg': i} | {'attr': name} | {'add': [a, b]} | {'mul': [a, b]}
exactly the JSON the Lean drivers decode.  Values are int32 scalars (exact).
"""
from __future__ import annotations

import hashlib

from harness import compat  # noqa: F401  (must precede flax)

import jax
import jax.numpy as jnp
import numpy as np

import flax.linen as nn
from flax import errors as flax_errors
from flax.core import scope as core_scope
from flax.configurations import config as flax_config

KEEP_ALIVE = []  # generated classes are never freed: nn.jit's caches are keyed by hash(type), i.e. by address


class HarnessNotFound(Exception):
  """The DSL's `get` of a variable that does not exist (Module.get_variable returns its default)."""


_SENTINEL = object()


def I(v):
  return jnp.asarray(v, jnp.int32)


def F(v):
  return jnp.asarray(v, jnp.float32)


def ev_expr(e, regs, args, attrs):
  if 'lit' in e:
    return e['lit']
  if 'reg' in e:
    return regs[e['reg']]
  if 'arg' in e:
    return args[e['arg']]
  if 'attr' in e:
    return attrs[e['attr']]
  if 'add' in e:
    return ev_expr(e['add'][0], regs, args, attrs) + ev_expr(e['add'][1], regs, args, attrs)
  if 'mul' in e:
    return ev_expr(e['mul'][0], regs, args, attrs) * ev_expr(e['mul'][1], regs, args, attrs)
  raise ValueError(e)


def run_instrs(mdl, fn, args, attrs, trace_log=None, conv=None):
  """Executes a body on a bound Linen module through the public Module API. Returns (vals, keys)."""
  if trace_log is not None:
    trace_log.append(1)  # python side effect: counts executions of the python body (= traces under jit)
  conv = conv or I
  regs, keys = [], []
  for ins in fn['body']:
    op = ins[0]
    if op == 'get':
      v = mdl.get_variable(ins[1], ins[2], _SENTINEL)
      if v is _SENTINEL:
        raise HarnessNotFound(ins[1], ins[2])
      regs.append(v)
    elif op == 'has':
      regs.append(1 if mdl.has_variable(ins[1], ins[2]) else 0)
    elif op == 'put':
      mdl.put_variable(ins[1], ins[2], conv(ev_expr(ins[3], regs, args, attrs)))
    elif op == 'decl':
      e = ins[3]
      snap = list(regs)
      var = mdl.variable(ins[1], ins[2], lambda: conv(ev_expr(e, snap, args, attrs)))
      regs.append(var.value)
    elif op == 'rng':
      keys.append(jax.random.key_data(mdl.make_rng(ins[1])))
    else:
      raise ValueError(op)
  vals = [conv(ev_expr(e, regs, args, attrs)) for e in fn['ret']]
  return vals, keys


def classify_exc(e):
  if isinstance(e, flax_errors.ModifyScopeVariableError):
    return 'ModifyImmutable'
  if isinstance(e, (flax_errors.ScopeVariableNotFoundError, flax_errors.ScopeCollectionNotFound, flax_errors.ScopeParamNotFoundError, HarnessNotFound)):
    return 'NotFound'
  if isinstance(e, flax_errors.InvalidRngError):
    return 'RngMissing'
  if isinstance(e, flax_errors.NameInUseError):
    return 'NameInUse'
  if isinstance(e, (TypeError, ValueError)) and any(
    s in str(e) for s in ('must have identical types', 'must have same type structure', 'same type structure', 'pytree structure', 'body_fun output and input', 'branch outputs', 'true_fun output', 'true_fun and false_fun output', 'unmapped output variables')
  ):
    return 'Unmapped' if 'unmapped output variables' in str(e) else 'StructMismatch'
  return 'Exception:' + type(e).__name__


def call(thunk):
  try:
    return ('ok', thunk())
  except Exception as e:  # every exception raised by flax/jax is an observation
    return ('err', classify_exc(e))


# ------------------------------------------------------------------------------------------------
# filters
# ------------------------------------------------------------------------------------------------


def lf_python(j):
  """JSON filter -> Python filter object."""
  if isinstance(j, dict):
    return core_scope.DenyList(lf_python(j['deny']))
  if isinstance(j, list):
    return tuple(j)
  return j


def in_filter_json(j, c):
  if isinstance(j, bool):
    return j
  if isinstance(j, str):
    return c == j
  if isinstance(j, dict):
    return not in_filter_json(j['deny'], c)
  return c in j


# ------------------------------------------------------------------------------------------------
# symbolic keys
# ------------------------------------------------------------------------------------------------


def fold_in_static_ref(key, data):
  """Independent re-implementation of scope._fold_in_static (the separator flag is read from the code)."""
  if not data:
    return key
  m = hashlib.sha1()
  for x in data:
    if flax_config.flax_fix_rng_separator:
      m.update(b'\x00')
    if isinstance(x, str):
      m.update(x.encode('utf-8'))
    else:
      m.update(int(x).to_bytes((int(x).bit_length() + 7) // 8, byteorder='big'))
  h = int.from_bytes(m.digest()[:4], byteorder='big')
  return jax.random.fold_in(key, jnp.uint32(h))


def eval_symkey(j, seeds):
  """Model key term -> key data (list of ints) using real jax.random.fold_in."""
  if 'seed' in j:
    return seeds[j['seed']]
  k = eval_symkey(j['fold'][0], seeds)
  return fold_in_static_ref(k, j['fold'][1])


def keydata(k):
  return [int(x) for x in np.asarray(jax.random.key_data(k)).tolist()]


# ------------------------------------------------------------------------------------------------
# variables / canonical forms
# ------------------------------------------------------------------------------------------------


def to_arrays(view):
  return {c: {n: I(v) for n, v in coll.items()} for c, coll in view.items()}


def canon_view(tree):
  """{col: {name: array}} -> {col: {name: int}} without empty collections (sorted by json dump later)."""
  out = {}
  for c, coll in tree.items():
    d = {}
    for n, v in coll.items():
      if isinstance(v, dict) or hasattr(v, 'items'):
        continue  # sub-module subtree: not part of this scope's own variables
      d[n] = int(np.asarray(v))
    if d:
      out[c] = d
  return out


def vars_json(view):
  """{col: {name: int}} -> the driver's ordered list form."""
  return [[c, [[n, int(v)] for n, v in coll.items()]] for c, coll in view.items()]


def vars_from_json(lst):
  out = {}
  for c, coll in lst:
    d = {n: v for n, v in coll}
    if d:
      out[c] = d
  return out


def scope_json(view, mutable, streams, suffix):
  return {
    'vars': vars_json(view),
    'mutable': mutable,
    'rngs': [[s, [s, list(suffix)]] for s in streams],
    'counters': [[s, 0] for s in streams],
  }


# ------------------------------------------------------------------------------------------------
# generators
# ------------------------------------------------------------------------------------------------

COLS = ['params', 'stats', 'cache', 'aux']
NAMES = ['a', 'b', 'n']
STREAMS = ['params', 'dropout', 'noise']


def gen_expr(rng, nregs, nargs, attrs, depth=2):
  atoms = [('lit', None)]
  if nregs:
    atoms += [('reg', None)] * 3
  if nargs:
    atoms += [('arg', None)] * 2
  if attrs:
    atoms += [('attr', None)]
  if depth > 0 and rng.random() < 0.6:
    op = rng.choice(['add', 'add', 'mul'])
    return {op: [gen_expr(rng, nregs, nargs, attrs, depth - 1), gen_expr(rng, nregs, nargs, attrs, depth - 1)]}
  kind = rng.choice(atoms)[0]
  if kind == 'lit':
    return {'lit': rng.randrange(-2, 4)}
  if kind == 'reg':
    return {'reg': rng.randrange(nregs)}
  if kind == 'arg':
    return {'arg': rng.randrange(nargs)}
  return {'attr': rng.choice(sorted(attrs))}


def gen_fn(rng, view, nargs, attrs, *, n_instr=None, allow_rng=True, allow_decl=True, write_cols=None, read_cols=None,
           existing_only=False, nret=None, streams=STREAMS):
  """A random body. `existing_only`: reads/writes only existing variables (structure-preserving, for cond/while)."""
  n_instr = n_instr if n_instr is not None else rng.randrange(1, 7)
  body, nregs = [], 0
  declared = set()
  existing = [(c, n) for c in view for n in view[c]]
  read_cols = read_cols if read_cols is not None else COLS
  write_cols = write_cols if write_cols is not None else COLS
  for _ in range(n_instr):
    r = rng.random()
    if r < 0.34:
      cands = [(c, n) for (c, n) in existing if c in read_cols]
      if cands and (existing_only or rng.random() < 0.93):
        c, n = rng.choice(cands)
      else:
        c, n = rng.choice(read_cols), rng.choice(NAMES)
      body.append(['get', c, n])
      nregs += 1
    elif r < 0.44:
      c, n = (rng.choice(existing) if existing and rng.random() < 0.5 else (rng.choice(COLS), rng.choice(NAMES)))
      body.append(['has', c, n])
      nregs += 1
    elif r < 0.74:
      cands = [(c, n) for (c, n) in existing if c in write_cols]
      if cands and (existing_only or rng.random() < 0.7):
        c, n = rng.choice(cands)
      elif existing_only:
        continue
      else:
        c, n = rng.choice(write_cols), rng.choice(NAMES)
      body.append(['put', c, n, gen_expr(rng, nregs, nargs, attrs)])
    elif r < 0.86 and allow_decl and not existing_only:
      c, n = rng.choice(write_cols), rng.choice(NAMES + ['d'])
      if n in declared:
        continue  # Module.variable reserves the name per module
      declared.add(n)
      body.append(['decl', c, n, gen_expr(rng, nregs, nargs, attrs)])
      nregs += 1
    elif allow_rng:
      body.append(['rng', rng.choice(streams)])
  nret = nret if nret is not None else rng.randrange(1, 3)
  ret = [gen_expr(rng, nregs, nargs, attrs) for _ in range(nret)]
  return {'body': body, 'ret': ret}


def gen_view(rng, cols=COLS, p_col=0.7, p_var=0.6):
  view = {}
  for c in cols:
    if rng.random() < p_col:
      coll = {n: rng.randrange(-3, 6) for n in NAMES if rng.random() < p_var}
      if coll:
        view[c] = coll
  return view


def gen_filter(rng, universe=COLS, p_true=0.35):
  r = rng.random()
  if r < p_true:
    return True
  if r < p_true + 0.08:
    return False
  if r < p_true + 0.25:
    return rng.choice(universe)
  sub = [c for c in universe if rng.random() < 0.55]
  if r < p_true + 0.5:
    return sub
  return {'deny': rng.choice([rng.choice(universe), sub])}


def fn_cols(fn):
  return sorted({ins[1] for ins in fn['body'] if ins[0] in ('get', 'has', 'put', 'decl')})


def fn_wcols(fn):
  return sorted({ins[1] for ins in fn['body'] if ins[0] in ('put', 'decl')})


def fn_streams(fn):
  return sorted({ins[1] for ins in fn['body'] if ins[0] == 'rng'})

keydata_from = keydata
