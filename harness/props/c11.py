"""C11 — Checkpoint directory survives crashes; retention and step ordering are exact.

Theorems: lean/Flax/Props/C11.lean over lean/Flax/Model/Ckpt.lean.

Correspondence (every run, real flax from /repo against the compiled Lean driver `drv_c11`):
  (i)   save histories (ints / floats / negatives / exponent notation, keep, keep_every_n_steps, overwrite,
        prefixes) on a fresh temp dir for both back-ends and both `flax.io` modes: after every call the
        directory (names + content class), `available_steps`, `latest_checkpoint`, `restore_checkpoint`
        and the error enum are compared with the model;
  (ii)  crash points: `flax.io.{GFile, rename, remove, rmtree, makedirs}` are interposed in-process and raise
        `SimulatedCrash` before the k-th mutating operation, for every k, plus torn writes (j bytes of the
        temp file) and torn `rmtree`s; Orbax's own commit is cut right before its atomic rename; after every
        crash the directory is compared with the model's crash state and the recovery calls (retry, later
        step) run on the real directory;
  (iii) A-NAT: lists of step literals through the real `natural_sort` against sort-by-value;
  (iv)  AsyncManager: the executor is replaced by a gated one (the worker is paused after a chosen number of
        file-system operations while the caller goes on), final directory against the synchronous run.
Property oracles are evaluated on the implementation, independently of the model.
Only observable behaviour is compared: names present, whether a name restores to the tree saved for it,
API results, error classes.  Temp-file naming (`tmp`, Orbax's suffix) is learnt from the code at start-up.
"""
from __future__ import annotations

import math
import os
import re
import shutil
import tempfile
import threading
import warnings
from fractions import Fraction

from harness import compat  # noqa: F401  (must precede flax)
from harness.common import InfraError, LeanDriver, load_corpus, load_findings

warnings.simplefilter('ignore')

import numpy as np  # noqa: E402
import orbax.checkpoint as ocp  # noqa: E402
from flax import config as flax_config  # noqa: E402
from flax import errors as flax_errors  # noqa: E402
from flax import io as fio  # noqa: E402
from flax import serialization  # noqa: E402
from flax.training import checkpoints as cp  # noqa: E402

SPEC = {
  'exes': ['drv_c11'],
  'rule': (
    'a case is one save call of a generated history, or one (save call, crash point) pair, or one natural_sort '
    'list, or one async schedule, or one policy evaluation; non-trivial = the directory held at least one checkpoint '
    'before the call, or the case is a crash/async/sort/leftover case; distinct = distinct canonical JSON (back-end, io '
    'mode, scaled step values, parameters, directory before, crash point).'
  ),
  'trusted_base': [
    'hand-written Lean models lean/Flax/Model/Ckpt.lean and lean/Flax/Model/NatSort.lean (tied to /repo by this correspondence run); helper lemmas lean/Flax/Proofs/{Ckpt,NatSort}.lean',
    'harness/props/c11.py (generators, fs interposition below flax/io.py, canonicalisation, Python policy reference), harness/compat.py',
    'A-FS: POSIX rename/unlink are atomic, listdir shows committed names only; rmtree of a directory is NOT atomic (modelled: damage, then remove); '
    'a crash is an exception (BaseException) raised before a mutating call of flax/io.py — no flax code between such calls touches the directory; '
    'thorough tier: a real os._exit from an audit hook in a child process before every Python-level file-system event of an Orbax save',
    'A-ORBAX: Checkpointer.save = [rmtree(destination) if force and it exists] ; [rmtree(stale temp dir)] ; mkdir temp dir ; write ; one atomic '
    'rename (read from the installed orbax 0.12.x; exercised through real saves, a cut right before its rename, and the thorough-tier kills)',
    'A-NAT is now theorems over the character-level model lean/Flax/Model/NatSort.lean of SIGNED_FLOAT_RE.split / maybe_num / sorted / '
    '_checkpoint_path_step, for every printed step `[-+]?digits(.digits*)?([eE][-+]?digits)?` (str(int), repr(float) incl. exponent notation) after '
    'anything whose last character is not a digit, sign, dot, e/E (digits elsewhere in directory or prefix allowed): natural_sort_orders_numbers_by_value, '
    'natural_sort_latest_is_max_number (order = exact decimal value m*10^e, decCmp_is_value_order), natural_sort_orders_by_value / listing_is_natural_sort '
    '(integers, composed with the directory model), natural_sort_tmp_sorts_last, checkpoint_path_step_is_the_step. The model is tied to the real regex '
    'exhaustively on short strings + random, and to the real natural_sort and _checkpoint_path_step on name lists, on every run. '
    'Still assumed: A-FLOAT — Python float() orders these literals as their decimal values do (exact for ints below 2**53, monotone and injective on the reprs of '
    'distinct finite doubles; overflow/underflow literals excluded); \\d = ASCII digit (ASCII names); sorted = stable sort by key (modelled as insertion sort), '
    'list/str comparison as modelled; str(int) = showInt (validated differentially); repr(float) lies in the literal class (examples only). '
    'Violated guard = known finding F6 (theorem natural_sort_sign_prefix_misorders)',
  ],
  'assumptions': [
    'step values of one directory are numerically distinct (int 1 and float 1.0 are not mixed) and |int| < 2**53',
    'keep >= 1 in generated histories (keep = 0 removes nothing in the code: Python xs[:-0]; the model has the quirk, the policy oracle does not judge it)',
    'keep_every_n_steps is only combined with step values whose float differences are exact (ints, dyadic fractions)',
    'Orbax back-end: crash safety is claimed only when nothing at or above the saved step must be deleted in place (hypothesis InPlaceFree of '
    'crash_safe_orbax; the excluded case is known finding F15, exhibited by theorems orbax_overwrite_crash_loses_latest / _newer_crash_corrupts_latest)',
    'the recovery calls after a crash reuse the keep / keep_every_n_steps of the interrupted call',
    'single process (process_count == 1), no multi-process arrays, save_checkpoint (not save_checkpoint_multiprocess)',
  ],
  'model_partial': [
    'order of printed step names: proved from the character-level model for ints, floats and exponent notation (natural_sort_orders_numbers_by_value) as the order '
    'of exact decimal values; that Python float() realises the same order (A-FLOAT) is assumed and validated differentially',
    'the directory model keeps final names sorted by step VALUE; listing_is_natural_sort composes it with the NatSort model (what natural_sort returns on the '
    'printed names, in any listdir order, is the model listing; its last element is latest) — for integer steps; for float steps the two models are connected only '
    'through the harness (it scales the exact binary values of the steps to integers; same order as the decimal values under A-FLOAT)',
    'crash_safe_orbax carries the hypothesis InPlaceFree (see assumptions; finding F15 shows it is needed); crash_safe_legacy and both retry theorems have none',
  ],
}


class SimulatedCrash(BaseException):
  """Process death. BaseException so that no `except Exception` in the code under test can swallow it."""


# ------------------------------------------------------------------------------------------------
# payloads
# ------------------------------------------------------------------------------------------------


def tree_of(p):
  return {'w': np.array([p, p + 1, p + 2], dtype=np.int32), 'b': {'c': np.array([7 * p + 1], dtype=np.int32)}}


def payload_of(t):
  """Inverse of tree_of on restored state dicts; None when `t` is not exactly one of our trees."""
  try:
    p = int(np.asarray(t['w'])[0])
    ref = tree_of(p)
    if (
      set(t.keys()) == {'w', 'b'}
      and set(t['b'].keys()) == {'c'}
      and np.array_equal(np.asarray(t['w']), ref['w'])
      and np.array_equal(np.asarray(t['b']['c']), ref['b']['c'])
    ):
      return p
  except Exception:
    pass
  return None


# ------------------------------------------------------------------------------------------------
# interposition of flax.io (crash injection, op counting, async gating)
# ------------------------------------------------------------------------------------------------

class _WFile:
  """Write-mode file handed to the code under test: every write is one mutating operation."""

  def __init__(self, hook, real, path):
    self._hook, self._real, self._path = hook, real, path

  def write(self, data):
    verdict = self._hook.tick('write', self._path)
    if verdict == 'torn':
      j = self._hook.torn_bytes(len(data))
      self._real.write(data[:j])
      self._real.close()
      raise SimulatedCrash()
    return self._real.write(data)

  def close(self):
    return self._real.close()

  def __enter__(self):
    return self

  def __exit__(self, *a):
    try:
      self._real.close()
    except Exception:
      pass
    return False

  def __getattr__(self, name):
    return getattr(self._real, name)


class _ModProxy:
  """Stands in for a module referenced by flax/io.py (`os`, `shutil`, `gfile`): the listed callables are replaced,
  everything else is the real module."""

  def __init__(self, real, overrides):
    object.__setattr__(self, '_real', real)
    object.__setattr__(self, '_ov', overrides)

  def __getattr__(self, name):
    ov = object.__getattribute__(self, '_ov')
    if name in ov:
      return ov[name]
    return getattr(object.__getattribute__(self, '_real'), name)


class FsHook:
  """Context manager: counts the mutating file-system calls *made by flax/io.py* (one level below the flax.io API,
  so flax's own shim code runs for real in both io modes: builtin `open`, `os.rename/remove/makedirs`,
  `shutil.rmtree`, and tensorflow's `gfile.GFile/rename/remove/rmtree/makedirs`), raises SimulatedCrash before call
  number `crash_at` (1-based); with `torn` set, call `crash_at` (a write or an rmtree) is done partly first."""

  def __init__(self, crash_at=None, torn=None, gate=None):
    self.crash_at, self.torn, self.gate = crash_at, torn, gate
    self.n = 0
    self.log = []
    self._saved = {}

  def __enter__(self):
    hook = self
    real_os, real_shutil, real_gfile = fio.os, fio.shutil, fio.gfile
    self._saved = {'os': real_os, 'shutil': real_shutil, 'gfile': real_gfile, 'open': fio.__dict__.get('open', None)}

    def w_open(name, mode='r', *a, **kw):
      if 'w' in mode or 'a' in mode or '+' in mode:
        hook.tick('open', name)
        return _WFile(hook, open(name, mode, *a, **kw), name)
      return open(name, mode, *a, **kw)

    def os_rename(src, dst, *a, **kw):
      hook.tick('rename', src)
      return real_os.rename(src, dst, *a, **kw)

    def os_remove(path, *a, **kw):
      hook.tick('remove', path)
      return real_os.remove(path, *a, **kw)

    def os_makedirs(path, *a, **kw):
      hook.tick('makedirs', path)
      return real_os.makedirs(path, *a, **kw)

    def sh_rmtree(path, *a, **kw):
      if hook.tick('rmtree', path) == 'torn':
        _torn_rmtree(path)
        raise SimulatedCrash()
      return real_shutil.rmtree(path, *a, **kw)

    fio.os = _ModProxy(real_os, {'rename': os_rename, 'remove': os_remove, 'unlink': os_remove, 'makedirs': os_makedirs, 'replace': os_rename})
    fio.shutil = _ModProxy(real_shutil, {'rmtree': sh_rmtree})
    fio.open = w_open
    if real_gfile is not None:

      def g_GFile(name, mode='r'):  # noqa: N802
        if 'w' in mode or 'a' in mode:
          hook.tick('open', name)
          return _WFile(hook, real_gfile.GFile(name, mode), name)
        return real_gfile.GFile(name, mode)

      def g_rename(src, dst, overwrite=False):
        hook.tick('rename', src)
        return real_gfile.rename(src, dst, overwrite=overwrite)

      def g_remove(path):
        hook.tick('remove', path)
        return real_gfile.remove(path)

      def g_rmtree(path):
        if hook.tick('rmtree', path) == 'torn':
          _torn_rmtree(path)
          raise SimulatedCrash()
        return real_gfile.rmtree(path)

      def g_makedirs(path):
        hook.tick('makedirs', path)
        return real_gfile.makedirs(path)

      fio.gfile = _ModProxy(real_gfile, {'GFile': g_GFile, 'rename': g_rename, 'remove': g_remove, 'rmtree': g_rmtree, 'makedirs': g_makedirs})
    return self

  def __exit__(self, *a):
    fio.os, fio.shutil, fio.gfile = self._saved['os'], self._saved['shutil'], self._saved['gfile']
    if self._saved['open'] is None:
      fio.__dict__.pop('open', None)
    else:
      fio.open = self._saved['open']
    return False

  def tick(self, kind, path):
    if self.gate is not None:
      self.gate()
    self.n += 1
    self.log.append(kind)
    if self.crash_at is not None and self.n == self.crash_at:
      if self.torn is not None and kind in ('write', 'rmtree'):
        return 'torn'
      raise SimulatedCrash()
    return None

  def torn_bytes(self, total):
    t = self.torn
    if t == 'zero':
      return 0
    if t == 'one':
      return min(1, total)
    if t == 'half':
      return total // 2
    return max(total - 1, 0)  # 'most'


def _torn_rmtree(path):
  """Deletes a non-empty strict subset of the files of a directory tree (what a killed rmtree leaves)."""
  files = []
  for root, _, fs in os.walk(path):
    for f in fs:
      files.append(os.path.join(root, f))
  files.sort()
  for f in files[: max(1, len(files) // 2)]:
    os.remove(f)


class OrbaxCommitCut:
  """Cuts an Orbax save right before its atomic rename (the temp dir is fully written, nothing committed)."""

  available = None

  def __enter__(self):
    from orbax.checkpoint._src.path import atomicity

    self._cls = atomicity.AtomicRenameTemporaryPath
    self._orig = self._cls.finalize

    async def boom(_self):
      raise SimulatedCrash()

    self._cls.finalize = boom
    return self

  def __exit__(self, *a):
    self._cls.finalize = self._orig
    return False


def _probe_orbax_cut():
  if OrbaxCommitCut.available is None:
    try:
      from orbax.checkpoint._src.path import atomicity

      OrbaxCommitCut.available = hasattr(atomicity, 'AtomicRenameTemporaryPath') and hasattr(
        atomicity.AtomicRenameTemporaryPath, 'finalize'
      )
    except Exception:
      OrbaxCommitCut.available = False
  return OrbaxCommitCut.available


# ------------------------------------------------------------------------------------------------
# conventions learnt from the code
# ------------------------------------------------------------------------------------------------

_CONV = {}


def _probe_tmp_name(root, step):
  """Name (without the prefix) of what an interrupted legacy save of `step` leaves behind besides final names: the
  save is cut before each of its first mutating calls in turn until a leftover shows up."""
  best = None
  for k in (4, 3, 5, 6, 2):
    d = tempfile.mkdtemp(dir=root)
    try:
      _set_backend('legacy')
      try:
        with FsHook(crash_at=k):
          cp.save_checkpoint(d, tree_of(1), step, prefix='pfx_', keep=1)
      except SimulatedCrash:
        pass
      except Exception:
        continue
      names = [n for n in os.listdir(d) if n.startswith('pfx_') and n != f'pfx_{step}']
      if len(names) == 1:
        best = names[0][len('pfx_') :]
        break
    finally:
      shutil.rmtree(d, ignore_errors=True)
  return best


def conventions(root):
  """Incidental naming conventions, read from the running code (DESIGN §7): Orbax's temp-dir marker, and the name of the
  legacy temp file as a template — probed with two different steps, so a per-step temp name is recognised as such.
  `tmp_name_for(literal)` gives the name without the prefix."""
  if _CONV:
    return _CONV
  _CONV['orbax_suffix'] = ocp.utils.TMP_DIR_SUFFIX
  a, b = _probe_tmp_name(root, 17), _probe_tmp_name(root, 23)
  if a is None or b is None:
    _CONV['legacy_tmp_template'] = 'tmp'
    _CONV['legacy_tmp_probe_failed'] = True
  elif a == b:
    _CONV['legacy_tmp_template'] = a
  elif a.replace('17', '{step}') == b.replace('23', '{step}'):
    _CONV['legacy_tmp_template'] = a.replace('17', '{step}')
  else:
    _CONV['legacy_tmp_template'] = a
    _CONV['legacy_tmp_probe_failed'] = True
  return _CONV


def tmp_name_for(lit):
  return _CONV['legacy_tmp_template'].replace('{step}', lit)


def _set_backend(backend):
  flax_config.update('flax_use_orbax_checkpointing', backend == 'orbax')


def _set_iomode(mode):
  fio.set_mode(fio.BackendMode.TF if mode == 'TF' else fio.BackendMode.DEFAULT)


_TF_AVAILABLE = fio.gfile is not None
_ORIG_IOMODE = fio.io_mode


# ------------------------------------------------------------------------------------------------
# histories: data, scaling, canonical observation
# ------------------------------------------------------------------------------------------------


def step_obj(lit, stype):
  return int(lit) if stype == 'int' else float(lit)


class Hist:
  """One generated history bound to conventions; JSON form is `self.j` (replayable)."""

  def __init__(self, j):
    self.j = j
    self.backend = j['backend']
    self.iomode = j.get('iomode', 'DEFAULT')
    self.prefix = j['prefix']
    self.ops = j['ops']
    lits = {}
    for op in self.ops + j.get('later', []):
      lits[op['step']] = step_obj(op['step'], op['stype'])
    self.objs = lits
    fr = {lit: Fraction(o) for lit, o in lits.items()}
    den = 1
    for f in fr.values():
      den = den * f.denominator // math.gcd(den, f.denominator)
    for op in self.ops + j.get('later', []):
      if op.get('every'):
        f = Fraction(op['every'])
        den = den * f.denominator // math.gcd(den, f.denominator)
    self.den = den
    self.frac = fr
    self.scaled = {lit: int(f * den) for lit, f in fr.items()}
    self.by_scaled = {v: k for k, v in self.scaled.items()}
    self.any_float = any(op['stype'] == 'float' for op in self.ops + j.get('later', []))

  def cfg(self, op):
    return {
      'backend': self.backend,
      'step': str(self.scaled[op['step']]),
      'payload': op['payload'],
      'keep': op['keep'],
      'every': str(int(Fraction(op['every']) * self.den)) if op.get('every') else '0',
      'overwrite': bool(op['overwrite']),
    }

  def lit_of_value(self, v):
    """literal of a numeric value returned by available_steps"""
    return self.by_scaled.get(int(Fraction(v) * self.den)) if Fraction(v) * self.den == int(Fraction(v) * self.den) else None


def classify_path(path):
  """Content class of a final-named path or the legacy temp file: payload id, or -1 (not a complete checkpoint)."""
  try:
    if os.path.isdir(path):
      t = cp.restore_checkpoint(path, None)
    else:
      with open(path, 'rb') as f:
        t = serialization.msgpack_restore(f.read())
    p = payload_of(t)
    return -1 if p is None else p
  except BaseException as e:  # noqa: BLE001
    if isinstance(e, (KeyboardInterrupt, SystemExit)):
      raise
    return -1


def observe(h: Hist, d):
  """Canonical directory, classified by meaning, not by a fixed spelling:
  'ckpts'  final names `<prefix><step literal of this history>` with their content class, ascending by value;
  'otmps'  Orbax temp dirs (the marker is read from orbax), ascending;
  'tmp'    the legacy temp file (name template probed from the code; with a per-step template: of any step) — content
           class, or None;
  'other'  every other name in the directory, whatever it is (nothing of the property's world should be here)."""
  conv = _CONV
  ck, ot, other, tmps = [], [], [], []
  tmp_names = {tmp_name_for(lit) for lit in h.scaled}
  try:
    names = os.listdir(d)
  except FileNotFoundError:
    names = []
  for n in names:
    if not n.startswith(h.prefix):
      other.append(n)
      continue
    rest = n[len(h.prefix) :]
    if rest in h.scaled:
      ck.append([h.scaled[rest], classify_path(os.path.join(d, n))])
    elif conv['orbax_suffix'] in rest and rest[: rest.index(conv['orbax_suffix'])] in h.scaled:
      ot.append(h.scaled[rest[: rest.index(conv['orbax_suffix'])]])
    elif rest in tmp_names:
      tmps.append(n)
    else:
      other.append(n)
  ck.sort()
  ot.sort()
  tmps.sort()
  tmp = classify_path(os.path.join(d, tmps[0])) if tmps else None
  other += tmps[1:]  # the model knows one legacy temp file; further ones are reported as they are
  return {'ckpts': [[str(s), c] for s, c in ck], 'otmps': [str(s) for s in ot], 'tmp': tmp, 'other': sorted(other)}


def model_dir_canon(mj):
  """Model directory JSON -> same canonical form (temp-dir contents are not observable: dropped)."""
  return {
    'ckpts': [[str(s), int(c)] for s, c in mj['ckpts']],
    'otmps': [str(s) for s, _ in mj['otmps']],
    'tmp': None if mj['tmp'] is None else int(mj['tmp']),
    'other': [],
  }


def same_dir(model_canon, impl_obs):
  """Equality of canonical directories, except that a partial legacy temp file and no temp file at all are the
  same observation (tensorflow's GFile creates the file lazily at the first flush, builtin open at once; the
  name is hidden from every API either way)."""
  if model_canon == impl_obs:
    return True
  if model_canon['tmp'] == -1 and impl_obs['tmp'] in (None, -1):
    return dict(model_canon, tmp=None) == dict(impl_obs, tmp=None)
  return False


def canon_to_model(c):
  return {'ckpts': [[s, v] for s, v in c['ckpts']], 'otmps': [[s, -1] for s in c['otmps']], 'tmp': c['tmp']}


def call_save(h: Hist, d, op, hook=None, am=None, cut=False):
  """Runs the real save_checkpoint. Returns ('ok', n_ops) | ('err', enum) | ('crash', n_ops)."""
  _set_backend(h.backend)
  _set_iomode(h.iomode)
  kw = dict(prefix=h.prefix, keep=op['keep'], overwrite=bool(op['overwrite']), keep_every_n_steps=op.get('every') or None)
  if am is not None:
    kw['async_manager'] = am
  hook = hook if hook is not None else FsHook()
  try:
    with hook:
      if cut:
        with OrbaxCommitCut():
          cp.save_checkpoint(d, tree_of(op['payload']), h.objs[op['step']], **kw)
      else:
        cp.save_checkpoint(d, tree_of(op['payload']), h.objs[op['step']], **kw)
    return ('ok', hook.n)
  except SimulatedCrash:
    return ('crash', hook.n)
  except flax_errors.InvalidCheckpointError:
    return ('err', 'InvalidCheckpoint')
  except ValueError:
    return ('err', 'DestinationExists' if h.backend == 'orbax' else 'ValueError')
  except Exception as e:  # an exception raised by flax is an observation
    return ('err', 'Exception:' + type(e).__name__)


def read_api(h: Hist, d, parallel=False):
  """The reading API on the real directory, canonicalised. Never raises."""
  out = {}
  try:
    steps = cp.available_steps(d, h.prefix, step_type=float if h.any_float else int)
    lits = [h.lit_of_value(v) for v in steps]
    out['listing'] = [str(h.scaled[l]) if l is not None else 'unknown:%r' % (v,) for l, v in zip(lits, steps)]
  except Exception as e:
    out['listing'] = 'Exception:' + type(e).__name__
  try:
    lat = cp.latest_checkpoint(d, h.prefix)
    if lat is None:
      out['latest'] = None
    else:
      rest = os.path.basename(lat)[len(h.prefix) :]
      out['latest'] = str(h.scaled[rest]) if rest in h.scaled else 'name:' + os.path.basename(lat)
  except Exception as e:
    out['latest'] = 'Exception:' + type(e).__name__
  try:
    t = cp.restore_checkpoint(d, None, prefix=h.prefix, parallel=parallel)
    if t is None:
      out['restore'] = None
    else:
      p = payload_of(t)
      out['restore'] = p if p is not None else 'Corrupt'
  except BaseException as e:  # noqa: BLE001
    if isinstance(e, (KeyboardInterrupt, SystemExit)):
      raise
    out['restore'] = 'Corrupt'
  return out


def restore_step(h: Hist, d, lit):
  try:
    t = cp.restore_checkpoint(d, None, step=h.objs[lit], prefix=h.prefix, parallel=False)
    p = payload_of(t)
    return p if p is not None else 'Corrupt'
  except ValueError:
    return 'NotFound'
  except BaseException as e:  # noqa: BLE001
    if isinstance(e, (KeyboardInterrupt, SystemExit)):
      raise
    return 'Corrupt'


def snapshot_bytes(d):
  """Exact content of a directory (for 'an error changes nothing')."""
  out = {}
  for root, dirs, files in os.walk(d):
    for f in files:
      p = os.path.join(root, f)
      with open(p, 'rb') as fh:
        out[os.path.relpath(p, d)] = fh.read()
    for x in dirs:
      out[os.path.relpath(os.path.join(root, x), d) + '/'] = b''
  return out


# ------------------------------------------------------------------------------------------------
# the policy, as the property states it (Python reference, independent of the Lean model)
# ------------------------------------------------------------------------------------------------


def py_policy(before, s, keep, every, ovw):
  cand = sorted(set(before) | {s})
  if ovw:
    cand = [x for x in cand if x <= s]
  if keep <= 0 or keep >= len(cand):
    return cand
  old, win = cand[:-keep], cand[-keep:]
  kept, last = [], None
  for x in old:
    if every and x != 0 and (last is None or x - last >= every):
      kept.append(x)
      last = x
  return kept + win


# ------------------------------------------------------------------------------------------------
# generators
# ------------------------------------------------------------------------------------------------

PREFIXES = ['checkpoint_', 'ckpt_', 'model', 'a.b_', 'run2_', 'test_', 'x']


def gen_pool(rng, kind):
  """Ascending list of (literal, stype) with numerically distinct values; the last two are reserved as 'later' steps."""
  if kind == 'int':
    base = rng.choice([0, 0, 1, 5, 100, 999])
    vals = sorted(rng.sample(range(base, base + 40), 10))
    pool = [(str(v), 'int') for v in vals]
  elif kind == 'negint':
    vals = sorted(rng.sample(range(-12, 14), 10))
    pool = [(str(v), 'int') for v in vals]
  elif kind == 'dyadic':
    vals = sorted(rng.sample(range(-8, 60), 10))
    pool = [(repr(v / 4.0), 'float') for v in vals]
  elif kind == 'exp':
    cands = [1e-07, 2.5e-06, 1e-05, 0.00012, 0.001, 0.5, 3.0, 1e5, 2.5e15, 1e16, 1.5e16, 3e20, 1e22, 4e22]
    vals = sorted(rng.sample(cands, 10))
    pool = [(repr(v), 'float') for v in vals]
  elif kind == 'negexp':
    cands = [-1e22, -3e16, -1e16, -2.5, -1e-05, -1e-07, 0.0, 1e-07, 1e-05, 0.25, 1.0, 1e16, 1e17, 2e22]
    vals = sorted(rng.sample(cands, 10))
    pool = [(repr(v), 'float') for v in vals]
  else:  # mixed ints and floats, distinct values
    ints = rng.sample(range(-3, 20), 5)
    fl = [x + 0.5 for x in rng.sample(range(-3, 20), 5)]
    both = sorted([(Fraction(i), str(i), 'int') for i in ints] + [(Fraction(f), repr(f), 'float') for f in fl])
    pool = [(l, t) for _, l, t in both]
  return pool


def gen_history(rng, backend, iomode, n_ops, crash):
  kind = rng.choice(['int', 'int', 'int', 'negint', 'dyadic', 'exp', 'negexp', 'mixed'])
  pool = gen_pool(rng, kind)
  later = pool[-2:]
  pool = pool[:-2]
  exact = kind in ('int', 'negint', 'dyadic', 'mixed')
  keep = rng.choice([1, 1, 2, 2, 3, 4])
  every = None
  if exact and rng.random() < 0.5:
    every = rng.choice([1, 2, 3, 5, 10] if kind != 'dyadic' else [1, 2, 3])
  ops = []
  cur = rng.randrange(0, 3)
  used = []
  payload = rng.randrange(1, 50) * 100
  for _ in range(n_ops):
    r = rng.random()
    if not used or r < 0.58:
      idx = min(cur, len(pool) - 1)
      cur = idx + rng.choice([1, 1, 1, 2])
      how = 'next'
    elif r < 0.72:
      idx = rng.choice(used)
      how = 'same'
    elif r < 0.90:
      idx = rng.randrange(0, max(used) + 1)
      how = 'older'
    else:
      idx = rng.randrange(0, len(pool))
      how = 'any'
    used.append(idx)
    if rng.random() < 0.15:
      keep = rng.choice([1, 2, 3, 4])
    if exact and rng.random() < 0.08:
      every = rng.choice([None, 2, 3])
    ovw = rng.random() < (0.2 if how == 'next' else 0.5)
    payload += 1
    ops.append({'step': pool[idx][0], 'stype': pool[idx][1], 'payload': payload, 'keep': keep, 'every': every, 'overwrite': ovw, 'how': how})
  return {
    'kind': 'history',
    'backend': backend,
    'iomode': iomode,
    'prefix': rng.choice(PREFIXES),
    'pool': kind,
    'ops': ops,
    'later': [{'step': l, 'stype': t, 'payload': 9000 + i, 'keep': keep, 'every': every, 'overwrite': False} for i, (l, t) in enumerate(later)],
    'crash': crash,
  }


# ------------------------------------------------------------------------------------------------
# running one history on the implementation (with crash exploration), then comparing with the model
# ------------------------------------------------------------------------------------------------


def run_history(ctx, root, h: Hist, model_ops, cont_reqs, records):
  """Executes the history on the real code. `model_ops` is the model's per-op output (round 1).
  Appends continuation requests for round 2 to `cont_reqs` and comparison records to `records`."""
  conv = _CONV
  base = tempfile.mkdtemp(dir=root)
  saved = {}  # literal -> payload of the last committed save at that step
  try:
    for i, op in enumerate(h.ops):
      pre_obs = observe(h, base)
      pre_api = read_api(h, base)
      pre_snap = snapshot_bytes(base) if os.path.isdir(base) else {}
      m = model_ops[i] if model_ops is not None and i < len(model_ops) else None
      case = {'hist': h.j, 'op': i}
      canon_case = {'b': h.backend, 'io': h.iomode, 'cfg': h.cfg(op), 'pre': pre_obs}
      ctx.count('backend', h.backend)
      ctx.count('io_mode', h.iomode)
      ctx.count('pool', h.j.get('pool', '?'))
      ctx.count('op_how', op.get('how', '?'))
      ctx.count('keep', op['keep'])
      ctx.count('every_n', op.get('every'))
      ctx.count('overwrite', op['overwrite'])
      ctx.count('dir_size_before', len(pre_obs['ckpts']))
      ctx.case(canon_case, nontrivial=len(pre_obs['ckpts']) > 0)

      # --- the completed call, on a copy (the crash points below start from the same pre-state) -----------
      work = tempfile.mkdtemp(dir=root)
      shutil.rmtree(work)
      shutil.copytree(base, work)
      res = call_save(h, work, op)
      post_obs = observe(h, work)
      post_api = read_api(h, work, parallel=True)
      ctx.count('result', res[0] if res[0] != 'err' else res[1])
      before_steps = [h.frac[h.by_scaled[int(s)]] for s, _ in pre_obs['ckpts']]
      s_val = h.frac[op['step']]
      exists = any(x == s_val for x in before_steps)
      newer = any(x > s_val for x in before_steps)

      # --- property oracle: errors --------------------------------------------------------------------------
      must_raise = (not op['overwrite']) and (exists or (h.backend == 'legacy' and newer))
      clean_pre = pre_obs['tmp'] is None and not pre_obs['otmps'] and not pre_obs['other']
      if must_raise:
        if res[0] != 'err':
          ctx.violation(
            'overwrite-check-missing',
            f'save at step {op["step"]} (overwrite=False, backend {h.backend}) over existing steps {[s for s, _ in pre_obs["ckpts"]]} did not raise: {res}',
            case,
          )
        elif snapshot_bytes(work) != pre_snap:
          ctx.violation('error-changed-directory', f'a save that raised {res[1]} changed the directory', case)
      elif res[0] != 'ok':
        ctx.violation('save-raises', f'a legitimate save (step {op["step"]}, overwrite={op["overwrite"]}) raised {res}', case)

      # --- property oracle: policy, latest, restore after a completed save --------------------------------
      if res[0] == 'ok':
        saved[op['step']] = op['payload']
        _oracle_completed(ctx, h, work, op, before_steps, post_obs, post_api, saved, case, clean_pre)

      # --- correspondence with the model ---------------------------------------------------------------------
      if m is not None:
        if res[0] == 'err':
          if m.get('err') != res[1]:
            ctx.disagreements_checked += 1
            ctx.violation('model-mismatch-error', f'impl raised {res[1]}, model says {m.get("err") or "ok"}', case, concrete=False)
        elif 'err' in m:
          ctx.disagreements_checked += 1
          ctx.violation('model-mismatch-error', f'impl saved, model raises {m["err"]}', case, concrete=False)
        else:
          mc = model_dir_canon(m['final'])
          if mc != post_obs:
            ctx.disagreements_checked += 1
            ctx.violation('model-mismatch-final', f'directory after the save: impl {post_obs}, model {mc}', case, concrete=False)
          elif m['read'] != post_api:
            ctx.disagreements_checked += 1
            ctx.violation('model-mismatch-read', f'reading API after the save: impl {post_api}, model {m["read"]}', case, concrete=False)

      # --- crash points --------------------------------------------------------------------------------------
      if h.j.get('crash') and res[0] == 'ok':
        _explore_crashes(ctx, root, h, base, i, op, res[1], pre_obs, pre_api, saved, m, cont_reqs, records, case)

      shutil.rmtree(base, ignore_errors=True)
      os.rename(work, base)
  finally:
    shutil.rmtree(base, ignore_errors=True)


def _oracle_completed(ctx, h, d, op, before_steps, obs, api, saved, case, judge_policy=True, tag=''):
  """The property's clauses about a completed save, evaluated on the real directory."""
  s_val = h.frac[op['step']]
  listed = [h.frac[h.by_scaled[int(s)]] for s, _ in obs['ckpts']]
  every = Fraction(op['every']) if op.get('every') else None
  want = py_policy(before_steps, s_val, op['keep'], every, op['overwrite'])
  if judge_policy and op['keep'] >= 1 and listed != want:
    ctx.violation(
      'retention-policy' + tag,
      f'after save(step={op["step"]}, keep={op["keep"]}, every={op.get("every")}, overwrite={op["overwrite"]}) on {[str(x) for x in before_steps]} '
      f'the directory holds {[str(x) for x in listed]}, the policy promises {[str(x) for x in want]}',
      case,
    )
    return False
  if any(c < 0 for _, c in obs['ckpts']):
    ctx.violation('listed-checkpoint-incomplete' + tag, f'after a completed save a listed checkpoint is not restorable: {obs}', case)
    return False
  if not isinstance(api['listing'], list):
    ctx.violation('available-steps-raises' + tag, f'available_steps raises {api["listing"]} on directory {obs}', case)
    return False
  if api['listing'] != [s for s, _ in obs['ckpts']]:
    ctx.violation('available-steps-wrong' + tag, f'available_steps gives {api["listing"]} for directory {obs}', case)
    return False
  if listed:
    top = str(h.scaled[h.by_scaled[int(obs['ckpts'][-1][0])]])
    if api['latest'] != top:
      ctx.violation('latest-not-max' + tag, f'latest_checkpoint is {api["latest"]}, numerically largest listed step is {top} ({obs})', case)
      return False
    if api['restore'] != obs['ckpts'][-1][1]:
      ctx.violation('restore-wrong-payload' + tag, f'restore_checkpoint returned payload {api["restore"]}, latest holds {obs["ckpts"][-1][1]}', case)
      return False
  for s, c in obs['ckpts']:
    lit = h.by_scaled[int(s)]
    if lit in saved and saved[lit] != c:
      ctx.violation('restore-wrong-payload' + tag, f'step {lit} holds payload {c}, the last save at that step stored {saved[lit]}', case)
      return False
  # restore by step through the API for the new step and one other
  probe = [op['step']] + [h.by_scaled[int(s)] for s, _ in obs['ckpts'][:1]]
  for lit in probe:
    if str(h.scaled[lit]) in [s for s, _ in obs['ckpts']]:
      got = restore_step(h, d, lit)
      if got != saved.get(lit, got):
        ctx.violation('restore-wrong-payload' + tag, f'restore_checkpoint(step={lit}) returned {got}, saved {saved.get(lit)}', case)
        return False
  return True


def _crash_variants(h, log):
  """(crash_at, torn, label) for a save whose completed run performed the operations `log`."""
  out = []
  for k in range(1, len(log) + 1):
    out.append((k, None, f'before-{log[k-1]}'))
    if log[k - 1] == 'write':
      for t in ('zero', 'one', 'half', 'most'):
        out.append((k, t, f'torn-write-{t}'))
    if log[k - 1] == 'rmtree':
      out.append((k, 'half', 'torn-rmtree'))
  return out


def _model_index(h, msteps, k, torn):
  """Number of model steps done at impl crash point (k, torn): k-1 interposable operations done, the k-th partly
  when `torn`."""
  kinds = [s[0] for s in msteps]
  if h.backend == 'legacy':
    # 1-1: mkdir, create, write, rename, remove*
    if torn is None:
      return k - 1
    return k - 1  # a torn write leaves what `create` left: a partial temp file
  # orbax: interposable operations are the rmtree calls of the cleanup; they come after the commit rename
  commit = max(i for i, s in enumerate(msteps) if s[0] == 'rename')
  idx = commit + 1 + 2 * (k - 1)
  if torn is not None:
    idx += 1
  return idx


def _explore_crashes(ctx, root, h, base, i, op, n_ops, pre_obs, pre_api, saved, m, cont_reqs, records, case):
  # the log of operations of the completed run is reproduced on a scratch copy (deterministic code)
  scratch = tempfile.mkdtemp(dir=root)
  shutil.rmtree(scratch)
  shutil.copytree(base, scratch)
  hook = FsHook()
  call_save(h, scratch, op, hook=hook)
  shutil.rmtree(scratch, ignore_errors=True)
  variants = _crash_variants(h, hook.log)
  if h.backend == 'orbax' and _probe_orbax_cut():
    variants = [('cut', None, 'orbax-before-commit')] + variants
  prev_latest = pre_obs['ckpts'][-1] if pre_obs['ckpts'] else None
  new_entry = [str(h.scaled[op['step']]), op['payload']]
  for k, torn, label in variants:
    work = tempfile.mkdtemp(dir=root)
    shutil.rmtree(work)
    shutil.copytree(base, work)
    try:
      if k == 'cut':
        r = call_save(h, work, op, cut=True)
      else:
        r = call_save(h, work, op, hook=FsHook(crash_at=k, torn=torn))
      ccase = dict(case, crash={'at': k, 'torn': torn, 'label': label})
      if r[0] != 'crash':
        raise InfraError(f'crash point {label} (k={k}) was not reached: {r}')
      obs = observe(h, work)
      api = read_api(h, work)
      ctx.count('crash_point', label)
      ctx.case({'b': h.backend, 'io': h.iomode, 'cfg': h.cfg(op), 'pre': pre_obs, 'crash': [k, torn]}, nontrivial=True)
      ok = _oracle_crashed(ctx, h, op, pre_obs, obs, api, prev_latest, new_entry, ccase)
      # model crash state
      if m is not None and 'crash' in m:
        if k == 'cut':
          midx = max(j for j, s in enumerate(m['steps']) if s[0] == 'rename')
        else:
          midx = _model_index(h, m['steps'], k, torn)
        if midx >= len(m['crash']):
          ctx.disagreements_checked += 1
          ctx.violation('model-mismatch-crash', f'impl has a crash point {label} (k={k}) beyond the model\'s {len(m["crash"])-1} steps {m["steps"]}', ccase, concrete=False)
        else:
          mc = model_dir_canon(m['crash'][midx])
          if not same_dir(mc, obs):
            ctx.disagreements_checked += 1
            ctx.violation('model-mismatch-crash', f'directory after crash {label}: impl {obs}, model (after {midx} steps of {m["steps"]}) {mc}', ccase, concrete=False)
      # recovery: retry the interrupted call, then a later step (also after a failed read oracle, unless the failure is
      # the known in-place deletion of the Orbax back-end: "saving can continue" is a clause of its own)
      in_place = h.backend == 'orbax' and op['overwrite'] and any(int(s) >= int(new_entry[0]) for s, _ in pre_obs['ckpts'])
      if ok or not in_place:
        _recover(ctx, root, h, work, op, obs, saved, ccase, cont_reqs, records)
    finally:
      shutil.rmtree(work, ignore_errors=True)
  if m is not None and 'steps' in m and h.backend == 'legacy' and len(m['steps']) != len(hook.log):
    ctx.disagreements_checked += 1
    ctx.violation('model-mismatch-steps', f'impl performed {hook.log}, model {m["steps"]}', case, concrete=False)


def _oracle_crashed(ctx, h, op, pre_obs, obs, api, prev_latest, new_entry, case):
  """After an interrupted save, whatever the implementation calls its files: `available_steps` answers (does not raise)
  with committed steps only; `latest_checkpoint` names the previous latest or the new step; `restore_checkpoint`
  returns the complete payload saved for it.  Each clause is judged on its own."""
  s_new = int(new_entry[0])
  in_place = h.backend == 'orbax' and op['overwrite'] and any(int(s) >= s_new for s, _ in pre_obs['ckpts'])

  def key(k):
    # known finding F15: the Orbax back-end deletes directories at or above the saved step in place
    return 'orbax-overwrite-in-place-delete' if in_place else k

  ok = True
  listed = api['listing']
  finals = [s for s, _ in obs['ckpts']]
  if not isinstance(listed, list):
    ctx.violation(key('crash-available-steps-raises'), f'after the crash available_steps raises {listed} (dir {obs})', case)
    ok = False
  elif any(not x.lstrip('-').isdigit() for x in listed) or listed != finals:
    ctx.violation(key('crash-listing-shows-temp'), f'after the crash available_steps gives {listed}; committed names present: {finals} (dir {obs})', case)
    ok = False
  lat, rest = api['latest'], api['restore']
  allowed = [e for e in (prev_latest, new_entry) if e is not None]
  if isinstance(lat, str) and not lat.lstrip('-').isdigit():
    ctx.violation(key('crash-latest-is-temp'), f'after the crash latest_checkpoint is {lat}, not the name of a saved step; restore_checkpoint gives {rest} (dir {obs})', case)
    return False
  if lat is None:
    if prev_latest is not None:
      ctx.violation(key('crash-lost-latest'), f'after the crash there is no latest checkpoint; before the call it was {prev_latest}', case)
      return False
    if rest is not None:
      ctx.violation(key('crash-restore-not-complete'), f'restore_checkpoint returned {rest} from a directory without checkpoints', case)
      return False
    return ok
  if [lat, rest] not in [[e[0], e[1]] for e in allowed]:
    kind = 'crash-restore-not-complete' if not isinstance(rest, int) else 'crash-latest-neither-old-nor-new'
    ctx.violation(key(kind), f'after the crash latest={lat} restore={rest}; allowed: previous latest {prev_latest} or new {new_entry} (dir {obs})', case)
    return False
  return ok


def _recover(ctx, root, h, crashed_dir, op, obs, saved, case, cont_reqs, records):
  """Retry of the interrupted call, then a later step, on the real crashed directory."""
  saved2 = dict(saved)
  committed = any(s == str(h.scaled[op['step']]) and c == op['payload'] for s, c in obs['ckpts'])
  if committed:
    saved2[op['step']] = op['payload']
  for s, c in obs['ckpts']:
    if c < 0:
      saved2.pop(h.by_scaled[int(s)], None)  # a half-deleted directory (Orbax rmtree) promises nothing
  before = [h.frac[h.by_scaled[int(s)]] for s, _ in obs['ckpts']]
  s_val = h.frac[op['step']]
  present = any(x == s_val for x in before)
  newer = any(x > s_val for x in before)
  r = call_save(h, crashed_dir, op)
  o1 = observe(h, crashed_dir)
  a1 = read_api(h, crashed_dir)
  expect_err = (not op['overwrite']) and (present or (h.backend == 'legacy' and newer))
  rec = {'case': case, 'from': obs, 'retry': (r[0] if r[0] != 'err' else r[1]), 'after_retry': o1, 'after_retry_api': a1}
  if expect_err:
    if r[0] != 'err':
      ctx.violation('retry-after-crash', f'retrying a committed step without overwrite did not raise ({r}); crashed dir {obs}', case)
      return
  else:
    if r[0] != 'ok':
      ctx.violation('crash-continue-raises-retry', f'retrying the interrupted save raised {r}; crashed dir {obs}', case)
      return
    saved2[op['step']] = op['payload']
    torn_before = any(c < 0 for _, c in obs['ckpts'])
    if not _oracle_completed(ctx, h, crashed_dir, op, before, o1, a1, saved2, case, judge_policy=True, tag='-after-retry') and not torn_before:
      return
  # a later step
  lop = dict(h.j['later'][0], keep=op['keep'], every=op.get('every'))
  before2 = [h.frac[h.by_scaled[int(s)]] for s, _ in o1['ckpts']]
  r2 = call_save(h, crashed_dir, lop)
  o2 = observe(h, crashed_dir)
  a2 = read_api(h, crashed_dir)
  rec.update({'later': (r2[0] if r2[0] != 'err' else r2[1]), 'after_later': o2, 'after_later_api': a2})
  if r2[0] != 'ok':
    ctx.violation('crash-continue-raises-later-step', f'saving a later step after the crash raised {r2}; dir {o1}', case)
    return
  saved2[lop['step']] = lop['payload']
  _oracle_completed(ctx, h, crashed_dir, lop, before2, o2, a2, saved2, case, judge_policy=True, tag='-after-crash')
  cont_reqs.append(('history', [[h.cfg(op), h.cfg(lop)], canon_to_model(obs)]))
  records.append(rec)


def compare_continuations(ctx, outs, records):
  for rec, out in zip(records, outs):
    case = rec['case']
    if out[0] != 'ok':
      raise InfraError(f'driver error on continuation: {out}')
    m_retry, m_later = out[1][0], out[1][1]
    want_retry = m_retry.get('err', 'ok')
    if want_retry != rec['retry']:
      ctx.disagreements_checked += 1
      ctx.violation('model-mismatch-retry', f'retry after crash: impl {rec["retry"]}, model {want_retry} (from {rec["from"]})', case, concrete=False)
      continue
    if 'final' in m_retry and model_dir_canon(m_retry['final']) != rec['after_retry']:
      ctx.disagreements_checked += 1
      ctx.violation('model-mismatch-retry', f'directory after retry: impl {rec["after_retry"]}, model {model_dir_canon(m_retry["final"])}', case, concrete=False)
      continue
    if 'later' in rec:
      want = m_later.get('err', 'ok')
      if want != rec['later'] or ('final' in m_later and model_dir_canon(m_later['final']) != rec['after_later']):
        ctx.disagreements_checked += 1
        ctx.violation(
          'model-mismatch-later',
          f'later save after crash: impl {rec["later"]} {rec["after_later"]}, model {want} {model_dir_canon(m_later["final"]) if "final" in m_later else None}',
          case,
          concrete=False,
        )


# ------------------------------------------------------------------------------------------------
# leftovers of interrupted saves (F10): histories that start from a directory with temp names
# ------------------------------------------------------------------------------------------------


def run_leftover_cases(ctx, root, drv, rng, n, deadline=None, minimum=0):
  """An interrupted Orbax save leaves `<prefix><step><suffix>`; an interrupted legacy save leaves `<prefix>tmp`.
  Later saves must keep what the policy promises (temp names are not checkpoints)."""
  cases = []
  for _ in range(n):
    backend = rng.choice(['orbax', 'orbax', 'legacy'])
    keep = rng.choice([1, 2, 2, 3])
    start = rng.randrange(1, 20)
    n_pre = rng.randrange(1, 4)
    steps = [start + j for j in range(n_pre + 3)]
    ops = [{'step': str(s), 'stype': 'int', 'payload': 100 + s, 'keep': keep, 'every': None, 'overwrite': False, 'how': 'next'} for s in steps[:n_pre]]
    crash_op = {'step': str(steps[n_pre]), 'stype': 'int', 'payload': 500, 'keep': keep, 'every': None, 'overwrite': False, 'how': 'crashed'}
    after = [
      {'step': str(s), 'stype': 'int', 'payload': 200 + s, 'keep': keep, 'every': rng.choice([None, None, 2]), 'overwrite': rng.random() < 0.2, 'how': 'next'}
      for s in steps[n_pre + (0 if rng.random() < 0.3 else 1) :]
    ]
    other = 'legacy' if backend == 'orbax' else 'orbax'
    cases.append({'kind': 'leftover', 'backend': backend, 'ops_backend': backend if rng.random() < 0.6 else other, 'iomode': 'DEFAULT', 'prefix': rng.choice(PREFIXES[:3]), 'pre': ops, 'crashed': crash_op, 'ops': after, 'later': []})
  for i, c in enumerate(cases):
    if deadline is not None and i >= minimum and ctx.elapsed() > deadline:
      ctx.count('time_budget', 'leftover_skipped')
      continue
    run_leftover_case(ctx, root, drv, c)
  return cases


def run_leftover_case(ctx, root, drv, c):
  """`pre` saves, then an interrupted save that leaves a temp name behind, then `ops` (possibly on the other
  back-end: `ops_backend`) on the real directory; oracles + model."""
  hj = {'kind': 'history', 'backend': c['backend'], 'iomode': c['iomode'], 'prefix': c['prefix'], 'ops': c['pre'] + [c['crashed']] + c['ops'], 'later': []}
  h = Hist(hj)
  h2 = Hist(dict(hj, backend=c.get('ops_backend', c['backend'])))
  d = tempfile.mkdtemp(dir=root)
  case = {'kind': 'leftover', 'case': c}
  try:
    saved = {}
    for op in c['pre']:
      r = call_save(h, d, op)
      if r[0] != 'ok':
        ctx.violation('save-raises', f'plain increasing save raised {r}', case)
        return
      saved[op['step']] = op['payload']
    if c['backend'] == 'orbax':
      if _probe_orbax_cut():
        r = call_save(h, d, c['crashed'], cut=True)
      else:
        # fall-back: a complete Orbax directory under the temp name the running Orbax would use
        side = tempfile.mkdtemp(dir=root)
        r0 = call_save(h, side, c['crashed'])
        src = os.path.join(side, h.prefix + c['crashed']['step'])
        if r0[0] == 'ok' and os.path.isdir(src):
          shutil.move(src, os.path.join(d, h.prefix + c['crashed']['step'] + _CONV['orbax_suffix']))
          r = ('crash', 0)
        else:
          r = r0
        shutil.rmtree(side, ignore_errors=True)
    else:
      r = call_save(h, d, c['crashed'], hook=FsHook(crash_at=4))
    if r[0] != 'crash':
      raise InfraError(f'could not produce a leftover temp name: {r}')
    start = observe(h, d)
    ctx.count('leftover', c['backend'] + ('-otmp' if start['otmps'] else '-tmp' if start['tmp'] is not None else '-other' if start['other'] else '-nothing') + '>' + h2.backend)
    outs = drv.run([('history', [[h2.cfg(op) for op in c['ops']], canon_to_model(start)])])
    if outs[0][0] != 'ok':
      raise InfraError(f'driver: {outs[0]}')
    for i, op in enumerate(c['ops']):
      pre = observe(h2, d)
      before = [h2.frac[h2.by_scaled[int(s)]] for s, _ in pre['ckpts']]
      r = call_save(h2, d, op)
      o = observe(h2, d)
      a = read_api(h2, d)
      ctx.case({'leftover': c['backend'], 'then': h2.backend, 'cfg': h2.cfg(op), 'pre': pre}, nontrivial=True)
      m = outs[0][1][i]
      s_val = h2.frac[op['step']]
      present = any(x == s_val for x in before)
      newer = any(x > s_val for x in before)
      expect_err = (not op['overwrite']) and (present or (h2.backend == 'legacy' and newer))
      if r[0] != 'ok':
        if not expect_err:
          ctx.violation('retry-after-crash', f'save of step {op["step"]} after an interrupted save raised {r} (dir {pre}): the step was never committed', case)
          return
        if m.get('err') != r[1]:
          ctx.disagreements_checked += 1
          ctx.violation('model-mismatch-leftover', f'impl raised {r[1]}, model {m.get("err") or "saves"}', case, concrete=False)
          return
        continue
      saved[op['step']] = op['payload']
      tag = '-temp-counted' if (pre['otmps'] or pre['tmp'] is not None) else ''
      if not _oracle_completed(ctx, h2, d, op, before, o, a, saved, case, judge_policy=True, tag=tag):
        return
      if 'err' in m or model_dir_canon(m['final']) != o:
        ctx.disagreements_checked += 1
        ctx.violation('model-mismatch-leftover', f'impl {o}, model {m.get("err") or model_dir_canon(m["final"])}', case, concrete=False)
        return
  finally:
    shutil.rmtree(d, ignore_errors=True)


# ------------------------------------------------------------------------------------------------
# A-NAT: natural_sort against sort-by-value
# ------------------------------------------------------------------------------------------------


def gen_literals(rng, n):
  out = {}
  while len(out) < n:
    r = rng.random()
    if r < 0.3:
      v = rng.randrange(-10**rng.randrange(1, 15), 10 ** rng.randrange(1, 15))
      lit = str(v)
    elif r < 0.55:
      v = rng.randrange(-4000, 4000) / rng.choice([2, 4, 8, 10, 100, 1000])
      lit = repr(float(v))
    elif r < 0.8:
      v = rng.choice([-1, 1]) * rng.random() * 10 ** rng.randrange(-30, 30)
      lit = repr(float(v))
    else:
      v = float(rng.choice([-1, 1]) * rng.randrange(1, 100)) * 10.0 ** rng.randrange(-12, 25)
      lit = repr(v)
    val = Fraction(int(lit)) if lit.lstrip('-').isdigit() else Fraction(float(lit))
    if abs(val) < 2**53 or not lit.lstrip('-').isdigit():
      if val not in out.values():
        out[lit] = val
  return out


def check_natural_sort(ctx, rng, n_lists):
  conv = _CONV
  for _ in range(n_lists):
    prefix = rng.choice(PREFIXES)
    lits = gen_literals(rng, rng.randrange(2, 9))
    names = [prefix + l for l in lits]
    extra = []
    if rng.random() < 0.4:
      if '{step}' not in conv['legacy_tmp_template']:
        extra.append(prefix + conv['legacy_tmp_template'])
    dirp = rng.choice(['/tmp/x', '/a1/b-2/c', 'rel', '/tmp/tmpk3_9z'])
    paths = [os.path.join(dirp, n) for n in names + extra]
    rng.shuffle(paths)
    case = {'kind': 'natsort', 'paths': paths}
    ctx.case(case, nontrivial=True)
    ctx.count('natsort_len', len(paths))
    try:
      got = cp.natural_sort(paths)
    except Exception as e:
      ctx.violation('natural-sort-order', f'natural_sort raised {type(e).__name__} on {paths}', case)
      continue
    want = [os.path.join(dirp, prefix + l) for l in sorted(lits, key=lambda l: lits[l])] + [os.path.join(dirp, e) for e in extra]
    if got != want:
      ctx.violation('natural-sort-order', f'natural_sort{paths} = {got}; by numeric value (temp file last): {want}', case)


# ------------------------------------------------------------------------------------------------
# the tokeniser of natural_sort: Lean character-level model against the real regex / natural_sort
# ------------------------------------------------------------------------------------------------

TOK_ALPHABET = ['a', '_', '-', '+', '.', 'e', 'E', '0', '1', '9']


def check_tokeniser(ctx, drv, rng, thorough):
  import itertools

  # (a) exhaustive small scope + random longer strings: SIGNED_FLOAT_RE.split
  maxlen = 5 if thorough else 4
  strs = [''.join(t) for n in range(0, maxlen + 1) for t in itertools.product(TOK_ALPHABET, repeat=n)]
  wide = TOK_ALPHABET + ['5', '7', 'x', '/', 'k', 'p', 't', ' ']
  for _ in range(40000 if thorough else 4000):
    strs.append(''.join(rng.choice(wide) for _ in range(rng.randrange(5, 16))))
  ctx.extra['tokeniser_exhaustive_scope'] = f'all strings of length <= {maxlen} over {"".join(TOK_ALPHABET)!r}'
  for i in range(0, len(strs), 20000):
    chunk = strs[i : i + 20000]
    out = drv.run([('tokens', [chunk])])
    if out[0][0] != 'ok':
      raise InfraError(f'driver: {out[0]}')
    for sname, mt in zip(chunk, out[0][1]):
      want = cp.SIGNED_FLOAT_RE.split(sname)
      got = [x[1] for x in mt]
      kinds = [x[0] for x in mt]
      ctx.case({'tok': sname}, nontrivial=len(want) > 1)
      if got != want or kinds != ['t' if k % 2 == 0 else 'n' for k in range(len(mt))]:
        ctx.disagreements_checked += 1
        ctx.violation('model-mismatch-tokens', f'SIGNED_FLOAT_RE.split({sname!r}) = {want}, model tokens {mt}', {'kind': 'tokens', 's': sname}, concrete=False)
        return
  ctx.count('tokeniser', 'strings', len(strs))
  # (b) str(int) against the model's printed step
  ints = list(range(-1100, 1101)) + [rng.randrange(-(10**rng.randrange(1, 40)), 10 ** rng.randrange(1, 40)) for _ in range(500)]
  out = drv.run([('show_int', [[str(n) for n in ints]])])
  if out[0] != ('ok', [str(n) for n in ints]):
    bad = [n for n, g in zip(ints, out[0][1] if out[0][0] == 'ok' else []) if str(n) != g][:3]
    ctx.disagreements_checked += 1
    ctx.violation('model-mismatch-showint', f'str(n) differs from the model showInt at {bad}', {'kind': 'showint', 'ints': bad}, concrete=False)
  ctx.case({'showint': len(ints)}, nontrivial=True)
  # (c) whole natural_sort: model (exact decimal values, stable insertion sort) against the real function, on name
  #     lists with every kind of prefix (sign-, dot-, digit-, e-terminated ones too: the model must follow the code there)
  prefixes = PREFIXES + ['ckpt-', 'run+', 'v.', 'v2', 'stage', '2e', 'a-b.', '', 'x_-', 'E', '1.e']
  reqs, wants, cases = [], [], []
  for _ in range(3000 if thorough else 400):
    pfx = rng.choice(prefixes)
    lits = list(gen_literals(rng, rng.randrange(2, 8)))
    if rng.random() < 0.3:
      lits = [str(rng.randrange(-30, 30)) for _ in range(rng.randrange(2, 8))]  # duplicates / ties allowed
    names = [pfx + l for l in lits]
    if rng.random() < 0.3:
      names.append(pfx + 'tmp')
    if rng.random() < 0.3:
      names.append(pfx + lits[0] + _CONV.get('orbax_suffix', '.orbax-checkpoint-tmp'))
    dirp = rng.choice(['', '/tmp/x', '/a1/b-2/c', '/tmp/tmpk3_9z', 'd.5'])
    paths = [os.path.join(dirp, n) if dirp else n for n in names]
    rng.shuffle(paths)
    toks = [t for pth in paths for t in cp.SIGNED_FLOAT_RE.findall(pth)]
    if any(abs(float(t)) > 1e300 or (abs(float(t)) < 1e-300 and any(ch in '123456789' for ch in re.split('[eE]', t)[0])) for t in toks):
      ctx.count('tokeniser', 'natsort_skipped_float_range')
      continue  # float overflow / underflow: outside the exact-decimal model of float() (A-FLOAT)
    try:
      w = cp.natural_sort(paths)
    except Exception as e:
      w = 'Exception:' + type(e).__name__
    reqs.append(('natsort', [paths]))
    wants.append(w)
    cases.append({'kind': 'natsort-model', 'paths': paths})
  outs = drv.run(reqs)
  for o, w, c in zip(outs, wants, cases):
    ctx.case(c, nontrivial=True)
    if o != ('ok', w):
      ctx.disagreements_checked += 1
      ctx.violation('model-mismatch-natsort', f'natural_sort{c["paths"]} = {w}, model {o}', c, concrete=False)
      return
  ctx.count('tokeniser', 'natsort_lists', len(reqs))
  # (d) _checkpoint_path_step: the number the retention code reads off a path (model: last number token of the path)
  real_ps = getattr(cp, '_checkpoint_path_step', None)
  if real_ps is not None:
    pths = [p_ for c in cases for p_ in c['paths']][: (20000 if thorough else 1500)]
    pths += ['', 'abc', '/tmp/x9/none', 'run2_7', '/a1/b-2/run2_7', 'x5.', 'v.5e', '12/ck_tmp']
    out = drv.run([('path_step', [pths])])
    if out[0][0] != 'ok':
      raise InfraError(f'driver: {out[0]}')
    for p_, mt in zip(pths, out[0][1]):
      try:
        w = real_ps(p_)
      except Exception as e:
        w = 'Exception:' + type(e).__name__
      g = None if mt is None else float(mt)
      ctx.case({'path_step': p_}, nontrivial=mt is not None)
      if w != g and not (isinstance(w, float) and isinstance(g, float) and math.isnan(w) and math.isnan(g)):
        ctx.disagreements_checked += 1
        ctx.violation('model-mismatch-path-step', f'_checkpoint_path_step({p_!r}) = {w}, model reads the token {mt!r}', {'kind': 'path-step', 'path': p_}, concrete=False)
        break
    ctx.count('tokeniser', 'path_steps', len(pths))


# ------------------------------------------------------------------------------------------------
# F6: prefixes ending in a sign (known finding; only the ordering clause is evaluated on them)
# ------------------------------------------------------------------------------------------------


def check_sign_prefix(ctx, root, rng):
  for prefix in ('ckpt-', 'run+'):
    for backend in ('legacy', 'orbax'):
      a = rng.randrange(1, 9)
      b = a + rng.randrange(1, 30)
      hj = {
        'kind': 'sign-prefix',
        'backend': backend,
        'iomode': 'DEFAULT',
        'prefix': prefix,
        'ops': [
          {'step': str(a), 'stype': 'int', 'payload': 1, 'keep': 3, 'every': None, 'overwrite': False},
          {'step': str(b), 'stype': 'int', 'payload': 2, 'keep': 3, 'every': None, 'overwrite': False},
        ],
        'later': [],
      }
      run_sign_prefix_case(ctx, root, hj)


def run_sign_prefix_case(ctx, root, hj):
  h = Hist(hj)
  d = tempfile.mkdtemp(dir=root)
  case = {'kind': 'sign-prefix', 'case': hj}
  ctx.case({'sign-prefix': hj['prefix'], 'b': hj['backend'], 'steps': [o['step'] for o in hj['ops']]}, nontrivial=True)
  ctx.count('sign_prefix', hj['prefix'])
  try:
    rs = [call_save(h, d, op) for op in h.ops]
    api = read_api(h, d)
    top = str(max(h.scaled[o['step']] for o in h.ops))
    ok = all(r[0] == 'ok' for r in rs) and api['latest'] == top and api['restore'] == h.ops[-1]['payload']
    if not ok:
      ctx.violation(
        'prefix-ends-with-sign',
        f'prefix {hj["prefix"]!r} ({hj["backend"]}): saving steps {[o["step"] for o in h.ops]} in increasing order gives results {rs}, '
        f'latest_checkpoint={api["latest"]} (scaled), restore payload={api["restore"]}; the numerically largest step is {top}',
        case,
      )
  finally:
    shutil.rmtree(d, ignore_errors=True)


# ------------------------------------------------------------------------------------------------
# AsyncManager under a gated executor
# ------------------------------------------------------------------------------------------------


class _GateState:
  def __init__(self):
    self.cv = threading.Condition()
    self.budget = 0
    self.free = False
    self.paused = False
    self.finished = False
    self.exc = None
    self.thread = None


class _GatedFuture:
  def __init__(self, st):
    self.st = st

  def done(self):
    with self.st.cv:
      return self.st.finished

  def result(self, timeout=None):
    with self.st.cv:
      self.st.free = True
      self.st.cv.notify_all()
    self.st.thread.join(30)
    if self.st.thread.is_alive():
      raise InfraError('gated worker did not finish')
    if self.st.exc is not None:
      raise self.st.exc
    return None


class GatedExecutor:
  """Stands in for AsyncManager.executor: each task runs in a real thread that is paused before its
  (budget+1)-th mutating flax.io operation until somebody waits for the future."""

  def __init__(self):
    self.states = []
    self.next_budget = 0
    self.paused_obs = None

  def gate(self):
    t = threading.current_thread()
    for st in self.states:
      if st.thread is t:
        with st.cv:
          while not st.free and st.budget <= 0:
            st.paused = True
            st.cv.notify_all()
            st.cv.wait(30)
            if not st.free and st.budget <= 0 and st.paused:
              continue
          if not st.free:
            st.budget -= 1
          st.paused = False
        return

  def submit(self, task):
    st = _GateState()
    st.budget = self.next_budget
    self.states.append(st)

    def body():
      try:
        task()
      except BaseException as e:  # noqa: BLE001
        st.exc = e
      finally:
        with st.cv:
          st.finished = True
          st.cv.notify_all()

    st.thread = threading.Thread(target=body, daemon=True)
    st.thread.start()
    with st.cv:
      while not (st.paused or st.finished):
        st.cv.wait(30)
    return _GatedFuture(st)

  def release_all(self):
    for st in self.states:
      with st.cv:
        st.free = True
        st.cv.notify_all()
    for st in self.states:
      st.thread.join(30)


def run_async_case(ctx, root, drv, hj, budgets):
  """Same history synchronously and through an AsyncManager whose worker is paused after budgets[i] operations
  of save i while the caller reads the directory and issues save i+1."""
  h = Hist(hj)
  case = {'kind': 'async', 'hist': hj, 'budgets': budgets}
  ctx.case({'async': h.backend, 'io': h.iomode, 'cfgs': [h.cfg(o) for o in h.ops], 'budgets': budgets}, nontrivial=True)
  d_sync = tempfile.mkdtemp(dir=root)
  d_async = tempfile.mkdtemp(dir=root)
  ex = GatedExecutor()
  try:
    sync_res = []
    for op in h.ops:
      r = call_save(h, d_sync, op)
      sync_res.append(r[0] if r[0] != 'err' else r[1])
    sync_obs = observe(h, d_sync)
    am = cp.AsyncManager()
    am.executor.shutdown(wait=False)
    am.executor = ex
    async_res = []
    sched = []
    mid = []
    with FsHook(gate=ex.gate) as hook:
      for op, b in zip(h.ops, budgets):
        ex.next_budget = b
        n_before = len(ex.states)
        prev = observe(h, d_async) if False else None
        r = _call_save_nohook(h, d_async, op, am)
        async_res.append(r)
        sched.append('c')
        if len(ex.states) > n_before:
          st = ex.states[-1]
          done_ops = b - st.budget if not st.finished else None
          mid.append({'obs': observe(h, d_async), 'api': read_api(h, d_async), 'finished': st.finished, 'budget': b})
        else:
          mid.append(None)
      try:
        am.wait_previous_save()
      except BaseException as e:  # noqa: BLE001
        if isinstance(e, (KeyboardInterrupt, SystemExit)):
          raise
      ex.release_all()
    async_obs = observe(h, d_async)
    ctx.count('async_backend', h.backend)
    # oracle: same directory, same synchronous errors
    if async_obs != sync_obs or async_res != sync_res:
      ctx.violation('async-differs-from-sync', f'async run gives {async_res} {async_obs}; synchronous run gives {sync_res} {sync_obs}', case)
      return
    # oracle: a reader concurrent with a paused save sees a complete checkpoint
    for i, mm in enumerate(mid):
      if mm is None:
        continue
      lat, rest = mm['api']['latest'], mm['api']['restore']
      finals = [s for s, _ in mm['obs']['ckpts']]
      if mm['api']['listing'] != finals or (lat is not None and (lat not in finals or not isinstance(rest, int))):
        ctx.violation('async-reader-sees-partial', f'while save #{i} was in flight (after {mm["budget"]} operations) the reading API gave {mm["api"]} on {mm["obs"]}', case)
        return
    # model: caller move, `budget` worker moves, observe; the next caller move is refused until the worker is done
    moves = []
    reqs = []
    for i, b in enumerate(budgets):
      moves.append('c')
      moves += ['w'] * b
      reqs.append(('async', [[h.cfg(o) for o in h.ops], canon_to_model(_EMPTY), list(moves), True]))
      moves += ['w'] * 64
    reqs.append(('async', [[h.cfg(o) for o in h.ops], canon_to_model(_EMPTY), list(moves), True]))
    outs = drv.run(reqs)
    for i, mm in enumerate(mid):
      if mm is None or outs[i][0] != 'ok':
        continue
      mdir = model_dir_canon(outs[i][1]['dir'])
      if not same_dir(mdir, mm['obs']):
        ctx.disagreements_checked += 1
        ctx.violation('model-mismatch-async', f'directory while save #{i} is paused after {budgets[i]} operations: impl {mm["obs"]}, model {mdir}', case, concrete=False)
        return
    fin = outs[-1][1]
    if model_dir_canon(fin['dir']) != async_obs or not fin['done']:
      ctx.disagreements_checked += 1
      ctx.violation('model-mismatch-async', f'final directory: impl {async_obs}, model {model_dir_canon(fin["dir"])} done={fin["done"]}', case, concrete=False)
  finally:
    ex.release_all()
    shutil.rmtree(d_sync, ignore_errors=True)
    shutil.rmtree(d_async, ignore_errors=True)


_EMPTY = {'ckpts': [], 'otmps': [], 'tmp': None, 'other': []}


def _call_save_nohook(h, d, op, am):
  _set_backend(h.backend)
  _set_iomode(h.iomode)
  try:
    cp.save_checkpoint(
      d, tree_of(op['payload']), h.objs[op['step']], prefix=h.prefix, keep=op['keep'], overwrite=bool(op['overwrite']),
      keep_every_n_steps=op.get('every') or None, async_manager=am,
    )
    return 'ok'
  except flax_errors.InvalidCheckpointError:
    return 'InvalidCheckpoint'
  except ValueError:
    return 'DestinationExists' if h.backend == 'orbax' else 'ValueError'
  except Exception as e:
    return 'Exception:' + type(e).__name__


# ------------------------------------------------------------------------------------------------
# policy function: model vs Python reference on many step sets (cheap, no file system)
# ------------------------------------------------------------------------------------------------


def check_policy_pure(ctx, drv, rng, n):
  reqs, wants, cases = [], [], []
  for _ in range(n):
    m = rng.randrange(0, 9)
    before = sorted(rng.sample(range(-6, 30), m))
    s = rng.randrange(-6, 32)
    keep = rng.randrange(1, 5)
    every = rng.choice([0, 0, 1, 2, 3, 5, 10])
    ovw = rng.random() < 0.4
    reqs.append(('policy', [keep, str(every), ovw, str(s), [str(x) for x in before]]))
    wants.append([str(x) for x in py_policy(before, s, keep, every, ovw)])
    cases.append({'kind': 'policy', 'before': before, 's': s, 'keep': keep, 'every': every, 'ovw': ovw})
  outs = drv.run(reqs)
  for o, w, c in zip(outs, wants, cases):
    ctx.case(c, nontrivial=len(c['before']) > 0)
    if o != ('ok', w):
      ctx.disagreements_checked += 1
      ctx.violation('model-mismatch-policy', f'policy{c}: model {o}, reference {w}', c, concrete=False)


# ------------------------------------------------------------------------------------------------
# entry points
# ------------------------------------------------------------------------------------------------


def _run_histories(ctx, root, drv, hists, deadline=None, minimum=0):
  """Model round 1 for all, then the implementation history by history (stopping at the time budget once
  `minimum` histories are done), then model round 2 for the recoveries."""
  hs = [Hist(j) for j in hists]
  outs = drv.run([('history', [[h.cfg(op) for op in h.ops], canon_to_model(_EMPTY)]) for h in hs])
  cont_reqs, records = [], []
  done = 0
  for h, o in zip(hs, outs):
    if o[0] != 'ok':
      raise InfraError(f'driver error: {o}')
    if deadline is not None and done >= minimum and ctx.elapsed() > deadline:
      ctx.count('time_budget', 'histories_skipped')
      continue
    run_history(ctx, root, h, o[1], cont_reqs, records)
    done += 1
  if cont_reqs:
    compare_continuations(ctx, drv.run(cont_reqs), records)
  return done


def run(ctx):
  import time as _time

  drv = LeanDriver('drv_c11')
  rng = ctx.rng
  thorough = ctx.tier == 'thorough'
  os.makedirs('/tmp/C11-check', exist_ok=True)
  root = tempfile.mkdtemp(prefix='run', dir='/tmp/C11-check')
  phase = {}
  _t = [_time.time()]

  def mark(name):
    phase[name] = round(_time.time() - _t[0], 2)
    _t[0] = _time.time()

  # quick tier: soft time budgets (seconds since the start of the check, build and audit included) after which a
  # phase stops taking new cases once its minimum is done; the verdict never depends on them
  def budget(sec):
    return None if thorough else sec

  try:
    conventions(root)
    ctx.extra['conventions'] = dict(_CONV)
    if _CONV.get('legacy_tmp_probe_failed'):
      ctx.notes.append('legacy temp-file probe failed; fell back to "tmp"')

    for fn, obj in load_corpus('C11'):
      ctx.corpus_replayed += 1
      _run_case(ctx, root, drv, obj)
    mark('setup+corpus')

    iomodes = ['DEFAULT', 'DEFAULT', 'TF'] if _TF_AVAILABLE else ['DEFAULT']
    # (i)+(ii) legacy: histories with every crash point
    n_leg = 32 if not thorough else 700
    hists = [gen_history(rng, 'legacy', rng.choice(iomodes), rng.randrange(4, 8), crash=True) for _ in range(n_leg)]
    _run_histories(ctx, root, drv, hists, budget(26), 14)
    mark('legacy+crash')
    # (i)+(ii) orbax (default back-end)
    n_orb = 8 if not thorough else 110
    hists3 = [gen_history(rng, 'orbax', rng.choice(iomodes), rng.randrange(4, 7), crash=(k % 2 == 0)) for k in range(n_orb)]
    _run_histories(ctx, root, drv, hists3, budget(42), 4)
    mark('orbax')
    # leftovers of interrupted saves
    lcases = run_leftover_cases(ctx, root, drv, rng, 10 if not thorough else 120, budget(48), 5)
    mark('leftover')
    if thorough:
      run_orbax_kill_cases(ctx, root, drv, rng, 10)
      mark('orbax-kill')
    # (iii) natural sort
    check_natural_sort(ctx, rng, 1500 if not thorough else 30000)
    check_tokeniser(ctx, drv, rng, thorough)
    check_sign_prefix(ctx, root, rng)
    mark('natsort+sign')
    # (iv) async
    n_async = 40 if not thorough else 400
    for k in range(n_async):
      backend = 'legacy' if k % 8 else 'orbax'
      hj = gen_history(rng, backend, rng.choice(iomodes), rng.randrange(3, 6) if backend == 'legacy' else 3, crash=False)
      budgets = [rng.randrange(0, 7) for _ in hj['ops']]
      if not thorough and k >= 12 and ctx.elapsed() > 54:
        ctx.count('time_budget', 'async_skipped')
        continue
      run_async_case(ctx, root, drv, hj, budgets)
    mark('async')
    # (i) more legacy histories without crash exploration (cheap, long)
    n_leg2 = 100 if not thorough else 1500
    hists2 = [gen_history(rng, 'legacy', rng.choice(iomodes), rng.randrange(6, 14), crash=False) for _ in range(n_leg2)]
    _run_histories(ctx, root, drv, hists2, budget(60), 20)
    mark('legacy-long')
    check_policy_pure(ctx, drv, rng, 2000 if not thorough else 40000)
    mark('policy')
    ctx.extra['phase_seconds'] = phase

    ctx.sample({'kind': 'history+crash', 'backend': 'legacy', 'prefix': hists[0]['prefix'], 'ops': hists[0]['ops'][:3]})
    ctx.sample({'kind': 'history', 'backend': 'orbax', 'prefix': hists3[0]['prefix'], 'ops': hists3[0]['ops'][:3]})
    ctx.sample({'kind': 'leftover', 'case': {k: lcases[0][k] for k in ('backend', 'ops_backend', 'prefix', 'crashed')}})
    ctx.sample({'kind': 'async', 'backend': 'legacy', 'note': 'worker paused after budgets[i] file-system calls of save i'})
    res = ctx.dist.get('result', {})
    n_ok, n_all = res.get('ok', 0), sum(res.values())
    n_crash = sum(ctx.dist.get('crash_point', {}).values())
    if not ctx.violations and (n_all == 0 or n_ok * 10 < n_all * 4 or n_crash < 200 or not ctx.dist.get('leftover')):
      raise InfraError(f'generator degenerated: {n_ok}/{n_all} saves completed, {n_crash} crash cases, leftover {ctx.dist.get("leftover")}')
    ctx.extra['driver_calls'] = drv.calls
    ctx.extra['exhaustive'] = False
    ctx.extra['exhaustive_scope'] = (
      'every mutating file-system call flax/io.py makes during every generated legacy save is a crash point (plus 4 torn-write '
      'lengths); Orbax: cut before its commit rename + every rmtree of the clean-up (whole and torn)'
    )
  finally:
    _set_backend('orbax')
    fio.set_mode(_ORIG_IOMODE)
    shutil.rmtree(root, ignore_errors=True)
    try:
      os.rmdir('/tmp/C11-check')  # only when no other run is using it
    except OSError:
      pass


def _run_case(ctx, root, drv, obj):
  case = obj.get('case', obj)
  kind = case.get('kind')
  conventions(root)
  if 'hist' in case and kind is None:
    kind = 'history'
    case = dict(case['hist'], crash=True)
  if kind == 'history':
    _run_histories(ctx, root, drv, [case])
  elif kind == 'leftover':
    run_leftover_case(ctx, root, drv, case.get('case', case))
  elif kind == 'sign-prefix':
    run_sign_prefix_case(ctx, root, case.get('case', case))
  elif kind == 'async':
    run_async_case(ctx, root, drv, case['hist'], case['budgets'])
  elif kind == 'natsort':
    paths = case['paths']
    got = cp.natural_sort(paths)

    def val(p):
      rest = os.path.basename(p)
      for pf in sorted(PREFIXES, key=len, reverse=True):
        if rest.startswith(pf):
          rest = rest[len(pf) :]
          break
      if rest == _CONV['legacy_tmp_template']:
        return (1, Fraction(0))
      return (0, Fraction(int(rest)) if rest.lstrip('-').isdigit() else Fraction(float(rest)))

    if got != sorted(paths, key=val):
      ctx.violation('natural-sort-order', f'natural_sort{paths} = {got}', case)
  elif kind == 'tokens':
    out = drv.run([('tokens', [[case['s']]])])
    want = cp.SIGNED_FLOAT_RE.split(case['s'])
    if out[0][0] != 'ok' or [x[1] for x in out[0][1][0]] != want:
      ctx.violation('model-mismatch-tokens', f'split({case["s"]!r}) = {want}, model {out[0]}', case, concrete=False)
  elif kind == 'path-step':
    out = drv.run([('path_step', [[case['path']]])])
    w = cp._checkpoint_path_step(case['path'])
    mt = out[0][1][0] if out[0][0] == 'ok' else 'driver-error'
    if (None if mt is None else float(mt)) != w:
      ctx.violation('model-mismatch-path-step', f'_checkpoint_path_step = {w}, model token {mt!r}', case, concrete=False)
  elif kind == 'natsort-model':
    out = drv.run([('natsort', [case['paths']])])
    want = cp.natural_sort(case['paths'])
    if out[0] != ('ok', want):
      ctx.violation('model-mismatch-natsort', f'natural_sort = {want}, model {out[0]}', case, concrete=False)
  elif kind == 'policy':
    out = drv.run([('policy', [case['keep'], str(case['every']), case['ovw'], str(case['s']), [str(x) for x in case['before']]])])
    want = [str(x) for x in py_policy(case['before'], case['s'], case['keep'], case['every'], case['ovw'])]
    if out[0] != ('ok', want):
      ctx.violation('model-mismatch-policy', f'model {out[0]}, reference {want}', case, concrete=False)
  else:
    ctx.notes.append(f'unknown corpus case kind {kind}')


def replay(ctx, obj):
  drv = LeanDriver('drv_c11')
  os.makedirs('/tmp/C11-check', exist_ok=True)
  root = tempfile.mkdtemp(prefix='replay', dir='/tmp/C11-check')
  try:
    _run_case(ctx, root, drv, obj)
  finally:
    _set_backend('orbax')
    fio.set_mode(_ORIG_IOMODE)
    shutil.rmtree(root, ignore_errors=True)
    try:
      os.rmdir('/tmp/C11-check')  # only when no other run is using it
    except OSError:
      pass
  known = {e['key'] for e in load_findings('C11') if e.get('status') == 'finding'}
  for v in ctx.violations:
    print('  ', v['key'], '-', v['what'][:300])
  return any(v['key'] not in known or not v['concrete'] for v in ctx.violations)

# ------------------------------------------------------------------------------------------------
# thorough tier: real process death inside an Orbax save (child process, audit hook, os._exit)
# ------------------------------------------------------------------------------------------------

_KILL_EXIT = 77


def _child_main(spec_path):
  """Child process: runs ops[:target] to completion, then ops[target] with an audit hook that kills the process
  (os._exit: no unwinding, no cleanup, no flushing) right before its `kill_at`-th file-system event under the
  checkpoint directory.  Events: os.rename/mkdir/rmdir/remove/truncate, shutil.rmtree, open-for-writing — whoever
  issues them (flax, orbax, etils); TensorStore's C++ writes inside the temp dir are not events."""
  import json
  import sys

  spec = json.load(open(spec_path))
  h = Hist(spec['hist'])
  d = spec['dir']
  for op in h.ops[: spec['target']]:
    r = call_save(h, d, op)
    if r[0] == 'crash':
      os._exit(3)
  op = h.ops[spec['target']]
  kill_at = spec.get('kill_at')
  events = []
  wr = os.O_WRONLY | os.O_RDWR | os.O_CREAT | os.O_TRUNC | os.O_APPEND
  names = ('os.rename', 'os.mkdir', 'os.rmdir', 'os.remove', 'os.truncate', 'shutil.rmtree')
  armed = [True]

  def hook(name, args):
    if not armed[0]:
      return
    if name in names or (name == 'open' and len(args) > 2 and isinstance(args[2], int) and (args[2] & wr)):
      p = args[0]
      if isinstance(p, bytes):
        p = p.decode(errors='replace')
      if isinstance(p, int):
        return
      rel = name in ('os.rmdir', 'os.remove') and args[-1] is not None
      if str(p).startswith(d) or rel:
        events.append([name, str(p)[len(d) :] if str(p).startswith(d) else str(p)])
        if kill_at is not None and len(events) == kill_at:
          os._exit(_KILL_EXIT)

  sys.addaudithook(hook)
  r = call_save(h, d, op)
  armed[0] = False
  json.dump({'result': list(r), 'events': events}, open(spec['result'], 'w'))
  os._exit(0)


def _spawn_child(spec):
  import json
  import subprocess
  import sys

  sp = spec['result'] + '.spec'
  json.dump(spec, open(sp, 'w'))
  env = dict(os.environ)
  env['PYTHONDONTWRITEBYTECODE'] = '1'
  from harness.common import VERIF

  return subprocess.Popen(
    [sys.executable, '-m', 'harness.props.c11', '--child', sp], cwd=VERIF, env=env, stdout=subprocess.DEVNULL, stderr=subprocess.DEVNULL
  )


def run_orbax_kill_cases(ctx, root, drv, rng, n_hist, par=6):
  """For generated Orbax histories: the last save is run in child processes that are killed before their k-th
  file-system event, for every k; the parent inspects the real directory, evaluates the crash oracle, checks that
  the state is one of the model's crash states, and runs the recovery calls."""
  import json

  hists = []
  for _ in range(n_hist):
    hj = gen_history(rng, 'orbax', 'DEFAULT', rng.randrange(2, 5), crash=False)
    hists.append(hj)
  hs = [Hist(j) for j in hists]
  outs = drv.run([('history', [[h.cfg(op) for op in h.ops], canon_to_model(_EMPTY)]) for h in hs])
  cont_reqs, records = [], []
  for h, o in zip(hs, outs):
    if o[0] != 'ok':
      raise InfraError(f'driver error: {o}')
    target = len(h.ops) - 1
    m = o[1][target]
    if 'err' in m:
      ctx.count('kill', 'target-raises-skipped')
      continue
    op = h.ops[target]
    # reference pre-state and saved payloads, in-process
    ref = tempfile.mkdtemp(dir=root)
    saved = {}
    for q in h.ops[:target]:
      r = call_save(h, ref, q)
      if r[0] == 'ok':
        saved[q['step']] = q['payload']
    pre_obs = observe(h, ref)
    pre_api = read_api(h, ref)
    shutil.rmtree(ref, ignore_errors=True)
    # counting run
    d0 = tempfile.mkdtemp(dir=root)
    res0 = os.path.join(root, f'res_{os.path.basename(d0)}.json')
    p = _spawn_child({'hist': h.j, 'dir': d0, 'target': target, 'kill_at': None, 'result': res0})
    p.wait(300)
    if p.returncode != 0 or not os.path.exists(res0):
      ctx.count('kill', 'counting-run-failed')
      shutil.rmtree(d0, ignore_errors=True)
      continue
    info = json.load(open(res0))
    shutil.rmtree(d0, ignore_errors=True)
    n_ev = len(info['events'])
    ctx.count('kill_events_per_save', n_ev)
    ks = list(range(1, n_ev + 1))
    prev_latest = pre_obs['ckpts'][-1] if pre_obs['ckpts'] else None
    new_entry = [str(h.scaled[op['step']]), op['payload']]
    model_states = [model_dir_canon(c) for c in m['crash']]
    for i in range(0, len(ks), par):
      batch = []
      for k in ks[i : i + par]:
        d = tempfile.mkdtemp(dir=root)
        resf = os.path.join(root, f'res_{os.path.basename(d)}.json')
        batch.append((k, d, _spawn_child({'hist': h.j, 'dir': d, 'target': target, 'kill_at': k, 'result': resf})))
      for k, d, p in batch:
        try:
          p.wait(300)
          if p.returncode != _KILL_EXIT:
            ctx.count('kill', f'child-exit-{p.returncode}')
            continue
          ev = info['events'][k - 1]
          case = {'kind': 'orbax-kill', 'hist': h.j, 'kill_before_event': k, 'event': ev}
          obs = observe(h, d)
          api = read_api(h, d)
          ctx.count('kill', 'before-' + ev[0])
          ctx.case({'kill': k, 'cfg': h.cfg(op), 'pre': pre_obs}, nontrivial=True)
          ok = _oracle_crashed(ctx, h, op, pre_obs, obs, api, prev_latest, new_entry, case)
          if not any(same_dir(ms, obs) for ms in model_states):
            ctx.disagreements_checked += 1
            ctx.violation('model-mismatch-kill', f'directory after a kill before event {k} {ev}: {obs} is none of the model\'s crash states {model_states}', case, concrete=False)
          if ok:
            _recover(ctx, root, h, d, op, obs, saved, case, cont_reqs, records)
        finally:
          shutil.rmtree(d, ignore_errors=True)
  if cont_reqs:
    compare_continuations(ctx, drv.run(cont_reqs), records)


if __name__ == '__main__':
  import sys as _sys

  if len(_sys.argv) >= 3 and _sys.argv[1] == '--child':
    _child_main(_sys.argv[2])
