"""C02 — The variable tree mirrors the module tree; init, apply and shape-only init agree.

Theorems: lean/Flax/Props/C02.lean over lean/Flax/Model/{Scope,ModuleTree}.lean.
Correspondence (same model and renderers as C01, harness/props/sprog.py): seeded module programs with
deep nesting, explicit and automatic names, children called several times, rendered in the functional
core, compact and setup styles; init, then apply on the returned variables, on edited variables
(dropped / renamed / reshaped leaves, renamed submodule subtrees, extra leaves) and on deliberately
clashing programs. Compared with the Lean model: output, variable tree (paths, shapes, integer values),
error class, number of parameter initialisations. Oracles on the implementation alone: init/apply
agreement, missing or misshaped parameters raise and are never re-initialised, name clashes raise
(and same names in different collections do not), a submodule applied on its own subtree (also via
bind/unbind) returns what it returns inside its parent, lazy_init / jax.eval_shape(init) / jax.jit(init)
give the tree structure, shapes and dtypes of concrete init.
"""
from __future__ import annotations

import copy

from harness import compat  # noqa: F401
from harness.common import LeanDriver, load_corpus, load_findings, InfraError
from harness.props import sprog as S
from harness.props import c01 as C1

import jax
import jax.numpy as jnp
import numpy as np

SPEC = {
  'exes': ['drv_c02'],
  'rule': (
    'one case = (module program, rendering core|compact|setup, init or apply, mutable filter, variables '
    '(as returned by init, or with one edit: drop/rename/reshape a leaf, rename a submodule subtree, drop a '
    'collection, add a leaf), argument) or one derived check (standalone submodule, bind/unbind, shape-only '
    'init, deliberate name clash). Programs: depth<=4, explicit+automatic names, children called 0-3 times. '
    'Non-trivial = program with a child or an edited variable tree; distinct = distinct canonical JSON.'
  ),
  'trusted_base': [
    'hand-written Lean model lean/Flax/Model/Scope.lean + ModuleTree.lean (tied to /repo by this correspondence run)',
    'harness/props/sprog.py + c02.py (generators, renderers calling the public Scope/Module API, canonicalisation), harness/compat.py (JAX shim)',
    'Python dict semantics (A-PY); numpy float32 arithmetic on integers below 2**24 is exact',
  ],
  'assumptions': [
    'lazy_init / jax.eval_shape / jax.jit of init run the module under JAX tracing, which the model does not contain: lazy_init_shapes_partial proves only that the program\'s control flow, names and shapes do not depend on values; agreement of the three entry points with concrete init is established by this correspondence run alone',
    'init_apply_agree (same output, no initialisation, store unchanged) is proved for declaration-only programs (param / variable / children; no put, sow, perturb, and no get_variable that could observe a variable before it exists: such programs legitimately compute something else at init time); for every program apply_keeps_tree proves that apply on init\'s variables creates, drops and renames nothing (Linen styles, apply filter within init\'s filter)',
    'a top-level parameter/variable/submodule named "params" inside collection "params" is excluded: core.apply rejects such a tree (theorem toplevel_params_name_rejected exhibits the point)',
    'bind/unbind are modelled at the level of (module body, name, bound scope) triples: unbind_bind, bound_submodule_variables, unbind_then_apply; Module.clone\'s field-by-field copying and the id-keyed adoption cache are not modelled',
    'an instance shared between two PARENTS: the deep clone that init/apply/bind run on is modelled at the identity level (Model/CloneCache.lean: clone_preserves_sharing, tied to the real Module.clone by identity partitions per field); where its variables live (one subtree under the first adopting path), that every parent reads the one state (edited leaf) and unbind through any parent are checked on the implementation against an independent reference (layout family: fields at every position, lists/dicts, created in setup, depth 1-3); SProg itself still has no reference to a module from another module\'s body',
    'automatic-name spelling (Class_i) is learnt from the implementation by a probe and passed to the model',
  ],
  'model_partial': [
    'lazy_init_shapes_partial: proves value-independence of structure/shapes for the model evaluator; the real lazy_init/eval_shape/jit mechanisms are JAX (tied by correspondence only)',
    'lazy_init_values: proves that on argument-free programs the returned variables are the same for every argument (the condition under which partial_eval.lazy_init returns, and the values it returns); that JAX classifies them as known is not modelled (checked: lazy_init returns concrete init\'s values)',
    'sharing between parents: not in SProg (would need module references visible from descendants: a `callUp ancestor slot` form with the ancestors\' children in the per-call state and a relation on it in every simulation)',
  ],
}

KEY = None


# ------------------------------------------------------------------------------------------------
# edits of a variable tree (model form)
# ------------------------------------------------------------------------------------------------

EDITS = ['drop-leaf', 'drop-collection', 'rename-leaf', 'reshape-leaf', 'rename-module', 'extra-leaf']


def edit_vars(rng, V, kind):
  """-> (edited V, info) or None when the edit does not apply"""
  V = copy.deepcopy(V)
  tens = [i for i, (p, v) in enumerate(V['vars']) if 't' in v]
  if kind == 'drop-leaf' and V['vars']:
    i = rng.randrange(len(V['vars']))
    p, _ = V['vars'].pop(i)
    if rng.random() < 0.5 and not any(q[0] == p[0] for q, _ in V['vars']):
      V['cols'].remove(p[0])
    return V, {'edit': kind, 'path': p}
  if kind == 'drop-collection' and V['cols']:
    c = rng.choice(V['cols'])
    V['cols'].remove(c)
    V['vars'] = [kv for kv in V['vars'] if kv[0][0] != c]
    return V, {'edit': kind, 'path': [c]}
  if kind == 'rename-leaf' and V['vars']:
    i = rng.randrange(len(V['vars']))
    old = list(V['vars'][i][0])
    V['vars'][i][0] = old[:-1] + ['zz9']
    return V, {'edit': kind, 'path': old}
  if kind == 'reshape-leaf' and tens:
    i = rng.choice(tens)
    p, v = V['vars'][i]
    sh = v['t']
    opts = [sh + [1], [1] + sh]
    if len(sh) == 2:
      opts.append([sh[0] * sh[1]])
    if sh:
      opts.append(sh[:-1] + [sh[-1] + 1])
    new = rng.choice(opts)
    n = 1
    for d in new:
      n *= d
    data = (v['d'] * (n // max(len(v['d']), 1) + 1))[:n] if v['d'] else [1] * n
    V['vars'][i][1] = {'t': new, 'd': data}
    return V, {'edit': kind, 'path': p, 'old_shape': sh, 'new_shape': new}
  if kind == 'rename-module':
    mods = sorted({tuple(p[: k + 1]) for p, _ in V['vars'] for k in range(1, len(p) - 1)})
    if mods:
      mp = rng.choice(mods)
      allc = rng.random() < 0.5
      for kv in V['vars']:
        p = kv[0]
        if len(p) > len(mp) and p[1 : len(mp)] == list(mp[1:]) and (allc or p[0] == mp[0]):
          kv[0] = p[: len(mp) - 1] + ['Zed_7'] + p[len(mp):]
      return V, {'edit': kind, 'path': list(mp), 'all_collections': allc}
  if kind == 'extra-leaf' and V['cols']:
    c = rng.choice(V['cols'])
    V['vars'].append([[c, 'extra9'], {'t': [], 'd': [5]}])
    return V, {'edit': kind, 'path': [c, 'extra9']}
  return None


def params_only_via_param(prog):
  return not any(st['op'] in ('variable', 'put', 'sow', 'perturb', 'get') and st['c'] == 'params' for st in S.walk(prog))


def agree_class(body):
  """declaration-only programs (the class of theorem init_apply_agree)"""
  return not any(st['op'] in ('put', 'sow', 'perturb', 'get') for st in S.walk(body))


def lazy_eligible(body, mj=None):
  mj = {'deny': 'intermediates'} if mj is None else mj
  for st in S.walk(body):
    if st['op'] == 'sow' and not S.in_filter_ref(mj, st['c']):
      continue  # the filter excludes the collection: the sow is a no-op and its value is no output
    if st['op'] in ('variable', 'put', 'sow', 'perturb') and not S.expr_const(st['e']):
      return False
  return True


# ------------------------------------------------------------------------------------------------
# checks
# ------------------------------------------------------------------------------------------------


def base_sc(prog, style, **kw):
  sc = {'prog': prog, 'style': style, 'capture': False, 'ncalls': 1, 'rngs': True}
  sc.update(kw)
  return sc


def program_suite(ctx, conv, prog, pending):
  """init + applies + edits for one program in every rendering; model requests are queued in `pending`"""
  rng = ctx.rng
  styles = S.styles_for(prog)
  x = rng.randrange(-3, 4)
  for style in styles:
    R = S.Rendered(prog, style)
    init_all = rng.random() < 0.5
    sc0 = base_sc(prog, style, kind='init', mutable=True if init_all else {'deny': 'intermediates'}, x=x)
    o0 = S.run_scenario(R, sc0)
    pending.append((sc0, o0))
    ctx.count('style', style)
    # --- a wrongly-shaped parameter raises, during init as well: one declaration site asked for two shapes ---
    two = [sh for sh in S.param_shapes_by_site(prog).values() if len(sh) > 1]
    if two and o0['peak'] < S.LIMIT:
      ctx.count('oracle', 'misshaped-raises-at-init')
      if o0['result'][0] == 'ok':
        ctx.violation('init-accepts-two-shapes', f'during init one parameter was requested with shapes {sorted(two[0])} (a submodule re-used on arguments of different widths) and init returned instead of raising ScopeParamShapeError', S.public(sc0))
        continue
    if o0['peak'] >= S.LIMIT or o0['result'][0] != 'ok' or o0['result'][3]:
      continue
    V, y0 = o0['result'][2], o0['result'][1]
    # --- one declaration, one variable: the tree has exactly one leaf per executed `param` statement ---------
    if params_only_via_param(prog):
      ctx.count('oracle', 'one-leaf-per-declaration')
      sites = len({id(st) for st in S.executed(prog) if st['op'] == 'param'})
      leaves = sum(1 for p, _ in V['vars'] if p[0] == 'params')
      if leaves != sites:
        ctx.violation('tree-does-not-mirror-program', f'the program executes {sites} distinct param declarations (each in one submodule) but init returned {leaves} parameter leaves: {[p for p, _ in V["vars"] if p[0] == "params"]}', S.public(sc0))
    # --- init / apply agreement ----------------------------------------------------------------
    frozen = rng.random() < 0.4
    scA = base_sc(prog, style, kind='apply', mutable=False, x=x, vars=V, frozen=frozen, rngs=rng.random() < 0.3)
    oA = S.run_scenario(R, scA)
    pending.append((scA, oA))
    scT = base_sc(prog, style, kind='apply', mutable=True, x=x, vars=V, frozen=frozen, rngs=rng.random() < 0.5)
    oT = S.run_scenario(R, scT)
    pending.append((scT, oT))
    inexact = max(oA['peak'], oT['peak']) >= S.LIMIT
    # init's variables are what apply consumes: on the same program and argument they can never be "wrongly shaped"
    for scX, oX in ((scA, oA), (scT, oT)):
      if oX['result'] == ('err', 'ScopeParamShapeError'):
        ctx.violation('apply-rejects-init-variables', "apply on the variables init just returned (same program, same argument) raises ScopeParamShapeError", S.public(scX))
        inexact = True
    if not inexact:
      if agree_class(prog):
        ctx.count('oracle', 'init_apply_agree(decl-only)')
        if oA['result'][0] != 'ok' or oA['result'][1] != y0:
          ctx.violation('init-apply-disagree', f"apply(init's variables, mutable=False) gives {oA['result'][:2]}, init returned {y0}", S.public(scA))
        elif oA['inits'] != 0:
          ctx.violation('apply-reinitialised', f"apply on init's variables called a parameter initialiser {oA['inits']} time(s)", S.public(scA))
        elif oT['result'][0] != 'ok' or oT['result'][1] != y0 or (init_all and oT['result'][2] != V):
          ctx.violation('init-apply-disagree', f"apply(init's variables, mutable=True) gives {oT['result'][:3]}, init returned {(y0, V)}", S.public(scT))
      elif oT['result'][0] == 'ok' and init_all:
        ctx.count('oracle', 'keys-preserved(stateful)')
        kv = lambda J: (sorted(J['cols']), sorted((tuple(p), _shape(v)) for p, v in J['vars']))
        if kv(oT['result'][2]) != kv(V):
          ctx.violation('apply-changes-tree', f"apply(mutable=True) on init's variables created/dropped/renamed/reshaped a variable: {kv(oT['result'][2])} vs {kv(V)}", S.public(scT))
        elif oT['inits'] != 0:
          ctx.violation('apply-reinitialised', f"apply on init's variables called a parameter initialiser {oT['inits']} time(s)", S.public(scT))
    # --- edited variables --------------------------------------------------------------------------
    for _ in range(2 if ctx.tier == 'quick' else 5):
      kind = rng.choice(EDITS)
      ed = edit_vars(rng, V, kind)
      if ed is None:
        continue
      V2, info = ed
      V2 = S.canon_vars(V2)
      mj = rng.choice([False, False, True, 'stats', {'deny': 'params'}, S.gen_filter(rng)])
      scE = base_sc(prog, style, kind='apply', mutable=mj, x=x, vars=V2, frozen=rng.random() < 0.3, rngs=rng.random() < 0.6,
                    edit=info)
      oE = S.run_scenario(R, scE)
      pending.append((scE, oE))
      ctx.count('edit', kind)
      if oE['peak'] >= S.LIMIT:
        continue
      is_param_leaf = info['path'][0] == 'params' and len(info['path']) > 1 and params_only_via_param(prog)
      params_immutable = not S.in_filter_ref(mj, 'params')
      res = oE['result']
      if kind in ('drop-leaf', 'rename-leaf') and is_param_leaf and params_immutable:
        ctx.count('oracle', 'missing-param-raises')
        if res[0] == 'ok':
          ctx.violation('missing-param-accepted', f"parameter {info['path']} removed/renamed, 'params' immutable, apply returned {res[1]}", S.public(scE))
        elif oE['inits'] != 0:
          ctx.violation('apply-reinitialised', f'missing parameter was re-initialised ({oE["inits"]} initialiser calls) although params is immutable', S.public(scE))
        elif S.read_only(prog) and res[1] not in ('ScopeParamNotFoundError', 'ScopeCollectionNotFound'):
          ctx.violation('missing-param-wrong-error', f'missing parameter raised {res[1]}', S.public(scE))
      if kind == 'reshape-leaf' and is_param_leaf:
        ctx.count('oracle', 'misshaped-param-raises')
        if res[0] == 'ok':
          ctx.violation('misshaped-param-accepted', f"parameter {info['path']} reshaped {info['old_shape']}->{info['new_shape']}, apply returned {res[1]}", S.public(scE))
        elif mj is True and scE['rngs'] and res[1] != 'ScopeParamShapeError' and not S.uses_linen_only(prog):
          ctx.violation('misshaped-param-wrong-error', f'misshaped parameter raised {res[1]}', S.public(scE))
      if kind == 'extra-leaf' and oA['result'][0] == 'ok' and mj is False and oA['peak'] < S.LIMIT:
        ctx.count('oracle', 'extra-leaf-ignored')
        if res[0] != 'ok' or res[1] != oA['result'][1]:
          ctx.violation('extra-leaf-changes-output', f'an unused extra variable changed the outcome: {res[:2]} vs {oA["result"][:2]}', S.public(scE))
    # --- standalone submodules ------------------------------------------------------------------
    if style != 'core' and rng.random() < 0.7:
      standalone(ctx, conv, R, prog, style, V, x, pending)
    if style == 'setup' and rng.random() < 0.7:
      bind_unbind(ctx, R, prog, V, x, pending)
  # --- shape-only init ----------------------------------------------------------------------------
  if rng.random() < 0.55:
    shape_only(ctx, conv, prog, rng.choice(styles), x, pending, mj=(rng.choice(LAZY_FILTERS) if rng.random() < 0.4 else None))


def _shape(v):
  # a sown tuple grows with every call by design: only its presence is compared
  return tuple(v['t']) if 't' in v else 'tuple'


def restrict_vars(V, path):
  out = {'cols': [], 'vars': []}
  n = len(path)
  for p, v in V['vars']:
    if len(p) > n + 1 and p[1 : n + 1] == list(path):
      out['vars'].append([[p[0]] + p[n + 1 :], v])
      if p[0] not in out['cols']:
        out['cols'].append(p[0])
  return S.canon_vars(out)


def standalone(ctx, conv, R, prog, style, V, x, pending):
  """a submodule applied on its own subtree computes what it computes inside its parent"""
  if any(st['op'] == 'put' and st.get('rel') for st in S.walk(prog)):
    return  # an ancestor writes into a submodule's subtree: its state at call time is not the subtree of V
  mj = ctx.rng.choice([False, False, True])
  sc = base_sc(prog, style, kind='apply', mutable=mj, x=x, vars=V, rngs=False)
  S.Guard.reset()
  S.Guard.calls = []
  r = R.apply(S.unflatten_vars(V), np.asarray(x, S.F32), None, S.filter_py(mj))
  calls, peak = S.Guard.calls, S.Guard.peak
  S.Guard.calls = None
  if r[0] != 'ok' or peak >= S.LIMIT:
    return
  by_path = {}
  for c in calls:
    by_path.setdefault(c[0], []).append(c)
  cands = [c for c in calls if len(c[0]) >= 1 and len(by_path[c[0]]) == 1]
  ctx.rng.shuffle(cands)
  for path, a, out, body, aw in cands[:2]:
    # descendants must be called once at most too when state may change
    a_int, out_int = S.out_int(a), S.out_int(out)
    Vs = restrict_vars(V, list(path))
    sub_style = style if (style == 'compact' or S.setup_eligible(body)) else 'compact'
    scS = base_sc(body, sub_style, kind='apply', mutable=mj, x=a_int, vars=Vs, rngs=False, standalone_of=list(path))
    if aw is not None:
      scS['xw'] = aw
    Rs = S.Rendered(body, sub_style)
    oS = S.run_scenario(Rs, scS)
    pending.append((scS, oS))
    ctx.count('oracle', 'standalone-submodule')
    ctx.count('standalone_depth', len(path))
    if oS['peak'] >= S.LIMIT:
      continue
    if oS['result'][0] != 'ok' or oS['result'][1] != out_int:
      ctx.violation('submodule-not-compositional', f'submodule at {list(path)} returned {out_int} inside its parent but {oS["result"][:2]} applied on its own subtree', dict(S.public(sc), submodule=list(path)))
      continue
    if mj is True:
      full = S.canon_result(r)
      if full[2] is not None and restrict_vars(full[2], list(path)) != oS['result'][2]:
        ctx.violation('submodule-not-compositional', f'submodule at {list(path)}: state after the call differs between the parent run and the standalone run', dict(S.public(sc), submodule=list(path)))


def bind_unbind(ctx, R, prog, V, x, pending=None):
  """setup style: parent.bind(V).child.unbind() gives a module + variables that reproduce the child's call"""
  decls, _ = S.split_decls(prog)
  kids = [d for d in decls if d['op'] == 'child']
  if not kids:
    return
  slot = ctx.rng.randrange(len(kids))
  Vpy = S.unflatten_vars(V)
  snap0, _ = S.snap_tree(Vpy)
  case = {'kind': 'bind-unbind', 'prog': prog, 'vars': V, 'slot': slot, 'x': x}
  xin = np.asarray(x, S.F32)
  S.Guard.reset()
  try:
    bound = R.module.bind(Vpy)
    sub_bound = getattr(bound, f'k{slot}')
    y_in = sub_bound(xin)
  except Exception as e:
    # e.g. the child writes a variable and bind() makes everything immutable: nothing to compare
    ctx.count('bind_unbind', 'bound-call-raised:' + S.classify(e))
    return
  try:
    sub_path = list(sub_bound.path)
    sub, subV = sub_bound.unbind()
    y_out = sub.apply(subV, xin)
  except Exception as e:
    ctx.case(case)
    ctx.violation('unbind-not-equivalent', f'the bound child returned {S.out_int(y_in)} but unbind()+apply raised {S.classify(e)}', case)
    return
  if S.Guard.peak >= S.LIMIT:
    return
  ctx.case(case)
  ctx.count('oracle', 'bind-unbind')
  a, b = S.out_int(y_in), S.out_int(y_out)
  if a != b:
    ctx.violation('unbind-not-equivalent', f'bound child returned {a}, unbound child applied on its variables returned {b}', case)
  elif S.snap_tree(Vpy)[0] != snap0:
    ctx.violation('bind-mutated-variables', 'bind/unbind changed the variables passed to bind', case)
  elif sub.scope is not None or sub.name is not None:
    ctx.violation('unbind-leaks-scope', f'unbind returned a module that is still bound or named (scope={sub.scope is not None}, name={sub.name!r})', case)
  else:
    # a bound submodule's variables are exactly V|path (property oracle), and what the model's unbind returns
    got, probs = S.flatten_vars(subV)
    want = restrict_vars(V, sub_path)
    if probs or got != want:
      ctx.violation('unbind-variables-wrong', f'unbind() of the submodule at {sub_path} returned {got}, the subtree of the bound variables is {want}', case)
    elif pending is not None:
      pending.append(({'kind': 'unbind', 'vars': V, 'path': sub_path, 'got': got}, None))


def shape_only(ctx, conv, prog, style, x, pending, mj=None, force_jit=False):
  """lazy_init / eval_shape / jit of init, all called with the SAME `mutable` filter as concrete init: the same
  collections, tree structure, shapes and dtypes — or they raise together"""
  global KEY
  KEY = KEY if KEY is not None else jax.random.key(0)
  R = S.Rendered(prog, style)
  mj = {'deny': 'intermediates'} if mj is None else mj
  mut = S.filter_py(mj)
  xin = jnp.asarray(x, jnp.float32)
  S.Guard.reset()
  r = R.init({'params': KEY}, np.asarray(x, S.F32), mut)
  if S.Guard.peak >= S.LIMIT or (r[0] == 'ok' and mut is False):
    return
  case = {'kind': 'shape-only', 'prog': prog, 'style': style, 'x': x, 'mutable': mj}
  ctx.case(case)
  ctx.count('shape_only_filter', C1._form(mj))
  if r[0] != 'ok':
    # concrete init raises with this filter (e.g. the program writes a collection the filter excludes):
    # the shape-only entry points must raise too, not return a tree
    def conc_init_e(key, xx):
      if style == 'core':
        return S.core_scope.init(R.fn, mutable=mut)(key, xx)[1]
      return R.module.init(key, xx, mutable=mut)

    vs = [('eval_shape', lambda: jax.eval_shape(conc_init_e, KEY, xin))]
    if style != 'core' and lazy_eligible(prog, mj):
      vs.append(('lazy_init', lambda: R.module.lazy_init(KEY, jax.ShapeDtypeStruct((), jnp.float32), mutable=mut)))
    for name, fn in vs:
      ctx.count('oracle', 'shape-only-both-raise:' + name)
      try:
        res = fn()
      except Exception:
        continue
      ctx.violation('shape-only-returns-where-init-raises:' + name, f'concrete init(mutable={mj!r}) raises {r[1]} but {name} returned {sorted(S.shapes_of(res))}', dict(case, variant=name))
    return
  want = S.shapes_of(r[1][1])

  def conc_init(key, xx):
    if style == 'core':
      return S.core_scope.init(R.fn, mutable=mut)(key, xx)[1]
    return R.module.init(key, xx, mutable=mut)

  variants = [('eval_shape', lambda: jax.eval_shape(conc_init, KEY, xin))]
  if force_jit or ctx.rng.random() < (0.25 if ctx.tier == 'quick' else 0.5):
    variants.append(('jit', lambda: jax.jit(conc_init)(KEY, xin)))
  if lazy_eligible(prog, mj):
    sds = jax.ShapeDtypeStruct((), jnp.float32)
    if style == 'core':
      variants.append(('lazy_init', lambda: S.core_scope.lazy_init(R.fn, mutable=mut)(KEY, sds)))
    else:
      variants.append(('lazy_init', lambda: R.module.lazy_init(KEY, sds, mutable=mut)))
  for name, fn in variants:
    ctx.count('oracle', 'shape-only:' + name)
    try:
      res = fn()
      got = S.shapes_of(res)
    except Exception as e:
      ctx.violation('shape-only-raises:' + name, f'{name} of init (mutable={mj!r}) raised {S.classify(e)} where concrete init with the same filter succeeds', dict(case, variant=name))
      continue
    if got != want:
      ctx.violation('shape-only-differs:' + name, f'{name} of init (mutable={mj!r}) gives {got}, concrete init with the same filter {want}', dict(case, variant=name))
    elif name == 'lazy_init':
      # lazy_init returns the *known* values: on argument-free programs these are concrete init's values
      ctx.count('oracle', 'lazy-init-values')
      lv, cv = S.flatten_vars(res)[0], S.flatten_vars(r[1][1])[0]
      if lv != cv:
        ctx.violation('lazy-init-values-differ', f'lazy_init returned {lv}, concrete init {cv}', dict(case, variant=name))
  # model tie: the model's shape-only view of its own init result
  pending.append(({'kind': 'abstract', 'prog': prog, 'style': style, 'x': x, 'mutable': mj, 'want': {'/'.join(k): (list(v[0]) if _is_tensor_entry(v) else [list(t[0]) for t in v]) for k, v in want.items()}}, None))


def _is_tensor_entry(v):
  return len(v) == 2 and isinstance(v[1], str)


def clash_suite(ctx, conv, pending):
  rng = ctx.rng
  for kind in S.CLASH_KINDS:
    for _ in range(3 if ctx.tier == 'quick' else 12):
      prog, clash = S.gen_clash(rng, kind)
      for style in S.styles_for(prog):
        R = S.Rendered(prog, style)
        sc = base_sc(prog, style, kind='init', mutable=True, x=rng.randrange(-2, 3), clash=kind)
        o = S.run_scenario(R, sc)
        pending.append((sc, o))
        ctx.count('clash', kind)
        res = o['result']
        want_err = clash is True or (clash == 'linen-only' and style == 'compact')
        # Module.sow detects the clash in Scope.reserve (ValueError), param/variable/submodule in Module._name_taken
        names = S.model_err_names('nameInUse', style) | ({'ValueError'} if kind == 'sow-child' else set())
        if want_err and (res[0] != 'err' or res[1] not in names):
          ctx.violation('name-clash-accepted:' + kind, f'{kind} clash in style {style}: expected a name-in-use error, got {res[:2]}', S.public(sc))
        if not want_err and res[0] != 'ok':
          ctx.violation('no-clash-rejected:' + kind, f'{kind} (no clash) in style {style} raised {res[1]}', S.public(sc))


def decl_sequences(ctx, conv, pending):
  """every sequence of <= 3 declarations of ONE name (param / variable in 3 collections / submodule) in one scope,
  a sample of length 4, in every rendering: it raises exactly at the first declaration that clashes"""
  import itertools
  rng = ctx.rng
  seqs = [list(k) for n in (1, 2, 3) for k in itertools.product(S.DECL_KINDS, repeat=n)]
  four = [list(k) for k in itertools.product(S.DECL_KINDS, repeat=4)]
  seqs += rng.sample(four, 60 if ctx.tier == 'quick' else len(four))
  ctx.extra['decl_sequences'] = f'all {5 + 25 + 125} sequences of length <= 3 over {S.DECL_KINDS}, {len(seqs) - 155} of length 4'
  for kinds in seqs:
    prog = S.decl_sequence_prog(kinds, nested_level=rng.random() < 0.3, other=rng.random() < 0.3)
    first_bad = S.decl_sequence_expect(kinds)
    for style in S.styles_for(prog):
      R = S.Rendered(prog, style)
      sc = base_sc(prog, style, kind='init', mutable=True, x=rng.randrange(-2, 3), decl_sequence=kinds)
      o = S.run_scenario(R, sc)
      pending.append((sc, o))
      ctx.count('decl_sequence_len', len(kinds))
      res = o['result']
      names = S.model_err_names('nameInUse', style, prog)
      if first_bad is not None and (res[0] != 'err' or res[1] not in names):
        ctx.violation('name-clash-accepted', f'declarations {kinds} of one name in one scope ({style}): declaration #{first_bad + 1} clashes with an earlier one but init gave {res[:2]}', S.public(sc))
      elif first_bad is None and res[0] != 'ok':
        ctx.violation('no-clash-rejected', f'declarations {kinds} of one name in one scope ({style}) are legal (different collections) but init raised {res[1]}', S.public(sc))


def flush(ctx, drv, conv, pending):
  reqs = []
  for sc, o in pending:
    if sc['kind'] == 'clone':
      reqs.append(('clone', [sc['fields'], 1000]))
    elif sc['kind'] == 'unbind':
      reqs.append(('unbind', [sc['vars'], sc['path']]))
    elif sc['kind'] == 'abstract':
      reqs.append(S.model_request({'kind': 'init', 'prog': sc['prog'], 'style': sc['style'], 'mutable': sc.get('mutable', {'deny': 'intermediates'}),
                                   'rngs': True, 'x': sc['x']}, conv))
    else:
      reqs.append(S.model_request(sc, conv))
  outs = drv.run(reqs)
  for (sc, o), m in zip(pending, outs):
    if sc['kind'] == 'clone':
      if m[0] != 'ok' or S.partition(m[1]) != sc['want']:
        ctx.disagreements_checked += 1
        ctx.violation('model-mismatch:clone', f"sharing after deep clone: implementation {sc['want']}, model {m}", {'kind': 'clone', 'fields': sc['fields']}, concrete=False)
      continue
    if sc['kind'] == 'unbind':
      if m[0] != 'ok' or S.canon_vars(m[1]) != sc['got']:
        ctx.disagreements_checked += 1
        ctx.violation('model-mismatch:unbind', f"unbind variables: implementation {sc['got']}, model {m}", {k: v for k, v in sc.items() if k != 'got'}, concrete=False)
      continue
    if sc['kind'] == 'abstract':
      if m[0] == 'ok' and 'ret' in m[1]:
        got = {'/'.join(p): (v['t'] if 't' in v else [t['t'] for t in v['tup']]) for p, v in m[1]['ret']['vars']}
        if got != sc['want']:
          ctx.disagreements_checked += 1
          ctx.violation('model-mismatch:shapes', f'model init shapes {got} vs shape-only init {sc["want"]}', {k: v for k, v in sc.items() if k != 'want'}, concrete=False)
      continue
    nontrivial = any(st['op'] == 'child' for st in sc['prog']) or 'edit' in sc
    ctx.case(S.public(sc), nontrivial=nontrivial)
    C1.judge(ctx, sc, o, m)
  pending.clear()


def excluded_point(ctx, conv, drv):
  """top-level name 'params' in collection 'params': init succeeds, apply rejects the tree (documented guard)"""
  prog = [{'op': 'param', 'n': 'params', 'shape': [], 'init': 3}, {'op': 'ret', 'e': {'l': 0}}]
  R = S.Rendered(prog, 'compact')
  sc0 = base_sc(prog, 'compact', kind='init', mutable={'deny': 'intermediates'}, x=0)
  o0 = S.run_scenario(R, sc0)
  if o0['result'][0] != 'ok':
    return
  sc1 = base_sc(prog, 'compact', kind='apply', mutable=False, x=0, vars=o0['result'][2], rngs=False)
  o1 = S.run_scenario(R, sc1)
  ms = drv.run([S.model_request(sc0, conv), S.model_request(sc1, conv)])
  C1.judge(ctx, sc0, o0, ms[0])
  C1.judge(ctx, sc1, o1, ms[1])
  ctx.extra['excluded_point_toplevel_params'] = f"init ok, apply -> {o1['result'][:2]}"
  if o1['result'][0] == 'err' and any(e.get('key') == 'toplevel-name-params' for e in load_findings('C02')):
    ctx.violation('toplevel-name-params', "a top-level parameter named 'params' initialises but apply rejects init's own variables", S.public(sc1))


def lazy_stream(ctx, conv, pending, n):
  """declaration-only programs with value-dependent sows into 'intermediates' (excluded by init's default
  `mutable`, so the shape-only entry points must neither return nor trip over them)"""
  rng = ctx.rng

  def inject(body):
    out = []
    for st in body:
      if st['op'] == 'child':
        st = dict(st, body=inject(st['body']))
      out.append(st)
      if rng.random() < 0.3:
        out.append({'op': 'sow', 'c': 'intermediates', 'n': rng.choice(S.SNAMES), 'e': {'+': ['x', rng.randrange(0, 3)]}})
    return out

  for _ in range(n):
    prog = inject(S.gen_prog(rng, depth=rng.choice([1, 2, 3]), flavour='decl_only'))
    styles = [st for st in S.styles_for(prog) if st != 'core']
    ctx.count('lazy_stream', 'programs')
    shape_only(ctx, conv, prog, rng.choice(styles), rng.randrange(-2, 3), pending)


LAZY_FILTERS = [
  {'deny': 'intermediates'}, True, ['params', 'stats'], ['params', 'stats', 'cache'], ['params', 'stats', 'cache', 'losses'],
  {'deny': ['intermediates', 'losses']}, {'deny': 'losses'}, {'deny': ['losses', 'inter']}, {'deny': []},
  {'deny': ['intermediates', 'cache']}, ['params', 'stats', 'cache', 'inter', 'intermediates'],
]


def lazy_filter_stream(ctx, conv, pending, n):
  """programs that write to >= 3 collections (params, statistics, a cache, sown 'losses' / 'intermediates' / 'inter',
  some of the sown values depending on the argument) initialised — concretely and shape-only — under the same
  non-default `mutable` filter"""
  rng = ctx.rng

  def inject(body, top):
    out = []
    for st in body:
      if st['op'] == 'child':
        st = dict(st, body=inject(st['body'], False))
      out.append(st)
      if rng.random() < 0.4:
        c = rng.choice(['losses', 'losses', 'intermediates', 'inter'])
        e = {'+': ['x', rng.randrange(0, 3)]} if rng.random() < 0.6 else rng.randrange(1, 4)
        out.append({'op': 'sow', 'c': c, 'n': rng.choice(S.SNAMES), 'e': e})
    if top:
      out.insert(0, {'op': 'variable', 'c': 'cache', 'n': 'u9', 'shape': [2], 'e': 1})
      out.insert(0, {'op': 'variable', 'c': 'stats', 'n': 'u8', 'shape': [], 'e': 0})
      out.insert(0, {'op': 'param', 'n': 'w9', 'shape': [3], 'init': 1})
      out.append({'op': 'sow', 'c': 'losses', 'n': 's9', 'e': {'*': ['x', 2]} if rng.random() < 0.5 else 2})
    return out

  def shift(body):
    # three declarations were put in front of the top-level body: shift its local references by 3
    def sh(e):
      if isinstance(e, dict):
        if 'l' in e:
          return {'l': e['l'] + 3}
        k = '+' if '+' in e else '*'
        return {k: [sh(e[k][0]), sh(e[k][1])]}
      return e
    return [dict(st, e=sh(st['e'])) if 'e' in st and st['op'] != 'child' else st for st in body]

  for _ in range(n):
    base = S.gen_prog(rng, depth=rng.choice([1, 2]), flavour='decl_only')
    prog = inject(shift(base), True)
    mj = rng.choice(LAZY_FILTERS)
    styles = [st for st in S.styles_for(prog) if st != 'core']
    ctx.count('lazy_filter_stream', 'programs')
    shape_only(ctx, conv, prog, rng.choice(styles), rng.randrange(-2, 3), pending, mj=mj, force_jit=rng.random() < 0.15)


def run_case(ctx, drv, conv, case):
  kind = case.get('kind')
  if kind in ('init', 'apply'):
    C1.run_case(ctx, drv, conv, case)
  elif kind == 'shared':
    S.check_shared(ctx, case, 'C02')
  elif kind == 'layout':
    S.check_layout(ctx, case, 'C02')
  elif kind == 'bound-apply':
    S.check_bound_apply(ctx, case)
  elif kind == 'shape-only':
    pending = []
    shape_only(ctx, conv, case['prog'], case['style'], case['x'], pending, mj=case.get('mutable'))
    flush(ctx, drv, conv, pending)
  elif kind == 'bind-unbind':
    bind_unbind(ctx, S.Rendered(case['prog'], 'setup'), case['prog'], case['vars'], case['x'])
  elif kind == 'suite':
    pending = []
    program_suite(ctx, conv, case['prog'], pending)
    flush(ctx, drv, conv, pending)
  else:
    ctx.notes.append(f'unknown corpus case kind {kind}')


def run(ctx):
  drv = LeanDriver('drv_c02')
  conv = S.probe_conventions()
  if any(v is None for v in conv.values()):
    raise InfraError(f'could not infer the autoname conventions: {conv}')
  ctx.extra['conventions'] = conv
  for fn, obj in load_corpus('C02'):
    ctx.corpus_replayed += 1
    run_case(ctx, drv, conv, obj.get('case', obj))
  excluded_point(ctx, conv, drv)
  pending = []
  clash_suite(ctx, conv, pending)
  decl_sequences(ctx, conv, pending)
  flush(ctx, drv, conv, pending)
  thorough = ctx.tier == 'thorough'
  for _ in range(30 if not thorough else 300):
    S.check_shared(ctx, S.shared_case(ctx.rng), 'C02')
  for _ in range(80 if not thorough else 800):
    S.check_layout(ctx, S.gen_layout(ctx.rng), 'C02', pending)
  for _ in range(45 if not thorough else 500):
    c = S.gen_bound_nested(ctx.rng)
    S.check_bound_apply(ctx, {'kind': 'bound-apply', 'spec': c['spec'], 'leaves': c['leaves'], 'x': c['x']})
  lazy_stream(ctx, conv, pending, 40 if not thorough else 400)
  lazy_filter_stream(ctx, conv, pending, 70 if not thorough else 700)
  flush(ctx, drv, conv, pending)
  # parameter shapes that follow the argument's shape; submodules re-used on different widths
  for _ in range(60 if not thorough else 600):
    prog = S.gen_width_prog(ctx.rng)
    ctx.count('streams', 'width')
    program_suite(ctx, conv, prog, pending)
  flush(ctx, drv, conv, pending)
  n = 520 if not thorough else 8000
  done = 0
  while done < n:
    if ctx.elapsed() > (60 if not thorough else 1000):
      ctx.notes.append(f'time budget reached after {done} programs')
      break
    for _ in range(min(40, n - done)):
      r = ctx.rng.random()
      depth = ctx.rng.choice([1, 1, 2, 2, 3, 4])
      flavour = 'decl_only' if r < 0.25 else None
      prog = S.gen_prog(ctx.rng, depth=depth, flavour=flavour)
      ctx.count('prog_depth', S.depth_of(prog))
      ctx.count('prog_class', 'decl-only' if agree_class(prog) else ('read-only' if S.read_only(prog) else 'stateful'))
      program_suite(ctx, conv, prog, pending)
      done += 1
      if len(ctx.samples) < 3 and pending:
        ctx.sample(S.public(pending[0][0]))
    flush(ctx, drv, conv, pending)
  ctx.extra['programs'] = done
  ctx.extra['driver_calls'] = drv.calls
  if ctx.dist.get('impl_result', {}).get('ok', 0) < 0.3 * max(ctx.evaluations, 1):
    raise InfraError('generator degenerated: fewer than 30% of the cases return normally')


def replay(ctx, obj):
  drv = LeanDriver('drv_c02')
  conv = S.probe_conventions()
  run_case(ctx, drv, conv, obj.get('case', obj))
  for v in ctx.violations:
    print('  ', v['key'], '-', v['what'][:300])
  return bool(ctx.violations)
