"""C09 — Random keys are deterministic, position-addressed and never reused.

Theorems: lean/Flax/Props/C09.lean over lean/Flax/Model/Rng.lean.

Correspondence.  The Lean model returns *symbolic* keys (seed | foldStatic k <sha1 preimage bytes> |
foldIn k n | split k shape idx).  `KeyEval` turns such a term into a real JAX key with an evaluator that
shares nothing with flax (hashlib.sha1 over the model's preimage bytes -> first 4 bytes big endian ->
jax.random.fold_in; jax.random.split for split) and the harness compares `jax.random.key_data` bit
for bit with what the real flax hands to user code:
  * Linen: results of `self.make_rng` and of parameter initialisers that return their key, for module
    trees rendered three ways (compact modules, setup modules, functional-core scopes), plain and
    under `nn.jit`, for both settings of `flax_fix_rng_separator`;
  * functional core: histories of Scope.push / make_rng / rewound on scope handles;
  * NNX: histories of stream calls, split_rngs, vmapped draws, restore_rngs, reseed, fork.
Property oracles (no model involved): re-running gives the same keys; unrelated edits (new siblings,
new streams, variables, reordering) change no other key; no two draws of a run return the same key
unless the property allows it (same seed given to two streams; separator flag off and equal byte
concatenation; a 32-bit truncation collision of SHA-1, which is reported and excused); a missing
stream behaves exactly like 'params' / 'default'; split … restore behaves like one plain draw for the
rest of the stream; reseed restarts like a fresh Rngs.
"""
from __future__ import annotations

import hashlib
import itertools
import json

from harness import compat  # noqa: F401  (must precede flax)
from harness.common import LeanDriver, load_corpus, load_findings

import jax
import numpy as np

import flax
import flax.linen as nn
from flax import errors as flax_errors
from flax import nnx
from flax import core as flax_core
import flax.core.scope as scope_mod

SPEC = {
  'exes': ['drv_c09'],
  'rule': (
    'Linen: random module programs (draw / child call with re-entry / nn.jit-ted method, depth<=3, names incl. '
    'the adversarial ("ab","c")/("a","bc"), "", non-ASCII and control-character names), 1-4 streams with and '
    'without params, typed and legacy seed keys, equal seeds on different streams, both separator settings, '
    'init (initialiser keys) and apply, each rendered as compact modules, setup modules and core scopes; every '
    'key handed out is compared bit for bit with the independent evaluation of the model term. Core: Scope '
    'push/make_rng/rewound histories. NNX: Rngs histories (call/split/lanes/restore/reseed/fork). A case is '
    'non-trivial when at least one key was handed out; distinct = distinct canonical JSON of the case.'
  ),
  'trusted_base': [
    'hand-written Lean model lean/Flax/Model/Rng.lean (tied to /repo by this correspondence run)',
    'harness/props/c09.py (generators, the three Linen renderers, KeyEval), harness/compat.py (JAX shim)',
    'A-RNG: jax.random.fold_in / split / key are collision-free constructors; hashlib.sha1 is SHA-1',
  ],
  'assumptions': [
    'A-RNG: threefry fold_in/split treated as free constructors (real collisions have probability ~2^-32 per pair by '
    'design of the 4-byte truncation); theorems are about SHA-1 preimages and symbolic key terms',
    'injectivity with the separator needs NUL-free scope names and counts whose big-endian bytes contain no zero byte '
    '(every count < 256); the excluded point is exhibited by theorem separator_not_injective_beyond_65536 and was '
    'reproduced on the real code (65537th draw in scope a == 1st draw in its child "\\x01")',
    'the closed-form Linen theorems (position function, inertness, no reuse, fallback) quantify over nn.jit-free '
    'programs; what nn.jit does to the streams (fork_rngs, shared counters) is in the executable model, tied by '
    'correspondence (incl. jit cache hits), and its counter bookkeeping by jit_delta_cache_sound',
    'a jit-ted body makes the same draws whenever its module fingerprint is the same (draw counts that depend on '
    'input shapes are outside the model; probe_jit_shape_dependent_draws in the evidence records what the code does)',
    'NNX streams inside nnx.vmap: every lane makes the same calls (counts of a split stream stay uniform)',
    'A-RNG is an over-approximation for split: in the installed JAX jax.random.split(k, n)[i] does not depend on n (the model term split k shape idx does); '
    'no theorem concludes a distinctness from different shapes alone, and the no-reuse oracle identifies lanes by index only',
  ],
  'model_partial': [
    'no theorem is named _partial. For programs with (nested) nn.jit the proved statements are linen_counters_are_path_addressed '
    '(refinement to specProg), no_reuse_within_run_jit and linen_key_count_is_rank_with_jit (position function: the count folded into a key is '
    'its rank among all requests — user draws and fork_rngs draws — at its (scope path, stream); separator on, seeds are key atoms, '
    'NUL-free names, p.size < 256); they assume, like the model, that a jit-ted body makes the same draws whenever it runs (draw counts '
    'independent of input shapes: known finding jit-draw-count-depends-on-input-shape). unrelated_edits_inert is stated for jit-free programs only; '
    'with jit, inertness follows from the rank theorem only for edits that add no request at the same (path, stream)',
    'replay_preserves_aliasing / rerun_equals_first_run live on the counter heap CHeap; jit_call_simulated_by_heap_replay, heap_push_commutes and '
    'heap_draw_commutes tie CHeap to the executable Store machine through the table of counts (Rep / HeapRep); the simulation is proved for '
    'jit-free bodies of the jit-ted call (a nested jit inside the replayed body is not covered)',
    'split_restore_unselected_untouched and split_restore_resumes_rngs are stated for Rngs whose streams are all scalar when split_rngs is called '
    '(squeeze=False); nested / squeezed splits are covered by nnx_no_replay_along_history (one stream) and by correspondence',
  ],
}

FALLBACK_LINEN = 'params'
FALLBACK_NNX = 'default'


# ------------------------------------------------------------------------------------------------
# independent evaluation of model key terms
# ------------------------------------------------------------------------------------------------


def kd(k):
  return tuple(int(x) for x in np.asarray(jax.random.key_data(k)).ravel())


def seed_key(kind, n):
  return jax.random.key(n) if kind == 'typed' else jax.random.PRNGKey(n)


class KeyEval:
  """model term (JSON) -> real key, memoised. seedtab: seed id -> (kind, int)."""

  def __init__(self, seedtab, force_typed=False):
    self.seedtab = seedtab
    self.force_typed = force_typed
    self.memo = {}

  def key(self, t):
    h = json.dumps(t, sort_keys=True)
    if h in self.memo:
      return self.memo[h]
    if 'seed' in t:
      kind, n = self.seedtab[t['seed']]
      k = seed_key('typed' if self.force_typed else kind, n)
    elif 'fs' in t:
      base, hx = t['fs']
      word = int.from_bytes(hashlib.sha1(bytes.fromhex(hx)).digest()[:4], 'big')
      k = jax.random.fold_in(self.key(base), np.uint32(word))
    elif 'fi' in t:
      base, n = t['fi']
      k = jax.random.fold_in(self.key(base), np.uint32(n))
    elif 'sp' in t:
      base, shape, idx = t['sp']
      k = jax.random.split(self.key(base), tuple(shape))[tuple(idx)]
    else:
      raise ValueError(t)
    self.memo[h] = k
    return k

  def data(self, t):
    return kd(self.key(t))


def err_name(e):
  if isinstance(e, flax_errors.InvalidRngError):
    return 'InvalidRng'
  return 'Exception:' + type(e).__name__


_compiled = [0]


def note_compiles(n=1):
  """every ~100 cases that make XLA compile, drop jax's caches (the process otherwise accumulates thousands of executables)"""
  _compiled[0] += n
  if _compiled[0] >= 100:
    _compiled[0] = 0
    import gc

    jax.clear_caches()
    gc.collect()


class sep_flag:
  """sets flax_fix_rng_separator for the duration of a case and restores it"""

  def __init__(self, value):
    self.value = value

  def __enter__(self):
    self.old = flax.config.flax_fix_rng_separator
    flax.config.update('flax_fix_rng_separator', self.value)

  def __exit__(self, *a):
    flax.config.update('flax_fix_rng_separator', self.old)


# ------------------------------------------------------------------------------------------------
# Linen programs: statements ('draw', s) | ('sub', name, body) | ('jit', body) | ('var', name)
# ------------------------------------------------------------------------------------------------


def strip_vars(stmts):
  out = []
  for s in stmts:
    if s[0] == 'var':
      continue
    if s[0] == 'sub':
      out.append(['sub', s[1], strip_vars(s[2])])
    elif s[0] == 'jit':
      out.append(['jit', strip_vars(s[1])])
    else:
      out.append(list(s))
  return out


def has_jit(stmts):
  return any(s[0] == 'jit' or (s[0] == 'sub' and has_jit(s[2])) for s in stmts)


def n_draws(stmts):
  return sum(1 if s[0] == 'draw' else n_draws(s[2]) if s[0] == 'sub' else n_draws(s[1]) if s[0] == 'jit' else 0 for s in stmts)


def depth(stmts):
  d = 0
  for s in stmts:
    if s[0] == 'sub':
      d = max(d, 1 + depth(s[2]))
    elif s[0] == 'jit':
      d = max(d, depth(s[1]))
  return d


def _key_out(k):
  return jax.random.key_data(k)


def _init_returning_key(key):
  return jax.random.key_data(key)


class _Annot:
  """static annotation of the bodies one module executes: child body indices and jit method ids"""

  def __init__(self, bodies):
    self.kids = {}
    self.kids_in_jit = {}
    self.jits = []
    self.nparam = 0
    self.bodies = [self.annotate(b, in_jit=False) for b in bodies]

  def annotate(self, stmts, in_jit):
    out = []
    for s in stmts:
      if s[0] == 'draw':
        out.append(('draw', s[1], -1 if in_jit else self.nparam))
        self.nparam += 0 if in_jit else 1
      elif s[0] == 'var':
        out.append(('var', s[1]))
      elif s[0] == 'sub':
        # equal jit-ted bodies share one jit-ted method (one trace cache): a module that calls the same jit-ted method from several
        # entry points; for that, equal child bodies called from *inside* jit-ted bodies share a child method.  Child calls outside
        # jit-ted bodies always get their own method (their draws may be rendered as uniquely named parameters).
        lst = self.kids.setdefault(s[1], [])
        if in_jit:
          seen = self.kids_in_jit.setdefault(s[1], {})
          key = json.dumps(s[2])
          if key not in seen:
            lst.append(s[2])
            seen[key] = len(lst) - 1
          out.append(('sub', s[1], seen[key]))
        else:
          lst.append(s[2])
          out.append(('sub', s[1], len(lst) - 1))
      elif s[0] == 'jit':
        ann = self.annotate(s[1], in_jit=True)
        if ann not in self.jits:
          self.jits.append(ann)
        out.append(('jit', self.jits.index(ann)))
    return out


def compact_supported(stmts):
  """compact rendering: a jit body may only draw (it becomes a non-compact jitted method)"""
  for s in stmts:
    if s[0] == 'jit':
      if any(x[0] != 'draw' for x in s[1]):
        return False
    elif s[0] == 'sub' and not compact_supported(s[2]):
      return False
  return True


_cls_counter = itertools.count()


def build_class(style, bodies, use_param):
  """A Module class whose call number i (compact: __call__(i); setup: run<i>()) executes bodies[i] and returns the
  list of key data handed out, in execution order."""
  an = _Annot(bodies)
  kid_classes = {name: build_class(style, bs, use_param) for name, bs in an.kids.items()}

  def execute(self, ann, kids, allow_param):
    out = []
    for s in ann:
      if s[0] == 'draw':
        if allow_param and use_param and s[1] == FALLBACK_LINEN:
          out.append(self.param(f'p__{s[2]}', _init_returning_key))
        else:
          out.append(_key_out(self.make_rng(s[1])))
      elif s[0] == 'var':
        if allow_param:
          self.variable('aux', 'v__' + s[1], lambda: 0)
      elif s[0] == 'sub':
        if style == 'compact':
          if s[1] not in kids:
            kids[s[1]] = kid_classes[s[1]](name=s[1])
          out.extend(kids[s[1]](s[2]))
        else:
          out.extend(getattr(getattr(self, s[1]), f'run{s[2]}')())
      elif s[0] == 'jit':
        out.extend(getattr(self, f'jit{s[1]}')())
    return out

  ns = {}
  for k, ann in enumerate(an.jits):
    def jm(self, _ann=ann):
      return tuple(execute(self, _ann, {}, False))
    jm.__name__ = f'jit{k}'
    ns[f'jit{k}'] = nn.jit(jm)
  if style == 'compact':
    def call(self, i):
      return execute(self, an.bodies[i], {}, True)
    call.__name__ = '__call__'
    ns['__call__'] = nn.compact(call)
  else:
    def setup(self):
      for name, cls in kid_classes.items():
        setattr(self, name, cls())
    ns['setup'] = setup
    for i, ann in enumerate(an.bodies):
      def rm(self, _ann=ann):
        return execute(self, _ann, {}, False)
      rm.__name__ = f'run{i}'
      ns[f'run{i}'] = rm
  return type(f'C09{style.capitalize()}{next(_cls_counter)}', (nn.Module,), ns)


def exec_core(scope, stmts, use_param, ctr):
  out = []
  for s in stmts:
    if s[0] == 'draw':
      if use_param and s[1] == FALLBACK_LINEN:
        ctr[0] += 1
        out.append(scope.param(f'p__{ctr[0]}', _init_returning_key))
      else:
        out.append(_key_out(scope.make_rng(s[1])))
    elif s[0] == 'var':
      ctr[0] += 1
      scope.variable('aux', f'v__{s[1]}_{ctr[0]}', lambda: 0)
    elif s[0] == 'sub':
      out.extend(exec_core(scope.push(s[1], reuse=True), s[2], use_param, ctr))
    else:
      raise ValueError('jit has no functional-core rendering')
  return out


def make_seeds(seeds):
  return {name: seed_key(kind, n) for name, n, kind in seeds}


def _canon_out(out):
  return [tuple(int(x) for x in np.asarray(o).ravel()) for o in out]


class LinenRunner:
  """Runs one program (list of entry bodies) on the real flax in a given style; classes are built once so that a
  second run exercises nn.jit's cache-hit path."""

  def __init__(self, style, bodies, mode):
    self.style = style
    self.bodies = bodies
    self.mode = mode
    self.use_param = mode == 'init'
    self.cls = build_class(style, bodies, self.use_param) if style != 'core' else None

  def run(self, seeds, entry=0):
    rngs = make_seeds(seeds)
    try:
      if self.style == 'core':
        fn = lambda scope: exec_core(scope, self.bodies[entry], self.use_param, [0])
        if self.mode == 'init':
          out, _ = flax_core.init(fn)(rngs) if rngs else flax_core.apply(fn, mutable=True)({}, rngs=None)
        else:
          out, _ = flax_core.apply(fn, mutable=True)({}, rngs=rngs)
      else:
        m = self.cls()
        kw = {} if self.style == 'compact' else {'method': f'run{entry}'}
        args = (entry,) if self.style == 'compact' else ()
        if self.mode == 'init' and rngs:
          out, _ = m.init_with_output(rngs, *args, **kw)
        else:
          out, _ = m.apply({}, *args, rngs=rngs, mutable=True, **kw)
      return ('ok', _canon_out(out))
    except Exception as e:  # every exception raised by flax is an observation
      return ('err', err_name(e))


# ---- the property statement, evaluated syntactically: which position does each draw have? ----------


def nat_bytes(n):
  return n.to_bytes((n.bit_length() + 7) // 8, 'big')


def label_draws(stmts, seeds):
  """One label per draw in execution order: (stream after fallback, base context, names since the base, count).
  Also returns the spec preimages (sep off / sep on) and the base seed identity for the excusal rules."""
  present = [s[0] for s in seeds]
  seedval = {s[0]: (s[1]) for s in seeds}
  counters = {}
  labels = []

  def eff(s):
    return s if s in present else (FALLBACK_LINEN if FALLBACK_LINEN in present else None)

  def bump(path, s):
    counters[(path, s)] = counters.get((path, s), 0) + 1
    return counters[(path, s)]

  def walk(stmts, path, ctx, rel):
    # path: names from the root (addresses the counters); ctx: per-stream fork context; rel: names since the fork
    for st in stmts:
      if st[0] == 'draw':
        s = eff(st[1])
        if s is None:
          raise KeyError('invalid')
        j = bump(path, s)
        labels.append({'stream': s, 'path': path, 'ctx': ctx.get(s, ()), 'rel': rel, 'count': j, 'seed': seedval[s]})
      elif st[0] == 'sub':
        walk(st[2], path + (st[1],), ctx, rel + (st[1],))
      elif st[0] == 'jit':
        ctx2 = {}
        for s in present:
          j = bump(path, s)
          ctx2[s] = ctx.get(s, ()) + ((rel, j),)
        walk(st[1], path, ctx2, ())

  try:
    walk(stmts, (), {}, ())
  except KeyError:
    return None
  return labels


def label_id(l):
  return json.dumps([l['stream'], list(l['path']), [[list(r), j] for r, j in l['ctx']], l['count']])


def spec_words(l, sep):
  """the sequence of 32-bit words the property says are folded into the seed for this position"""

  def word(names, j):
    pre = b''
    for n in names:
      pre += (b'\0' if sep else b'') + n.encode('utf-8')
    pre += (b'\0' if sep else b'') + nat_bytes(j)
    return pre

  pres = [word(r, j) for r, j in l['ctx']] + [word(l['rel'], l['count'])]
  return pres


def check_distinct(ctx, case, labels, outs, sep):
  """no two draws of a run return the same key, except where the property allows it"""
  seen = {}
  for l, o in zip(labels, outs):
    if o in seen:
      l0 = seen[o]
      if l0['seed'] != l['seed'] or l0['seed'] is None:
        pass  # different seeds: never allowed
      else:
        p0, p1 = spec_words(l0, sep), spec_words(l, sep)
        if p0 == p1 and not sep:
          ctx.count('excused_duplicates', 'no-separator-concatenation' if l0['stream'] == l['stream'] else 'same-seed-streams')
          continue
        if p0 == p1 and sep and l0['stream'] != l['stream']:
          ctx.count('excused_duplicates', 'same-seed-streams')
          continue
        w0 = [hashlib.sha1(p).digest()[:4] for p in p0]
        w1 = [hashlib.sha1(p).digest()[:4] for p in p1]
        if w0 == w1 and p0 != p1:
          ctx.count('excused_duplicates', 'sha1-32bit-truncation')
          continue
      ctx.violation(
        'linen-key-reuse', f'two draws of one run returned the same key {o}: positions {label_id(l0)} and {label_id(l)}',
        dict(case, positions=[label_id(l0), label_id(l)]),
      )
      return False
    seen[o] = l
  return True


# ---- generators --------------------------------------------------------------------------------------

NAMES_PLAIN = ['a', 'b', 'c', 'ab', 'bc', 'A', 'Dense_0', 'Dense_1', 'x1']
NAMES_ODD = ['', 'é', 'a b', '\x01', 'a/b', '0', 'params', 'abc']
STREAMS = ['params', 'dropout', 'noise', 'x']


def gen_body(rng, d, names, allow_jit, in_jit=False, budget=None):
  budget = budget if budget is not None else [12]
  n = rng.randrange(1, 5)
  out = []
  used = []
  for _ in range(n):
    if budget[0] <= 0:
      break
    budget[0] -= 1
    r = rng.random()
    if r < 0.5 or d == 0:
      out.append(['draw', rng.choice(STREAMS)])
    elif r < 0.88 or not allow_jit:
      name = rng.choice(used) if used and rng.random() < 0.35 else rng.choice(names)
      used.append(name)
      out.append(['sub', name, gen_body(rng, d - 1, names, allow_jit, in_jit, budget)])
    else:
      if rng.random() < 0.5:
        body = [['draw', rng.choice(STREAMS)] for _ in range(rng.randrange(1, 4))]
      else:
        body = gen_body(rng, d - 1, names, False, True, budget)
      out.append(['jit', body])
  return out


def gen_seeds(rng):
  k = rng.choice([1, 2, 2, 3, 4])
  streams = rng.sample(STREAMS, k)
  if rng.random() < 0.7 and 'params' not in streams:
    streams[0] = 'params'
  rng.shuffle(streams)
  kind_all = rng.choice(['typed', 'legacy', 'mixed'])
  return [[s, rng.randrange(0, 5), (rng.choice(['typed', 'legacy']) if kind_all == 'mixed' else kind_all)] for s in streams]


def gen_adversarial(rng):
  """paths whose byte concatenations coincide: ('ab','c') / ('a','bc') / ('abc',) ..."""
  s = rng.choice(STREAMS[:2])
  forms = [['ab', 'c'], ['a', 'bc'], ['abc'], ['a', 'b', 'c'], ['', 'abc'], ['ab', '', 'c']]
  chosen = rng.sample(forms, rng.randrange(2, 4))
  body = []
  for path in chosen:
    inner = [['draw', s]] * rng.randrange(1, 3)
    for name in reversed(path):
      inner = [['sub', name, inner]]
    body += inner
  rng.shuffle(body)
  return body


def edit_program(rng, stmts, seeds):
  """unrelated edits: new siblings under fresh names, draws on a new stream, variables, reordering of independent
  statements, removal of a never-requested stream"""
  seeds = [list(s) for s in seeds]
  stmts = json.loads(json.dumps(stmts))
  fresh = itertools.count()
  kinds = []

  def bodies(stmts, acc, in_jit):
    acc.append((stmts, in_jit))
    for s in stmts:
      if s[0] == 'sub':
        bodies(s[2], acc, in_jit)
      elif s[0] == 'jit':
        bodies(s[1], acc, True)
    return acc

  for _ in range(rng.randrange(1, 5)):
    allb = bodies(stmts, [], False)
    body, in_jit = rng.choice(allb)
    r = rng.random()
    pos = rng.randrange(0, len(body) + 1)
    if r < 0.3:
      body.insert(pos, ['sub', f'zz{next(fresh)}', [['draw', rng.choice([s[0] for s in seeds])]] * rng.randrange(1, 3)])
      kinds.append('new-sibling')
    elif r < 0.5:
      if not any(s[0] == 'extra' for s in seeds):
        seeds.insert(rng.randrange(0, len(seeds) + 1), ['extra', rng.randrange(0, 5), 'typed'])
      body.insert(pos, ['draw', 'extra'])
      kinds.append('new-stream')
    elif r < 0.65:
      if not in_jit:
        body.insert(pos, ['var', f'v{next(fresh)}'])
        kinds.append('new-variable')
    elif r < 0.9:
      if len(body) >= 2:
        i = rng.randrange(0, len(body) - 1)
        a, b = body[i], body[i + 1]
        if _independent(a, b, seeds):
          body[i], body[i + 1] = b, a
          kinds.append('reorder')
    else:
      requested = _requested(stmts)
      removable = [s for s in seeds if s[0] not in requested and s[0] != FALLBACK_LINEN]
      if removable and len(seeds) > 1 and not has_jit(stmts):
        seeds.remove(rng.choice(removable))
        kinds.append('remove-stream')
  return stmts, seeds, kinds


def _requested(stmts):
  out = set()
  for s in stmts:
    if s[0] == 'draw':
      out.add(s[1])
    elif s[0] == 'sub':
      out |= _requested(s[2])
    elif s[0] == 'jit':
      out |= _requested(s[1])
  return out


def _independent(a, b, seeds):
  present = [s[0] for s in seeds]

  def eff(s):
    return s if s in present else FALLBACK_LINEN

  if a[0] == 'jit' or b[0] == 'jit':
    return False
  if a[0] == 'var' or b[0] == 'var':
    return True
  if a[0] == 'sub' and b[0] == 'sub':
    return a[1] != b[1]
  if a[0] == 'draw' and b[0] == 'draw':
    return eff(a[1]) != eff(b[1])
  return True


def fallback_twin(stmts, seeds):
  present = [s[0] for s in seeds]
  out = []
  for s in stmts:
    if s[0] == 'draw':
      out.append(['draw', s[1] if s[1] in present else FALLBACK_LINEN])
    elif s[0] == 'sub':
      out.append(['sub', s[1], fallback_twin(s[2], seeds)])
    elif s[0] == 'jit':
      out.append(['jit', fallback_twin(s[1], seeds)])
    else:
      out.append(s)
  return out


# ---- one Linen case ------------------------------------------------------------------------------------


def seedtab_of(seeds):
  return {i: (kind, n) for i, (name, n, kind) in enumerate(seeds)}


def model_seeds(seeds):
  return [[name, i] for i, (name, n, kind) in enumerate(seeds)]


def linen_reqs(case):
  cfg = {'sep': case['sep'], 'fallback': FALLBACK_LINEN}
  return [('linen_prog', [cfg, model_seeds(case['seeds']), strip_vars(case['bodies'][e])]) for e in case.get('entries', [0])]


def check_linen_case(ctx, drv, case, oracles=True, mouts=None):
  """case: {'kind':'linen-prog','sep','seeds','bodies','mode','entries'?}"""
  sep = case['sep']
  seeds = case['seeds']
  bodies = case['bodies']
  mode = case.get('mode', 'apply')
  entries = case.get('entries', [0])
  stripped = [strip_vars(b) for b in bodies]
  if mouts is None:
    mouts = drv.run(linen_reqs(case))
  ev = KeyEval(seedtab_of(seeds))
  want = []
  for mo in mouts:
    if mo[0] != 'ok':
      raise RuntimeError(f'driver error {mo}')
    if 'err' in mo[1]:
      want.append(('err', mo[1]['err']))
    else:
      want.append(('ok', [ev.data(t) for t in mo[1]['keys']]))
  jit = any(has_jit(b) for b in bodies)
  styles = case.get('styles') or (
    (['compact'] if all(compact_supported(b) for b in bodies) else []) + ['setup'] + ([] if jit else ['core'])
  )
  ok = True
  results = {}
  with sep_flag(sep):
    for style in styles:
      runner = LinenRunner(style, bodies, mode)
      got = [runner.run(seeds, e) for e in entries]
      results[style] = got
      ctx.count('linen_style', style)
      if oracles and style == styles[0]:
        again = [runner.run(seeds, e) for e in entries]
        if again != got:
          ctx.violation(
            'linen-rerun-differs' + ('-jit' if jit else ''),
            f'running the same program twice with the same seeds gave different keys ({style}): {got} then {again}', case,
          )
          return False
    n_keys = 0
    for e_i, e in enumerate(entries):
      labels = label_draws(stripped[e], seeds)
      for style in styles:
        got = results[style][e_i]
        # property oracles on the implementation
        if labels is None:
          if got != ('err', 'InvalidRng'):
            ctx.violation('linen-missing-stream-not-rejected', f'a draw from a stream that is neither supplied nor backed by params returned {got}', case)
            return False
          continue
        if got[0] != 'ok':
          ctx.violation('linen-raises', f'{style} rendering raised {got[1]} although every stream resolves', case)
          return False
        if len(got[1]) != len(labels):
          raise RuntimeError('harness bug: label/output length mismatch')
        n_keys += len(got[1])
        if oracles and not check_distinct(ctx, dict(case, style=style), labels, got[1], sep):
          return False
      # all renderings of the same program agree (three voices)
      vals = [results[s][e_i] for s in styles]
      if any(v != vals[0] for v in vals[1:]):
        ctx.violation(
          'linen-renderings-differ', f'the same module tree gives different keys as {styles}: {vals}', case,
        )
        return False
      if vals[0] != want[e_i]:
        ok = False
        ctx.disagreements_checked += 1
        bad = None
        if vals[0][0] == 'ok' and want[e_i][0] == 'ok':
          bad = next((i for i, (x, y) in enumerate(zip(vals[0][1], want[e_i][1])) if x != y), None)
        ctx.violation(
          'linen-model-mismatch' + ('-jit' if jit else ''),
          f'keys handed out by flax differ from the model (entry {e}, first differing draw #{bad}: '
          f'{label_id(labels[bad]) if (labels and bad is not None) else None}): impl {str(vals[0])[:200]} model {str(want[e_i])[:200]}',
          case, concrete=False,
        )
        return False
  ctx.case({k: case[k] for k in ('kind', 'sep', 'seeds', 'bodies', 'mode') if k in case}, nontrivial=n_keys > 0)
  ctx.count('keys_compared_with_model', 'linen', n_keys)
  return ok


def run_labelled(runner, seeds, stmts, entry=0):
  got = runner.run(seeds, entry)
  labels = label_draws(strip_vars(stmts), seeds)
  if got[0] != 'ok' or labels is None:
    return None
  return {label_id(l): o for l, o in zip(labels, got[1])}


def check_linen_edits(ctx, rng, case):
  """unrelated edits change no other key (implementation against implementation)"""
  sep, seeds, stmts, mode = case['sep'], case['seeds'], case['bodies'][0], case.get('mode', 'apply')
  if label_draws(strip_vars(stmts), seeds) is None:
    return
  stmts2, seeds2, kinds = edit_program(rng, stmts, seeds)
  if not kinds or label_draws(strip_vars(stmts2), seeds2) is None:
    return
  style = 'setup' if has_jit(stmts) and not compact_supported(stmts2) else rng.choice(['compact', 'setup'] if compact_supported(stmts2) and compact_supported(stmts) else ['setup'])
  with sep_flag(sep):
    a = run_labelled(LinenRunner(style, [stmts], mode), seeds, stmts)
    b = run_labelled(LinenRunner(style, [stmts2], mode), seeds2, stmts2)
  if a is None or b is None:
    return
  for k in kinds:
    ctx.count('edit_kind', k)
  common = [k for k in a if k in b]
  ctx.case({'kind': 'linen-edit', 'sep': sep, 'seeds': seeds, 'a': stmts, 'b': stmts2, 'seeds_b': seeds2}, nontrivial=bool(common))
  for k in common:
    if a[k] != b[k]:
      c2 = {'kind': 'linen-edit', 'sep': sep, 'seeds': seeds, 'seeds_b': seeds2, 'a': stmts, 'b': stmts2, 'mode': mode, 'style': style}
      ctx.violation(
        'linen-unrelated-edit-changes-key',
        f'edits {kinds} changed the key at position {k}: {a[k]} -> {b[k]}', c2,
      )
      return


def check_linen_fallback(ctx, case):
  sep, seeds, stmts, mode = case['sep'], case['seeds'], case['bodies'][0], case.get('mode', 'apply')
  twin = fallback_twin(stmts, seeds)
  if twin == stmts or not any(s[0] == FALLBACK_LINEN for s in seeds):
    return
  style = 'setup'
  with sep_flag(sep):
    a = LinenRunner(style, [stmts], mode).run(seeds)
    b = LinenRunner(style, [twin], mode).run(seeds)
  ctx.count('fallback_twin', 'run')
  ctx.case({'kind': 'linen-fallback', 'sep': sep, 'seeds': seeds, 'a': stmts}, nontrivial=True)
  if a != b:
    ctx.violation(
      'linen-fallback-not-params', f'draws from a missing stream do not behave like draws from {FALLBACK_LINEN!r}: {a} vs {b}',
      dict(case, kind='linen-fallback'),
    )


# ---- functional core histories ---------------------------------------------------------------------------


def gen_core_ops(rng, n):
  ops = []
  nscopes = 1
  names = NAMES_PLAIN[:5] + ['', 'é']
  for _ in range(n):
    r = rng.random()
    if r < 0.3:
      ops.append(['push', rng.randrange(nscopes), rng.choice(names)])
      nscopes += 1
    elif r < 0.9:
      ops.append(['rng', rng.randrange(nscopes), rng.choice(STREAMS)])
    else:
      ops.append(['rewound', rng.randrange(nscopes), rng.random() < 0.5])
      nscopes += 1
  return ops


def core_reqs(case):
  cfg = {'sep': case['sep'], 'fallback': FALLBACK_LINEN}
  return [('linen_ops', [cfg, model_seeds(case['seeds']), case['ops']])]


def check_core_ops(ctx, drv, case, mouts=None):
  sep, seeds, ops = case['sep'], case['seeds'], case['ops']
  (mo,) = mouts if mouts is not None else drv.run(core_reqs(case))
  if mo[0] != 'ok':
    raise RuntimeError(f'driver error {mo}')
  ev = KeyEval(seedtab_of(seeds))
  want = []
  for o in mo[1]:
    want.append(('key', ev.data(o['key'])) if 'key' in o else ('sid', o['sid']) if 'sid' in o else ('err', o['err']))

  def body(root):
    scopes = [root]
    out = []
    for op in ops:
      try:
        if op[0] == 'push':
          scopes.append(scopes[op[1]].push(op[2], reuse=True))
          out.append(('sid', len(scopes) - 1))
        elif op[0] == 'rng':
          out.append(('key', kd(scopes[op[1]].make_rng(op[2]))))
        elif op[0] == 'rewound':
          scopes.append(scopes[op[1]].rewound(op[2]))
          out.append(('sid', len(scopes) - 1))
      except Exception as e:
        out.append(('err', err_name(e)))
    return out

  with sep_flag(sep):
    got, _ = flax_core.apply(body, mutable=True)({}, rngs=make_seeds(seeds))
    again, _ = flax_core.apply(body, mutable=True)({}, rngs=make_seeds(seeds))
  nkeys = sum(1 for g in got if g[0] == 'key')
  ctx.case(case, nontrivial=nkeys > 0)
  ctx.count('keys_compared_with_model', 'core', nkeys)
  ctx.count('core_ops_len', len(ops) // 5 * 5)
  if again != got:
    ctx.violation('core-rerun-differs', 'the same Scope history gave different keys on a second run', case)
    return
  # oracle: without rewind_rngs=True no key is handed out twice (same-seed streams excused)
  if not any(op[0] == 'rewound' and op[2] for op in ops) and len({s[1] for s in seeds}) == len(seeds) and sep:
    keys = [g[1] for g in got if g[0] == 'key']
    if len(set(keys)) != len(keys):
      ctx.violation('core-key-reuse', f'a Scope history without rewind_rngs handed out a key twice: {keys}', case)
      return
  if got != want:
    ctx.disagreements_checked += 1
    bad = next((i for i, (x, y) in enumerate(zip(got, want)) if x != y), None)
    ctx.violation('core-model-mismatch', f'Scope history: op #{bad} {ops[bad] if bad is not None else None}: impl {got[bad] if bad is not None else got} model {want[bad] if bad is not None else want}', case, concrete=False)


# ---- _fold_in_static directly (skipped if the private helper is renamed) ------------------------------------


def check_encode(ctx, drv, cases):
  f = getattr(scope_mod, '_fold_in_static', None)
  if f is None:
    ctx.count('encode', 'skipped-helper-missing', len(cases))
    return
  outs = drv.run([('fold_static', [c['sep'], c['data']]) for c in cases])
  ev = KeyEval({0: ('typed', 7)})
  for c, mo in zip(cases, outs):
    with sep_flag(c['sep']):
      try:
        got = ('ok', kd(f(jax.random.key(7), tuple(c['data']))))
      except Exception as e:
        got = ('err', err_name(e))
    want = ('ok', ev.data(mo[1]))
    ctx.case(dict(c, kind='encode'), nontrivial=bool(c['data']))
    ctx.count('encode', 'sep' if c['sep'] else 'nosep')
    if got != want:
      ctx.disagreements_checked += 1
      ctx.violation('fold-in-static-model-mismatch', f'_fold_in_static(key(7), {c["data"]!r}) sep={c["sep"]}: impl {got} model {want}', dict(c, kind='encode'), concrete=False)


# ------------------------------------------------------------------------------------------------
# NNX
# ------------------------------------------------------------------------------------------------


def nnx_err(e):
  if isinstance(e, (AttributeError, KeyError)):
    return 'NoStream'
  if isinstance(e, ValueError) and 'single key' in str(e):
    return 'BatchedKey'
  if isinstance(e, ValueError) and 'reseed' in str(e).lower():
    return 'NonScalarReseed'
  return 'Exception:' + type(e).__name__


def _only_filter(only):
  if only is None:
    return ...
  return tuple(only) if len(only) != 1 else only[0]


def _splits(shape):
  return shape[0] if len(shape) == 1 else tuple(shape)


TERMINAL = ('split', 'lanes', 'reseed')


def run_nnx_impl(seeds, ops, getattr_style=False):
  """seeds: [[name, int, kind]]; returns the list of outputs (stops after a failing split/lanes/reseed)."""
  kw = {name: (n if kind == 'int' else seed_key(kind, n)) for name, n, kind in seeds}
  out = []
  try:
    r = nnx.Rngs(**kw)
  except Exception as e:
    return [('err', nnx_err(e))]
  backups = []
  for op in ops:
    try:
      if op[0] == 'call':
        s = getattr(r, op[1]) if (getattr_style and op[1].isidentifier()) else r[op[1]]
        out.append(('key', kd(s())))
      elif op[0] == 'split':
        b = nnx.split_rngs(r, splits=_splits(op[2]), only=_only_filter(op[1]), squeeze=op[3])
        backups.append(b)
        out.append(('backup', len(backups) - 1))
      elif op[0] == 'lanes':
        batched = [name for name in r if r[name].key.value.shape != ()]
        axes = nnx.StateAxes({tuple(batched): 0, ...: None}) if batched else nnx.StateAxes({...: None})
        calls = list(op[2])

        @nnx.vmap(in_axes=(axes,), out_axes=0, axis_size=op[1][0])
        def body(rr):
          return tuple(jax.random.key_data(rr[n]()) for n in calls)

        res = body(r)
        n = op[1][0]
        out.append(('lanes', [[tuple(int(x) for x in np.asarray(res[c][i]).ravel()) for c in range(len(calls))] for i in range(n)]))
      elif op[0] == 'restore':
        if op[1] >= len(backups):
          out.append(('err', 'BadHandle'))
          continue
        nnx.restore_rngs(backups[op[1]])
        out.append(('unit', None))
      elif op[0] == 'reseed':
        nnx.reseed(r, **{name: n for name, n in op[1]})
        out.append(('unit', None))
      elif op[0] == 'fork':
        fs = nnx.fork(nnx.state(r), _only_filter(op[1]), _splits(op[2]))
        res = {}
        for st, which in ((fs.split_keys, 'key'), (fs.broadcast_keys, 'key'), (fs.split_counts, 'count'), (fs.broadcast_counts, 'count')):
          for path, v in st.flat_state():
            val = v.value
            if which == 'key':
              res.setdefault(path[0], {})['key'] = (tuple(val.shape), tuple(int(x) for x in np.asarray(jax.random.key_data(val)).ravel()))
            else:
              res.setdefault(path[0], {})['count'] = (tuple(val.shape), tuple(int(x) for x in np.asarray(val).ravel()))
        out.append(('forked', res))
    except Exception as e:
      out.append(('err', nnx_err(e)))
      if op[0] in TERMINAL:
        break
  return out


def nnx_reqs(case):
  return [_nnx_req(case['seeds'], case['ops'])[0]]


def _nnx_req(seeds, ops):
  seedtab = {}
  ids = {}

  def sid(n):
    if n not in ids:
      ids[n] = len(ids)
      seedtab[ids[n]] = ('typed', n)
    return ids[n]

  mseeds = [[name, sid(n)] for name, n, kind in seeds]
  mops = []
  for op in ops:
    if op[0] == 'reseed':
      mops.append(['reseed', [[name, sid(n)] for name, n in op[1]]])
    else:
      mops.append(op)
  return ('nnx_ops', [FALLBACK_NNX, mseeds, mops]), seedtab


def model_nnx(drv, seeds, ops, mouts=None):
  """returns outputs in the implementation's canonical form"""
  req, seedtab = _nnx_req(seeds, ops)
  (mo,) = mouts if mouts is not None else drv.run([req])
  if mo[0] != 'ok':
    raise RuntimeError(f'driver error {mo}')
  ev = KeyEval(seedtab, force_typed=True)
  out = []
  for op, o in zip(ops, mo[1]):
    if 'key' in o:
      out.append(('key', ev.data(o['key'])))
    elif 'backup' in o:
      out.append(('backup', o['backup']))
    elif 'lanes' in o:
      out.append(('lanes', [[ev.data(t) for t in lane] for lane in o['lanes']]))
    elif 'unit' in o:
      out.append(('unit', None))
    elif 'forked' in o:
      res = {}
      for name, kv, cv in o['forked']:
        if 'scalar' in kv:
          key = ((), ev.data(kv['scalar']))
        else:
          base, shape = kv['batched']
          arr = jax.random.key_data(jax.random.split(ev.key(base), tuple(shape)))
          key = (tuple(shape), tuple(int(x) for x in np.asarray(arr).ravel()))
        if 'scalar' in cv:
          cnt = ((), (cv['scalar'],))
        else:
          shape, c = cv['batched']
          cnt = (tuple(shape), tuple([c] * int(np.prod(shape))))
        res[name] = {'key': key, 'count': cnt}
      out.append(('forked', res))
    elif 'err' in o:
      out.append(('err', o['err']))
      if op[0] in TERMINAL:
        break
  return out


def gen_nnx_case(rng, n_ops, lanes_budget):
  names = ['default', 'params', 'dropout', 'noise']
  k = rng.choice([1, 2, 3, 3, 4])
  streams = rng.sample(names, k)
  if rng.random() < 0.75 and 'default' not in streams:
    streams[0] = 'default'
  rng.shuffle(streams)
  seeds = [[s, rng.randrange(0, 6), rng.choice(['int', 'int', 'typed', 'legacy'])] for s in streams]
  ops = []
  open_split = None  # (backup id, shape, split stream names)
  nb = 0
  callable_names = names + ['zz']
  for _ in range(n_ops):
    r = rng.random()
    if open_split is None:
      if r < 0.55:
        ops.append(['call', rng.choice(callable_names)])
      elif r < 0.75:
        only = None if rng.random() < 0.3 else rng.sample(streams, rng.randrange(1, len(streams) + 1))
        if rng.random() < 0.2:
          ops.append(['split', only, [1], True])
          nb += 1
          if rng.random() < 0.5:
            ops.append(['call', rng.choice(callable_names)])
            ops.append(['restore', nb - 1])
        else:
          shape = [rng.randrange(1, 4)] if rng.random() < 0.8 else [rng.randrange(1, 3), rng.randrange(1, 3)]
          ops.append(['split', only, shape, False])
          nb += 1
          open_split = (nb - 1, shape)
      elif r < 0.85:
        ops.append(['reseed', [[s, rng.randrange(0, 6)] for s in rng.sample(names, rng.randrange(1, 3))]])
      elif r < 0.93:
        only = None if rng.random() < 0.4 else rng.sample(names, rng.randrange(1, 3))
        ops.append(['fork', only, [rng.randrange(1, 4)] if rng.random() < 0.7 else [2, 2]])
      else:
        if nb:
          ops.append(['restore', rng.randrange(nb)])
    else:
      bid, shape = open_split
      if r < 0.5 and len(shape) == 1 and lanes_budget[0] > 0:
        lanes_budget[0] -= 1
        ops.append(['lanes', shape, [rng.choice(callable_names[:4] if rng.random() < 0.9 else callable_names) for _ in range(rng.randrange(1, 4))]])
      elif r < 0.6:
        ops.append(['call', rng.choice(callable_names)])  # a split stream raises, a broadcast one answers
      elif r < 0.65:
        ops.append(['reseed', [[rng.choice(names), rng.randrange(0, 6)]]])
      else:
        ops.append(['restore', bid])
        open_split = None
  if open_split is not None:
    ops.append(['restore', open_split[0]])
  ops.append(['call', rng.choice(streams)])
  return {'kind': 'nnx-ops', 'seeds': seeds, 'ops': ops}


def _resolve(streams, name):
  return name if name in streams else (FALLBACK_NNX if FALLBACK_NNX in streams else None)


def check_nnx_case(ctx, drv, case, oracles=True, mouts=None):
  seeds, ops = case['seeds'], case['ops']
  got = run_nnx_impl(seeds, ops, getattr_style=case.get('getattr', False))
  want = model_nnx(drv, seeds, ops, mouts)
  nkeys = sum(1 for g in got if g[0] in ('key', 'lanes'))
  ctx.case(case, nontrivial=nkeys > 0)
  ctx.count('keys_compared_with_model', 'nnx', sum(1 if g[0] == 'key' else sum(len(l) for l in g[1]) if g[0] == 'lanes' else 0 for g in got))
  for op in ops[: len(got)]:
    ctx.count('nnx_op', op[0])
  for g in got:
    if g[0] == 'err':
      ctx.count('nnx_err', g[1])
  streams = [s[0] for s in seeds]
  if oracles:
    # determinism
    again = run_nnx_impl(seeds, ops, getattr_style=not case.get('getattr', False))
    if again != got:
      ctx.violation('nnx-rerun-differs', 'the same Rngs history gave different keys on a second run', case)
      return False
    # No key is handed out twice, except where the property allows it.  Every draw gets a provenance
    # (lineage of the stream's *current* key: seed value, or split-of(lineage, count consumed, shape); count; lane) kept by this
    # oracle's own bookkeeping across reseed (restart), split (new lineage) and restore (old lineage, counter and epoch come
    # back — also undoing a reseed made while the split was open).  Equal keys are legitimate iff the provenances are equal
    # and the draws belong to different streams (equal seeds) or to different epochs of one stream (reseeded to the same seed).
    if _well_bracketed(ops):
      st = {r[0]: {'lin': ('seed', r[1]), 'count': 0, 'epoch': (r[0], 0), 'shape': None} for r in seeds}
      n_epoch = [0]
      stack = []
      seen = {}

      def draw(name, lane):
        x = st[name]
        # identity of the key folded into: the scalar stream key, or lane `lane` of a split (jax.random.split(k, n)[i] does not
        # depend on n in the installed JAX, so the shape is not part of the identity; a squeezed split is lane 0)
        ident = x['lin'] if x['shape'] is None else ('lane', x['lin'], lane)
        return (ident, x['count']), x['epoch']

      for op, g in zip(ops, got):
        items = []
        if op[0] == 'call' and g[0] == 'key':
          nm = _resolve(streams, op[1])
          items.append((g[1], nm) + draw(nm, None))
          st[nm]['count'] += 1
        elif op[0] == 'split' and g[0] == 'backup':
          sel = [n for n in streams if op[1] is None or n in op[1]]
          saved = {}
          for n in sel:
            x = st[n]
            saved[n] = dict(x, count=x['count'] + 1)
            lin = ('split', x['lin'], x['count'])
            st[n] = {'lin': ('lane', lin, 0) if op[3] else lin, 'count': 0, 'epoch': x['epoch'], 'shape': None if op[3] else tuple(op[2])}
          stack.append(saved)
        elif op[0] == 'restore' and g[0] == 'unit':
          for n, x in stack.pop().items():
            st[n] = x
        elif op[0] == 'reseed' and g[0] == 'unit':
          for n, v in op[1]:
            if n in st:
              n_epoch[0] += 1
              st[n] = {'lin': ('seed', v), 'count': 0, 'epoch': (n, n_epoch[0]), 'shape': None}
        elif op[0] == 'lanes' and g[0] == 'lanes':
          for ci, nm0 in enumerate(op[2]):
            nm = _resolve(streams, nm0)
            if st[nm]['shape'] is None:
              items.append((g[1][0][ci], nm) + draw(nm, None))  # broadcast stream: one key for all lanes, by design
              if len({lane[ci] for lane in g[1]}) != 1:
                ctx.violation('nnx-broadcast-stream-differs-between-lanes', f'stream {nm!r} is not split but its key differs between lanes', case)
                return False
            else:
              for li, lane in enumerate(g[1]):
                items.append((lane[ci], nm) + draw(nm, li))
            st[nm]['count'] += 1
        for k, nm, prov, ep in items:
          for nm0, prov0, ep0 in seen.get(k, []):
            if prov0 != prov or (nm0 == nm and ep0 == ep):
              ctx.violation(
                'nnx-key-reuse',
                f'key {k} handed out twice in a well-bracketed history: stream {nm0!r} with provenance {prov0} and stream {nm!r} with provenance {prov}', case,
              )
              return False
            ctx.count('excused_duplicates', 'nnx-equal-seed-streams' if nm0 != nm else 'nnx-reseeded-to-same-seed')
          seen.setdefault(k, []).append((nm, prov, ep))
  if got != want:
    ctx.disagreements_checked += 1
    bad = next((i for i, (x, y) in enumerate(zip(got, want)) if x != y), min(len(got), len(want)))
    ctx.violation(
      'nnx-model-mismatch', f'Rngs history: op #{bad} {ops[bad] if bad < len(ops) else None}: impl {str(got[bad] if bad < len(got) else None)[:200]} model {str(want[bad] if bad < len(want) else None)[:200]}',
      case, concrete=False,
    )
    return False
  return True


def _well_bracketed(ops):
  """every restore names the most recent un-restored split, and nothing is restored twice"""
  stack = []
  nb = 0
  for op in ops:
    if op[0] == 'split':
      stack.append(nb)
      nb += 1
    elif op[0] == 'restore':
      if not stack or stack[-1] != op[1]:
        return False
      stack.pop()
  return True


def check_nnx_twins(ctx, case):
  """implementation against implementation: (1) a missing stream behaves exactly like 'default';
  (2) split … lanes … restore leaves every stream as one plain draw would; (3) reseed restarts like a fresh Rngs."""
  seeds, ops = case['seeds'], case['ops']
  streams = [s[0] for s in seeds]
  base = run_nnx_impl(seeds, ops)
  if len(base) != len(ops):
    return
  # (1)
  if FALLBACK_NNX in streams:
    twin = [(['call', _resolve(streams, op[1])] if op[0] == 'call' else (['lanes', op[1], [_resolve(streams, n) for n in op[2]]] if op[0] == 'lanes' else op)) for op in ops]
    if twin != ops:
      ctx.count('nnx_twin', 'fallback')
      if run_nnx_impl(seeds, twin) != base:
        ctx.violation('nnx-fallback-not-default', f'calls on a missing stream do not behave like calls on {FALLBACK_NNX!r}', dict(case, kind='nnx-twin'))
        return
  # (2)
  if _well_bracketed(ops) and not any(o[0] == 'err' for o in base):
    twin, keep = [], []
    sels = []
    for i, op in enumerate(ops):
      if op[0] == 'split':
        sel = streams if op[1] is None else [s for s in streams if s in op[1]]
        for s in sel:
          if not any(s in x for x in sels):
            twin.append(['call', s])
            keep.append(None)
        sels.append(sel)
      elif op[0] == 'restore':
        sels.pop()
      elif not sels:
        twin.append(op)
        keep.append(i)
      elif op[0] == 'lanes':
        # calls on streams that are not split are ordinary (broadcast) draws of those streams
        for n in op[2]:
          s = _resolve(streams, n)
          if s is not None and not any(s in sel for sel in sels):
            twin.append(['call', s])
            keep.append(None)
      elif op[0] == 'call':
        s = _resolve(streams, op[1])
        if s is not None and any(s in sel for sel in sels):
          continue  # a draw from the temporary (squeezed) split key: discarded by restore
        twin.append(op)
        keep.append(i)
      else:
        twin = None
        break
    if twin is not None and len(twin) != len(ops) and not any(op[0] == 'reseed' for op in ops):
      ctx.count('nnx_twin', 'split-restore')
      t = run_nnx_impl(seeds, twin)
      a = [base[i] for i in keep if i is not None]
      b = [t[j] for j, i in enumerate(keep) if i is not None]
      if a != b:
        ctx.violation('nnx-split-restore-does-not-resume', 'after split_rngs … restore_rngs the streams do not continue as after one plain draw', dict(case, kind='nnx-twin'))
        return
  # (3)
  for i, op in enumerate(ops):
    if op[0] == 'reseed' and base[i][0] == 'unit':
      for name, n in op[1]:
        if name not in streams:
          continue
        later = []
        for j in range(i + 1, len(ops)):
          if ops[j][0] in ('split', 'reseed', 'lanes', 'restore'):
            break
          if ops[j][0] == 'call' and _resolve(streams, ops[j][1]) == name and base[j][0] == 'key':
            later.append(base[j][1])
        if later:
          fresh = nnx.Rngs(**{name: n})
          want = [kd(fresh[name]()) for _ in later]
          ctx.count('nnx_twin', 'reseed')
          if want != later:
            ctx.violation('nnx-reseed-does-not-restart', f'after reseed({name}={n}) the stream does not restart like a fresh Rngs: {later} vs {want}', dict(case, kind='nnx-twin'))
            return


# ------------------------------------------------------------------------------------------------
# lifted transforms over a module that owns an attribute sub-module (adopted child), with draws inside and outside the lift
# ------------------------------------------------------------------------------------------------

LIFTS = ['map_variables', 'vmap', 'remat', 'jit']


def _lift_classes(n_own, n_child, s_own, s_child):
  class Inner(nn.Module):
    def plain(self):  # never lifted
      return _key_out(self.make_rng(s_child))

    @nn.compact
    def __call__(self):
      return tuple(_key_out(self.make_rng(s_child)) for _ in range(n_child))

  class Outer(nn.Module):
    inner: nn.Module  # passed from outside, adopted as child 'inner'

    def plain(self):  # never lifted
      return _key_out(self.make_rng(s_own))

    def child_plain(self):  # never lifted
      return self.inner.plain()

    @nn.compact
    def __call__(self):  # lifted when the class is transformed
      own = tuple(_key_out(self.make_rng(s_own)) for _ in range(n_own))
      return own, self.inner()

  return Inner, Outer


def _lifted(cls, lift, streams):
  if lift == 'none':
    return cls
  if lift == 'map_variables':
    return nn.map_variables(cls, 'params', lambda x: x, lambda x: x, mutable=False, init=False)
  if lift == 'vmap':
    return nn.vmap(cls, in_axes=None, out_axes=0, axis_size=2, split_rngs={s: False for s in streams})
  if lift == 'remat':
    return nn.remat(cls)
  if lift == 'jit':
    return nn.jit(cls)
  raise ValueError(lift)


def lift_prog(case, lift):
  """the module program the run amounts to: transforms that neither split nor fork the streams are transparent for keys"""
  body = [['draw', case['s_own']]] * case['n_own'] + [['sub', 'inner', [['draw', case['s_child']]] * case['n_child']]]
  out = []
  for step in case['seq']:
    if step == 'p':
      out.append(['draw', case['s_own']])
    elif step == 'q':
      out.append(['sub', 'inner', [['draw', case['s_child']]]])
    else:
      out += [['jit', body]] if lift == 'jit' else body
  return out


def lift_reqs(case):
  cfg = {'sep': case['sep'], 'fallback': FALLBACK_LINEN}
  return [('linen_prog', [cfg, model_seeds(case['seeds']), lift_prog(case, lift)]) for lift in ['none'] + case['lifts']]


def run_lift_impl(case, lift):
  Inner, Outer = _lift_classes(case['n_own'], case['n_child'], case['s_own'], case['s_child'])
  cls = _lifted(Outer, lift, [r[0] for r in case['seeds']])
  vm = lift == 'vmap'

  def lane0(x, bad):
    a = np.asarray(x)
    if vm:
      if not (a[0] == a[1]).all():
        bad.append(True)
      a = a[0]
    return tuple(int(v) for v in a.ravel())

  try:
    module = cls(inner=Inner())  # built at top level: `inner` is adopted by `module`
    bad = []

    def program(m):
      keys = []
      for step in case['seq']:
        if step == 'p':
          keys.append(_canon_out([m.plain()])[0])
        elif step == 'q':
          keys.append(_canon_out([m.child_plain()])[0])
        else:
          own, child = m()
          keys += [lane0(k, bad) for k in own] + [lane0(k, bad) for k in child]
      return keys

    with sep_flag(case['sep']):
      out = nn.apply(program, module)({}, rngs=make_seeds(case['seeds']))
    if bad:
      return ('err', 'BroadcastStreamDiffersBetweenLanes')
    return ('ok', out)
  except Exception as e:
    return ('err', err_name(e))


def gen_lift_case(rng):
  seeds = gen_seeds(rng)
  if len({r[1] for r in seeds}) < len(seeds):
    seeds = [[r[0], i, r[2]] for i, r in enumerate(seeds)]
  present = [r[0] for r in seeds]
  pool = present + (['x'] if FALLBACK_LINEN in present else [])
  seq = [rng.choice('pqcc') for _ in range(rng.randrange(1, 6))]
  if 'c' not in seq:
    seq.insert(rng.randrange(len(seq) + 1), 'c')
  return {'kind': 'linen-lift', 'sep': rng.random() < 0.5, 'seeds': seeds, 'seq': ''.join(seq), 'n_own': rng.randrange(1, 3), 'n_child': rng.randrange(1, 3),
          's_own': rng.choice(pool), 's_child': rng.choice(pool), 'lifts': rng.sample(LIFTS, 2)}


def check_lift_case(ctx, drv, case, mouts=None):
  mouts = mouts if mouts is not None else drv.run(lift_reqs(case))
  ev = KeyEval(seedtab_of(case['seeds']))
  ref = run_lift_impl(case, 'none')
  ctx.case(case, nontrivial=ref[0] == 'ok')
  ctx.count('lift_seq', ''.join(sorted(set(case['seq']))))
  for lift, mo in zip(['none'] + case['lifts'], mouts):
    if mo[0] != 'ok' or 'err' in mo[1]:
      raise RuntimeError(f'driver error {mo}')
    want = ('ok', [ev.data(t) for t in mo[1]['keys']])
    got = ref if lift == 'none' else run_lift_impl(case, lift)
    ctx.count('lift_transform', lift)
    c2 = dict(case, lift=lift)
    if got[0] != 'ok':
      ctx.violation('linen-lift-raises', f'{lift}: the lifted module raised {got[1]}', c2)
      return False
    ctx.count('keys_compared_with_model', 'linen-lift', len(got[1]))
    # property oracles on the implementation: (1) no key twice in one run; (2) a transform that neither splits nor forks the
    # streams hands out exactly the keys of the un-lifted program (one counter per scope, shared inside and outside the lift)
    labels = label_draws(lift_prog(case, lift), case['seeds'])
    if labels is None or len(labels) != len(got[1]):
      raise RuntimeError('harness bug: label/output length mismatch (lift)')
    if not check_distinct(ctx, c2, labels, got[1], case['sep']):
      return False
    if lift not in ('none', 'jit') and got != ref:
      bad = [i for i, (a, b) in enumerate(zip(got[1], ref[1])) if a != b]
      ctx.violation(
        'linen-lift-not-position-addressed',
        f'{lift} (streams neither split nor forked): draws {bad} ({[label_id(labels[i]) for i in bad[:3]]}) differ from the un-lifted program', c2,
      )
      return False
    if got != want:
      ctx.disagreements_checked += 1
      bad = next((i for i, (x, y) in enumerate(zip(got[1], want[1])) if x != y), None)
      ctx.violation('linen-lift-model-mismatch', f'{lift}: draw #{bad} impl {str(got)[:160]} model {str(want)[:160]}', c2, concrete=False)
      return False
  return True


# ------------------------------------------------------------------------------------------------
# nodes holding several RngStream objects with the same name (parts built with their own nnx.Rngs), shared objects, reseed
# ------------------------------------------------------------------------------------------------


class _Holder(nnx.Module):
  pass


def gen_node_case(rng):
  names = ['dropout', 'params', 'noise', 'default']
  parts = []
  for i in range(rng.randrange(2, 5)):
    k = rng.randrange(1, 4)
    streams = rng.sample(names, k)
    if rng.random() < 0.7 and 'dropout' not in streams:
      streams[0] = 'dropout'  # the same name in several parts is the point
    parent = rng.randrange(i) if i and rng.random() < 0.4 else None
    parts.append({'name': f'part{i}', 'parent': parent, 'streams': [[s, rng.randrange(0, 6), rng.choice(['int', 'typed', 'legacy'])] for s in streams]})
  places = [[f"{p['name']}.{s[0]}", i, s[0]] for i, p in enumerate(parts) for s in p['streams']]
  aliases = []
  for j in range(rng.randrange(0, 3)):
    pl = rng.choice(places)
    aliases.append([f'alias{j}', pl[1], pl[2]])
  allplaces = [pl[0] for pl in places] + [a[0] for a in aliases]
  ops = []
  for _ in range(rng.randrange(3, 12)):
    r = rng.random()
    if r < 0.6:
      ops.append(['call', rng.choice(allplaces)])
    elif r < 0.85:
      ops.append(['reseed', [[n, rng.randrange(0, 6), rng.choice(['int', 'typed'])] for n in rng.sample(names + ['zz'], rng.randrange(1, 3))]])
    else:
      ops.append(['state'])
  ops.append(['reseed', [[rng.choice(names[:2]), rng.randrange(0, 6), 'int']]])
  ops.append(['state'])
  ops += [['call', pl] for pl in allplaces]
  return {'kind': 'nnx-node', 'parts': parts, 'aliases': aliases, 'ops': ops}


def _node_layout(case):
  """object ids (creation order) and places -> object id"""
  objs, places = [], {}
  for i, p in enumerate(case['parts']):
    for s in p['streams']:
      places[f"{p['name']}.{s[0]}"] = len(objs)
      objs.append((i, s[0], s[1], s[2]))
  for an, pi, sname in case['aliases']:
    places[an] = places[f"{case['parts'][pi]['name']}.{sname}"]
  return objs, places


def node_reqs(case):
  objs, places = _node_layout(case)
  ids, seedtab = {}, {}

  def sid(n):
    if n not in ids:
      ids[n] = len(ids)
      seedtab[ids[n]] = ('typed', n)
    return ids[n]

  mobjs = [[i, o[1], sid(o[2])] for i, o in enumerate(objs)]
  mplaces = [[pl, i] for pl, i in places.items()]
  mops = [(['reseed', [[n, sid(v)] for n, v, _ in op[1]]] if op[0] == 'reseed' else op) for op in case['ops']]
  return [('nnx_node', [mobjs, mplaces, mops])], seedtab


def run_node_impl(case):
  objs, places = _node_layout(case)
  root = _Holder()
  holders = []
  for p in case['parts']:
    h = _Holder()
    h.rngs = nnx.Rngs(**{s[0]: (s[1] if s[2] == 'int' else seed_key(s[2], s[1])) for s in p['streams']})
    holders.append(h)
    setattr(root if p['parent'] is None else holders[p['parent']], p['name'], h)
  streams = [holders[o[0]].rngs[o[1]] for o in objs]
  for an, pi, sname in case['aliases']:
    setattr(root, an, holders[pi].rngs[sname])  # the same RngStream object in a second place
  out = []
  for op in case['ops']:
    try:
      if op[0] == 'call':
        out.append(('key', kd(streams[places[op[1]]]())))
      elif op[0] == 'reseed':
        nnx.reseed(root, **{n: (v if k == 'int' else seed_key(k, v)) for n, v, k in op[1]})
        out.append(('unit', None))
      elif op[0] == 'state':
        out.append(('state', [[i, kd(st.key.value), int(st.count.value)] for i, st in enumerate(streams)]))
    except Exception as e:
      out.append(('err', nnx_err(e)))
  return out


def check_node_case(ctx, drv, case, mouts=None):
  objs, places = _node_layout(case)
  reqs, seedtab = node_reqs(case)
  (mo,) = mouts if mouts is not None else drv.run(reqs)
  if mo[0] != 'ok':
    raise RuntimeError(f'driver error {mo}')
  ev = KeyEval(seedtab, force_typed=True)
  want = []
  for o in mo[1]:
    if 'key' in o:
      want.append(('key', ev.data(o['key'])))
    elif 'unit' in o:
      want.append(('unit', None))
    elif 'state' in o:
      want.append(('state', [[i, ev.data(kv['scalar']), cv['scalar']] for i, kv, cv in o['state']]))
    else:
      want.append(('err', o['err']))
  got = run_node_impl(case)
  nkeys = sum(1 for g in got if g[0] == 'key')
  ctx.case(case, nontrivial=nkeys > 0)
  ctx.count('keys_compared_with_model', 'nnx-node', nkeys)
  tags = [o[1] for o in objs]
  ctx.count('node_same_name_objects', max(tags.count(t) for t in set(tags)))
  ctx.count('node_aliases', len(case['aliases']))
  # property oracle, by this harness's own bookkeeping: (seed value, count) per stream *object*
  book = [[o[2], 0] for o in objs]
  for op, g in zip(case['ops'], got):
    if g[0] == 'err':
      ctx.violation('nnx-node-raises', f'{op} raised {g[1]} on a node whose streams are all scalar', case)
      return False
    if op[0] == 'call':
      i = places[op[1]]
      exp = kd(jax.random.fold_in(jax.random.key(book[i][0]), np.uint32(book[i][1])))
      if g[1] != exp:
        ctx.violation(
          'nnx-node-key-not-fold-in', f'{op}: stream object #{i} ({objs[i][1]!r}) returned {g[1]}, but fold_in(key({book[i][0]}), {book[i][1]}) is {exp}', case,
        )
        return False
      book[i][1] += 1
    elif op[0] == 'reseed':
      req = {n: v for n, v, _ in op[1]}
      for i, o in enumerate(objs):
        if o[1] in req:
          book[i] = [req[o[1]], 0]
    elif op[0] == 'state':
      for i, keydata, cnt in g[1]:
        if keydata != kd(jax.random.key(book[i][0])) or cnt != book[i][1]:
          ctx.violation(
            'nnx-reseed-misses-stream',
            f'stream object #{i} (name {objs[i][1]!r}, in part {case["parts"][objs[i][0]]["name"]}) has key {keydata} count {cnt}; '
            f'after the reseeds so far it must have key(seed {book[i][0]}) = {kd(jax.random.key(book[i][0]))} and count {book[i][1]}', case,
          )
          return False
  if got != want:
    ctx.disagreements_checked += 1
    bad = next((i for i, (x, y) in enumerate(zip(got, want)) if x != y), None)
    ctx.violation('nnx-node-model-mismatch', f'op #{bad} {case["ops"][bad] if bad is not None else None}: impl {str(got[bad])[:200]} model {str(want[bad])[:200]}', case, concrete=False)
    return False
  return True


# ------------------------------------------------------------------------------------------------
# split window: restore_rngs resumes every selected stream at (original key, count before the split + 1), exactly
# ------------------------------------------------------------------------------------------------


def gen_restore_window(rng, force_squeeze=None):
  squeeze = (rng.random() < 0.5) if force_squeeze is None else force_squeeze
  return {'kind': 'nnx-restore-window', 'seed': rng.randrange(0, 6), 'other_seed': rng.randrange(6, 9), 'before': rng.randrange(0, 4),
          'inside': rng.randrange(3, 6) if (squeeze and rng.random() < 0.7) else rng.randrange(0, 6), 'squeeze': squeeze,
          'splits': 1 if squeeze else rng.randrange(2, 4), 'other_inside': rng.randrange(0, 3)}


def check_restore_window(ctx, case):
  """Independent bookkeeping, no model: stream `s` (selected) and stream `o` (not selected)."""
  b, m = case['before'], case['inside']
  try:
    r = nnx.Rngs(s=case['seed'], o=case['other_seed'])
    for _ in range(b):
      r.s()
    bk = nnx.split_rngs(r, splits=case['splits'], only='s', squeeze=case['squeeze'])
    if case['squeeze']:
      for _ in range(m):
        r.s()
    elif m:
      @nnx.vmap(in_axes=(nnx.StateAxes({'s': 0, ...: None}),), out_axes=0)
      def body(rr):
        return tuple(jax.random.key_data(rr.s()) for _ in range(m))

      body(r)
    for _ in range(case['other_inside']):
      r.o()
    nnx.restore_rngs(bk)
    key_s, cnt_s = kd(r.s.key.value), int(r.s.count.value)
    key_o, cnt_o = kd(r.o.key.value), int(r.o.count.value)
    nxt = [kd(r.s()) for _ in range(2)]
  except Exception as e:
    ctx.violation('nnx-restore-window-raises', f'split_rngs / restore_rngs window raised {type(e).__name__}', case)
    return False
  ctx.case(case, nontrivial=True)
  ctx.count('restore_window', f"squeeze={case['squeeze']} inside>before+1={m > b + 1}")
  base = jax.random.key(case['seed'])
  want_next = [kd(jax.random.fold_in(base, np.uint32(b + 1 + i))) for i in range(2)]
  if key_s != kd(base) or cnt_s != b + 1 or nxt != want_next:
    ctx.violation(
      'nnx-restore-does-not-resume-at-count-plus-one',
      f'{b} draws, split_rngs(splits={case["splits"]}, squeeze={case["squeeze"]}), {m} draws inside, restore_rngs: the stream has count {cnt_s} '
      f'(must be {b + 1}), key restored: {key_s == kd(base)}, next draws follow fold_in(key, {b + 1}+i): {nxt == want_next}', case,
    )
    return False
  if key_o != kd(jax.random.key(case['other_seed'])) or cnt_o != case['other_inside']:
    ctx.violation('nnx-restore-touches-unselected-stream', f'the unselected stream has count {cnt_o} after the window, it drew {case["other_inside"]} times', case)
    return False
  return True


# ------------------------------------------------------------------------------------------------
# histories of one stream (the machine `srun` of theorem nnx_no_replay_along_history)
# ------------------------------------------------------------------------------------------------


def gen_stream_history(rng):
  ops = []
  open_shape = None
  for _ in range(rng.randrange(2, 10)):
    r = rng.random()
    if open_shape is None:
      if r < 0.5:
        ops.append(['call'])
      elif r < 0.93:
        open_shape = [rng.randrange(1, 4)] if rng.random() < 0.8 else [rng.randrange(1, 3), rng.randrange(1, 3)]
        ops.append(['split', open_shape])
      else:
        ops.append(['restore'])  # nothing to restore
    else:
      if r < 0.5 and len(open_shape) == 1:
        ops.append(['lanes', rng.randrange(1, 4)])
      elif r < 0.57:
        ops.append(['call'])  # a split stream cannot be called outside vmap
      elif r < 0.62:
        ops.append(['split', [2]])  # nor split again
      else:
        ops.append(['restore'])
        open_shape = None
  if open_shape is not None:
    ops.append(['restore'])
  ops.append(['call'])
  return {'kind': 'nnx-stream', 'seed': rng.randrange(0, 6), 'ops': ops}


def stream_reqs(case):
  return [('stream_history', [0, case['ops']])]


def run_stream_impl(seed, ops):
  r = nnx.Rngs(s=seed)
  keys = []
  backups = []
  try:
    for op in ops:
      if op[0] == 'call':
        keys.append(kd(r.s()))
      elif op[0] == 'split':
        backups.append(nnx.split_rngs(r, splits=_splits(op[1])))
      elif op[0] == 'lanes':
        m = op[1]
        n = r.s.key.value.shape[0]

        @nnx.vmap(in_axes=(nnx.StateAxes({...: 0}),), out_axes=0)
        def body(rr):
          return tuple(jax.random.key_data(rr.s()) for _ in range(m))

        res = body(r)
        for i in range(n):
          for t in range(m):
            keys.append(tuple(int(x) for x in np.asarray(res[t][i]).ravel()))
      elif op[0] == 'restore':
        if not backups:
          return ('err', 'BadHandle')
        nnx.restore_rngs(backups.pop())
  except Exception as e:
    return ('err', nnx_err(e))
  return ('ok', keys)


def check_stream_history(ctx, drv, case, mouts=None):
  (mo,) = mouts if mouts is not None else drv.run(stream_reqs(case))
  if mo[0] != 'ok':
    raise RuntimeError(f'driver error {mo}')
  ev = KeyEval({0: ('typed', case['seed'])})
  want = ('err', mo[1]['err']) if 'err' in mo[1] else ('ok', [ev.data(t) for t in mo[1]['keys']])
  got = run_stream_impl(case['seed'], case['ops'])
  ctx.case(case, nontrivial=got[0] == 'ok' and len(got[1]) > 0)
  ctx.count('stream_history', got[0] if got[0] == 'ok' else got[1])
  ctx.count('keys_compared_with_model', 'nnx-stream', len(got[1]) if got[0] == 'ok' else 0)
  if got[0] == 'ok' and len(set(got[1])) != len(got[1]):
    ctx.violation('nnx-stream-key-replayed', f'a history of one stream that the code accepts handed out a key twice: {case["ops"]}', case)
    return False
  if got != want:
    ctx.disagreements_checked += 1
    ctx.violation('nnx-stream-model-mismatch', f'stream history {case["ops"]}: impl {str(got)[:200]} model {str(want)[:200]}', case, concrete=False)
    return False
  return True


# ------------------------------------------------------------------------------------------------
# nn.jit: several jit-ted methods, several applies in one process (regression of finding F11)
# ------------------------------------------------------------------------------------------------


def jit_history_reqs(case):
  cfg = {'sep': case['sep'], 'fallback': FALLBACK_LINEN}
  return [('linen_prog', [cfg, model_seeds(case['seeds']), strip_vars(b)]) for b in case['bodies']]


def check_jit_history(ctx, drv, case, mouts=None):
  """case: {'kind':'jit-history','sep','seeds','bodies':[...entry bodies...],'order':[entry,...]}: the entries are
  applied one after the other on the *same* class; each apply must hand out the keys of a fresh process."""
  sep, seeds, bodies, order = case['sep'], case['seeds'], case['bodies'], case['order']
  outs = mouts if mouts is not None else drv.run(jit_history_reqs(case))
  ev = KeyEval(seedtab_of(seeds))
  want = [('err', o[1]['err']) if 'err' in o[1] else ('ok', [ev.data(t) for t in o[1]['keys']]) for o in outs]
  with sep_flag(sep):
    shared = LinenRunner('setup', bodies, 'apply')
    got_hist = [shared.run(seeds, e) for e in order]
    fresh = [LinenRunner('setup', bodies, 'apply').run(seeds, e) for e in range(len(bodies))]
  ctx.case(case, nontrivial=True)
  ctx.count('jit_history_len', len(order))
  for e, g in zip(order, got_hist):
    if g != fresh[e]:
      ctx.violation(
        'jit-keys-depend-on-process-history',
        f'entry {e} hands out {g} after the applies {order}, but {fresh[e]} on a fresh class (same program, same seeds)', case,
      )
      return False
  for e in range(len(bodies)):
    if fresh[e] != want[e]:
      ctx.disagreements_checked += 1
      ctx.violation('linen-model-mismatch-jit', f'entry {e}: impl {str(fresh[e])[:200]} model {str(want[e])[:200]}', case, concrete=False)
      return False
  return _check_jit_counters(ctx, drv, case, got_hist)


def _check_jit_counters(ctx, drv, case, got_hist):
  """Ties `jitRun` (the delta-cache model of lift.jit) to the code: the counter a jit-ted call leaves behind is read off
  the first key drawn after it (which count was folded in?) and compared with jitRun false (repaired) — and, for the
  diagnosis only, with jitRun true (the cache as shipped, finding F11)."""
  sep, seeds, bodies, order = case['sep'], case['seeds'], case['bodies'], case['order']
  present = [s[0] for s in seeds]
  eff = lambda s: s if s in present else (FALLBACK_LINEN if FALLBACK_LINEN in present else None)
  shapes = []
  for b in bodies:
    ji = [i for i, st in enumerate(b) if st[0] == 'jit']
    if len(ji) != 1 or ji[0] + 1 >= len(b) or any(st[0] != 'draw' for st in b[: ji[0]]) or b[ji[0] + 1][0] != 'draw':
      return True
    shapes.append((b[: ji[0]], b[ji[0]][1], b[ji[0] + 1][1]))
  s = eff(shapes[0][2])
  if s is None or any(eff(sh[2]) != s for sh in shapes) or any(sh[0] != shapes[0][0] for sh in shapes):
    return True
  seedrow = next(r for r in seeds if r[0] == s)
  c = sum(1 for st in shapes[0][0] if eff(st[1]) == s) + 1  # draws before the jit-ted call + the fork's own draw
  ds = [sum(1 for st in sh[1] if st[0] == 'draw' and eff(st[1]) == s) for sh in shapes]
  base = seed_key(seedrow[2], seedrow[1])

  def key_at(j):
    pre = (b'\0' if sep else b'') + nat_bytes(j)
    return kd(jax.random.fold_in(base, np.uint32(int.from_bytes(hashlib.sha1(pre).digest()[:4], 'big'))))

  table = {key_at(j): j for j in range(1, 40)}
  observed = []
  for e, g in zip(order, got_hist):
    if g[0] != 'ok':
      return True
    k = g[1][n_draws(shapes[e][0]) + n_draws(shapes[e][1])]
    if k not in table:
      ctx.violation('jit-counter-not-a-count', f'the key drawn after the jit-ted call of entry {e} is not fold_in_static(seed, [n]) for any n < 40', case)
      return False
    observed.append(table[k] - 1)
  calls = [[e, 0, c] for e in order]
  (m_fixed, m_shared) = drv.run([('jit_run', [False, ds, calls]), ('jit_run', [True, ds, calls])])
  ctx.count('jit_counter_tie', 'checked')
  if observed != m_fixed[1]:
    ctx.disagreements_checked += 1
    hint = ' (equals jitRun true: the delta cache is shared between transformed functions, finding F11)' if observed == m_shared[1] else ''
    ctx.violation(
      'jit-counter-model-mismatch', f'counters after the jit-ted calls {order}: observed {observed}, jitRun false {m_fixed[1]}{hint}', case, concrete=False,
    )
    return False
  return True


def check_jit_alias(ctx, drv, case):
  """Ties the counter-heap model (CHeap: replay on a jit cache hit is an in-place write, theorem replay_preserves_aliasing) to
  the code.  A setup-style module whose child `k` is bound before a jit-ted method draws `m` times in it; afterwards the
  bound child draws once outside the jit-ted method and the count folded into that key tells which counter it read.  Run 1
  traces, run 2 (same class, same seeds) hits the jit cache."""
  sep, seeds, m, s = case['sep'], case['seeds'], case['m'], case['stream']
  body = [['jit', [['sub', 'k', [['draw', s]] * m]]], ['sub', 'k', [['draw', s]]]]
  present = [r[0] for r in seeds]
  eff = s if s in present else FALLBACK_LINEN
  seedrow = next(r for r in seeds if r[0] == eff)
  base = seed_key(seedrow[2], seedrow[1])

  def key_at(j):
    pre = (b'\0' if sep else b'') + b'k' + (b'\0' if sep else b'') + nat_bytes(j)
    return kd(jax.random.fold_in(base, np.uint32(int.from_bytes(hashlib.sha1(pre).digest()[:4], 'big'))))

  table = {key_at(j): j for j in range(1, 40)}
  with sep_flag(sep):
    runner = LinenRunner('setup', [body], 'apply')
    runs = [runner.run(seeds), runner.run(seeds)]
  ctx.case(case, nontrivial=True)
  ctx.count('jit_alias_tie', 'checked')
  observed = []
  for g in runs:
    if g[0] != 'ok' or g[1][-1] not in table:
      ctx.violation('jit-alias-unreadable', f'cannot read the counter of the bound child after the jit-ted call: {str(g)[:200]}', case)
      return False
    observed.append(table[g[1][-1]] - 1)
  (mo,) = drv.run([('cheap_hit', [[[['k'], eff]] * m, ['k'], eff])])
  want = [mo[1]['trace'], mo[1]['hit']]
  if runs[0] != runs[1]:
    hint = ' (the bound child reads the count predicted for a replay by dict.update: the replay did not write in place)' if observed == [mo[1]['trace'], mo[1]['hit_update']] else ''
    ctx.violation('jit-cache-hit-differs-from-traced-run', f'bound child counter after the jit-ted call: traced run {observed[0]}, cache-hit run {observed[1]}{hint}', case)
    return False
  if observed != want:
    ctx.disagreements_checked += 1
    ctx.violation('jit-alias-model-mismatch', f'bound child counter after the jit-ted call: observed {observed}, CHeap model {want}', case, concrete=False)
    return False
  return True


def gen_jit_history(rng):
  seeds = gen_seeds(rng)
  present = [s[0] for s in seeds]
  nb = rng.randrange(2, 4)
  bodies = []
  pre = [['draw', rng.choice(present)] for _ in range(rng.randrange(0, 2))]
  s_post = rng.choice(present)
  for _ in range(nb):
    jb = [['draw', rng.choice([s_post, rng.choice(present)])] for _ in range(rng.randrange(1, 4))]
    if rng.random() < 0.4:
      jb.append(['sub', 'k', [['draw', rng.choice(present)]]])
    bodies.append(pre + [['jit', jb]] + [['draw', s_post]] + [['draw', rng.choice(present)] for _ in range(rng.randrange(0, 2))])
  order = [rng.randrange(nb) for _ in range(rng.randrange(2, 5))]
  return {'kind': 'jit-history', 'sep': rng.random() < 0.5, 'seeds': seeds, 'bodies': bodies, 'order': order}


def gen_jit_child_history(rng):
  """Two entry points of one module call the SAME jit-ted method; in one of them a child scope has already drawn (outside the jit-ted
  region) when the method is entered, while the module's own counters are the same: the trace of one entry must not serve the other."""
  seeds = gen_seeds(rng)
  present = [s[0] for s in seeds]
  s_child = rng.choice(present + (['x'] if FALLBACK_LINEN in present else []))
  child = rng.choice(['k', 'blk'])
  jb = [['draw', rng.choice(present)] for _ in range(rng.randrange(0, 2))] + [['sub', child, [['draw', s_child]] * rng.randrange(1, 3)]]
  pre = [['draw', rng.choice(present)] for _ in range(rng.randrange(0, 2))]
  post = [['sub', child, [['draw', s_child]]]] if rng.random() < 0.5 else []
  bodies = [pre + [['sub', child, [['draw', s_child]] * q]] * (1 if q else 0) + [['jit', jb]] + post for q in [0] + rng.sample([1, 2], rng.randrange(1, 3))]
  order = list(range(len(bodies)))
  rng.shuffle(order)
  order += [rng.randrange(len(bodies)) for _ in range(rng.randrange(0, 2))]
  return {'kind': 'jit-history', 'sep': rng.random() < 0.5, 'seeds': seeds, 'bodies': bodies, 'order': order}


def probe_separator_count_nul(ctx):
  """Finding F17 on the real code, cheaply: with the separator on, the count 65537 (bytes 01 00 01) drawn in scope `a`
  has the same SHA-1 preimage as count 1 in a's child named "\\x01" (theorem separator_not_injective_beyond_65536).
  The counter is set to 65536 instead of drawing 65536 times.  Reported under its own key only for exactly this
  collision; the control pairs (other child names, the ("ab","c")/("a","bc") pair) must stay distinct with the flag on."""
  key = 'separator-count-nul-byte'
  stream = 'dropout'

  def body(root):
    a = root.push('a')
    a.make_rng(stream)  # counter 1: the counter dict is live
    ctrs = getattr(a, 'rng_counters', None)
    if not isinstance(ctrs, dict) or ctrs.get(stream) != 1:
      return None
    ctrs[stream] = 65536
    k_big = kd(a.make_rng(stream))  # the 65537th draw of scope a
    k_child = kd(a.push('\x01').make_rng(stream))  # first draw of a/"\x01"
    k_ctrl = kd(a.push('\x02').make_rng(stream))  # first draw of a/"\x02": bytes 02 != 01 00 01's tail
    k_abc = kd(root.push('ab').push('c').make_rng(stream))
    k_a_bc = kd(root.push('a', reuse=True).push('bc').make_rng(stream))
    return k_big, k_child, k_ctrl, k_abc, k_a_bc

  try:
    with sep_flag(True):
      res = flax_core.apply(body, mutable=True)({}, rngs={stream: jax.random.key(0)})[0]
  except Exception as e:
    ctx.notes.append(f'separator probe raised {type(e).__name__}')
    return
  if res is None:
    ctx.notes.append('separator probe skipped: Scope.rng_counters is not a plain dict any more')
    return
  k_big, k_child, k_ctrl, k_abc, k_a_bc = res
  case = {'kind': 'probe-separator-nul'}
  ctx.case(case, nontrivial=True)
  ctx.extra['probe_separator_count_nul'] = 'collides' if k_big == k_child else 'distinct'
  if k_big == k_child:
    ctx.violation(
      key, f'flax_fix_rng_separator=True: the 65537th make_rng({stream!r}) in scope a and the 1st in its child "\\x01" return the same key {k_big}', case,
    )
  if len({k_big, k_ctrl, k_abc, k_a_bc}) != 4 or k_child in (k_ctrl, k_abc, k_a_bc):
    ctx.violation(
      'separator-path-collision', f'with the separator on, different scope paths returned the same key: a#65537 {k_big}, a/\\x01#1 {k_child}, a/\\x02#1 {k_ctrl}, ab/c#1 {k_abc}, a/bc#1 {k_a_bc}', case,
    )


def probe_shape_dependent_jit(ctx):
  """Residual of F11 (not repaired by the per-function cache): a jit-ted method whose number of draws depends on an
  input *shape* replays the counter delta of the first shape it was traced with. Reported only if registered."""
  key = 'jit-draw-count-depends-on-input-shape'

  class M(nn.Module):
    @nn.jit
    def b(self, x):
      return tuple(jax.random.key_data(self.make_rng('dropout')) for _ in range(x.shape[0]))

    def run(self, x):
      inner = self.b(x)
      return list(inner) + [jax.random.key_data(self.make_rng('dropout'))]

  class M2(nn.Module):
    @nn.jit
    def b(self, x):
      return tuple(jax.random.key_data(self.make_rng('dropout')) for _ in range(x.shape[0]))

    def run(self, x):
      inner = self.b(x)
      return list(inner) + [jax.random.key_data(self.make_rng('dropout'))]

  rngs = {'dropout': jax.random.key(0)}
  try:
    M().apply({}, np.zeros(1), rngs=rngs, method='run')
    after = _canon_out(M().apply({}, np.zeros(3), rngs=rngs, method='run'))
    fresh = _canon_out(M2().apply({}, np.zeros(3), rngs=rngs, method='run'))
  except Exception as e:
    ctx.notes.append(f'shape-dependent jit probe raised {type(e).__name__}')
    return
  ctx.extra['probe_jit_shape_dependent_draws'] = 'history-dependent' if after != fresh else 'consistent'
  if after != fresh and any(f.get('key') == key for f in load_findings('C09')):
    ctx.violation(key, f'nn.jit method drawing x.shape[0] keys: after a call with shape (1,), the call with shape (3,) is followed by key {after[-1]} instead of {fresh[-1]}', {'kind': 'probe-jit-shape'})


# ------------------------------------------------------------------------------------------------
# entry points
# ------------------------------------------------------------------------------------------------


def probe_conventions(ctx):
  """the fallback names are read from the implementation (a consistent renaming is not a disagreement)"""
  global FALLBACK_LINEN, FALLBACK_NNX
  for cand in ('params',):
    def f(scope):
      return scope.make_rng('__no_such_stream__')
    try:
      flax_core.apply(f)({}, rngs={cand: jax.random.key(0)})
      FALLBACK_LINEN = cand
    except Exception:
      ctx.notes.append(f'Linen fallback stream is not {cand!r}')
  for cand in ('default',):
    try:
      nnx.Rngs(**{cand: 0})['__no_such_stream__']()
      FALLBACK_NNX = cand
    except Exception:
      ctx.notes.append(f'NNX fallback stream is not {cand!r}')
  ctx.extra['fallback_names'] = {'linen': FALLBACK_LINEN, 'nnx': FALLBACK_NNX}


def _run_case(ctx, drv, obj, rng=None):
  case = obj.get('case', obj)
  while 'kind' not in case and isinstance(case.get('case'), dict):
    case = case['case']
  kind = case.get('kind')
  if kind == 'linen-prog':
    check_linen_case(ctx, drv, case)
    if len(case['bodies']) == 1:
      check_linen_fallback(ctx, case)
  elif kind == 'linen-fallback':
    check_linen_fallback(ctx, dict(case, kind='linen-prog'))
  elif kind == 'linen-edit':
    _replay_edit(ctx, case)
  elif kind == 'linen-ops':
    check_core_ops(ctx, drv, case)
  elif kind == 'encode':
    check_encode(ctx, drv, [case])
  elif kind in ('nnx-ops', 'nnx-twin'):
    c = dict(case, kind='nnx-ops')
    check_nnx_case(ctx, drv, c)
    check_nnx_twins(ctx, c)
  elif kind == 'jit-history':
    check_jit_history(ctx, drv, case)
  elif kind == 'nnx-stream':
    check_stream_history(ctx, drv, case)
  elif kind == 'jit-alias':
    check_jit_alias(ctx, drv, case)
  elif kind == 'nnx-node':
    check_node_case(ctx, drv, case)
  elif kind == 'nnx-restore-window':
    check_restore_window(ctx, case)
  elif kind == 'linen-lift':
    check_lift_case(ctx, drv, case)
  elif kind == 'probe-jit-shape':
    probe_shape_dependent_jit(ctx)
  elif kind == 'probe-separator-nul':
    probe_separator_count_nul(ctx)
  else:
    ctx.notes.append(f'unknown corpus case kind {kind}')


def _replay_edit(ctx, c):
  with sep_flag(c['sep']):
    a = run_labelled(LinenRunner(c.get('style', 'setup'), [c['a']], c.get('mode', 'apply')), c['seeds'], c['a'])
    b = run_labelled(LinenRunner(c.get('style', 'setup'), [c['b']], c.get('mode', 'apply')), c['seeds_b'], c['b'])
  if a is None or b is None:
    return
  for k in a:
    if k in b and a[k] != b[k]:
      ctx.violation('linen-unrelated-edit-changes-key', f'unrelated edit changed the key at position {k}: {a[k]} -> {b[k]}', c)
      return


def run(ctx):
  drv = LeanDriver('drv_c09')
  thorough = ctx.tier == 'thorough'
  rng = ctx.rng
  probe_conventions(ctx)
  flag_default = bool(flax.config.flax_fix_rng_separator)
  ctx.extra['flax_fix_rng_separator_default'] = flag_default

  import time as _time

  timers = ctx.extra.setdefault('section_wall_s', {})
  t_last = [_time.time()]

  def lap(name):
    timers[name] = round(_time.time() - t_last[0], 1)
    t_last[0] = _time.time()

  for fn, obj in load_corpus('C09'):
    ctx.corpus_replayed += 1
    _run_case(ctx, drv, obj)
  lap('corpus')

  # --- _fold_in_static preimages -------------------------------------------------------------------
  enc = []
  pool = ['', 'a', 'ab', 'c', 'bc', 'abc', 'é', '\x01', 0, 1, 2, 255, 256, 257, 65536, 65537, 16777216]
  for sep in (False, True):
    enc.append({'sep': sep, 'data': []})
    for x in pool:
      enc.append({'sep': sep, 'data': [x]})
    for x, y in itertools.product(pool[:8] + [1, 256], repeat=2):
      enc.append({'sep': sep, 'data': [x, y]})
    for _ in range(60 if not thorough else 600):
      enc.append({'sep': sep, 'data': [rng.choice(pool) for _ in range(rng.randrange(3, 6))]})
  check_encode(ctx, drv, enc)
  lap('encode')

  # --- generate every case first, then ask the model once (one driver process for the whole run) ----------------
  n_prog = 140 if not thorough else 2500
  n_jit = 30 if not thorough else 400
  linen_cases = []
  for i in range(n_prog + n_jit):
    allow_jit = i >= n_prog
    odd = rng.random() < 0.3
    names = NAMES_PLAIN + (NAMES_ODD if odd else [])
    if not allow_jit and rng.random() < 0.15:
      body = gen_adversarial(rng)
      ctx.count('linen_gen', 'adversarial-concatenation')
    else:
      body = gen_body(rng, rng.randrange(1, 4), names, allow_jit)
      if allow_jit and not has_jit(body):
        body.append(['jit', [['draw', rng.choice(STREAMS)] for _ in range(rng.randrange(1, 3))]])
      ctx.count('linen_gen', 'jit' if allow_jit else ('odd-names' if odd else 'plain'))
    seeds = gen_seeds(rng)
    if rng.random() < 0.04:
      seeds = []
    case = {'kind': 'linen-prog', 'sep': rng.random() < 0.5, 'seeds': seeds, 'bodies': [body], 'mode': rng.choice(['init', 'apply'])}
    ctx.count('linen_sep', case['sep'])
    ctx.count('linen_mode', case['mode'])
    ctx.count('linen_draws', min(n_draws(body), 12))
    ctx.count('linen_depth', depth(body))
    ctx.count('linen_nstreams', len(seeds))
    ctx.count('linen_seed_kinds', '+'.join(sorted({s[2] for s in seeds})) or 'none')
    ctx.count('linen_equal_seeds', len({s[1] for s in seeds}) < len(seeds))
    if label_draws(strip_vars(body), seeds) is None:
      ctx.count('linen_errors', 'InvalidRng')
    linen_cases.append((case, allow_jit))
  jit_cases = [gen_jit_history(rng) for _ in range(6 if not thorough else 120)] + [gen_jit_child_history(rng) for _ in range(5 if not thorough else 80)]
  core_cases = [
    {'kind': 'linen-ops', 'sep': rng.random() < 0.5, 'seeds': gen_seeds(rng), 'ops': gen_core_ops(rng, rng.randrange(4, 25))}
    for _ in range(120 if not thorough else 2000)
  ]
  lanes_budget = [70 if not thorough else 1500]
  nnx_cases = []
  for i in range(240 if not thorough else 3000):
    c = gen_nnx_case(rng, rng.randrange(3, 14), lanes_budget)
    c['getattr'] = rng.random() < 0.5
    nnx_cases.append(c)
  stream_cases = [gen_stream_history(rng) for _ in range(40 if not thorough else 600)]
  node_cases = [gen_node_case(rng) for _ in range(80 if not thorough else 1200)]
  lift_cases = [gen_lift_case(rng) for _ in range(14 if not thorough else 200)]

  reqs, slices = [], []

  def add(rs):
    slices.append((len(reqs), len(reqs) + len(rs)))
    reqs.extend(rs)

  for case, _ in linen_cases:
    add(linen_reqs(case))
  for c in jit_cases:
    add(jit_history_reqs(c))
  for c in core_cases:
    add(core_reqs(c))
  for c in nnx_cases:
    add(nnx_reqs(c))
  for c in stream_cases:
    add(stream_reqs(c))
  for c in node_cases:
    add(node_reqs(c)[0])
  for c in lift_cases:
    add(lift_reqs(c))
  answers = drv.run(reqs)
  it = iter(slices)

  def mine():
    lo, hi = next(it)
    return answers[lo:hi]

  lap('generate+model')

  # --- Linen module programs -------------------------------------------------------------------------
  for case, allow_jit in linen_cases:
    if allow_jit:
      note_compiles(4)
    ok = check_linen_case(ctx, drv, case, mouts=mine())
    if ok and (not allow_jit or rng.random() < 0.5):
      check_linen_edits(ctx, rng, case)
      if rng.random() < 0.5:
        check_linen_fallback(ctx, case)
  ctx.sample(linen_cases[0][0])
  ctx.sample(linen_cases[-1][0])
  lap('linen_programs')

  # --- several jit-ted methods / several applies per process (F11 regression) --------------------------------
  for c in jit_cases:
    note_compiles(6)
    check_jit_history(ctx, drv, c, mouts=mine())
  ctx.sample(jit_cases[0])
  for _ in range(4 if not thorough else 40):
    sd = gen_seeds(rng)
    note_compiles(2)
    check_jit_alias(ctx, drv, {'kind': 'jit-alias', 'sep': rng.random() < 0.5, 'seeds': sd, 'm': rng.randrange(1, 4), 'stream': rng.choice([r[0] for r in sd] + ['x'] if any(r[0] == FALLBACK_LINEN for r in sd) else [r[0] for r in sd])})
  probe_shape_dependent_jit(ctx)
  probe_separator_count_nul(ctx)
  lap('jit_histories')

  # --- functional core histories ---------------------------------------------------------------------------
  for c in core_cases:
    check_core_ops(ctx, drv, c, mouts=mine())
  ctx.sample(c)
  lap('core_histories')

  # --- NNX ------------------------------------------------------------------------------------------------------
  for c in nnx_cases:
    note_compiles(3 * sum(1 for op in c['ops'] if op[0] == 'lanes'))
    if check_nnx_case(ctx, drv, c, mouts=mine()) and rng.random() < 0.6:
      check_nnx_twins(ctx, c)
  ctx.sample(c)
  for c in stream_cases:
    note_compiles(sum(1 for op in c['ops'] if op[0] == 'lanes'))
    check_stream_history(ctx, drv, c, mouts=mine())
  ctx.sample(c)
  for c in node_cases:
    check_node_case(ctx, drv, c, mouts=mine())
  ctx.sample(c)
  for i in range(16 if not thorough else 200):
    c = gen_restore_window(rng, force_squeeze=True if i < 4 else None)
    note_compiles(0 if c['squeeze'] else 1)
    check_restore_window(ctx, c)
  ctx.sample(c)
  for c in lift_cases:
    note_compiles(4)
    check_lift_case(ctx, drv, c, mouts=mine())
  ctx.sample(c)
  lap('nnx+node+lift')
  lap('nnx')
  ctx.extra['driver_calls'] = drv.calls
  ctx.extra['flag_restored'] = bool(flax.config.flax_fix_rng_separator) == flag_default


def replay(ctx, obj):
  drv = LeanDriver('drv_c09')
  probe_conventions(ctx)
  _run_case(ctx, drv, obj)
  for v in ctx.violations:
    print('  ', v['key'], '-', v['what'][:300])
  return bool(ctx.violations)
