"""C01 — Linen init/apply are pure functions with an explicit mutability contract.

Theorems: lean/Flax/Props/C01.lean over lean/Flax/Model/{Scope,ModuleTree}.lean.
Correspondence: seeded module programs (`SProg`) rendered as a flax.core scope function, a compact
Linen Module hierarchy and a setup-style one, run on the real flax with every kind of `mutable`
filter, dict and FrozenDict inputs, 1-3 repeated calls on the same module instance; the same cases go
through the compiled Lean model. Compared: output, returned variable tree, error class, number of
parameter initialisations. Property oracles are evaluated on the implementation alone: inputs
(variables, argument, RNG key, rngs dict, module object, filter) unchanged after the call, repeated
calls equal, returned containers do not alias supplied ones, returned key set, no accepted write into
an immutable collection, observers (sow, capture_intermediates, perturb without its collection)
leave the output unchanged.
"""
from __future__ import annotations

import json

from harness import compat  # noqa: F401
from harness.common import LeanDriver, load_corpus, InfraError
from harness.props import sprog as S

SPEC = {
  'exes': ['drv_c01'],
  'rule': (
    'one case = (module program, rendering core|compact|setup, init or apply, mutable filter, input '
    'variables as dict or FrozenDict, rngs given or not, argument, capture_intermediates, 1-3 repeated '
    'calls). Programs: depth<=3, params with shapes, declared variables, get/put (counters, running '
    'statistics), sow, perturb, children with explicit/automatic names called 0-3 times. A case is '
    'non-trivial when the program has at least 3 statements; distinct = distinct canonical JSON of the case.'
  ),
  'trusted_base': [
    'hand-written Lean model lean/Flax/Model/Scope.lean + ModuleTree.lean (tied to /repo by this correspondence run)',
    'harness/props/sprog.py + c01.py (generators, renderers calling the public Scope/Module API, canonicalisation, snapshots), harness/compat.py (JAX shim)',
    'Python dict / attribute semantics and object identity (A-PY); numpy float32 arithmetic on integers below 2**24 is exact',
  ],
  'assumptions': [
    'aliasing is modelled by one ownership flag per collection (exact for _unfreeze_variables as written); identity of dict objects is checked on the implementation by the harness, not proved',
    'the module object is not part of the model state: that apply/init leave it untouched (clone before binding, frozen __setattr__) is checked on the implementation only',
    'writes that would replace a sub-dict by a leaf (put_variable onto a submodule name) are outside the model (error `unsupported`) and not generated',
    'observe_noninterference is stated for the Linen styles (Module.sow does not exist in the functional core) and for programs whose observation collections are used by nothing else (theorem obs_safe_needed shows the guard is needed)',
    'RNG values are not modelled (initialisers are constants); key reuse/position is C09',
    'nested functional calls: the model\'s `nested` form applies a detached sub-network (nested_apply_capture_isolated, nested_apply_store_untouched); a functional call on an ALREADY BOUND submodule (self.child.apply(vars, x) / foo.bind(V).child.apply(...)), whose isolation rests on Module.clone\'s deep clone, is checked on the implementation against the stand-alone call (bound-nested family) and by clone_preserves_sharing in C02\'s clone-cache model',
    'Scope.temporary invalidates the ROOT scope object only (code as written, theorem leaked_child_still_writes): a leaked child Scope stays usable and can update the temporary tree — which is also the dict apply returned — after the call; what is proved and checked is that the root is dead (leaked_scope_invalid) and that no leaked scope, valid or not, reaches the caller\'s variables (leaked_scope_cannot_touch_inputs)',
  ],
  'model_partial': [],
}


def gen_scenarios(rng, prog, style, thorough=False):
  """init + a few applies for one rendering"""
  scs = []
  x = rng.randrange(-3, 4)
  r = rng.random()
  init_mut = {'deny': 'intermediates'} if r < 0.7 else (True if r < 0.85 else S.gen_filter(rng))
  scs.append({'kind': 'init', 'prog': prog, 'style': style, 'mutable': init_mut, 'x': x, 'rngs': rng.random() < 0.93,
              'capture': style != 'core' and rng.random() < 0.12 and rng.choice([True, 'fn']), 'ncalls': rng.choice([1, 1, 2])})
  n_apply = 3 if not thorough else 6
  for _ in range(n_apply):
    scs.append({'kind': 'apply', 'prog': prog, 'style': style, 'mutable': S.gen_filter(rng), 'x': rng.randrange(-3, 4),
                'rngs': rng.random() < 0.5, 'frozen': rng.random() < 0.4,
                'capture': style != 'core' and rng.random() < 0.1 and rng.choice([True, 'fn']), 'ncalls': rng.choice([1, 1, 2, 3])})
  return scs


def judge(ctx, sc, obs, m, tag=''):
  """property oracles on the implementation, then model-vs-implementation"""
  case = S.public(sc)
  if obs['peak'] >= S.LIMIT:
    ctx.count('skipped', 'inexact')
    return
  res = obs['result']
  ctx.count('impl_result', res[1] if res[0] == 'err' else 'ok')
  if obs['inputs_changed']:
    ctx.violation('input-mutated:' + ','.join(obs['inputs_changed']),
                  f"{sc['kind']} changed its inputs in place: {obs['inputs_changed']}", case)
    return
  if not obs['repeat_equal']:
    ctx.violation('repeated-call-differs', f"{sc['kind']} repeated on the same inputs returned a different result", case)
    return
  if obs['alias']:
    ctx.violation('returned-aliases-input', 'a dict object of the returned variables is an object of the supplied variables', case)
    return
  w = S.returned_keys_oracle(sc, obs)
  if w:
    ctx.violation('returned-keys-wrong', w, case)
    return
  if obs.get('lost_writes'):
    ctx.violation('written-value-lost', f"a value the program wrote during {sc['kind']} is not what it later read / what was returned: {obs['lost_writes'][:2]}", case)
    return
  w = S.immutable_write_oracle(sc, obs)
  if w:
    ctx.violation('immutable-write-accepted', w, case)
    return
  d = S.compare_with_model(sc, obs, m)
  if d is None:
    return
  if d.startswith('skip:'):
    ctx.count('skipped', d)
    return
  ctx.disagreements_checked += 1
  ctx.violation('model-mismatch:' + sc['kind'] + ':' + sc['style'], f'model and implementation differ ({d})', case, concrete=False)


def observer_pairs(ctx, rng, prog, style, V):
  """erase-observers oracle on the implementation: same output with and without sow / capture / inert perturb"""
  if style == 'core':
    return
  base = {'prog': prog, 'style': style, 'mutable': S.gen_filter(rng), 'x': rng.randrange(-3, 4), 'rngs': True, 'ncalls': 1,
          'pair': 'observers'}
  if V is None:
    base['kind'] = 'init'
    base['mutable'] = {'deny': 'intermediates'} if rng.random() < 0.5 else True
  else:
    base.update(kind='apply', vars=V, frozen=rng.random() < 0.3)
  check_observers(ctx, base)


def check_observers(ctx, base):
  prog, style = base['prog'], base['style']
  V = base.get('vars')
  has_obs = any(st['op'] in ('sow', 'perturb') for st in S.walk(prog))
  R = S.Rendered(prog, style)
  full = S.run_scenario(R, dict(base))
  if full['peak'] >= S.LIMIT:
    return
  has_nested = any(st['op'] == 'nested' for st in S.walk(prog))
  if full['result'][0] != 'ok':
    # an observer must not be what makes the call raise an immutable-write error: the same program without
    # its observers contains the same real writes, so if that one returns, the error came from sow/perturb
    if full['result'][1] == 'ModifyScopeVariableError' and has_obs and S.obs_safe(prog):
      per = S.cols_of(prog, ('perturb',))
      perturb_inert = V is None or not (per & set(V['cols']))
      erased = S.erase_observers(prog, perturb_too=perturb_inert)
      er = S.run_scenario(S.Rendered(erased, style), dict(base, prog=erased))
      ctx.count('observer_pairs', 'raise-check')
      if er['peak'] < S.LIMIT and er['result'][0] == 'ok':
        ctx.violation('observer-raises', f"the call raises ModifyScopeVariableError only because of sow/perturb (without them it returns {er['result'][1]})", S.public(base))
    return
  # (1) capture_intermediates on: same output
  if 'intermediates' not in S.cols_of(prog, ('param', 'variable', 'get', 'put', 'perturb')):
    for capv in ((True, 'fn') if has_nested else (True,)):
      cap = S.run_scenario(R, dict(base, capture=capv))
      ctx.case({'kind': 'observer-capture', 'case': S.public(base)})
      ctx.count('observer_pairs', 'capture' + ('+nested' if has_nested else ''))
      if cap['peak'] >= S.LIMIT:
        continue
      if has_nested and cap.get('nested') != full.get('nested'):
        ctx.violation('nested-apply-depends-on-context', f"a nested apply(..., capture_intermediates=False) returned {cap.get('nested')} under an outer capture_intermediates={capv!r} and {full.get('nested')} without", S.public(base))
        return
      if cap['result'][0] != 'ok' or cap['result'][1] != full['result'][1]:
        ctx.violation('observer-changes-output:capture', f"capture_intermediates={capv!r} changed the outcome: {full['result'][:2]} vs {cap['result'][:2]}", S.public(base))
        return
  # (2) sow / inert perturb erased: same output
  if has_obs and S.obs_safe(prog):
    per = S.cols_of(prog, ('perturb',))
    perturb_inert = V is None or not (per & set(V['cols']))
    erased = S.erase_observers(prog, perturb_too=perturb_inert)
    R2 = S.Rendered(erased, style)
    er = S.run_scenario(R2, dict(base, prog=erased))
    ctx.case({'kind': 'observer-erase', 'case': S.public(base)})
    ctx.count('observer_pairs', 'erase' + ('+perturb' if perturb_inert and per else ''))
    if er['peak'] < S.LIMIT and (er['result'][0] != 'ok' or er['result'][1] != full['result'][1]):
      ctx.violation('observer-changes-output:sow', f"removing sow/perturb changed the outcome: {full['result'][:2]} vs {er['result'][:2]}", S.public(base))


def leak_suite(ctx, drv, conv, cases):
  """scope objects that leak out of apply: the root is dead, and no leaked scope can reach the caller's variables"""
  reqs, obs = [], []
  for sc in cases:
    which = sc['which']
    o = S.run_leak(sc, which)
    if o is None:
      continue
    sc = dict(sc, ops=o['ops'])
    case = dict(S.public(sc), handle=o['handle'])
    ctx.case(case)
    ctx.count('leaked_scope', which)
    if o['inputs_changed']:
      ctx.violation('leaked-scope-mutates-input', f"operations {o['ops']} on a scope object leaked from apply changed the variables passed to apply", case)
      continue
    if which == 'root':
      if not o['handle']['invalid']:
        ctx.violation('leaked-root-usable', 'the root scope is not invalidated when apply returns', case)
        continue
      bad = [(op, res) for op, res in zip(o['ops'], o['results']) if op['op'] in ('put', 'push', 'rewound') and res != 'InvalidScopeError']
      if bad:
        ctx.violation('leaked-root-usable', f'on the invalidated root scope {bad[0][0]} gave {bad[0][1]} instead of InvalidScopeError', case)
        continue
    reqs.append(('leak', S.model_request(sc, conv)[1] + [o['handle'], o['ops']]))
    obs.append((case, o))
  outs = drv.run(reqs)
  for (case, o), m in zip(obs, outs):
    if m[0] != 'ok':
      ctx.disagreements_checked += 1
      ctx.violation('model-mismatch:leak', f'driver error {m[1]}', case, concrete=False)
      continue
    want = []
    for res in m[1]['results']:
      want.append({'ok'} if res == 'ok' else (S.model_err_names(res, 'core') or {res}))
    if m[1]['dirty'] or len(want) != len(o['results']) or any(r not in w for r, w in zip(o['results'], want)):
      ctx.disagreements_checked += 1
      ctx.violation('model-mismatch:leak', f"leaked-scope operations: implementation {o['results']}, model {m[1]['results']}", case, concrete=False)


# ------------------------------------------------------------------------------------------------
# return shape: (output, state) for every filter that `is not False`, the bare output for False
# ------------------------------------------------------------------------------------------------

import numpy as _np
import jax as _jax
import flax.linen as _nn
from flax.core import scope as _core_scope
from flax.core.frozen_dict import FrozenDict as _FrozenDict

# label -> (python filter object, the same filter in the JSON form of the independent reference `in_filter_ref`)
FILTER_FORMS = {
  'false': (lambda: False, False),
  'true': (lambda: True, True),
  'name': (lambda: 'stats', 'stats'),
  'absent-name': (lambda: 'zz9', 'zz9'),
  'list': (lambda: ['stats', 'cache', 'inter'], ['stats', 'cache', 'inter']),
  'deny-params': (lambda: _core_scope.DenyList('params'), {'deny': 'params'}),
  'deny-true': (lambda: _core_scope.DenyList(True), {'deny': True}),
  # not False, but falsy
  'empty-list': (lambda: [], []),
  'empty-tuple': (lambda: (), []),
  'empty-set': (lambda: set(), []),
  'empty-frozenset': (lambda: frozenset(), []),
  'empty-str': (lambda: '', ''),
}
APIS = {'core': ['core.apply', 'core.init'],
        'compact': ['Module.apply', 'nn.apply', 'Module.init_with_output', 'nn.init_with_output'],
        'setup': ['Module.apply', 'nn.apply', 'Module.init_with_output', 'nn.init_with_output']}


def _raw_call(R, api, mut, V, x, pair):
  """the raw return value of one entry point; with `pair` the function's own output is itself a 2-tuple"""
  key = S.the_key()
  second = S.F32(7)
  if api.startswith('core.'):
    fn = (lambda scope, a: (R.fn(scope, a), second)) if pair else R.fn
    if api == 'core.apply':
      return _core_scope.apply(fn, mutable=mut)(S.unflatten_vars(V), x, rngs={'params': key})
    return _core_scope.init(fn, mutable=mut)({'params': key}, x)
  m = R.module
  meth = (lambda mdl, a: (mdl(a), second)) if pair else (lambda mdl, a: mdl(a))
  if api == 'Module.apply':
    return m.apply(S.unflatten_vars(V), x, rngs={'params': key}, mutable=mut, **({'method': meth} if pair else {}))
  if api == 'nn.apply':
    return _nn.apply(meth, m, mutable=mut)(S.unflatten_vars(V), x, rngs={'params': key})
  if api == 'Module.init_with_output':
    return m.init_with_output({'params': key}, x, mutable=mut, **({'method': meth} if pair else {}))
  return _nn.init_with_output(meth, m, mutable=mut)({'params': key}, x)


def _canon_out(y, pair):
  if pair:
    if not (isinstance(y, tuple) and len(y) == 2):
      return ('not-a-pair', type(y).__name__)
    return (S.out_int(y[0]), S.out_int(y[1]))
  if isinstance(y, (tuple, list, dict, _FrozenDict)):
    return ('not-a-scalar', type(y).__name__)
  return S.out_int(y)


def return_shape_case(ctx, case):
  """property oracle, model-free: mutable `is not False` -> (output, state) with state keys == the existing
  collections matching the filter; mutable False -> the bare output"""
  prog, style, api, label, pair = case['prog'], case['style'], case['api'], case['filter'], case['pair']
  R = S.Rendered(prog, style)
  x = _np.asarray(case['x'], S.F32)
  V = case.get('vars') or {'cols': [], 'vars': []}
  S.Guard.reset()
  try:
    ref = _raw_call(R, api, True, V, x, pair)
  except Exception:
    return
  if S.Guard.peak >= S.LIMIT or not (isinstance(ref, tuple) and len(ref) == 2 and isinstance(ref[1], (dict, _FrozenDict))):
    return
  ref_out, existing = _canon_out(ref[0], pair), set(ref[1].keys())
  mk, fj = FILTER_FORMS[label]
  S.Guard.reset()
  try:
    res = _raw_call(R, api, mk(), V, x, pair)
  except Exception as e:
    ctx.count('return_shape', 'raised:' + S.classify(e))  # e.g. a write into a collection the filter leaves immutable
    return
  if S.Guard.peak >= S.LIMIT:
    return
  ctx.case(case)
  ctx.count('return_shape', api + ':' + label + (':pair' if pair else ''))
  if label == 'false':
    got = _canon_out(res, pair)
    if got != ref_out:
      ctx.violation('return-shape:false-not-bare', f'{api}(mutable=False) must return the bare output {ref_out}, got {got}', case)
    return
  shape_ok = isinstance(res, tuple) and len(res) == 2 and isinstance(res[1], (dict, _FrozenDict))
  if not shape_ok:
    what = f'a {type(res).__name__}' + (f' whose second item is a {type(res[1]).__name__}' if isinstance(res, tuple) and len(res) == 2 else '')
    ctx.violation('return-shape:not-output-state-pair', f'{api}(mutable={mk()!r}) — a filter that is not False — must return (output, state); it returned {what}', case)
    return
  want = {c for c in existing if S.in_filter_ref(fj, c)}
  if set(res[1].keys()) != want:
    ctx.violation('return-shape:state-keys', f'{api}(mutable={mk()!r}) returned collections {sorted(res[1].keys())}, the existing collections matching the filter are {sorted(want)}', case)
  elif _canon_out(res[0], pair) != ref_out:
    ctx.violation('return-shape:output-differs', f'{api}(mutable={mk()!r}) returned output {_canon_out(res[0], pair)}, with everything mutable it is {ref_out}', case)


def return_shape_suite(ctx, n):
  rng = ctx.rng
  for i in range(n):
    prog = S.gen_prog(rng, flavour=rng.choice(['decl_only', 'decl_only', 'decl_first', 'core_ok', 'mixed']))
    for style in S.styles_for(prog):
      if any(st['op'] == 'nested' for st in S.walk(prog)):
        continue
      R = S.Rendered(prog, style)
      x = rng.randrange(-2, 3)
      o0 = S.run_scenario(R, {'kind': 'init', 'prog': prog, 'style': style, 'mutable': True, 'x': x, 'rngs': True})
      if o0['peak'] >= S.LIMIT or o0['result'][0] != 'ok' or o0['result'][3]:
        continue
      V = o0['result'][2]
      for label in FILTER_FORMS:
        api = rng.choice(APIS[style])
        case = {'kind': 'return-shape', 'prog': prog, 'style': style, 'api': api, 'filter': label, 'pair': rng.random() < 0.5, 'x': x}
        if api.endswith('apply'):
          case['vars'] = V
        return_shape_case(ctx, case)


def sow_collision_case(ctx, case):
  """a sow whose name is also the name of a param / variable of ANOTHER collection in the same scope: whether the sow
  collection is mutable or not, the primary output, the other returned collections and success must be those of
  the program without the sow"""
  prog, style, mj, kind = case['prog'], case['style'], case['mutable'], case['call']
  erased = S.erase_observers(prog, perturb_too=False)
  sow_cols = S.cols_of(prog, ('sow',))
  ctx.case(case)
  ctx.count('sow_collision', kind + ':' + _form(mj))
  Ve = S.run_scenario(S.Rendered(erased, style), {'kind': 'init', 'prog': erased, 'style': style, 'mutable': True, 'x': case['x'], 'rngs': True})
  if Ve['peak'] >= S.LIMIT or Ve['result'][0] != 'ok':
    return
  base = {'style': style, 'mutable': mj, 'x': case['x'], 'rngs': True, 'ncalls': 1}
  if kind == 'init':
    base['kind'] = 'init'
  else:
    base.update(kind='apply', vars=Ve['result'][2], frozen=False)
  full = S.run_scenario(S.Rendered(prog, style), dict(base, prog=prog))
  er = S.run_scenario(S.Rendered(erased, style), dict(base, prog=erased))
  if max(full['peak'], er['peak']) >= S.LIMIT:
    return
  rf, re_ = full['result'], er['result']
  if rf[0] != re_[0]:
    ctx.violation('observer-changes-outcome:sow-name', f"with the sow the call gives {rf[:2]}, without it {re_[:2]} (a sow named like a param/variable of another collection, mutable={mj!r})", case)
  elif rf[0] == 'ok':
    others = lambda J: None if J is None else sorted((p, json.dumps(v, sort_keys=True)) for p, v in J['vars'] if p[0] not in sow_cols)
    if rf[1] != re_[1] or others(rf[2]) != others(re_[2]):
      ctx.violation('observer-changes-output:sow-name', f"the sow changed the primary output or another collection: {rf[1]} vs {re_[1]}", case)


def sow_collision_suite(ctx):
  rng = ctx.rng
  filters = [False, 'stats', {'deny': 'intermediates'}, {'deny': ['intermediates', 'inter']}, 'intermediates', ['intermediates', 'stats'],
             ['inter', 'intermediates', 'stats', 'params'], True, {'deny': 'params'}, {'deny': []}]
  for other in ('param', 'var'):
    for order in (0, 1):
      for scol in ('intermediates', 'inter'):
        name = rng.choice(['scale', 'mean'])
        decl = ({'op': 'param', 'n': name, 'shape': [2], 'init': 2} if other == 'param'
                else {'op': 'variable', 'c': 'stats', 'n': name, 'shape': [], 'e': 3})
        sow = {'op': 'sow', 'c': scol, 'n': name, 'e': {'+': ['x', 1]}}
        body = ([decl, sow, {'op': 'ret', 'e': {'*': ['x', {'l': 0}]}}] if order == 0
                else [sow, decl, {'op': 'ret', 'e': {'*': ['x', {'l': 0}]}}])
        progs = [body, [{'op': 'child', 'cls': 'A', 'name': None, 'body': body}, {'op': 'call', 'slot': 0, 'e': 'x'},
                        {'op': 'call', 'slot': 0, 'e': {'l': 0}}, {'op': 'ret', 'e': {'l': 1}}]]
        for prog in progs:
          for style in ('compact', 'setup') if S.setup_eligible(prog) else ('compact',):
            for mj in filters:
              sow_collision_case(ctx, {'kind': 'sow-collision', 'prog': prog, 'style': style, 'mutable': mj, 'call': 'apply', 'x': rng.randrange(1, 4)})
            for mj in (True, {'deny': 'intermediates'}, {'deny': []}):
              sow_collision_case(ctx, {'kind': 'sow-collision', 'prog': prog, 'style': style, 'mutable': mj, 'call': 'init', 'x': 2})


def run_programs(ctx, drv, conv, progs):
  scs, obs_list = [], []
  for prog in progs:
    styles = S.styles_for(prog)
    ctx.count('prog_depth', S.depth_of(prog))
    ctx.count('prog_styles', len(styles))
    for op, k in S.count_ops(prog).items():
      ctx.count('ops', op, k)
    for style in styles:
      R = S.Rendered(prog, style)
      group = gen_scenarios(ctx.rng, prog, style, ctx.tier == 'thorough')
      V = None
      for sc in group:
        if sc['kind'] == 'apply':
          if V is None:
            continue
          sc['vars'] = V
          if ctx.rng.random() < 0.3:
            # an EMPTY placeholder (a collection, or a submodule's subtree in it) that is mutable: the call creates state there
            ph = S.gen_empty_placeholder(ctx.rng, V)
            if ph is not None:
              V2, empties, col = ph
              sc.update(vars=V2, empties=empties, frozen=ctx.rng.random() < 0.15, ncalls=ctx.rng.choice([2, 2, 3]),
                        rngs=True, mutable=ctx.rng.choice([col, True, [col], {'deny': 'intermediates'}, sc['mutable']]))
              ctx.count('empty_placeholder', f'depth{len(empties[0]) - 1 if empties else 0}')
        sc['_rng'] = ctx.rng
        o = S.run_scenario(R, sc)
        if sc['kind'] == 'init' and o['result'][0] == 'ok' and o['result'][2] is not None and not o['result'][3]:
          V = o['result'][2]
        scs.append(sc)
        obs_list.append(o)
        ctx.count('style', style)
        ctx.count('kind', sc['kind'])
        ctx.count('mutable_form', _form(sc['mutable']))
      if ctx.rng.random() < 0.6:
        observer_pairs(ctx, ctx.rng, prog, style, V if ctx.rng.random() < 0.6 else None)
  outs = drv.run([S.model_request(sc, conv) for sc in scs])
  for sc, o, m in zip(scs, obs_list, outs):
    ctx.case(S.public(sc), nontrivial=len(sc['prog']) >= 3)
    judge(ctx, sc, o, m)
  return scs


def _form(j):
  if isinstance(j, bool):
    return str(j)
  if isinstance(j, str):
    return 'name'
  if isinstance(j, dict):
    return 'DenyList(' + _form(j['deny']) + ')'
  return 'list'


def run_case(ctx, drv, conv, case):
  """replays one stored scenario (corpus / replay file)"""
  sc = dict(case)
  if sc.get('kind') == 'return-shape':
    return_shape_case(ctx, sc)
    return
  if sc.get('kind') == 'sow-collision':
    sow_collision_case(ctx, sc)
    return
  if sc.get('kind') == 'bound-nested':
    S.check_bound_nested(ctx, sc)
    return
  if sc.get('leak'):
    leak_suite(ctx, drv, conv, [sc])
    return
  if sc.get('kind') == 'shared':
    S.check_shared(ctx, sc, 'C01')
    return
  if sc.get('kind') == 'layout':
    S.check_layout(ctx, sc, 'C01')
    return
  if sc.get('pair') == 'observers':
    check_observers(ctx, sc)
    return
  R = S.Rendered(sc['prog'], sc['style'])
  o = S.run_scenario(R, sc)
  m = drv.run([S.model_request(sc, conv)])[0]
  ctx.case(S.public(sc))
  judge(ctx, sc, o, m)


def run(ctx):
  drv = LeanDriver('drv_c01')
  conv = S.probe_conventions()
  if any(v is None for v in conv.values()):
    raise InfraError(f'could not infer the autoname conventions: {conv}')
  ctx.extra['conventions'] = conv
  for fn, obj in load_corpus('C01'):
    ctx.corpus_replayed += 1
    run_case(ctx, drv, conv, obj.get('case', obj))
  thorough = ctx.tier == 'thorough'
  for _ in range(30 if not thorough else 300):
    S.check_shared(ctx, S.shared_case(ctx.rng), 'C01')
  for _ in range(30 if not thorough else 300):
    S.check_layout(ctx, S.gen_layout(ctx.rng), 'C01')
  # dict-valued writes over a submodule's subtree followed by further updates from the nested scopes
  restore = [S.gen_restore_prog(ctx.rng) for _ in range(50 if not thorough else 600)]
  ctx.count('streams', 'restore', len(restore))
  run_programs(ctx, drv, conv, restore)
  sow_collision_suite(ctx)
  # functional calls on an already bound submodule (depth >= 2, dataclass-field submodules, counters)
  for _ in range(40 if not thorough else 500):
    S.check_bound_nested(ctx, S.gen_bound_nested(ctx.rng))
  # return shape of every entry point for every kind of filter (incl. falsy-but-not-False ones), output a scalar or a pair
  return_shape_suite(ctx, 30 if not thorough else 400)
  # nested applies inside a module body, under every outer capture setting
  nested = [S.gen_nested_prog(ctx.rng) for _ in range(60 if not thorough else 700)]
  ctx.count('streams', 'nested', len(nested))
  run_programs(ctx, drv, conv, nested)
  for prog in nested:
    for style in S.styles_for(prog):
      observer_pairs(ctx, ctx.rng, prog, style, None)
  # leaked scope objects
  lcases = []
  for i in range(120 if not thorough else 1500):
    prog = S.gen_restore_prog(ctx.rng) if i % 3 == 0 else S.gen_prog(ctx.rng, flavour=ctx.rng.choice(['core_ok', 'decl_first', 'mixed']))
    style = ctx.rng.choice(S.styles_for(prog))
    R = S.Rendered(prog, style)
    o0 = S.run_scenario(R, {'kind': 'init', 'prog': prog, 'style': style, 'mutable': True, 'x': 1, 'rngs': True})
    if o0['peak'] >= S.LIMIT or o0['result'][0] != 'ok' or o0['result'][3]:
      continue
    lcases.append({'kind': 'apply', 'prog': prog, 'style': style, 'mutable': S.gen_filter(ctx.rng), 'vars': o0['result'][2],
                   'x': ctx.rng.randrange(-2, 3), 'rngs': ctx.rng.random() < 0.6, 'which': ctx.rng.choice(['root', 'child', 'child']),
                   'pick': ctx.rng.randrange(100), 'leak': True, '_rng': ctx.rng})
  leak_suite(ctx, drv, conv, lcases)
  n = 550 if not thorough else 9000
  done = 0
  sample_src = None
  while done < n:
    if ctx.elapsed() > (60 if not thorough else 1000):
      ctx.notes.append(f'time budget reached after {done} programs')
      break
    batch = [S.gen_prog(ctx.rng) for _ in range(min(60, n - done))]
    scs = run_programs(ctx, drv, conv, batch)
    sample_src = sample_src or scs
    done += len(batch)
  ctx.extra['programs'] = done
  for sc in (sample_src or [])[:40:9]:
    ctx.sample(S.public(sc))
  ctx.extra['driver_calls'] = drv.calls
  if ctx.evaluations and ctx.dist.get('impl_result', {}).get('ok', 0) < 0.3 * ctx.evaluations:
    raise InfraError('generator degenerated: fewer than 30% of the cases return normally')


def replay(ctx, obj):
  drv = LeanDriver('drv_c01')
  conv = S.probe_conventions()
  run_case(ctx, drv, conv, obj.get('case', obj))
  for v in ctx.violations:
    print('  ', v['key'], '-', v['what'][:300])
  return bool(ctx.violations)
