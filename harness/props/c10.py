"""C10 — State-dict / msgpack serialization round-trips exactly and rejects mismatches.

Theorems: lean/Flax/Props/C10.lean over lean/Flax/Model/Serial.lean + lean/Flax/Model/Msgpack.lean.

Correspondence is by CROSS-DECODING, never byte equality: the Lean model unpacks / restores what the
real `flax.serialization.to_bytes` packed, the real `from_bytes` restores what the Lean model packed,
and both state-dict functions are compared on canonical forms (dtype name, shape, C-order bytes; dict
keys sorted; error class + the path named by the error).  Byte equality of the two encoders is counted
and reported as information only.  The chunk threshold is read from `serialization.MAX_CHUNK_SIZE` and
assigned around each call.

Property oracles are evaluated on the implementation independently of the model: exact round trip of
`from_state_dict∘to_state_dict` and `from_bytes∘to_bytes` for every threshold, input not modified,
structural mismatches raise an error naming the path, surplus / reordered state keys are harmless.
"""
from __future__ import annotations

import collections
import dataclasses
import itertools
import re
import struct as pystruct
from typing import Any

from harness import compat  # noqa: F401  (must precede flax)
from harness.common import InfraError, LeanDriver, load_corpus

import jax
import jax.numpy as jnp
import ml_dtypes
import msgpack
import numpy as np

from flax import serialization
from flax import struct as fstruct
from flax.core.frozen_dict import FrozenDict
from flax.training import train_state

SPEC = {
  'exes': ['drv_c10'],
  'rule': (
    'A round-trip case is one generated pytree (containers dict/FrozenDict/list/tuple/namedtuple/struct.dataclass/'
    'TrainState nested <= 5, leaves over every native-endian NumPy/ml_dtypes numeric dtype, rank 0..4, zero-size, '
    'C/Fortran/strided/negative-stride/broadcast/unaligned/read-only/JAX layouts, Python int/float/complex/None/bytes/str) '
    'x the chunk thresholds tried for it; it is non-trivial when the tree has at least one container and one array leaf. '
    'A restore case is a (target, state) pair: the full cross product of a small family of targets with the state dicts of '
    'all of them, plus one structural edit (drop/add/rename key, shorten/extend list, reorder, leaf for container) of a '
    'random tree; non-trivial when target is a container. A msgpack case is one msgpack value at the format boundaries '
    '(every int within 40 of a format edge; every tag byte 0x00..0xff x 4 bodies for the decoder). For trees without JAX leaves '
    'the dict objects written by msgpack_serialize(in_place=True) are compared with the heap model (post-order numbering). '
    'A robustness case is the bytes flax wrote for a tree, truncated / extended / with one bit flipped: both sides must reject '
    'truncated and extended strings, and agree on the restored tree whenever both accept a corrupted one. '
    'distinct = distinct canonical JSON of the case.'
  ),
  'trusted_base': [
    'hand-written Lean models lean/Flax/Model/Serial.lean, lean/Flax/Model/Msgpack.lean and lean/Flax/Model/SerialHeap.lean '
    '(heap model of the in-place passes) — tied to /repo by this run',
    'harness/props/c10.py (generators, canonicalisation through numpy tobytes("C")), harness/compat.py (JAX shim)',
    'A-MSGPACK: the msgpack C extension implements the wire format of Model/Msgpack.lean (cross-decoded on every run)',
    'A-NP: numpy tobytes("C") / frombuffer().reshape are mutually inverse on (dtype, shape, bytes); dtype(name).name == name',
  ],
  'assumptions': [
    'supported leaves = native-endian numeric dtypes (non-native byte order: observation F9, outside the claimed domain); '
    'long double excluded (padding bytes are not data)',
    'dict keys are strings; no dict contains the reserved key __msgpack_chunked_array__',
    'Python ints lie in [-2^63, 2^64); strings are valid Unicode (no lone surrogates)',
    'chunksize = max(1, int(T / itemsize)) is modelled with integer division (exact for T < 2^48)',
    'state nodes are dicts or leaves (what to_state_dict / msgpack_restore produce), possibly edited',
    'a state dict whose keys at a namedtuple position are exactly {name, fields, values} is the pre-2022 encoding '
    '(converted, then restored by field name; a malformed one raises an error that need not name the path)',
    'a plain dict directly inside a FrozenDict is observed as a FrozenDict (FrozenDict freezes nested dicts)',
  ],
  # nothing is `…_partial` for lack of proof; what is deliberately outside the theorems:
  'model_partial': [
    'statedict_roundtrip_orig_partial: by design the statement about the code as shipped (before fix 2071f38); '
    'the full statement statedict_roundtrip holds for the repaired code',
    'not modelled (hence no theorem): NumPy-side consistency checks of _ndarray_from_bytes (dtype name known, buffer size '
    'matches shape) — on corrupted bytes the model may accept what NumPy rejects (counted as robust_corrupted real-err/model-ok); '
    'float32 and reserved ext codes in the decoder; jax.tree_util.tree_map is modelled as a deep copy of dicts (copyH)',
  ],
}

DEFAULT_T = serialization.MAX_CHUNK_SIZE
MARKER = '__msgpack_chunked_array__'

# ------------------------------------------------------------------------------------------------
# dtypes
# ------------------------------------------------------------------------------------------------

NP_DTYPES = ['bool', 'int8', 'int16', 'int32', 'int64', 'uint8', 'uint16', 'uint32', 'uint64', 'float16', 'float32', 'float64', 'complex64', 'complex128']
ML_DTYPES = [n for n in ['bfloat16', 'float8_e4m3fn', 'float8_e5m2', 'float8_e4m3b11fnuz', 'float8_e4m3fnuz', 'float8_e5m2fnuz', 'float8_e3m4', 'float8_e4m3', 'float8_e8m0fnu', 'float4_e2m1fn', 'float6_e2m3fn', 'float6_e3m2fn', 'int4', 'uint4', 'int2', 'uint2'] if hasattr(ml_dtypes, n)]
ALL_DTYPES = NP_DTYPES + ML_DTYPES
# what jnp.asarray keeps unchanged without x64
JAX_DTYPES = ['bool', 'int8', 'int16', 'int32', 'uint8', 'uint16', 'uint32', 'float16', 'float32', 'complex64', 'bfloat16', 'float8_e4m3fn', 'float8_e5m2', 'int4', 'uint4']
JAX_DTYPES = [d for d in JAX_DTYPES if d in ALL_DTYPES]


def np_dtype(name):
  return np.dtype(getattr(ml_dtypes, name)) if name in ML_DTYPES else np.dtype(name)


ITEMSIZE = {n: np_dtype(n).itemsize for n in ALL_DTYPES}

# element byte patterns that are safe for every consumer (bool must be 0/1, sub-byte ints keep their range)
_LOWBITS = {'bool': 1, 'int4': 4, 'uint4': 4, 'int2': 2, 'uint2': 2, 'float4_e2m1fn': 4, 'float6_e2m3fn': 6, 'float6_e3m2fn': 6}


def rand_elem_bytes(rng, dtype, n):
  isz = ITEMSIZE[dtype]
  if dtype in _LOWBITS:
    if dtype in ('int4', 'int2'):
      bits = _LOWBITS[dtype]
      vals = [rng.randrange(-(1 << (bits - 1)), 1 << (bits - 1)) for _ in range(n)]
      return np.array(vals, dtype=np.int8).astype(np_dtype(dtype)).tobytes()
    return bytes(rng.randrange(1 << _LOWBITS[dtype]) for _ in range(n))
  return rng.randbytes(n * isz)


# ------------------------------------------------------------------------------------------------
# hex / canonical JSON of leaves
# ------------------------------------------------------------------------------------------------


def hx(s: str) -> str:
  return s.encode('utf-8').hex()


def unhx(h: str) -> str:
  return bytes.fromhex(h).decode('utf-8')


def f_bits(x: float) -> str:
  return pystruct.pack('>d', x).hex()


def bits_f(h: str) -> float:
  return pystruct.unpack('>d', bytes.fromhex(h))[0]


def is_namedtuple(x):
  return isinstance(x, tuple) and hasattr(x, '_fields')


def is_struct(x):
  return dataclasses.is_dataclass(x) and getattr(type(x), '_flax_dataclass', False)


def describe_leaf(x):
  """Canonical JSON of a leaf: only (kind, dtype name, shape, C-order bytes / exact bits)."""
  if x is None:
    return None
  if type(x) is bool:
    return x
  if type(x) is int:
    return {'i': x}
  if type(x) is float:
    return {'f': f_bits(x)}
  if type(x) is complex:
    return {'c': [f_bits(x.real), f_bits(x.imag)]}
  if type(x) is str:
    return {'s': hx(x)}
  if type(x) is bytes:
    return {'b': x.hex()}
  if isinstance(x, jax.Array):
    a = np.asarray(x)
    return {'nd': {'dtype': a.dtype.name, 'shape': list(a.shape), 'hex': a.tobytes('C').hex()}}
  if isinstance(x, np.ndarray):
    return {'nd': {'dtype': x.dtype.name, 'shape': list(x.shape), 'hex': x.tobytes('C').hex()}}
  if isinstance(x, np.generic):
    return {'np': {'dtype': x.dtype.name, 'hex': x.tobytes().hex()}}
  return {'unsupported': type(x).__name__}


class Fn:
  """stand-in for the non-pytree fields of TrainState (apply_fn, tx)"""

  def __init__(self, n):
    self.n = n

  def __call__(self, *a):
    return None


def describe(x):
  """Python object -> Tree JSON (containers by exact type, like flax's dispatch)."""
  if type(x) is dict:
    return {'t': 'dict', 'kv': [[hx(k) if isinstance(k, str) else {'nonstr': repr(k)}, describe(v)] for k, v in x.items()]}
  if type(x) is FrozenDict:
    return {'t': 'fdict', 'kv': [[hx(k), describe(v)] for k, v in x.items()]}
  if type(x) is list:
    return {'t': 'list', 'xs': [describe(v) for v in x]}
  if type(x) is tuple:
    return {'t': 'tuple', 'xs': [describe(v) for v in x]}
  if is_namedtuple(x):
    return {'t': 'named', 'cls': type(x).__name__, 'kv': [[hx(k), describe(getattr(x, k))] for k in x._fields]}
  if type(x) is train_state.TrainState:
    aux = x.apply_fn.n if isinstance(x.apply_fn, Fn) and x.apply_fn is x.tx else -1
    return {'t': 'struct', 'cls': 'TrainState', 'aux': aux, 'kv': [[hx(k), describe(getattr(x, k))] for k in ('step', 'params', 'opt_state')]}
  if is_struct(x):
    data = [f.name for f in dataclasses.fields(x) if f.metadata.get('pytree_node', True)]
    statics = [f.name for f in dataclasses.fields(x) if not f.metadata.get('pytree_node', True) and f.name != 'aux']
    aux = getattr(x, 'aux', -1)
    if any(getattr(x, st) != aux for st in statics):
      aux = -1  # every static field of a generated class carries the same token
    return {'t': 'struct', 'cls': type(x).__name__, 'aux': aux if type(aux) is int else -1, 'statics': statics,
            'base': 'node' if isinstance(x, fstruct.PyTreeNode) else 'dataclass',
            'kv': [[hx(k), describe(getattr(x, k))] for k in data]}
  return describe_leaf(x)


def describe_state(x):
  """state dict (nested plain dicts + leaves) -> STree JSON"""
  if isinstance(x, dict):
    return {'d': [[hx(k) if isinstance(k, str) else {'nonstr': repr(k)}, describe_state(v)] for k, v in x.items()]}
  if isinstance(x, (list, tuple, FrozenDict)) or is_struct(x):
    return {'unsupported': type(x).__name__}
  return describe_leaf(x)


def norm(j):
  """Order-insensitive canonical form: dict / FrozenDict / state-dict entries sorted by key; the
  `layout` annotation of arrays dropped; a plain dict directly inside a FrozenDict is the FrozenDict
  it is observed as (FrozenDict freezes nested dicts: the two denote the same Python value)."""
  return _norm(fix_frozen(j))


def _norm(j):
  norm = _norm
  if isinstance(j, dict):
    if 'nd' in j:
      return {'nd': {k: j['nd'][k] for k in ('dtype', 'shape', 'hex')}}
    if 'd' in j:
      return {'d': sorted(([k, norm(v)] for k, v in j['d']), key=lambda p: str(p[0]))}
    if 't' in j:
      out = {'t': j['t']}
      if 'kv' in j:
        kv = [[k, norm(v)] for k, v in j['kv']]
        out['kv'] = sorted(kv, key=lambda p: str(p[0])) if j['t'] in ('dict', 'fdict') else kv
      if 'xs' in j:
        out['xs'] = [norm(v) for v in j['xs']]
      if 'cls' in j:
        out['cls'] = j['cls']
      if 'aux' in j:
        out['aux'] = j['aux']
      return out
    return j
  return j


def state_as_tree(j):
  """STree JSON -> the Tree JSON of the same Python object (what from_state_dict returns at a leaf target)"""
  if isinstance(j, dict) and 'd' in j:
    return {'t': 'dict', 'kv': [[k, state_as_tree(v)] for k, v in j['d']]}
  return j


# ------------------------------------------------------------------------------------------------
# building Python objects from descriptions
# ------------------------------------------------------------------------------------------------

_NT = {}
_ST = {}


def nt_class(cls, fields):
  key = (cls, tuple(fields))
  if key not in _NT:
    _NT[key] = collections.namedtuple(cls, fields)
  return _NT[key]


def struct_class(cls, fields, statics=(), base='dataclass'):
  """a flax struct dataclass with data (pytree-node) fields `fields` and static (`pytree_node=False`)
  fields `aux` + `statics`; `base='node'` derives it from `struct.PyTreeNode` instead of decorating"""
  key = (cls, tuple(fields), tuple(statics), base)
  if key not in _ST:
    ann = {f: Any for f in fields}
    ns = {}
    for st in ('aux',) + tuple(statics):
      ann[st] = Any
      ns[st] = fstruct.field(pytree_node=False, default=0)
    ns['__annotations__'] = ann
    if base == 'node':
      _ST[key] = type(cls, (fstruct.PyTreeNode,), ns)
    else:
      _ST[key] = fstruct.dataclass(type(cls, (), ns))
  return _ST[key]


def static_names(node):
  """names of the `pytree_node=False` fields of a struct node of a Tree JSON"""
  if node.get('cls') == 'TrainState':
    return ['apply_fn', 'tx']
  return ['aux'] + list(node.get('statics', []))


def build_array(nd):
  dtype, shape, layout = nd['dtype'], tuple(nd['shape']), nd.get('layout', 'C')
  raw = bytes.fromhex(nd['hex'])
  base = np.frombuffer(raw, dtype=np_dtype(dtype)).reshape(shape).copy()
  nd_rank = len(shape)
  if layout == 'F' and nd_rank >= 2:
    return np.asfortranarray(base)
  if layout == 'strided' and nd_rank >= 1:
    big = np.zeros(shape[:-1] + (shape[-1] * 2 + 1,), dtype=base.dtype)
    view = big[..., 1::2][..., : shape[-1]]
    view[...] = base
    return view
  if layout == 'neg' and nd_rank >= 1:
    return np.ascontiguousarray(base[::-1])[::-1]
  if layout == 'bcast' and nd_rank >= 1 and shape[0] >= 1:
    return np.broadcast_to(base[0], shape)
  if layout == 'T' and nd_rank >= 2:
    return np.ascontiguousarray(base.T).T
  if layout == 'unaligned':
    buf = np.frombuffer(b'\0' + raw, dtype=np.uint8)[1:]
    return buf.view(np_dtype(dtype)).reshape(shape)
  if layout == 'ro':
    return np.frombuffer(raw, dtype=np_dtype(dtype)).reshape(shape)
  if layout == 'jax':
    return jnp.asarray(base)
  return base


def build_leaf(j):
  if j is None or isinstance(j, bool):
    return j
  if 'i' in j:
    return int(j['i'])
  if 'f' in j:
    return bits_f(j['f'])
  if 'c' in j:
    return complex(bits_f(j['c'][0]), bits_f(j['c'][1]))
  if 's' in j:
    return unhx(j['s'])
  if 'b' in j:
    return bytes.fromhex(j['b'])
  if 'nd' in j:
    return build_array(j['nd'])
  if 'np' in j:
    return np.frombuffer(bytes.fromhex(j['np']['hex']), dtype=np_dtype(j['np']['dtype']))[0]
  raise InfraError(f'cannot build leaf {j}')


def build(j):
  """Tree JSON -> Python object"""
  if isinstance(j, dict) and 't' in j:
    t = j['t']
    if t in ('dict', 'fdict'):
      d = {unhx(k): build(v) for k, v in j['kv']}
      return d if t == 'dict' else FrozenDict(d)
    if t == 'list':
      return [build(v) for v in j['xs']]
    if t == 'tuple':
      return tuple(build(v) for v in j['xs'])
    if t == 'named':
      fields = [unhx(k) for k, _ in j['kv']]
      return nt_class(j['cls'], fields)(*[build(v) for _, v in j['kv']])
    if t == 'struct':
      fields = [unhx(k) for k, _ in j['kv']]
      vals = {unhx(k): build(v) for k, v in j['kv']}
      if j['cls'] == 'TrainState':
        fn = Fn(j['aux'])
        return train_state.TrainState(step=vals['step'], apply_fn=fn, params=vals['params'], tx=fn, opt_state=vals['opt_state'])
      statics = list(j.get('statics', []))
      return struct_class(j['cls'], fields, statics, j.get('base', 'dataclass'))(aux=j['aux'], **{st: j['aux'] for st in statics}, **vals)
    raise InfraError(f'unknown container {t}')
  return build_leaf(j)


def build_state(j):
  """STree JSON -> nested plain dicts"""
  if isinstance(j, dict) and 'd' in j:
    return {unhx(k): build_state(v) for k, v in j['d']}
  return build_leaf(j)


# ------------------------------------------------------------------------------------------------
# calling the implementation
# ------------------------------------------------------------------------------------------------


def call(fn, *a):
  """Every exception raised by flax is an observation."""
  try:
    return ('ok', fn(*a))
  except ValueError as e:
    return ('err', 'ValueError', str(e))
  except KeyError as e:
    return ('err', 'KeyError', str(e))
  except (TypeError, AttributeError, IndexError) as e:
    return ('err', 'NotMapping', type(e).__name__ + ': ' + str(e))
  except AssertionError as e:
    return ('err', 'Assertion', str(e))
  except Exception as e:  # noqa: BLE001
    return ('err', 'Exception:' + type(e).__name__, str(e))


class threshold:
  """`serialization.MAX_CHUNK_SIZE = T` around a call; the previous value is read back and restored"""

  def __init__(self, T):
    self.T = T

  def __enter__(self):
    self.old = serialization.MAX_CHUNK_SIZE
    serialization.MAX_CHUNK_SIZE = self.T

  def __exit__(self, *a):
    serialization.MAX_CHUNK_SIZE = self.old


def names_path(msg, path):
  """does the error message name `path` (the property: 'raise an error naming the path')"""
  m = msg
  if 'at path' in m:
    return m.endswith('at path ' + path) or m.endswith('at path ' + path + '.')
  return len(path) > 1 and path in m


def model_err(e):
  """driver error string -> (class, path or None)"""
  parts = e.split('|')
  if parts[0] == 'ValueError':
    return ('ValueError', parts[-1])
  return (parts[0], None)


def snapshot(x, depth=0):
  """identity + content snapshot of a pytree: ids of all containers / leaves, entry structure, bytes of arrays"""
  if isinstance(x, FrozenDict):
    # FrozenDict hands out a fresh wrapper for every nested dict on each access: no stable id below it
    subs = [(k, snapshot(v)) for k, v in x.items()]
    subs = [(k, (s[0], None) + s[2:]) if s[0] == 'map' and s[2] == 'FrozenDict' else (k, s) for k, s in subs]
    return ('map', id(x), 'FrozenDict', subs)
  if isinstance(x, dict):
    return ('map', id(x), type(x).__name__, [(k, snapshot(v)) for k, v in x.items()])
  if isinstance(x, (list, tuple)):
    return ('seq', id(x), type(x).__name__, [snapshot(v) for v in x])
  if is_struct(x):
    return ('struct', id(x), type(x).__name__, [(f.name, snapshot(getattr(x, f.name))) for f in dataclasses.fields(x)])
  if isinstance(x, Fn):
    return ('fn', id(x), x.n)
  return ('leaf', id(x), type(x).__name__, describe_leaf(x), (x.flags.writeable, x.strides) if isinstance(x, np.ndarray) else None)


# ------------------------------------------------------------------------------------------------
# generators
# ------------------------------------------------------------------------------------------------

KEY_POOL = ['a', 'b', 'w', 'kernel', 'bias', '0', '1', '2', '10', '', '.', 'a/b', 'name', 'fields', 'values', 'shape', 'chunks', 'é', '键', '𝛼', 'x' * 31, 'y' * 32, 'z' * 40, 'k' * 256]
FIELD_POOL = ['a', 'b', 'x', 'y', 'step', 'params', 'count', 'mu', 'nu', 'name', 'fields', 'values', 'é', 'w0']
STATIC_POOL = ['cfg', 'scale', 'tx', 'apply_fn', 'name', 'step']
LAYOUTS = ['C', 'C', 'C', 'F', 'strided', 'neg', 'bcast', 'T', 'unaligned', 'ro', 'jax', 'jax']
SPECIAL_FLOATS = [0.0, -0.0, 1.5, float('inf'), float('-inf'), float('nan'), -float('nan'), 5e-324, 1.7976931348623157e308, 2.2250738585072014e-308, 0.1]
SPECIAL_INTS = [0, 1, -1, 127, 128, 255, 256, -32, -33, -128, -129, 32767, 32768, 65535, 65536, -32768, -32769, 2**31 - 1, 2**31, 2**32 - 1, 2**32, -(2**31), -(2**31) - 1, 2**63 - 1, 2**63, 2**64 - 1, -(2**63)]


def gen_shape(rng, big=False):
  r = rng.random()
  if r < 0.12:
    return []
  if r < 0.22:
    rank = rng.randrange(1, 4)
    s = [rng.randrange(0, 4) for _ in range(rank)]
    s[rng.randrange(rank)] = 0
    return s
  rank = rng.choice([1, 1, 2, 2, 3, 4])
  cap = {1: 40, 2: 9, 3: 5, 4: 3}[rank]
  s = [rng.randrange(1, cap + 1) for _ in range(rank)]
  if big and rank <= 2:
    s[0] = rng.randrange(60, 400)
  return s


def gen_array(rng, big=False):
  layout = rng.choice(LAYOUTS)
  dtype = rng.choice(JAX_DTYPES if layout == 'jax' else ALL_DTYPES)
  shape = gen_shape(rng, big)
  n = int(np.prod(shape)) if shape else 1
  if layout == 'bcast' and len(shape) >= 1 and shape[0] >= 1:
    inner = rand_elem_bytes(rng, dtype, n // shape[0])
    raw = inner * shape[0]
  else:
    raw = rand_elem_bytes(rng, dtype, n)
  return {'nd': {'dtype': dtype, 'shape': shape, 'hex': raw.hex(), 'layout': layout}}


def gen_str(rng):
  r = rng.random()
  if r < 0.5:
    return rng.choice(KEY_POOL)
  alphabet = 'abcXYZ019 _-/.éßλ键日本𝛼😀\n\t"\\\x00'
  n = rng.choice([0, 1, 3, 7, 31, 32, 33, 255, 256, 300])
  return ''.join(rng.choice(alphabet) for _ in range(n))


def gen_leaf(rng, big=False):
  r = rng.random()
  if r < 0.5:
    return gen_array(rng, big)
  if r < 0.58:
    dtype = rng.choice(ALL_DTYPES)
    return {'np': {'dtype': dtype, 'hex': rand_elem_bytes(rng, dtype, 1).hex()}}
  if r < 0.68:
    return {'i': rng.choice(SPECIAL_INTS) if rng.random() < 0.7 else rng.randrange(-(2**63), 2**64)}
  if r < 0.76:
    return {'f': f_bits(rng.choice(SPECIAL_FLOATS) if rng.random() < 0.7 else rng.uniform(-1e6, 1e6))}
  if r < 0.81:
    return {'c': [f_bits(rng.choice(SPECIAL_FLOATS)), f_bits(rng.choice(SPECIAL_FLOATS))]}
  if r < 0.86:
    return None
  if r < 0.9:
    return rng.random() < 0.5
  if r < 0.95:
    return {'s': hx(gen_str(rng))}
  return {'b': rng.randbytes(rng.choice([0, 1, 5, 255, 256, 300])).hex()}


def gen_keys(rng, n, pool):
  ks = rng.sample(pool, min(n, len(pool)))
  return ks


def gen_tree(rng, depth, big=False):
  if depth <= 0 or rng.random() < 0.22:
    return gen_leaf(rng, big)
  kind = rng.choice(['dict', 'dict', 'fdict', 'list', 'tuple', 'named', 'struct', 'struct', 'trainstate'])
  width = rng.choice([0, 1, 1, 2, 2, 3, 4]) if rng.random() < 0.93 else rng.choice([15, 16, 17])
  sub = lambda: gen_tree(rng, depth - 1 if width < 10 else 0, big)  # noqa: E731
  if kind in ('dict', 'fdict'):
    ks = [k for k in gen_keys(rng, width, KEY_POOL)]
    return {'t': kind, 'kv': [[hx(k), sub()] for k in ks]}
  if kind in ('list', 'tuple'):
    return {'t': kind, 'xs': [sub() for _ in range(width)]}
  if kind == 'named':
    fs = ['name', 'fields', 'values'] if rng.random() < 0.08 else gen_keys(rng, min(width, 5), FIELD_POOL)
    if rng.random() < 0.3:
      rng.shuffle(fs)
    return {'t': 'named', 'cls': 'NT' + str(len(fs)), 'kv': [[hx(k), sub()] for k in fs]}
  if kind == 'struct':
    fs = gen_keys(rng, min(width, 5), FIELD_POOL)
    statics = [n for n in rng.sample(STATIC_POOL, rng.choice([0, 0, 1, 2])) if n not in fs]
    base = rng.choice(['dataclass', 'dataclass', 'node'])
    return {'t': 'struct', 'cls': 'SD%d%s%s' % (len(fs), 's%d' % len(statics) if statics else '', 'n' if base == 'node' else ''),
            'aux': rng.randrange(100), 'statics': statics, 'base': base, 'kv': [[hx(k), sub()] for k in fs]}
  # TrainState with an optax-like opt_state: tuple of namedtuples, one of them empty (optax.EmptyState)
  opt = {'t': 'tuple', 'xs': [
    {'t': 'named', 'cls': 'ScaleByAdamState', 'kv': [[hx('count'), gen_array(rng)], [hx('mu'), sub()], [hx('nu'), sub()]]},
    {'t': 'named', 'cls': 'EmptyState', 'kv': []},
  ]}
  return {'t': 'struct', 'cls': 'TrainState', 'aux': rng.randrange(100), 'kv': [[hx('step'), rng.choice([{'i': rng.randrange(1000)}, gen_array(rng)])], [hx('params'), sub()], [hx('opt_state'), opt]]}


def fix_frozen(j, under=False):
  """FrozenDict freezes the plain dicts directly below it: describe them as what they become"""
  if isinstance(j, dict) and 't' in j:
    out = dict(j)
    if j['t'] in ('dict', 'fdict'):
      fr = under or j['t'] == 'fdict'
      out['t'] = 'fdict' if fr else 'dict'
      out['kv'] = [[k, fix_frozen(v, fr)] for k, v in j['kv']]
    elif 'kv' in j:
      out['kv'] = [[k, fix_frozen(v, False)] for k, v in j['kv']]
    else:
      out['xs'] = [fix_frozen(v, False) for v in j['xs']]
    return out
  return j


def arrays_in(j, out):
  if isinstance(j, dict):
    if 'nd' in j:
      out.append(j['nd'])
    for key in ('kv', 'd'):
      for _, v in j.get(key, []):
        arrays_in(v, out)
    for v in j.get('xs', []):
      arrays_in(v, out)
  return out


def depth_of(j):
  if isinstance(j, dict) and 't' in j:
    subs = [v for _, v in j.get('kv', [])] + j.get('xs', [])
    return 1 + max([depth_of(v) for v in subs], default=0)
  return 0


def thresholds_for(rng, desc, n):
  arrs = arrays_in(desc, [])
  cands = {1, 2, 3, 17, 64, DEFAULT_T}
  for nd in arrs:
    isz = ITEMSIZE[nd['dtype']]
    size = isz * (int(np.prod(nd['shape'])) if nd['shape'] else 1)
    cands |= {max(1, isz - 1), isz, isz + 1, max(1, size - 1), max(1, size), size + 1, max(1, size // 2), max(1, size // 3)}
  cands = sorted(cands)
  picks = {DEFAULT_T}
  while len(picks) < min(n, len(cands)):
    picks.add(rng.choice(cands))
  return sorted(picks)


# --- structural edits of a state (the mismatch stream) ------------------------------------------


def container_paths(desc, path=()):
  """paths (tuples of key strings) of all container nodes of a Tree JSON, with the node"""
  out = []
  if isinstance(desc, dict) and 't' in desc:
    out.append((path, desc))
    if 'kv' in desc:
      for k, v in desc['kv']:
        out += container_paths(v, path + (unhx(k),))
    else:
      for i, v in enumerate(desc['xs']):
        out += container_paths(v, path + (str(i),))
  return out


def state_at(state, path):
  for k in path:
    state = dict((a, b) for a, b in state['d'])[hx(k)]
  return state


def edit_state(rng, desc, sd):
  """One structural edit of the state dict `sd` (STree JSON, deep-copied) of target `desc`.
  Returns (edited state, edit kind, path tuple, expectation) where expectation is
  'error' (the property demands an error naming the path), 'same' (harmless: result must equal the
  target) or 'free' (outside the property's clauses: only model/implementation agreement is checked)."""
  import copy

  sd = copy.deepcopy(sd)
  nodes = container_paths(desc)
  if not nodes:
    return sd, 'none', (), 'same'
  path, node = rng.choice(nodes)
  st = state_at(sd, path)
  t = node['t']
  entries = st['d']
  choice = rng.random()
  fresh = 'zz_new'
  if choice < 0.12:
    rng.shuffle(entries)
    return sd, 'reorder', path, 'same'
  if choice < 0.2 and entries:
    # replace the container's state by a scalar leaf
    parent_path = path
    leaf = rng.choice([None, {'i': 3}, {'f': f_bits(1.5)}, True])
    if not parent_path:
      return leaf, 'leaf-for-container', path, 'error-any'
    pst = state_at(sd, parent_path[:-1])
    for p in pst['d']:
      if p[0] == hx(parent_path[-1]):
        p[1] = leaf
    return sd, 'leaf-for-container', path, 'error-any'
  if t in ('dict', 'fdict'):
    if choice < 0.55 and entries:
      del entries[rng.randrange(len(entries))]
      return sd, 'drop-key', path, 'error'
    if choice < 0.75 and entries:
      i = rng.randrange(len(entries))
      entries[i][0] = hx(fresh)
      return sd, 'rename-key', path, 'error'
    entries.insert(rng.randrange(len(entries) + 1), [hx(fresh), {'i': 7}])
    return sd, 'add-key', path, 'same'
  if t in ('list', 'tuple'):
    if choice < 0.5 and entries:
      del entries[-1]
      return sd, 'shorten', path, 'error'
    if choice < 0.65 and entries:
      del entries[0]
      return sd, 'drop-first', path, 'error'
    if choice < 0.85:
      entries.append([hx(str(len(entries))), {'i': 7}])
      return sd, 'extend', path, 'error'
    if entries:
      i = rng.randrange(len(entries))
      entries[i][0] = hx(fresh)
      return sd, 'rename-index', path, 'error-any'  # same length, wrong key: KeyError (an error, no path)
    entries.append([hx('0'), {'i': 7}])
    return sd, 'extend', path, 'error'
  # named / struct: surplus keys are drawn from the class's own static (pytree_node=False) field names,
  # from the field names / keys of nested containers, and from fresh names
  have = {unhx(k) for k, _ in entries}
  cands = [fresh]
  if t == 'struct':
    cands += static_names(node) * 2
  for _, sub in container_paths(node)[1:]:
    cands += [unhx(k) for k, _ in sub.get('kv', [])]
  cands = [c for c in cands if c not in have and c != '']
  surplus = rng.choice(cands)
  if choice < 0.4 and entries:
    del entries[rng.randrange(len(entries))]
    if t == 'named' and {unhx(k) for k, _ in entries} == {'name', 'fields', 'values'}:
      # what is left looks like the pre-2022 encoding: it is read as such (an error, of whatever kind)
      return sd, 'drop-field-legacy', path, 'error-any'
    return sd, 'drop-field', path, 'error'
  if choice < 0.6 and entries:
    i = rng.randrange(len(entries))
    entries[i][0] = hx(surplus)
    kind = 'rename-field'
  else:
    entries.insert(rng.randrange(len(entries) + 1), [hx(surplus), {'i': 7}])
    kind = 'add-field-static-name' if t == 'struct' and surplus in static_names(node) else 'add-field'
  if t == 'named' and {unhx(k) for k, _ in entries} == {'name', 'fields', 'values'}:
    return sd, kind + '-legacy', path, 'error-any'
  return sd, kind, path, 'error'


# ------------------------------------------------------------------------------------------------
# checks
# ------------------------------------------------------------------------------------------------


def isz_table(desc):
  return {nd['dtype']: ITEMSIZE[nd['dtype']] for nd in arrays_in(desc, [])}


def _postorder_dicts(sd, out):
  if isinstance(sd, dict):
    for v in sd.values():
      _postorder_dicts(v, out)
    out.append(sd)


def check_roundtrip_batch(ctx, drv, cases, tag):
  """cases: list of {'kind': 'roundtrip', 'tree': Tree JSON (with layouts), 'T': [thresholds]}"""
  reqs = []
  recs = []
  for case in cases:
    case['tree'] = fix_frozen(case['tree'])
    desc = case['tree']
    obj = build(desc)
    D = describe(obj)
    nD = norm(D)
    if nD != norm(desc):
      raise InfraError(f'harness self-check: built object does not match its description: {str(desc)[:300]}')
    rec = {'case': case, 'obj': obj, 'D': D, 'nD': nD, 'fail': None, 'bytes': {}}
    recs.append(rec)
    tbl = isz_table(D)
    # ---- implementation + property oracles (independent of the model) ----
    snap0 = snapshot(obj)
    r_sd = call(serialization.to_state_dict, obj)
    if snapshot(obj) != snap0:
      rec['fail'] = ('frame-to_state_dict', 'to_state_dict modified its input')
    if r_sd[0] != 'ok':
      rec['fail'] = rec['fail'] or ('to_state_dict-raises', f'to_state_dict raised {r_sd[1:]}')
      continue
    sd = r_sd[1]
    if state_impure(sd):
      rec['fail'] = rec['fail'] or ('state-dict-not-pure', f'to_state_dict left a non-dict container in the state dict at {state_impure(sd)}')
      r_x = call(serialization.from_state_dict, obj, sd)
      r_y = call(serialization.to_bytes, obj)
      rec['fail'] = (rec['fail'][0], rec['fail'][1] + f'; from_state_dict(t, to_state_dict(t)) -> {r_x[0]} {r_x[1] if r_x[0] != "ok" else ""}; to_bytes(t) -> {r_y[0]} {r_y[1] if r_y[0] != "ok" else ""}')
      continue
    rec['sd'] = describe_state(sd)
    r_rt = call(serialization.from_state_dict, obj, sd)
    if r_rt[0] != 'ok':
      rec['fail'] = rec['fail'] or ('statedict-roundtrip-raises', f'from_state_dict(t, to_state_dict(t)) raised {r_rt[1:]}')
    elif norm(describe(r_rt[1])) != nD:
      rec['fail'] = rec['fail'] or ('statedict-roundtrip-differs', 'from_state_dict(t, to_state_dict(t)) differs from t')
    elif skeleton_differs(obj, r_rt[1]):
      rec['fail'] = rec['fail'] or ('statedict-roundtrip-skeleton', 'from_state_dict(t, to_state_dict(t)): ' + skeleton_differs(obj, r_rt[1]))
    results = {}
    for T in case['T']:
      with threshold(T):
        snap1 = snapshot(obj)
        r_b = call(serialization.to_bytes, obj)
        if snapshot(obj) != snap1:
          rec['fail'] = rec['fail'] or ('frame-to_bytes', f'to_bytes modified its input (threshold {T})')
        if r_b[0] != 'ok':
          rec['fail'] = rec['fail'] or ('to_bytes-raises', f'to_bytes raised {r_b[1:]} (threshold {T})')
          continue
        rec['bytes'][T] = r_b[1]
        r_fb = call(serialization.from_bytes, obj, r_b[1])
      if r_fb[0] != 'ok':
        rec['fail'] = rec['fail'] or ('bytes-roundtrip-raises', f'from_bytes(t, to_bytes(t)) raised {r_fb[1:]} (threshold {T})')
        continue
      results[T] = norm(describe(r_fb[1]))
      if results[T] != nD:
        rec['fail'] = rec['fail'] or ('bytes-roundtrip-differs', f'from_bytes(t, to_bytes(t)) differs from t (threshold {T})')
      elif skeleton_differs(obj, r_fb[1]):
        rec['fail'] = rec['fail'] or ('bytes-roundtrip-skeleton', f'from_bytes(t, to_bytes(t)) (threshold {T}): ' + skeleton_differs(obj, r_fb[1]))
      # restoring under a different threshold than the one used for saving
      r_fb2 = call(serialization.from_bytes, obj, r_b[1])
      if r_fb2[0] != 'ok' or norm(describe(r_fb2[1])) != nD:
        rec['fail'] = rec['fail'] or ('bytes-roundtrip-threshold', f'bytes written with threshold {T} do not restore under the default threshold')
    if len({str(v) for v in results.values()}) > 1:
      rec['fail'] = rec['fail'] or ('threshold-dependence', f'result depends on the chunk threshold: {sorted(results)}')
    # msgpack_serialize without in_place must not touch a state dict handed to it
    sd2 = call(serialization.to_state_dict, obj)[1]
    snap2 = snapshot(sd2)
    Tm = case['T'][0]
    with threshold(Tm):
      r_ms = call(serialization.msgpack_serialize, sd2)
    if snapshot(sd2) != snap2:
      rec['fail'] = rec['fail'] or ('frame-msgpack_serialize', f'msgpack_serialize(in_place=False) modified its input (threshold {Tm})')
    if r_ms[0] == 'ok':
      r_mr = call(serialization.msgpack_restore, r_ms[1])
      if r_mr[0] != 'ok' or norm(describe_state(r_mr[1])) != norm(rec['sd']):
        rec['fail'] = rec['fail'] or ('msgpack-restore-differs', f'msgpack_restore(msgpack_serialize(sd)) differs from sd (threshold {Tm})')
    else:
      rec['fail'] = rec['fail'] or ('msgpack_serialize-raises', f'msgpack_serialize raised {r_ms[1:]}')
    # in_place=True: which dict objects of the state does the pass write to (heap model correspondence)
    rec['inplace'] = None
    if not any(nd.get('layout') == 'jax' for nd in arrays_in(desc, [])):
      sd3 = call(serialization.to_state_dict, obj)[1]
      dicts = []
      _postorder_dicts(sd3, dicts)
      before = [[id(v) for v in d.values()] for d in dicts]
      keep = [list(d.values()) for d in dicts]  # keep the old values alive: no id reuse
      with threshold(Tm):
        r_ip = call(serialization.msgpack_serialize, sd3, True)
      if r_ip[0] == 'ok':
        obs = []
        for i, d in enumerate(dicts):
          obs += [i] * sum(1 for old, v in zip(before[i], d.values()) if id(v) != old)
        rec['inplace'] = (len(dicts), sorted(obs))
      del keep
    # ---- model requests ----
    rec['req0'] = len(reqs)
    reqs.append(('to_state_dict', [D]))
    reqs.append(('from_state_dict', [D, rec['sd']]))
    if rec['inplace'] is not None:
      reqs.append(('inplace_writes', [Tm, tbl, rec['sd']]))
    for T in case['T']:
      if T in rec['bytes']:
        reqs.append(('to_bytes', [T, tbl, D]))
        reqs.append(('from_bytes', [D, rec['bytes'][T].hex()]))
        reqs.append(('restore', [rec['bytes'][T].hex()]))
  outs = drv.run(reqs)
  for rec in recs:
    case = rec['case']
    desc = case['tree']
    arrs = arrays_in(desc, [])
    nontrivial = depth_of(desc) >= 1 and len(arrs) >= 1
    ctx.case({'k': 'rt', 'tree': rec['nD'], 'T': case['T']}, nontrivial=nontrivial, n=max(1, len(case['T'])))
    ctx.count('rt_depth', depth_of(desc))
    ctx.count('rt_thresholds_per_case', len(case['T']))
    for nd in arrs:
      ctx.count('array_dtype', nd['dtype'])
      ctx.count('array_layout', nd.get('layout', 'C'))
      ctx.count('array_rank', len(nd['shape']))
      size = ITEMSIZE[nd['dtype']] * (int(np.prod(nd['shape'])) if nd['shape'] else 1)
      ctx.count('array_nbytes', '0' if size == 0 else '<=16' if size <= 16 else '<=256' if size <= 256 else '>256')
      for T in case['T']:
        ctx.count('array_chunked', 'chunked' if size > T else 'whole')
    for path, node in container_paths(desc):
      ctx.count('container', node['cls'] if node.get('cls') == 'TrainState' else node['t'])
    if rec['fail']:
      key, what = rec['fail']
      ctx.violation(tag + key, what + f' — tree {str(rec["nD"])[:400]}', case, concrete=True)
      continue
    k = rec['req0']
    mism = None
    m_sd, m_rt = outs[k], outs[k + 1]
    k += 2
    if m_sd[0] != 'ok' or norm(m_sd[1]) != norm(rec['sd']):
      mism = f'to_state_dict: model {str(m_sd)[:200]} vs implementation {str(norm(rec["sd"]))[:200]}'
    elif m_rt[0] != 'ok' or norm(m_rt[1]) != rec['nD']:
      mism = f'from_state_dict(t, to_state_dict(t)): model {str(m_rt)[:200]}'
    if rec['inplace'] is not None:
      m_ip = outs[k]
      k += 1
      ctx.count('inplace_true_writes', 'some' if rec['inplace'][1] else 'none')
      if not mism and (m_ip[0] != 'ok' or (m_ip[1]['dicts'], sorted(m_ip[1]['writes'])) != rec['inplace']):
        mism = f'msgpack_serialize(in_place=True) wrote dict objects {rec["inplace"]} (post-order numbering), heap model says {m_ip}'
    for T in case['T']:
      if T not in rec['bytes'] or mism:
        continue
      m_tb, m_fb, m_rs = outs[k], outs[k + 1], outs[k + 2]
      k += 3
      if m_fb[0] != 'ok' or norm(m_fb[1]) != rec['nD']:
        mism = f'model from_bytes of the bytes written by flax (threshold {T}) gives {str(m_fb)[:200]}'
      elif m_rs[0] != 'ok' or norm(m_rs[1]) != norm(rec['sd']):
        mism = f'model msgpack_restore of the bytes written by flax (threshold {T}) gives {str(m_rs)[:200]}'
      elif m_tb[0] != 'ok':
        mism = f'model to_bytes failed: {m_tb}'
      else:
        lean_bytes = bytes.fromhex(m_tb[1])
        ctx.count('byte_equality_info', 'equal' if lean_bytes == rec['bytes'][T] else 'different')
        r = call(serialization.from_bytes, rec['obj'], lean_bytes)
        if r[0] != 'ok' or norm(describe(r[1])) != rec['nD']:
          mism = f'flax from_bytes of the bytes written by the model (threshold {T}) gives {str(r)[:200]}'
        else:
          r2 = call(serialization.msgpack_restore, lean_bytes)
          if r2[0] != 'ok' or norm(describe_state(r2[1])) != norm(rec['sd']):
            mism = f'flax msgpack_restore of the bytes written by the model (threshold {T}) differs'
    if mism:
      ctx.disagreements_checked += 1
      ctx.violation(tag + 'roundtrip-model-mismatch', mism + f' — tree {str(rec["nD"])[:300]}', case, concrete=False)


def _plain_all_the_way(d):
  return type(d) is dict and all(_plain_all_the_way(v) for v in d.values() if isinstance(v, (dict, FrozenDict)))


def frozen_clean(x):
  """every FrozenDict reachable in `x` unfreezes to plain dicts all the way down (no FrozenDict object
  left inside another one's storage). Returns None or what is wrong."""
  from flax.core import unfreeze

  if isinstance(x, FrozenDict):
    if not _plain_all_the_way(unfreeze(x)):
      return 'unfreeze(restored) still contains a FrozenDict'
    subs = [v for _, v in x.items()]
  elif isinstance(x, dict):
    subs = list(x.values())
  elif isinstance(x, (list, tuple)):
    subs = list(x)
  elif is_struct(x):
    subs = [getattr(x, f.name) for f in dataclasses.fields(x) if f.metadata.get('pytree_node', True)]
  else:
    return None
  for v in subs:
    r = frozen_clean(v)
    if r:
      return r
  return None


def skeleton_differs(target, restored):
  """'same structure and container types': for a restore that puts the saved leaves back, the result
  must have the target's pytree structure (container type at every level, as JAX sees it), zip with
  it under tree_map, and hold clean FrozenDicts. Returns None or what is wrong."""
  try:
    s0 = jax.tree_util.tree_structure(target)
    s1 = jax.tree_util.tree_structure(restored)
  except Exception as e:  # noqa: BLE001
    return f'tree_structure raised {type(e).__name__}'
  if s0 != s1:
    return f'jax tree structure of the restored tree differs from the target: {str(s1)[:160]} vs {str(s0)[:160]}'
  try:
    jax.tree_util.tree_map(lambda a, b: None, target, restored)
  except Exception as e:  # noqa: BLE001
    return f'tree_map over (target, restored) raised {type(e).__name__}: {str(e)[:120]}'
  return frozen_clean(restored)


def state_impure(sd, path='.'):
  """a state dict holds only plain dicts (string keys) and leaves: returns the path and type of the first
  list / tuple / namedtuple / dataclass / FrozenDict object left in it, or None"""
  if type(sd) is dict:
    for k, v in sd.items():
      r = state_impure(v, path + '/' + str(k))
      if r:
        return r
    return None
  if isinstance(sd, (list, tuple, dict, FrozenDict)) or is_struct(sd):
    return f'{path}: {type(sd).__name__}'
  return None


LEGACY = {'name', 'fields', 'values'}


def spec_verdict(t, s):
  """The property's mismatch clause as a Python function of (target Tree JSON, state STree JSON),
  independent of the model: 'reject' when at some common key path a target dict key is missing from
  the state, a list / tuple length differs, or the key set differs from the namedtuple's fields /
  the dataclass's *data* (pytree-node) fields (surplus or missing); 'accept' when nothing of the kind
  occurs anywhere and every entry the restore needs is there; None when the pair is outside these
  clauses (a leaf where a dict is needed, a legacy-looking namedtuple state, wrong list index keys)."""
  if not (isinstance(t, dict) and 't' in t):
    return 'accept'
  if not (isinstance(s, dict) and 'd' in s):
    return None
  st = {unhx(k): v for k, v in s['d']}
  kind = t['t']
  if kind in ('list', 'tuple'):
    if len(st) != len(t['xs']):
      return 'reject'
    subs = [(str(i), x) for i, x in enumerate(t['xs'])]
    if any(k not in st for k, _ in subs):
      return None
  else:
    subs = [(unhx(k), v) for k, v in t['kv']]
    names = {k for k, _ in subs}
    if kind in ('dict', 'fdict'):
      if not names <= set(st):
        return 'reject'
    elif kind == 'named':
      if set(st) == LEGACY and names != LEGACY:
        return None
      if set(st) != names:
        return 'reject'
    else:  # struct: the state dict holds exactly the data fields; static fields are not part of it
      if set(st) != names:
        return 'reject'
  out = 'accept'
  for k, sub in subs:
    v = spec_verdict(sub, st[k])
    if v == 'reject':
      return 'reject'
    if v is None:
      out = None
  return out


def check_restore_batch(ctx, drv, cases, tag):
  """cases: {'kind': 'restore', 'target': Tree JSON, 'state': STree JSON, 'edit': str, 'path': [..], 'expect': str}"""
  reqs = []
  recs = []
  for case in cases:
    case['target'] = fix_frozen(case['target'])
    tgt = build(case['target'])
    D = describe(tgt)
    st = build_state(case['state'])
    snap_t, snap_s = snapshot(tgt), snapshot(st)
    r = call(serialization.from_state_dict, tgt, st)
    rec = {'case': case, 'D': D, 'r': r, 'fail': None}
    if snapshot(tgt) != snap_t or snapshot(st) != snap_s:
      rec['fail'] = ('frame-from_state_dict', 'from_state_dict modified its target or the state')
    # a second, well-formed restore right after: error bookkeeping (path stack) must not leak
    r_sd_after = call(serialization.to_state_dict, tgt)
    r_after = call(serialization.from_state_dict, tgt, r_sd_after[1]) if r_sd_after[0] == 'ok' else r_sd_after
    if r_after[0] != 'ok' or norm(describe(r_after[1])) != norm(D):
      rec['fail'] = rec['fail'] or ('restore-after-error', f'a plain round trip right after this restore fails: {str(r_after)[:200]}')
    elif skeleton_differs(tgt, r_after[1]):
      rec['fail'] = rec['fail'] or ('statedict-roundtrip-skeleton', 'from_state_dict(t, to_state_dict(t)): ' + skeleton_differs(tgt, r_after[1]))
    if r[0] == 'ok' and frozen_clean(r[1]):
      rec['fail'] = rec['fail'] or ('restore-frozen-not-clean', 'restored tree: ' + frozen_clean(r[1]))
    verdict = spec_verdict(D, case['state'])
    ctx.count('restore_spec_verdict', str(verdict))
    if verdict == 'reject' and r[0] == 'ok':
      rec['fail'] = rec['fail'] or ('mismatch-accepted-silently', 'from_state_dict accepted a state whose key set / length differs from the target (entries silently dropped or defaulted)')
    elif verdict == 'accept' and r[0] != 'ok':
      rec['fail'] = rec['fail'] or ('matching-state-rejected', f'from_state_dict raised {r[1]}: {r[2][:120]!r} on a state that has every entry the target needs and no mismatch')
    path = '/'.join(['.'] + list(case.get('path', [])))
    exp = case.get('expect', 'free')
    if exp == 'error':
      if r[0] == 'ok':
        rec['fail'] = rec['fail'] or ('mismatch-accepted-' + case['edit'], f'from_state_dict accepted a state with {case["edit"]} at {path}')
      elif r[1] != 'ValueError' or not names_path(r[2], path):
        rec['fail'] = rec['fail'] or ('mismatch-error-no-path-' + case['edit'], f'{case["edit"]} at {path} raised {r[1]}: {r[2][:200]!r} which does not name the path')
    elif exp == 'error-any':
      if r[0] == 'ok':
        rec['fail'] = rec['fail'] or ('mismatch-accepted-' + case['edit'], f'from_state_dict accepted a state with {case["edit"]} at {path}')
    elif exp == 'same':
      if r[0] != 'ok':
        rec['fail'] = rec['fail'] or ('harmless-edit-rejected-' + case['edit'], f'{case["edit"]} at {path} raised {r[1:]}')
      elif norm(describe(r[1])) != norm(D):
        rec['fail'] = rec['fail'] or ('misassigned-' + case['edit'], f'after {case["edit"]} at {path} the restored tree differs from the saved one (entries not matched by key)')
      elif skeleton_differs(tgt, r[1]):
        rec['fail'] = rec['fail'] or ('restore-skeleton-' + case['edit'], f'after {case["edit"]} at {path}: ' + skeleton_differs(tgt, r[1]))
    recs.append(rec)
    reqs.append(('from_state_dict', [D, case['state']]))
  outs = drv.run(reqs)
  for rec, m in zip(recs, outs):
    case = rec['case']
    r = rec['r']
    ctx.case({'k': 'restore', 'target': norm(rec['D']), 'state': norm(case['state'])}, nontrivial=depth_of(case['target']) >= 1)
    ctx.count('restore_edit', case.get('edit', '?'))
    ctx.count('restore_outcome', 'ok' if r[0] == 'ok' else r[1])
    if rec['fail']:
      key, what = rec['fail']
      ctx.violation(tag + key, what + f' — target {str(norm(rec["D"]))[:300]} state {str(norm(case["state"]))[:300]}', case, concrete=True)
      continue
    mism = None
    if r[0] == 'ok':
      if m[0] != 'ok' or norm(m[1]) != norm(describe(r[1])):
        mism = f'implementation restores {str(norm(describe(r[1])))[:200]}, model {str(m)[:200]}'
    else:
      if m[0] == 'ok':
        mism = f'implementation raises {r[1]} ({r[2][:100]}), model restores {str(m[1])[:200]}'
      else:
        # the exact exception raised for a state that is not a mapping (or a malformed legacy
        # encoding) is not part of the property: any error matches these two model classes
        mc, mp = model_err(m[1])
        if mc in ('NotMapping', 'Legacy'):
          pass
        elif mc != r[1] or (mc == 'ValueError' and not names_path(r[2], mp)):
          mism = f'implementation raises {r[1]}: {r[2][:160]!r}; model says {m[1]}'
    if mism:
      ctx.disagreements_checked += 1
      ctx.violation(tag + 'restore-model-mismatch', mism + f' — target {str(norm(rec["D"]))[:300]} state {str(norm(case["state"]))[:300]}', case, concrete=False)


# --- msgpack wire format -------------------------------------------------------------------------


def mval_build(j):
  if j is None or isinstance(j, bool):
    return j
  if 'i' in j:
    return int(j['i'])
  if 'f' in j:
    return bits_f(j['f'])
  if 's' in j:
    return bytes.fromhex(j['s']).decode('utf-8')
  if 'b' in j:
    return bytes.fromhex(j['b'])
  if 'a' in j:
    return [mval_build(v) for v in j['a']]
  if 'm' in j:
    return {mval_build(k): mval_build(v) for k, v in j['m']}
  if 'x' in j:
    return msgpack.ExtType(j['x'][0], bytes.fromhex(j['x'][1]))
  raise InfraError(f'bad mval {j}')


def mval_describe(x):
  if x is None or type(x) is bool:
    return x
  if type(x) is int:
    return {'i': x}
  if type(x) is float:
    return {'f': f_bits(x)}
  if type(x) is str:
    return {'s': x.encode('utf-8').hex()}
  if type(x) is bytes:
    return {'b': x.hex()}
  if type(x) is list:
    return {'a': [mval_describe(v) for v in x]}
  if type(x) is dict:
    return {'m': [[mval_describe(k), mval_describe(v)] for k, v in x.items()]}
  if isinstance(x, msgpack.ExtType):
    return {'x': [x.code, x.data.hex()]}
  return {'unsupported': type(x).__name__}


LEN_EDGES = [0, 1, 2, 4, 8, 15, 16, 17, 31, 32, 33, 255, 256, 257]
LEN_EDGES_BIG = [65535, 65536, 65537]


def gen_mval(rng, depth, big_ok=True):
  r = rng.random()
  if depth <= 0 or r < 0.45:
    k = rng.randrange(8)
    if k == 0:
      return rng.choice([None, True, False])
    if k == 1:
      return {'i': rng.choice(SPECIAL_INTS) if rng.random() < 0.6 else rng.randrange(-(2**63), 2**64)}
    if k == 2:
      return {'f': rng.randbytes(8).hex() if rng.random() < 0.3 else f_bits(rng.choice(SPECIAL_FLOATS))}
    n = rng.choice(LEN_EDGES + (LEN_EDGES_BIG if big_ok and rng.random() < 0.3 else []))
    if k in (3, 4):
      s = ''.join(rng.choice('abé键') for _ in range(n))
      return {'s': s.encode('utf-8').hex()}
    if k == 5:
      return {'b': rng.randbytes(n).hex()}
    return {'x': [rng.choice([0, 1, 2, 3, 42, 127]), rng.randbytes(n).hex()]}
  n = rng.choice([0, 1, 2, 3, 15, 16, 17]) if rng.random() < 0.97 or not big_ok else rng.choice(LEN_EDGES_BIG)
  sub_depth = depth - 1 if n < 10 else 0
  if r < 0.72:
    return {'a': [gen_mval(rng, sub_depth, False) if n < 1000 else {'i': i % 200} for i in range(n)]}
  keys = []
  for i in range(n):
    keys.append({'s': f'k{i}'.encode().hex()} if rng.random() < 0.8 or n >= 1000 else {'b': bytes([i % 256, i // 256]).hex()})
  return {'m': [[k, gen_mval(rng, sub_depth, False) if n < 1000 else None] for k in keys]}


def check_msgpack_batch(ctx, drv, vals, tag):
  reqs = []
  impl = []
  for j in vals:
    v = mval_build(j)
    r = call(lambda: msgpack.packb(v, strict_types=True))
    impl.append(r)
    reqs.append(('pack', [j]))
    if r[0] == 'ok':
      reqs.append(('unpack', [r[1].hex()]))
  outs = drv.run(reqs)
  k = 0
  for j, r in zip(vals, impl):
    ctx.case({'k': 'mval', 'v': j}, nontrivial=isinstance(j, dict))
    ctx.count('mval_kind', next(iter(j)) if isinstance(j, dict) else 'atom')
    m_pack = outs[k]
    k += 1
    case = {'kind': 'mval', 'v': j}
    if r[0] != 'ok':
      ctx.violation(tag + 'msgpack-packb-raises', f'msgpack.packb raised {r[1:]} on {str(j)[:200]}', case, concrete=False)
      continue
    m_unpack = outs[k]
    k += 1
    mism = None
    if m_unpack != ('ok', j):
      mism = f'model unpack of real packb output: {str(m_unpack)[:200]} (value {str(j)[:200]})'
    elif m_pack[0] != 'ok':
      mism = f'model pack failed {m_pack}'
    else:
      lean_bytes = bytes.fromhex(m_pack[1])
      ctx.count('byte_equality_info_mval', 'equal' if lean_bytes == r[1] else 'different')
      back = call(lambda: msgpack.unpackb(lean_bytes, raw=False))
      if back[0] != 'ok' or mval_describe(back[1]) != j:
        mism = f'real unpackb of model pack output: {str(back)[:200]} (value {str(j)[:200]})'
    if mism:
      ctx.disagreements_checked += 1
      ctx.violation(tag + 'msgpack-format-mismatch', mism, case, concrete=False)


def check_decoder_tags(ctx, drv):
  """every first byte 0x00..0xff followed by a few bodies: whatever the model decodes, the real
  unpacker decodes to the same value consuming the same bytes (the model deliberately has no float32
  and no reserved/negative ext codes: there it must say 'no', which is not compared)"""
  bodies = [bytes(range(1, 60)), bytes([0, 0, 0, 3]) + bytes(range(0x20, 0x58)), bytes([0]) * 50, bytes([0, 2, 1]) + b'ab' + bytes([0xc0]) * 40]
  cands = []
  for b in range(256):
    for body in bodies:
      data = bytes([b]) + body
      up = msgpack.Unpacker(raw=True, strict_map_key=False, max_buffer_size=0)
      up.feed(data)
      try:
        v = up.unpack()
        n = up.tell()
      except TypeError:  # unhashable map key: Python's dict cannot hold what the wire format allows
        continue
      except Exception:  # noqa: BLE001
        v, n = None, None
      cands.append((data, v, n))
  reqs = [('unpack', [(d[:n] if n else d).hex()]) for d, v, n in cands]
  outs = drv.run(reqs)
  for (d, v, n), m in zip(cands, outs):
    case = {'kind': 'decode', 'hex': (d[:n] if n else d).hex()}
    ctx.case(case, nontrivial=True)
    ctx.count('decoder_tag_outcome', 'model-decodes' if m[0] == 'ok' else 'model-rejects')
    if m[0] == 'ok':
      if _has_dup_keys(m[1]):
        continue  # a Python dict merges repeated keys; the wire value keeps them
      want = _raw_describe(v) if n else None
      if n is None or _model_raw(m[1]) != want:
        ctx.disagreements_checked += 1
        ctx.violation('msgpack-decoder-mismatch', f'model decodes {d[:n or 8].hex()}… to {str(m[1])[:120]}, msgpack gives {str(want)[:120]}', case, concrete=False)
    elif n is not None and d[0] not in (0xca, 0xc7, 0xc8, 0xc9, 0xd4, 0xd5, 0xd6, 0xd7, 0xd8) and not _has_unmodelled(v):
      ctx.disagreements_checked += 1
      ctx.violation('msgpack-decoder-mismatch', f'model rejects {d[:n].hex()} which msgpack decodes to {str(v)[:120]}', case, concrete=False)


def _model_raw(j):
  if isinstance(j, dict):
    if 's' in j:
      return {'raw': j['s']}
    if 'b' in j:
      return {'raw': j['b']}
    if 'a' in j:
      return {'a': [_model_raw(v) for v in j['a']]}
    if 'm' in j:
      return {'m': [[_model_raw(k), _model_raw(v)] for k, v in j['m']]}
  return j


def _has_dup_keys(j):
  if isinstance(j, dict):
    if 'a' in j:
      return any(_has_dup_keys(v) for v in j['a'])
    if 'm' in j:
      ks = [str(_model_raw(k)) for k, _ in j['m']]
      return len(set(ks)) < len(ks) or any(_has_dup_keys(k) or _has_dup_keys(v) for k, v in j['m'])
  return False


def _has_unmodelled(v):
  """float32 / reserved ext / Timestamp anywhere inside: formats the model does not have"""
  if isinstance(v, (list, tuple)):
    return any(_has_unmodelled(x) for x in v)
  if isinstance(v, dict):
    return any(_has_unmodelled(k) or _has_unmodelled(x) for k, x in v.items())
  if isinstance(v, msgpack.ExtType):
    return v.code < 0
  return isinstance(v, (float, msgpack.Timestamp))  # a float nested in a random body may be float32: do not compare


def _raw_describe(x):
  """value decoded with raw=True -> MVal JSON (str and bin both arrive as bytes: the model's str is told apart by the caller)"""
  if x is None or type(x) is bool:
    return x
  if type(x) is int:
    return {'i': x}
  if type(x) is float:
    return {'f': f_bits(x)}
  if type(x) is bytes:
    return {'raw': x.hex()}
  if type(x) is list:
    return {'a': [_raw_describe(v) for v in x]}
  if type(x) is dict:
    return {'m': [[_raw_describe(k), _raw_describe(v)] for k, v in x.items()]}
  if isinstance(x, msgpack.ExtType):
    return {'x': [x.code, x.data.hex()]}
  return {'unsupported': type(x).__name__}


def _odd_dtype(j):
  """does a (model) tree mention a dtype name outside the generated set: how NumPy reads such a name
  (sub-array prefixes, aliases, byte-order marks) is not modelled"""
  if isinstance(j, dict):
    # bool and the sub-byte dtypes have non-canonical byte patterns that NumPy normalises on scalar access
    if 'nd' in j:
      return j['nd']['dtype'] not in ALL_DTYPES or j['nd']['dtype'] in _LOWBITS
    if 'np' in j:
      return j['np']['dtype'] not in ALL_DTYPES or j['np']['dtype'] in _LOWBITS
    return any(_odd_dtype(v) for _, v in j.get('kv', []) + j.get('d', [])) or any(_odd_dtype(v) for v in j.get('xs', []))
  return False


def check_robust_batch(ctx, drv, cases, rng):
  """truncated / extended / corrupted versions of the bytes flax writes. Error class only:
  a truncated or extended byte string must be rejected by both sides (msgpack: incomplete input /
  ExtraData); for a corrupted one, whenever both sides accept they must restore the same tree
  (the model does not check NumPy's dtype-name / buffer-size consistency, so acceptance itself is
  only counted)."""
  reqs, recs = [], []
  for case in cases:
    desc = fix_frozen(case['tree'])
    obj = build(desc)
    D = describe(obj)
    r = call(serialization.to_bytes, obj)
    if r[0] != 'ok':
      continue
    b = r[1]
    variants = []
    cuts = {0, len(b) - 1, rng.randrange(len(b)), rng.randrange(len(b))} if len(b) > 0 else set()
    for c in sorted(cuts):
      variants.append(('truncated', b[:c]))
    variants.append(('trailing', b + rng.randbytes(rng.choice([1, 1, 2, 5]))))
    variants.append(('trailing', b + b))
    for _ in range(3):
      i = rng.randrange(len(b))
      variants.append(('corrupted', b[:i] + bytes([b[i] ^ (1 << rng.randrange(8))]) + b[i + 1 :]))
    for kind, vb in variants:
      rr = call(serialization.from_bytes, obj, vb)
      recs.append((kind, vb, rr, D))
      reqs.append(('from_bytes', [D, vb.hex()]))
  outs = drv.run(reqs)
  for (kind, vb, rr, D), m in zip(recs, outs):
    case = {'kind': 'robust', 'variant': kind, 'target': D, 'hex': vb.hex()}
    ctx.case({'k': 'robust', 'v': kind, 'hex': vb.hex()}, nontrivial=True)
    real_ok, model_ok = rr[0] == 'ok', m[0] == 'ok'
    ctx.count('robust_' + kind, ('real-ok' if real_ok else 'real-err') + '/' + ('model-ok' if model_ok else 'model-err'))
    mism = None
    if kind in ('truncated', 'trailing'):
      if real_ok or model_ok:
        mism = f'{kind} bytes accepted: implementation {"ok" if real_ok else rr[1]}, model {"ok" if model_ok else m[1]}'
    elif real_ok and model_ok and _odd_dtype(m[1]):
      ctx.count('robust_corrupted_skipped', 'unknown-or-noncanonical-dtype')  # NumPy parses e.g. b'5int32' its own way, normalises bool bytes
    elif real_ok and model_ok and norm(describe(rr[1])) != norm(m[1]):
      mism = f'both accept the corrupted bytes but restore different trees: implementation {str(norm(describe(rr[1])))[:150]}, model {str(norm(m[1]))[:150]}'
    if mism:
      ctx.disagreements_checked += 1
      ctx.violation('robust-' + kind + '-mismatch', mism + f' — {len(vb)} bytes', case, concrete=False)


# --- exhaustive small scopes -----------------------------------------------------------------------


def small_targets():
  """a small closed family of targets: every container kind over a few key sets, leaves distinguishable"""
  L = lambda n: {'i': n}  # noqa: E731
  A = {'nd': {'dtype': 'int8', 'shape': [2], 'hex': '0102'}}
  leaves = [L(1), A, None]
  fams = []
  fams += leaves
  for ks in ([], ['a'], ['a', 'b'], ['b', 'a'], ['0', '1'], ['a', 'b', 'c']):
    for t in ('dict', 'fdict'):
      fams.append({'t': t, 'kv': [[hx(k), L(10 + i)] for i, k in enumerate(ks)]})
  for n in (0, 1, 2, 3):
    for t in ('list', 'tuple'):
      fams.append({'t': t, 'xs': [L(20 + i) for i in range(n)]})
  for fs in ([], ['a'], ['a', 'b'], ['b', 'a'], ['x', 'y'], ['name', 'fields', 'values'], ['values', 'name', 'fields']):
    fams.append({'t': 'named', 'cls': 'P' + str(len(fs)), 'kv': [[hx(k), L(30 + i)] for i, k in enumerate(fs)]})
    fams.append({'t': 'struct', 'cls': 'Q' + str(len(fs)), 'aux': 5, 'kv': [[hx(k), L(40 + i)] for i, k in enumerate(fs)]})
  for fs, statics, base in ((['a'], ['cfg'], 'dataclass'), (['a', 'b'], ['tx', 'scale'], 'node'), ([], ['cfg'], 'node'), (['x'], [], 'node')):
    fams.append({'t': 'struct', 'cls': 'R%d%d%s' % (len(fs), len(statics), base[0]), 'aux': 6, 'statics': statics, 'base': base,
                 'kv': [[hx(k), L(45 + i)] for i, k in enumerate(fs)]})
  fams.append({'t': 'struct', 'cls': 'TrainState', 'aux': 2, 'kv': [[hx('step'), L(3)], [hx('params'), {'t': 'fdict', 'kv': [[hx('w'), A]]}],
               [hx('opt_state'), {'t': 'tuple', 'xs': [{'t': 'named', 'cls': 'EmptyState', 'kv': []}]}]]})
  # FrozenDict nested two and three levels deep, and inside list / namedtuple / dataclass
  f1 = {'t': 'fdict', 'kv': [[hx('k'), A], [hx('b'), L(4)]]}
  f2 = {'t': 'fdict', 'kv': [[hx('D0'), f1], [hx('D1'), {'t': 'fdict', 'kv': []}]]}
  f3 = {'t': 'fdict', 'kv': [[hx('params'), f2], [hx('stats'), {'t': 'fdict', 'kv': [[hx('m'), f1]]}]]}
  fams += [f2, f3, {'t': 'list', 'xs': [f2, L(1)]}, {'t': 'named', 'cls': 'P2', 'kv': [[hx('a'), f2], [hx('b'), L(2)]]},
           {'t': 'struct', 'cls': 'Q1', 'aux': 4, 'kv': [[hx('a'), f3]]}, {'t': 'dict', 'kv': [[hx('v'), f2]]}]
  # FrozenDict holding non-dict registered containers as direct values, at depth 1, 2 and 3
  nd_vals = [{'t': 'list', 'xs': [L(1), A]}, {'t': 'tuple', 'xs': [A]}, {'t': 'named', 'cls': 'P2', 'kv': [[hx('a'), L(1)], [hx('b'), A]]},
             {'t': 'struct', 'cls': 'Q1', 'aux': 8, 'kv': [[hx('a'), A]]}]
  for v in nd_vals:
    g1 = {'t': 'fdict', 'kv': [[hx('v'), v], [hx('w'), L(5)]]}
    g2 = {'t': 'fdict', 'kv': [[hx('inner'), g1]]}
    fams += [g1, g2, {'t': 'fdict', 'kv': [[hx('outer'), g2]]}]
  # one level of nesting: each container kind holding containers
  inner = [{'t': 'dict', 'kv': [[hx('a'), L(1)]]}, {'t': 'list', 'xs': [L(1), A]}, {'t': 'tuple', 'xs': []}, {'t': 'named', 'cls': 'P2', 'kv': [[hx('a'), L(1)], [hx('b'), A]]}]
  for x, y in itertools.product(inner, repeat=2):
    fams.append({'t': 'dict', 'kv': [[hx('a'), x], [hx('b'), y]]})
    fams.append({'t': 'list', 'xs': [x, y]})
  for x in inner:
    fams.append({'t': 'struct', 'cls': 'Q2', 'aux': 1, 'kv': [[hx('a'), x], [hx('b'), L(2)]]})
    fams.append({'t': 'named', 'cls': 'P2', 'kv': [[hx('a'), L(3)], [hx('b'), x]]})
    fams.append({'t': 'fdict', 'kv': [[hx('b'), x]]})
    fams.append({'t': 'tuple', 'xs': [x]})
  return fams


def legacy_states():
  """well-formed states in the pre-2022 namedtuple encoding"""
  L = lambda n: {'i': n}  # noqa: E731
  out = []
  for fs in (['a'], ['a', 'b'], ['b', 'a'], ['x', 'y'], []):
    out.append({'d': [[hx('name'), {'s': hx('P')}], [hx('fields'), {'d': [[hx(str(i)), {'s': hx(f)}] for i, f in enumerate(fs)]}], [hx('values'), {'d': [[hx(str(i)), L(50 + i)] for i in range(len(fs))]}]]})
  return out


def exhaustive_restore(ctx, drv):
  fams = [fix_frozen(t) for t in small_targets()]
  states = []
  for t in fams:
    r = call(serialization.to_state_dict, build(t))
    if r[0] != 'ok' or state_impure(r[1]):
      what = f'raised {r[1:]}' if r[0] != 'ok' else f'left a non-dict container in the state dict at {state_impure(r[1])}'
      ctx.violation('exh-state-dict-not-pure' if r[0] == 'ok' else 'exh-to_state_dict-raises', f'to_state_dict {what} — tree {str(norm(t))[:300]}',
                    {'kind': 'roundtrip', 'tree': t, 'T': [DEFAULT_T]}, concrete=True)
      states.append({'d': []})  # keeps targets and states aligned
      continue
    states.append(describe_state(r[1]))
  states += legacy_states()
  # every struct state again with one surplus key named like one of its own static fields
  for t, sd in zip(fams, list(states)):
    if isinstance(t, dict) and t.get('t') == 'struct':
      for st in static_names(t):
        states.append({'d': sd['d'] + [[hx(st), {'i': 9}]]})
  cases = []
  for t in fams:
    for s in states:
      cases.append({'kind': 'restore', 'target': t, 'state': s, 'edit': 'cross', 'path': [], 'expect': 'free'})
  for i in range(0, len(cases), 4000):
    check_restore_batch(ctx, drv, cases[i : i + 4000], 'exh-')
  return len(fams), len(states)


def exhaustive_chunk(ctx, drv, max_elems, dtypes):
  """every array of 0..max_elems elements x item sizes x every threshold up to size+2 (plus the default)"""
  cases = []
  for dtype in dtypes:
    isz = ITEMSIZE[dtype]
    for n in range(0, max_elems + 1):
      raw = bytes((7 * i + 3) % 251 % (2 if dtype == 'bool' else 256) for i in range(n * isz))
      shapes = [[n]] + ([[2, n // 2]] if n % 2 == 0 and n > 0 else []) + ([[]] if n == 1 else [])
      for shape in shapes:
        arr = {'nd': {'dtype': dtype, 'shape': shape, 'hex': raw.hex(), 'layout': 'F' if len(shape) == 2 else 'C'}}
        Ts = list(range(1, n * isz + 3))
        for tree in (arr, {'t': 'dict', 'kv': [[hx('w'), arr], [hx('k'), {'t': 'list', 'xs': [arr]}]]}):
          cases.append({'kind': 'roundtrip', 'tree': tree, 'T': Ts + [DEFAULT_T]})
  for i in range(0, len(cases), 300):
    check_roundtrip_batch(ctx, drv, cases[i : i + 300], 'exh-')
  return len(cases)


# ------------------------------------------------------------------------------------------------
# entry points
# ------------------------------------------------------------------------------------------------


def run(ctx):
  drv = LeanDriver('drv_c10')
  thorough = ctx.tier == 'thorough'
  rng = ctx.rng
  if serialization.MAX_CHUNK_SIZE != DEFAULT_T:
    raise InfraError('MAX_CHUNK_SIZE changed before the run')

  for fn, obj in load_corpus('C10'):
    ctx.corpus_replayed += 1
    _run_case(ctx, drv, obj, 'corpus-')

  # exhaustive small scopes
  nf, ns = exhaustive_restore(ctx, drv)
  nchunk = exhaustive_chunk(ctx, drv, 9 if not thorough else 14, ['int8', 'bfloat16', 'float32', 'complex64', 'complex128'] if not thorough else ['bool', 'int8', 'bfloat16', 'float32', 'float64', 'complex128', 'int4'])
  ctx.extra['exhaustive_scope'] = (
    f'restore: every one of {nf} small targets x the state dicts of all of them + legacy encodings ({ns} states); '
    f'chunking: {nchunk} (array, tree) pairs with 0..{9 if not thorough else 14} elements x every threshold 1..nbytes+2 and the default'
  )

  # random trees x thresholds
  n_rt = 420 if not thorough else 12000
  cases = []
  for i in range(n_rt):
    tree = gen_tree(rng, rng.choice([1, 2, 3, 3, 4, 5]), big=(i % 9 == 0))
    cases.append({'kind': 'roundtrip', 'tree': tree, 'T': thresholds_for(rng, tree, 3)})
  for i in range(0, len(cases), 150):
    check_roundtrip_batch(ctx, drv, cases[i : i + 150], '')
  # top-level leaves of every dtype and layout
  leaf_cases = []
  for dtype in ALL_DTYPES:
    for layout in ['C', 'F', 'strided', 'neg', 'bcast', 'unaligned'] + (['jax'] if dtype in JAX_DTYPES else []):
      shape = rng.choice([[3, 4], [2, 3, 2], [5], [4, 1]])
      n = int(np.prod(shape))
      raw = rand_elem_bytes(rng, dtype, n // shape[0]) * shape[0] if layout == 'bcast' else rand_elem_bytes(rng, dtype, n)
      arr = {'nd': {'dtype': dtype, 'shape': shape, 'hex': raw.hex(), 'layout': layout}}
      tree = arr if rng.random() < 0.3 else {'t': 'dict', 'kv': [[hx('p'), arr]]}
      leaf_cases.append({'kind': 'roundtrip', 'tree': tree, 'T': thresholds_for(rng, tree, 3)})
  for i in range(0, len(leaf_cases), 150):
    check_roundtrip_batch(ctx, drv, leaf_cases[i : i + 150], '')

  # truncated / extended / corrupted byte strings
  check_robust_batch(ctx, drv, cases[: (150 if not thorough else 3000)], rng)

  # mismatch stream: one structural edit per case
  n_mm = 1500 if not thorough else 30000
  mm = []
  skipped_impure = 0
  while len(mm) < n_mm:
    tree = fix_frozen(gen_tree(rng, rng.choice([1, 2, 2, 3, 4])))
    if not (isinstance(tree, dict) and 't' in tree):
      continue
    obj = build(tree)
    D = describe(obj)
    r_sd = call(serialization.to_state_dict, obj)
    if r_sd[0] != 'ok' or state_impure(r_sd[1]):
      skipped_impure += 1
      if skipped_impure > 5000:
        break
      continue  # reported by the round-trip stream on the same kind of tree
    sd = describe_state(r_sd[1])
    for _ in range(3):
      st, kind, path, exp = edit_state(rng, D, sd)
      mm.append({'kind': 'restore', 'target': tree, 'state': st, 'edit': kind, 'path': list(path), 'expect': exp})
  for i in range(0, len(mm), 500):
    check_restore_batch(ctx, drv, mm[i : i + 500], '')

  # msgpack wire format at the boundaries
  n_mv = 700 if not thorough else 15000
  vals = [gen_mval(rng, rng.choice([0, 1, 2, 3])) for _ in range(n_mv)]
  vals += [{'i': i} for i in SPECIAL_INTS] + [{'s': ('a' * n).encode().hex()} for n in LEN_EDGES + LEN_EDGES_BIG]
  vals += [{'b': bytes(n).hex()} for n in LEN_EDGES + LEN_EDGES_BIG] + [{'x': [3, bytes(n).hex()]} for n in LEN_EDGES + LEN_EDGES_BIG]
  vals += [{'a': [None] * n} for n in (15, 16, 65535, 65536)] + [{'m': [[{'s': str(i).encode().hex()}, True] for i in range(n)]} for n in (15, 16, 65535, 65536)]
  for i in range(0, len(vals), 400):
    check_msgpack_batch(ctx, drv, vals[i : i + 400], '')
  # every int around the format boundaries, and the decoder on every tag byte
  edges = [0, 2**7, 2**8, 2**15, 2**16, 2**31, 2**32, 2**63, 2**64 - 41]
  span = 40 if not thorough else 3000
  ints = sorted({e + d for e in edges for d in range(-span, span + 1)} | {-e + d for e in edges[:-1] for d in range(-span, span + 1)})
  ints = [i for i in ints if -(2**63) <= i < 2**64]
  for i in range(0, len(ints), 5000):
    check_msgpack_batch(ctx, drv, [{'i': x} for x in ints[i : i + 5000]], '')
  check_decoder_tags(ctx, drv)

  if serialization.MAX_CHUNK_SIZE != DEFAULT_T:
    raise InfraError('MAX_CHUNK_SIZE was not restored')
  for c in (cases[0], cases[len(cases) // 2], mm[0], mm[len(mm) // 2]):
    ctx.sample(_short(c))
  ctx.sample({'kind': 'mval', 'v': _short(vals[3])})
  ctx.extra['exhaustive'] = False
  ctx.extra['driver_calls'] = drv.calls
  ctx.extra['default_MAX_CHUNK_SIZE_read_from_module'] = DEFAULT_T
  ctx.extra['dtypes_exercised'] = ALL_DTYPES
  # generator health: the random stream must reach chunked arrays and every container kind
  d = ctx.dist
  if d.get('array_chunked', {}).get('chunked', 0) < 50 or len(d.get('container', {})) < 7:
    raise InfraError(f'generator degenerated: {d.get("array_chunked")}, {d.get("container")}')


def _short(j, cap=160):
  if isinstance(j, dict):
    return {k: _short(v, cap) for k, v in j.items()}
  if isinstance(j, list):
    return [_short(v, cap) for v in j[:12]] + (['…'] if len(j) > 12 else [])
  if isinstance(j, str) and len(j) > cap:
    return j[:cap] + f'…({len(j)} chars)'
  return j


def _run_case(ctx, drv, obj, tag=''):
  case = obj
  while isinstance(case, dict) and 'kind' not in case and 'case' in case:
    case = case['case']  # replay file -> violation record -> (common.py's symptom wrapper ->) case
  kind = case.get('kind')
  if kind == 'roundtrip':
    check_roundtrip_batch(ctx, drv, [case], tag)
  elif kind == 'restore':
    check_restore_batch(ctx, drv, [case], tag)
  elif kind == 'mval':
    check_msgpack_batch(ctx, drv, [case['v']], tag)
  elif kind == 'robust':
    reqs = [('from_bytes', [case['target'], case['hex']])]
    m = drv.run(reqs)[0]
    rr = call(serialization.from_bytes, build(case['target']), bytes.fromhex(case['hex']))
    real_ok, model_ok = rr[0] == 'ok', m[0] == 'ok'
    if case['variant'] in ('truncated', 'trailing'):
      bad = real_ok or model_ok
    else:
      bad = real_ok and model_ok and not _odd_dtype(m[1]) and norm(describe(rr[1])) != norm(m[1])
    if bad:
      ctx.violation(tag + 'robust-' + case['variant'] + '-mismatch', f'implementation {rr[:2]}, model {str(m)[:100]}', case, concrete=False)
  elif kind == 'decode':
    check_decoder_tags(ctx, drv)
  else:
    ctx.notes.append(f'unknown corpus case kind {kind}')


def replay(ctx, obj):
  drv = LeanDriver('drv_c10')
  _run_case(ctx, drv, obj)
  for v in ctx.violations:
    print('  ', v['key'], '-', v['what'][:300])
  return bool(ctx.violations)
