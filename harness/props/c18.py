"""C18 — Linen <-> NNX bridge wrappers behave like the module they wrap.

Theorems: lean/Flax/Props/C18.lean over lean/Flax/Model/Bridge.lean.
Correspondence (real flax in /repo vs the compiled Lean driver `drv_c18`):
  * `bridge.variables.linen_vars_to_nnx_attrs / nnx_attrs_to_linen_vars / to_nnx_var / to_linen_var /
    _recursive_merge` and the `variablelib` name<->type registry on generated variable trees, boxes and
    registry histories (valid and malformed streams);
  * `ToNNX` on generated Linen modules (dense layers with integer parameters, batch statistics nested up
    to three levels deep, rng use, Partitioned / LogicallyPartitioned / custom metadata boxes), alone, inside
    an NNX parent (with nnx.split/merge between calls) and inside a `bridge.Module` parent, over histories
    of 1-4 calls with `mutable` off / a list / True: the model is fed the updates the real module returned
    and must predict the wrapper's attribute tree after every call;
  * `ToLinen` on generated NNX classes (parameters with sharding metadata, a user Variable type, batch
    statistics, rng use, nested sub-modules), alone and inside a Linen parent.
Property oracles evaluated on the implementation only: the wrapper's outputs equal the wrapped module's
own `apply` / `__call__` on independently tracked state (exact integers), collection <-> Variable type
placement, values, names/sharding metadata after every call, updates merged per leaf, and snapshots of
the caller's variables before/after every conversion.
"""
from __future__ import annotations

import copy
import json

from harness import compat  # noqa: F401  (must precede flax)
from harness.common import LeanDriver, load_corpus

import jax
import jax.numpy as jnp
import numpy as np

jax.config.update('jax_traceback_filtering', 'off')  # `guarded` looks for flax frames in tracebacks

import flax.linen as nn
from flax import errors as flax_errors
from flax import nnx, struct
from flax.core import meta
from flax.nnx import bridge
from flax.nnx import variablelib as vl
from flax.nnx.bridge import variables as bv

SPEC = {
  'exes': ['drv_c18'],
  'rule': (
    'tree cases: exhaustive small scope (every representable assignment of the paths a, a/b, c/d, c to absent / '
    'params / batch_stats / an unregistered collection) + random variables dicts (<=4 collections incl. unregistered '
    'names, depth<=3, leaves plain / Partitioned / LogicallyPartitioned / NNXMeta / custom box; valid stream has no '
    'cross-collection path clash, malformed stream has clashes, empty dicts, bare-leaf collections, misplaced NNXMeta); '
    'registry histories of <=8 calls over 6 names x 6 classes (incl. a sub-class of Param, classes made by the registry, '
    'aliasing, overwrite); ToNNX histories: generated Linen specs (dense with 4 box kinds / stat / drop / lazily created '
    'cache variable / block, nesting<=3) x 1-4 calls x mutable in {off, [batch_stats], [batch_stats, cache], True} x '
    'placement (alone, NNX parent with nnx.split/merge between calls, bridge.Module parent) x rngs (params+dropout, '
    'default only); ToLinen histories: generated NNX specs (linear with sharding / linen-partitioned metadata, user '
    'Variable type, sub-class of Param, batch stat, drop, sub-module nesting<=2) x 1-4 calls x mutable x placement '
    '(alone, Linen parent). A case is non-trivial when it has >=2 leaves or >=1 call; distinct = distinct canonical '
    'JSON of the case.'
  ),
  'trusted_base': [
    'hand-written Lean model lean/Flax/Model/Bridge.lean (tied to /repo by this correspondence run)',
    'harness/props/c18.py (generators, module interpreters, canonicalisation), harness/compat.py (JAX shim)',
    'Python dict semantics: insertion order, equality ignoring order (A-PY); jax.tree_util rebuilding dicts with sorted keys',
    'the wrapped module enters the theorems as an abstract apply/init (ModOk: reads variables by look-up, '
    'returns updates that fit them); Linen scopes and nnx.split/merge themselves are C01/C03 territory',
  ],
  'assumptions': [
    'attribute names of the wrapped module avoid the wrapper\'s own fields (module, rngs, _object__state)',
    'variables dicts have no empty sub-dicts and no name that is a variable in one collection and a sub-layer in another (VarsOk; the excluded points are exhibited by theorem name_clash_loses_a_variable and the malformed stream)',
    'no Variable class is registered under two collection names (guard of registry_bijection; register_variable_name does not enforce it: theorem register_alias_breaks_bijection)',
    'ToLinen type buckets: the class hierarchy enters as MRO lists with the hypothesis that a proper base class has a strictly shorter MRO (HierOk; true of Python MROs)',
    'ToLinen init returns the freshly constructed state, not the state after the first call (as coded)',
    'tolinen_refines_nnx: the abstract NNX call keeps the set of Variables and their types (NModOk.shape; new structure needs a mutable nnx collection and is outside the theorem), reads its state by look-up (NModOk.ext); nnx.merge/split themselves are an opaque graph-definition token (C03 territory)',
    'tonnx_refines_linen: the abstract Linen apply returns the same updates dict for variables dicts with the same leaves (ModOk.ext)',
    'random keys are symbolic terms (base key, Linen make_rng at a scope path with the scope counter, fold_in); that distinct terms are distinct keys is A-RNG; the k-th make_rng key of a scope is compared with a plain Linen probe module at the same path',
  ],
  'model_partial': [],
}

RESERVED = ('module', 'rngs', '_object__state')


# ------------------------------------------------------------------------------------------------
# canonical forms shared by both sides
# ------------------------------------------------------------------------------------------------


def valstr(a):
  """Canonical string of an array value (exact: integer / key data only)."""
  try:
    if hasattr(a, 'dtype') and jax.dtypes.issubdtype(a.dtype, jax.dtypes.prng_key):
      a = jax.random.key_data(a)
      tag = 'key'
    else:
      tag = ''
    x = np.asarray(a)
    return f'{tag}{x.dtype.name}{list(x.shape)}:' + ','.join(str(int(v)) for v in x.reshape(-1))
  except Exception:
    return 'opaque:' + type(a).__name__


class TypeTable:
  """Python Variable classes <-> model VType tokens."""

  def __init__(self):
    self.ids = {}

  def tok(self, cls):
    if cls not in self.ids:
      self.ids[cls] = len(self.ids)
    return {'u': self.ids[cls], 'n': cls.__name__}


TT = TypeTable()


def reg_json():
  return {'cache': [[n, TT.tok(t)] for n, t in vl.VariableTypeCache.items()], 'next': 0}


def impl_type_name(cls):
  for n, t in vl.VariableTypeCache.items():
    if t == cls:
      return n
  return '?' + cls.__name__


def model_type_name(tok, reg):
  for n, t in reg['cache']:
    if t == tok:
      return n
  return '?' + tok['n']


def mv_json(k, v):
  if v is None:
    return None
  if isinstance(v, bool):
    return {'o': repr(v)}
  if isinstance(v, str):
    return {'s': v}
  if isinstance(v, int):
    return {'i': v}
  if isinstance(v, tuple) and len(v) == 0 and k.endswith('_hooks'):
    return {'t0': True}
  if isinstance(v, (tuple, list)) and all(x is None or isinstance(x, str) for x in v):
    return {'names': list(v)}
  if isinstance(v, type):
    return {'cls': v.__name__}
  return {'o': repr(v)[:80]}


class MyBox(struct.PyTreeNode, meta.AxisMetadata):
  """A user metadata box without to/from_nnx_metadata (the generic branch of the conversions)."""

  value: object
  tagx: str = struct.field(pytree_node=False, default='q')

  def unbox(self):
    return self.value

  def replace_boxed(self, v):
    return self.replace(value=v)

  def add_axis(self, i, p):
    return self

  def remove_axis(self, i, p):
    return self


BOX_CLASSES = {'Partitioned': meta.Partitioned, 'LogicallyPartitioned': nn.LogicallyPartitioned, 'MyBox': MyBox}


def lbox_json(x):
  """Linen leaf -> model LBox JSON."""
  if isinstance(x, bv.NNXMeta):
    return {'k': 'nnxmeta', 't': TT.tok(x.var_type), 'v': valstr(x.value), 'md': [[k, mv_json(k, v)] for k, v in x.metadata.items()]}
  if type(x) is meta.Partitioned:
    return {'k': 'part', 'v': valstr(x.value), 'names': mv_json('names', x.names), 'mesh': mv_json('mesh', x.mesh)}
  if type(x) is nn.LogicallyPartitioned:
    return {'k': 'logical', 'v': valstr(x.value), 'names': mv_json('names', x.names), 'mesh': mv_json('mesh', x.mesh), 'rules': mv_json('rules', x.rules)}
  if isinstance(x, meta.AxisMetadata):
    fields = [[k, mv_json(k, v)] for k, v in vars(x).items() if k != 'value']
    return {'k': 'box', 'cls': type(x).__name__, 'v': valstr(x.value), 'fields': fields}
  return {'k': 'plain', 'v': valstr(x)}


def lbox_canon(j, reg=None):
  """Order-free canonical form of an LBox JSON (impl or model side)."""
  j = dict(j)
  if j['k'] == 'nnxmeta':
    j['t'] = model_type_name(j['t'], reg) if reg is not None else j['t']
    j['md'] = sorted(j['md'], key=lambda e: e[0])
  if j['k'] == 'box':
    j['fields'] = sorted(j['fields'], key=lambda e: e[0])
  return j


def is_lleaf(x):
  return not isinstance(x, dict)


def tree_json(t, leaf):
  if isinstance(t, dict):
    return {'node': [[k, tree_json(v, leaf)] for k, v in t.items()]}
  return {'leaf': leaf(t)}


def forest_json(d, leaf):
  return [[k, tree_json(v, leaf)] for k, v in d.items()]


def nvar_json(v):
  if isinstance(v, nnx.Variable):
    v = v.to_state()
  return {'t': TT.tok(v.type), 'v': valstr(v.value), 'md': [[k, mv_json(k, x)] for k, x in v.get_metadata().items()]}


def canon_forest(f, leaf):
  """Model-side forest JSON -> nested dict with sorted keys (dict equality ignores order)."""
  out = {}
  for k, t in f:
    out[k] = canon_tree(t, leaf)
  return dict(sorted(out.items()))


def canon_tree(t, leaf):
  if 'leaf' in t:
    return {'#': leaf(t['leaf'])}
  return canon_forest(t['node'], leaf)


def nvar_canon(reg):
  def f(j):
    return {'type': model_type_name(j['t'], reg), 'v': j['v'], 'md': sorted(j['md'], key=lambda e: e[0])}

  return f


def impl_attrs_canon(attrs):
  """dict attr -> nested dicts of Variables (impl side) -> canonical form comparable with the model."""
  reg = reg_json()
  return canon_forest(forest_json(attrs, nvar_json), nvar_canon(reg))


def impl_vars_canon(variables):
  reg = reg_json()
  return canon_forest(forest_json(variables, lbox_json), lambda j: lbox_canon(j, reg))


def drop_empty(c):
  """Removes empty sub-dicts (the transpositions go through flatten/unflatten, which drops them)."""
  if not isinstance(c, dict) or '#' in c:
    return c
  out = {}
  for k, v in c.items():
    v2 = drop_empty(v)
    if isinstance(v2, dict) and '#' not in v2 and not v2:
      continue
    out[k] = v2
  return out


def unfreeze(t):
  if hasattr(t, 'items') and not isinstance(t, meta.AxisMetadata):
    return {k: unfreeze(v) for k, v in t.items()}
  return t


def wrapper_attrs(w):
  return {k: v for k, v in vars(w).items() if k not in RESERVED}


class RegistryGuard:
  """Restores flax's process-wide VariableTypeCache after a case (test isolation only)."""

  def __enter__(self):
    self.snap = dict(vl.VariableTypeCache)
    return self

  def __exit__(self, *a):
    vl.VariableTypeCache.clear()
    vl.VariableTypeCache.update(self.snap)


def call(fn, *a, **kw):
  try:
    return ('ok', fn(*a, **kw))
  except AssertionError:
    return ('err', 'Assertion')
  except flax_errors.FlaxError as e:
    return ('err', type(e).__name__)
  except Exception as e:  # an exception raised by flax is an observation
    return ('err', type(e).__name__)


def guarded(ctx, case, fn):
  """Runs one case; an exception that comes out of flax code is an observation about flax (a violation
  with a concrete input), anything else is a harness bug and propagates (exit 2)."""
  import traceback

  try:
    fn()
  except Exception as e:
    from harness.compat import REPO

    frames = traceback.extract_tb(e.__traceback__)
    if any(f.filename.startswith(REPO + '/flax') for f in frames) and not frames[-1].filename.endswith('c18.py'):
      ctx.violation('flax-raised-' + type(e).__name__, f'{case.get("kind")}: flax raised {type(e).__name__}: {str(e)[:160]}', case)
    else:
      raise


# error classes: what the model predicts -> what the implementation may raise
ERR_MAP = {
  'notMapping': {'Assertion', 'AttributeError', 'TypeError'},
  'typeMismatch': {'Assertion'},
  'notRegistered': {'ValueError'},
  'nameTaken': {'ValueError'},
  'keyError': {'KeyError'},
  'badBox': {'TypeError'},
  'leafOnPath': {'TypeError', 'AttributeError', 'ValueError', 'KeyError', 'Assertion', 'IndexError'},
  'emptyPath': {'IndexError'},
}


def unwrap(m):
  """Driver reply ('ok', {'ok': v} | {'err': e}) -> ('ok', v) | ('err', e)."""
  if m[0] != 'ok':
    return ('err', 'driver:' + str(m[1]))
  if 'ok' in m[1]:
    return ('ok', m[1]['ok'])
  return ('err', m[1]['err'])


# ------------------------------------------------------------------------------------------------
# part 1: trees, boxes, registry
# ------------------------------------------------------------------------------------------------


class UserVar0(nnx.Variable):
  pass


class UserVar1(nnx.Variable):
  pass


class Counter(nnx.Variable):
  pass


class SubStat(nnx.BatchStat):
  """A sub-class of BatchStat: exposed under `SubStat`, never under `batch_stats`."""


class SubSubStat(SubStat):
  """Two levels below BatchStat."""


class SubParam(nnx.Param):
  """A Variable type two levels below Variable: must be exposed under its own name, not under `params`."""


class Tagged:
  """A plain (non-Variable) mixin."""


class MixFirst(Tagged, nnx.Param):
  """Mixin listed FIRST: its MRO is MixFirst, Tagged, Param, Variable, ... (a non-Variable class in between)."""


class MixLast(nnx.Param, Tagged):
  """Mixin listed last."""


class MixFirstSub(MixFirst):
  """Sub-type of a sub-type, below the mixin."""


class MixStat(Tagged, SubStat):
  """Mixin first, two Variable levels below BatchStat."""


UPARAM_TYPES = {'SubParam': SubParam, 'MixFirst': MixFirst, 'MixLast': MixLast, 'MixFirstSub': MixFirstSub, 'MixStat': MixStat}


def rand_array(rng):
  shape = rng.choice([(), (2,), (2, 3), (1,)])
  n = int(np.prod(shape)) if shape else 1
  return jnp.asarray(np.array([rng.randrange(-9, 10) for _ in range(n)], dtype=np.int32).reshape(shape))


def rand_leaf(rng, col, allow_meta=True):
  k = rng.random()
  a = rand_array(rng)
  if k < 0.45:
    return a
  if k < 0.62:
    names = tuple(rng.choice(['a', 'b', None, 'data']) for _ in range(rng.randrange(0, 3)))
    return meta.Partitioned(a, names=names)
  if k < 0.72:
    names = tuple(rng.choice(['x', 'y', None]) for _ in range(rng.randrange(0, 3)))
    return nn.LogicallyPartitioned(a, names=names, rules=rng.choice([None, (('x', 'data'),)]))
  if k < 0.84:
    return MyBox(a, rng.choice(['p', 'zz', '']))
  if allow_meta and col in vl.VariableTypeCache:
    md = rng.choice([{'tag': 'x'}, {'sharding': ('a', None)}, {'tag': 't', 'n': 3}])
    return bv.NNXMeta(vl.VariableTypeCache[col], a, dict(md))
  return a


KEYS = ['w', 'b', 'A', 'B', 'c', 'k']


def rand_attr_paths(rng, n):
  """n distinct prefix-free attribute paths."""
  paths = []
  tries = 0
  while len(paths) < n and tries < 60:
    tries += 1
    p = tuple(rng.choice(KEYS) for _ in range(rng.randrange(1, 4)))
    if any(p[: len(q)] == q or q[: len(p)] == p for q in paths):
      continue
    paths.append(p)
  return paths


def set_path(d, path, v):
  for k in path[:-1]:
    d = d.setdefault(k, {})
  d[path[-1]] = v


def gen_vars_valid(rng, uid):
  cols = rng.sample(['params', 'batch_stats', 'cache', f'col{uid}a', f'zcol{uid}'], rng.randrange(1, 5))
  paths = rand_attr_paths(rng, rng.randrange(1, 7))
  variables = {}
  for p in paths:
    c = rng.choice(cols)
    set_path(variables.setdefault(c, {}), p, rand_leaf(rng, c))
  # shuffle insertion order of collections and of keys (dict order must not matter)
  items = list(variables.items())
  rng.shuffle(items)
  return dict(items)


def gen_vars_malformed(rng, uid):
  v = gen_vars_valid(rng, uid)
  kind = rng.choice(['clash-leaf', 'clash-nest', 'empty', 'bare', 'misplaced-meta', 'clash-kind'])
  cols = list(v.keys())
  c = rng.choice(cols)
  other = 'params' if c != 'params' else 'batch_stats'
  flat = _flat(v[c])
  p = rng.choice(list(flat.keys()))
  if kind == 'clash-leaf':
    set_path(v.setdefault(other, {}), p, rand_array(rng))
  elif kind == 'clash-nest':
    set_path(v.setdefault(other, {}), p + ('z',), rand_array(rng))
  elif kind == 'clash-kind' and len(p) >= 2:
    set_path(v.setdefault(other, {}), p[:-1], rand_array(rng))
  elif kind == 'empty':
    set_path(v[c], p[:-1] + ('empt',), {})
  elif kind == 'bare':
    v[f'bare{uid}'] = rand_array(rng)
  else:
    set_path(v.setdefault('cache', {}), ('mm',), bv.NNXMeta(nnx.Param, rand_array(rng), {'tag': 'x'}))
  return v, kind


def _flat(d, prefix=()):
  out = {}
  for k, x in d.items():
    if isinstance(x, dict):
      out.update(_flat(x, prefix + (k,)))
    else:
      out[prefix + (k,)] = x
  return out


def exhaustive_tree_cases():
  """Every assignment of four attribute paths (two of them nested in two others) to {absent, params,
  batch_stats, an unregistered collection}, with plain and Partitioned leaves: all clash patterns."""
  import itertools

  univ = [('a',), ('a', 'b'), ('c', 'd'), ('c',)]
  cols = [None, 'params', 'batch_stats', 'exh_new']
  out = []
  for choice in itertools.product(cols, repeat=len(univ)):
    chosen = [(p, c) for p, c in zip(univ, choice) if c is not None]
    if not chosen:
      continue
    # not representable as a dict: a leaf and something below it in the same collection
    if any(c1 == c2 and p1 != p2 and p2[: len(p1)] == p1 for p1, c1 in chosen for p2, c2 in chosen):
      continue
    clash = any(c1 != c2 and (p2[: len(p1)] == p1 or p1[: len(p2)] == p2) for p1, c1 in chosen for p2, c2 in chosen)
    variables = {}
    for i, (p, c) in enumerate(chosen):
      a = jnp.asarray(i + 1, jnp.int32)
      set_path(variables.setdefault(c, {}), p, a if i % 2 == 0 else meta.Partitioned(a, names=('n',)))
    out.append((variables, 'exh-clash' if clash else 'valid'))
  return out


def snapshot_vars(variables):
  """Deep observation of the caller's variables: structure, box classes, box attributes, values."""

  def leaf(x):
    if isinstance(x, meta.AxisMetadata):
      return [type(x).__name__, sorted((k, valstr(v) if k == 'value' else repr(v)) for k, v in vars(x).items())]
    return valstr(x)

  def go(t):
    if hasattr(t, 'items') and not isinstance(t, meta.AxisMetadata):
      return {k: go(v) for k, v in t.items()}
    return leaf(t)

  return json.dumps(go(variables), sort_keys=True, default=str)


def check_trees(ctx, drv, cases):
  """cases: list of (variables, kind) with kind 'valid' or a malformed tag."""
  reqs, recs = [], []
  for variables, kind in cases:
    with RegistryGuard():
      reg0 = reg_json()
      vj = forest_json(variables, lbox_json)
      snap0 = snapshot_vars(variables)
      r = call(bv.linen_vars_to_nnx_attrs, variables)
      snap1 = snapshot_vars(variables)
      rec = {'kind': kind, 'vars': vj, 'reg0': reg0, 'mutated': snap0 != snap1}
      if r[0] == 'ok':
        attrs = r[1]
        rec['attrs'] = impl_attrs_canon(attrs)
        rec['newnames'] = sorted(set(vl.VariableTypeCache) - {n for n, _ in reg0['cache']})
        # property oracle: placement, values, sharding (on the implementation alone)
        rec['oracle'] = oracle_attrs(variables, attrs) if kind == 'valid' else None
        b = call(bv.nnx_attrs_to_linen_vars, attrs)
        rec['back'] = ('ok', impl_vars_canon(b[1])) if b[0] == 'ok' else b
        rec['orig'] = impl_vars_canon(variables)
      else:
        rec['err'] = r[1]
      recs.append(rec)
      reqs.append(('l2n2l', [reg0, vj]))
  outs = drv.run(reqs)
  for rec, m in zip(recs, outs):
    m = unwrap(m)
    case = {'kind': 'tree-' + rec['kind'], 'vars': rec['vars'], 'reg': [n for n, _ in rec['reg0']['cache']]}
    nleaves = json.dumps(rec['vars']).count('"leaf"')
    ctx.case(case, nontrivial=nleaves >= 2)
    ctx.count('tree_kind', rec['kind'])
    ctx.count('tree_leaves', min(nleaves, 6))
    if rec['mutated']:
      ctx.violation('partitioned-box-mutated-by-to_nnx_var', 'linen_vars_to_nnx_attrs changed the caller\'s variables (a metadata box lost/gained attributes)', case)
      continue
    if rec['kind'] == 'valid':
      if 'err' in rec:
        ctx.violation('tree-valid-raises', f'linen_vars_to_nnx_attrs raised {rec["err"]} on a well-formed variables dict', case)
        continue
      if rec['oracle']:
        ctx.violation('tree-' + rec['oracle'][0], rec['oracle'][1], case)
        continue
      if rec['back'][0] != 'ok':
        ctx.violation('tree-back-raises', f'nnx_attrs_to_linen_vars raised {rec["back"][1]} on the attributes it was given by linen_vars_to_nnx_attrs', case)
        continue
      if rec['back'][1] != rec['orig']:
        ctx.violation('tree-roundtrip', 'nnx_attrs_to_linen_vars(linen_vars_to_nnx_attrs(V)) != V', dict(case, got=rec['back'][1]))
        continue
    # correspondence
    if 'err' in rec:
      if m[0] == 'ok' or rec['err'] not in ERR_MAP.get(m[1], set()):
        # the model may fail later (in the way back) where the implementation fails early: both are errors
        if not (m[0] == 'err'):
          ctx.disagreements_checked += 1
          ctx.violation('tree-model-mismatch', f'implementation raised {rec["err"]}, model gives {str(m)[:200]}', case, concrete=False)
      ctx.count('tree_outcome', 'err')
      continue
    if m[0] != 'ok':
      # the forward direction succeeded in the implementation; the model's composite failed: find where
      ctx.count('tree_outcome', 'model-err:' + str(m[1]))
      if rec['back'][0] == 'ok':
        ctx.disagreements_checked += 1
        ctx.violation('tree-model-mismatch', f'implementation succeeded both ways, model raises {m[1]}', case, concrete=False)
      continue
    ctx.count('tree_outcome', 'ok')
    mreg = m[1]['reg']
    mattrs = canon_forest(m[1]['attrs'], nvar_canon(mreg))
    mvars = canon_forest(m[1]['vars'], lambda j: lbox_canon(j, mreg))
    mnew = sorted(n for n, _ in mreg['cache'] if n not in {x for x, _ in rec['reg0']['cache']})
    if mattrs != rec['attrs'] or mnew != rec['newnames'] or rec['back'] != ('ok', mvars):
      ctx.disagreements_checked += 1
      what = 'attrs' if mattrs != rec['attrs'] else ('registered names' if mnew != rec['newnames'] else 'vars rebuilt')
      ctx.violation('tree-model-mismatch', f'model and implementation differ on {what}: impl {str(rec["attrs"])[:150]} / {rec["newnames"]}; model {str(mattrs)[:150]} / {mnew}', case, concrete=False)


def oracle_attrs(variables, attrs):
  """Property statement on the implementation: every leaf of collection c sits, at the same attribute
  path, in a Variable of the type registered for c, with the same value, and names == sharding."""
  flat_attrs = _flat(attrs)
  n = 0
  for c, tree in variables.items():
    want_t = vl.VariableTypeCache.get(c)
    for p, x in _flat(tree).items():
      n += 1
      v = flat_attrs.get(p)
      if not isinstance(v, nnx.Variable):
        return ('leaf-lost', f'variable {c}/{"/".join(p)} has no Variable at attribute path {p}')
      if want_t is None or type(v) is not want_t:
        return ('collection-type-mismatch', f'variable {c}/{"/".join(p)} stored as {type(v).__name__}, registry says {want_t}')
      val = x.value if isinstance(x, meta.AxisMetadata) else x
      if valstr(v.value) != valstr(val):
        return ('value-changed', f'value at {c}/{"/".join(p)} changed in conversion')
      if isinstance(x, meta.Partitioned):
        if getattr(v, 'sharding', '<none>') != x.names:
          return ('names-lost', f'axis names {x.names} of {c}/{"/".join(p)} became sharding={getattr(v, "sharding", None)}')
  if n != len(flat_attrs):
    return ('leaf-invented', f'{len(flat_attrs)} attribute leaves for {n} variables')
  return None


def check_boxes(ctx, drv, rng):
  a = jnp.arange(3, dtype=jnp.int32)
  boxes = [
    ('params', a),
    ('params', meta.Partitioned(a, names=('x', None))),
    ('params', meta.Partitioned(a, names=())),
    ('batch_stats', nn.LogicallyPartitioned(a, names=('u',), rules=(('u', 'data'),))),
    ('cache', nn.LogicallyPartitioned(a, names=('u', 'v'))),
    ('params', MyBox(a, 'zz')),
    ('params', bv.NNXMeta(nnx.Param, a, {'tag': 'x'})),
    ('params', bv.NNXMeta(nnx.Param, a, {'sharding': ('a',)})),
    ('batch_stats', bv.NNXMeta(nnx.Param, a, {'tag': 'x'})),  # wrong collection: assertion
    ('params', bv.NNXMeta(nnx.Param, a, {})),  # blank metadata: comes back as a plain array (excluded by Ok)
    (f'fresh{rng.randrange(10**6)}', meta.Partitioned(a, names=('q',))),
  ]
  reqs, recs = [], []
  for col, x in boxes:
    with RegistryGuard():
      reg0 = reg_json()
      snap0 = snapshot_vars({'x': x})
      r = call(bv.to_nnx_var, col, x)
      mutated = snapshot_vars({'x': x}) != snap0
      rec = {'col': col, 'box': lbox_json(x), 'mutated': mutated}
      if r[0] == 'ok':
        v = r[1]
        rec['var'] = nvar_canon(reg_json())(nvar_json(v))
        back = call(bv.to_linen_var, v.to_state())
        rec['back'] = ('ok', lbox_canon(lbox_json(back[1]), reg_json())) if back[0] == 'ok' else back
        rec['same'] = back[0] == 'ok' and snapshot_vars({'x': back[1]}) == snap0
        rec['placed'] = type(v) is vl.VariableTypeCache.get(col)
        rec['names_ok'] = (not isinstance(x, meta.Partitioned)) or getattr(v, 'sharding', '<none>') == x.names
      else:
        rec['err'] = r[1]
      recs.append(rec)
      reqs.append(('to_nnx_var', [reg0, col, rec['box']]))
  outs = drv.run(reqs)
  reqs2 = []
  for rec, m in zip(recs, outs):
    m = unwrap(m)
    rec['m'] = m
    if m[0] == 'ok':
      reqs2.append(('to_linen_var', [m[1]['var']]))
  outs2 = drv.run(reqs2)
  k = 0
  for rec in recs:
    case = {'kind': 'box', 'col': rec['col'], 'box': rec['box']}
    ctx.case(case)
    ctx.count('box_kind', rec['box']['k'])
    m = rec['m']
    excluded = rec['box']['k'] == 'nnxmeta' and (not rec['box']['md'] or rec['col'] != 'params')
    if rec['mutated']:
      ctx.violation('partitioned-box-mutated-by-to_nnx_var', f'to_nnx_var({rec["col"]!r}, box) wrote its argument', case)
    if m[0] == 'ok':
      mb = unwrap(outs2[k])
      k += 1
    if 'err' in rec:
      if not excluded:
        ctx.violation('box-conversion-raises', f'to_nnx_var raised {rec["err"]} on {rec["box"]}', case)
      elif m[0] == 'ok' or rec['err'] not in ERR_MAP.get(m[1], set()):
        ctx.disagreements_checked += 1
        ctx.violation('box-model-mismatch', f'impl raised {rec["err"]}, model {m}', case, concrete=False)
      continue
    if not excluded:
      if rec['back'][0] != 'ok':
        ctx.violation('box-generic-not-rebuilt' if rec['box']['k'] == 'box' else 'box-back-raises', f'to_linen_var raised {rec["back"][1]} on the Variable made from {rec["box"]}', case)
        continue
      if not rec['same']:
        ctx.violation('box-roundtrip', f'to_linen_var(to_nnx_var(col, x)) != x for {rec["box"]}: {rec["back"][1]}', case)
        continue
      if not rec['placed'] or not rec['names_ok']:
        ctx.violation('box-placement', f'type or sharding of the Variable made from {rec["box"]} is wrong: {rec["var"]}', case)
        continue
    if m[0] != 'ok':
      ctx.disagreements_checked += 1
      ctx.violation('box-model-mismatch', f'impl ok, model {m} on {case}', case, concrete=False)
      continue
    mvar = nvar_canon(m[1]['reg'])(m[1]['var'])
    mback = ('ok', lbox_canon(mb[1], m[1]['reg'])) if mb[0] == 'ok' else mb
    if mvar != rec['var'] or (mback != rec['back'] and not (mback[0] == 'err' and rec['back'][0] == 'err')):
      ctx.disagreements_checked += 1
      ctx.violation('box-model-mismatch', f'impl {rec["var"]} / {rec["back"]}; model {mvar} / {mback}', case, concrete=False)


def check_registry(ctx, drv, rng, n):
  pool_types = [nnx.Param, nnx.BatchStat, UserVar0, UserVar1, Counter, SubParam]
  reqs, recs = [], []
  for i in range(n):
    names = ['params', 'batch_stats', f'n{i}a', 'Counter', 'UserVar0', 'SubParam']
    unguarded = rng.random() < 0.25
    ops = []
    for _ in range(rng.randrange(1, 9)):
      k = rng.random()
      if k < 0.4:
        ops.append({'op': 'type_from_name', 'name': rng.choice(names), 'allow': rng.random() < 0.7})
      elif k < 0.75:
        ops.append({'op': 'name_from_type', 'type': rng.choice(pool_types + ['made']), 'allow': rng.random() < 0.7})
      else:
        ops.append({'op': 'register', 'name': rng.choice(names), 'type': rng.choice(pool_types + ['made']), 'overwrite': rng.random() < 0.3})
    with RegistryGuard():
      reg0 = reg_json()
      made = []  # classes returned by variable_type_from_name during this history
      outs_i, jops = [], []
      guarded = True
      for op in ops:
        if 'type' in op:
          t = op['type']
          if t == 'made':
            t = made[-1] if made else UserVar1
          if op['op'] == 'register':
            already = [nm for nm, tt in vl.VariableTypeCache.items() if tt == t and nm != op['name']]
            if already and not unguarded:
              t = type(f'Fresh{len(TT.ids)}', (nnx.Variable,), {})
            elif already:
              guarded = False
          jop = dict(op, type={'m': made.index(t), 'n': t.__name__} if t in made else TT.tok(t))
        else:
          t = None
          jop = dict(op)
        if op['op'] == 'type_from_name':
          r = call(vl.variable_type_from_name, op['name'], allow_register=op['allow'])
          if r[0] == 'ok':
            if r[1] not in TT.ids and r[1] not in made:
              made.append(r[1])
            r = ('ok', _first_seen(r[1], made))
        elif op['op'] == 'name_from_type':
          r = call(vl.variable_name_from_type, t, allow_register=op['allow'])
        else:
          r = call(vl.register_variable_name, op['name'], t, overwrite=op['overwrite'])
          if r[0] == 'ok':
            r = ('ok', None)
        outs_i.append(r)
        jops.append(jop)
      final = sorted((nm, _first_seen(tt, made)) for nm, tt in vl.VariableTypeCache.items())
      # property oracle on the implementation: the two look-ups are mutually inverse
      bij = None
      if guarded:
        for nm, tt in list(vl.VariableTypeCache.items()):
          if vl.variable_name_from_type(tt) != nm or vl.variable_type_from_name(nm) is not tt:
            bij = f'name {nm!r} -> {tt.__name__} -> {vl.variable_name_from_type(tt)!r}'
      recs.append({'ops': jops, 'outs': outs_i, 'final': final, 'bij': bij, 'guarded': guarded})
      reqs.append(('reg_run', [reg0, jops]))
  outs = drv.run(reqs)
  for rec, m in zip(recs, outs):
    case = {'kind': 'registry', 'ops': rec['ops']}
    ctx.case(case, nontrivial=len(rec['ops']) >= 2)
    ctx.count('registry_len', len(rec['ops']))
    ctx.count('registry_guarded', rec['guarded'])
    for o in rec['outs']:
      ctx.count('registry_outcome', o[0] if o[0] == 'ok' else 'err')
    if rec['bij']:
      ctx.violation('registry-not-bijective', f'after a guarded history the registry is not one-to-one: {rec["bij"]}', case)
      continue
    if m[0] != 'ok':
      ctx.violation('registry-model-mismatch', f'driver error {m}', case, concrete=False)
      continue
    mouts = []
    for o in m[1]['outs']:
      if 'ok' in o:
        v = o['ok']
        mouts.append(('ok', _model_first_seen(v) if isinstance(v, dict) else v))
      else:
        mouts.append(('err', o['err']))
    mfinal = sorted((nm, _model_first_seen(t)) for nm, t in m[1]['reg']['cache'])
    ok = len(mouts) == len(rec['outs']) and all(
      (a[0] == 'ok' and b[0] == 'ok' and a[1] == b[1]) or (a[0] == 'err' and b[0] == 'err' and b[1] in ERR_MAP.get(a[1], set()))
      for a, b in zip(mouts, rec['outs'])
    )
    if not ok or mfinal != rec['final']:
      ctx.disagreements_checked += 1
      ctx.violation('registry-model-mismatch', f'impl outs {rec["outs"]} final {rec["final"]}; model outs {mouts} final {mfinal}', case, concrete=False)


def _first_seen(cls, made=()):
  """Identity-free token of a class: its known id, or 'made:<__name__>' for a class flax created."""
  if cls in made or cls not in TT.ids:
    return 'made:' + cls.__name__
  return f'u{TT.ids[cls]}'


def _model_first_seen(tok):
  if 'u' in tok:
    return f'u{tok["u"]}'
  return 'made:' + tok['n']


def check_merge(ctx, drv, rng, n):
  reqs, recs = [], []
  for _ in range(n):
    paths = rand_attr_paths(rng, rng.randrange(2, 8))
    a, b = {}, {}
    for p in paths:
      w = rng.random()
      if w < 0.6:
        set_path(a, p, nnx.Param(rand_array(rng)))
      if w > 0.35:
        set_path(b, p, nnx.BatchStat(rand_array(rng)))
    r = call(bv._recursive_merge, a, b)
    want = dict(_flat(a))
    want.update(_flat(b))
    recs.append({'a': a, 'b': b, 'r': r, 'want': want})
    reqs.append(('merge', [forest_json(a, nvar_json), forest_json(b, nvar_json)]))
  outs = drv.run(reqs)
  for rec, m in zip(recs, outs):
    m = unwrap(m)
    case = {'kind': 'merge', 'a': forest_json(rec['a'], nvar_json), 'b': forest_json(rec['b'], nvar_json)}
    ctx.case(case)
    ctx.count('merge_overlap', sum(1 for p in _flat(rec['a']) if p in _flat(rec['b'])))
    if rec['r'][0] != 'ok':
      ctx.violation('merge-raises', f'_recursive_merge raised {rec["r"][1]}', case)
      continue
    got = _flat(rec['r'][1])
    if set(got) != set(rec['want']) or any(got[p] is not rec['want'][p] for p in got):
      ctx.violation('merge-not-per-leaf', '_recursive_merge(a, b) is not "b wins per leaf, every other leaf of a kept"', case)
      continue
    if m[0] != 'ok' or canon_forest(m[1], nvar_canon(reg_json())) != impl_attrs_canon(rec['r'][1]):
      ctx.disagreements_checked += 1
      ctx.violation('merge-model-mismatch', f'model {str(m)[:200]}', case, concrete=False)


# ------------------------------------------------------------------------------------------------
# part 2: ToNNX on generated Linen modules
# ------------------------------------------------------------------------------------------------


def iw(shape, seed):
  n = int(np.prod(shape))
  return jnp.asarray(((np.arange(n) * 7 + seed * 3) % 5 - 2).reshape(shape), jnp.int32)


class LGen(nn.Module):
  """Interpreter of a module spec: a tuple of layers
  ('dense', name, features, box) | ('stat', name) | ('drop',) | ('block', name, subspec)."""

  spec: tuple

  @nn.compact
  def __call__(self, x):
    for i, layer in enumerate(self.spec):
      kind = layer[0]
      if kind == 'dense':
        _, name, f, box = layer
        init = lambda key, shape, s=i + len(name): iw(shape, s)  # noqa: E731
        if box == 'part':
          init = nn.with_partitioning(init, ('in', None))
        elif box == 'logical':
          init = nn.with_logical_partitioning(init, ('li', 'lo'))
        elif box == 'custom':
          base = init
          init = lambda key, shape, base=base: MyBox(base(key, shape), 'zz')  # noqa: E731
        w = self.param(name, init, (x.shape[-1], f))
        x = (x @ w) % 11
      elif kind == 'stat':
        _, name = layer
        c = self.variable('batch_stats', name, lambda: jnp.zeros((), jnp.int32))
        if not self.is_initializing() and self.is_mutable_collection('batch_stats'):
          c.value = c.value + jnp.sum(x) % 7 + 1
        x = x + c.value
      elif kind == 'drop':
        x = x + jax.random.randint(self.make_rng('dropout'), x.shape, 0, 10)
      elif kind == 'lazy':
        # a `cache` variable that comes into being at the first call that may write `cache`
        _, name = layer
        if not self.is_initializing() and self.is_mutable_collection('cache'):
          c = self.variable('cache', name, lambda: jnp.zeros((), jnp.int32))
          c.value = c.value + 2
          x = x + c.value
        elif self.has_variable('cache', name):
          x = x + self.get_variable('cache', name)
      elif kind == 'block':
        _, name, sub = layer
        x = LGen(sub, name=name)(x)
    return x


def gen_spec(rng, depth, names=None, want_stat=False):
  names = names if names is not None else set()

  def fresh(prefix):
    for _ in range(50):
      n = prefix + rng.choice(['', '0', '1', 'x'])
      if n not in names:
        names.add(n)
        return n
    n = prefix + str(len(names))
    names.add(n)
    return n

  layers = []
  for _ in range(rng.randrange(1, 4)):
    k = rng.random()
    if k < 0.33:
      layers.append(('dense', fresh('w'), rng.choice([2, 3]), rng.choice([None, None, 'part', 'logical', 'custom'])))
    elif k < 0.5:
      layers.append(('stat', fresh('c')))
    elif k < 0.57:
      layers.append(('drop',))
    elif k < 0.64:
      layers.append(('lazy', fresh('z')))
    elif depth > 0:
      layers.append(('block', fresh('B'), gen_spec(rng, depth - 1, set(), want_stat and rng.random() < 0.7)))
  if want_stat and not any(l[0] in ('stat', 'block') for l in layers):
    layers.append(('stat', fresh('c')))
  if not any(l[0] == 'dense' for l in layers):
    layers.insert(0, ('dense', fresh('w'), 2, None))
  return tuple(layers)


def spec_features(spec, depth=0):
  f = {'depth': depth, 'stat_depth': -1, 'drop': False, 'boxes': set(), 'lazy': False}
  for l in spec:
    if l[0] == 'lazy':
      f['lazy'] = True
    if l[0] == 'stat':
      f['stat_depth'] = max(f['stat_depth'], depth)
    elif l[0] == 'drop':
      f['drop'] = True
    elif l[0] == 'dense' and l[3]:
      f['boxes'].add(l[3])
    elif l[0] == 'block':
      g = spec_features(l[2], depth + 1)
      f['depth'] = max(f['depth'], g['depth'])
      f['stat_depth'] = max(f['stat_depth'], g['stat_depth'])
      f['drop'] = f['drop'] or g['drop']
      f['lazy'] = f['lazy'] or g['lazy']
      f['boxes'] |= g['boxes']
  return f


def deep_merge(a, b):
  out = dict(a)
  for k, v in b.items():
    if isinstance(v, dict) and isinstance(out.get(k), dict):
      out[k] = deep_merge(out[k], v)
    else:
      out[k] = v
  return out


def out_str(y):
  return valstr(y)


MUT_CHOICES = [False, False, ['batch_stats'], ['batch_stats'], True, ['batch_stats', 'cache']]


LCOLS = ['batch_stats', 'SubStat', 'SubSubStat', 'Counter', 'params', 'SubParam', 'MixFirst', 'MixLast', 'MixFirstSub', 'MixStat']


def gen_lhistory(rng):
  """ToLinen histories: `mutable` off, True, or any subset of the collections the generated modules use
  (so a base type's collection can be mutable while a sub-class's is not, and the other way round)."""
  out = []
  for _ in range(rng.randrange(1, 5)):
    k = rng.random()
    if k < 0.2:
      mut = False
    elif k < 0.35:
      mut = True
    else:
      mut = [c for c in LCOLS if rng.random() < 0.35] or [rng.choice(LCOLS)]
    out.append((mut, [rng.randrange(-3, 4) for _ in range(6)]))
  return out


def gen_thistory(rng):
  """ToNNX histories: per call a `mutable` choice, an input, and either no `rngs=` or a fresh
  nnx.Rngs (its seed) handed in for this call only."""
  return [(m, xs, rng.randrange(1000, 2000) if rng.random() < 0.4 else None) for m, xs in gen_history(rng)]


def gen_history(rng):
  return [(rng.choice(MUT_CHOICES), [rng.randrange(-3, 4) for _ in range(6)]) for _ in range(rng.randrange(1, 5))]


STD_BASES = {'params': nnx.Param, 'batch_stats': nnx.BatchStat, 'cache': nnx.Cache,
             'intermediates': nnx.Intermediate, 'perturbations': nnx.Perturbation}
_REPOINT_TYPES = {}


def repoint(name):
  """register_variable_name(standard name, a user sub-class, overwrite=True); undone by RegistryGuard."""
  if name not in _REPOINT_TYPES:
    _REPOINT_TYPES[name] = type('User' + STD_BASES[name].__name__, (STD_BASES[name],), {})
    TT.tok(_REPOINT_TYPES[name])
  vl.register_variable_name(name, _REPOINT_TYPES[name], overwrite=True)
  return _REPOINT_TYPES[name]


def rng_counts(rngs):
  """stream name -> how many keys have been drawn from it"""
  return {name: int(stream.count.value) for name, stream in rngs.items()} if rngs else {}


class Spy:
  """Stands in for the Linen module inside ToNNX and records the `rngs` dict of every init/apply."""

  def __init__(self, module, log):
    self._m, self._log = module, log

  def init_with_output(self, rngs, *a, **kw):
    self._log.append(dict(rngs))
    return self._m.init_with_output(rngs, *a, **kw)

  def apply(self, variables, *a, rngs=None, **kw):
    self._log.append(dict(rngs or {}))
    return self._m.apply(variables, *a, rngs=rngs, **kw)


def key_str(k):
  return valstr(k)


def run_tonnx_case(ctx, spec, hist, placement, seeds, reqs, metas):
  """Runs one ToNNX history on the implementation with its reference; queues model requests."""
  case = {'kind': 'tonnx', 'spec': spec, 'hist': [list(e) for e in hist], 'placement': placement, 'seeds': seeds}
  feat = spec_features(spec)
  ctx.case(case)
  ctx.count('tonnx_placement', placement)
  ctx.count('tonnx_calls', len(hist))
  ctx.count('tonnx_nesting', feat['depth'])
  ctx.count('tonnx_stat_depth', feat['stat_depth'])
  ctx.count('tonnx_rng_use', feat['drop'])
  ctx.count('tonnx_lazy_collection', feat['lazy'])
  for b in feat['boxes'] or ['none']:
    ctx.count('tonnx_boxes', b)
  with RegistryGuard():
    # registry histories with overwrite: standard collection names re-pointed at user types before the
    # bridge is used (any of the five) and, for collections the wrapper does not hold yet, between calls
    repointed = list(seeds[4]) if len(seeds) > 4 and seeds[4] else []
    for nm in repointed:
      repoint(nm)
    ctx.count('tonnx_repointed_before', '+'.join(sorted(repointed)) or 'none')
    reg_at_init = reg_json()
    module = LGen(spec)
    x0 = jnp.ones((2, 3), jnp.int32)
    default_only = len(seeds) > 2 and seeds[2] and not feat['drop']
    ctx.count('tonnx_rngs', 'default-only' if default_only else 'params+dropout')
    if default_only:
      mk_rngs = lambda: nnx.Rngs(seeds[0])  # noqa: E731
    else:
      mk_rngs = lambda: nnx.Rngs(params=seeds[0], dropout=seeds[1])  # noqa: E731
    ref_rngs = mk_rngs()
    first = [True]

    def draw():
      ks = {name: stream() for name, stream in ref_rngs.items()}
      if first[0] and 'params' not in ks and 'default' in ks:
        ks['params'] = ks.pop('default')  # what a Linen user does: init needs a 'params' key
      first[0] = False
      return ks

    # ---- reference: plain Linen use (lazy_init may be handed its own rngs= too)
    init_seed = seeds[3] if len(seeds) > 3 and placement == 'alone' else None
    ctx.count('tonnx_init_rngs', 'given' if init_seed is not None else 'own')
    if init_seed is not None:
      init_rngs = nnx.Rngs(params=init_seed, dropout=init_seed + 1)
      itwin = nnx.Rngs(params=init_seed, dropout=init_seed + 1)
      init_keys = {name: stream() for name, stream in itwin.items()}
      first[0] = False
    else:
      init_keys = draw()
    r = call(lambda: module.init_with_output(init_keys, x0))
    if r[0] != 'ok':
      ctx.notes.append(f'reference init raised {r[1]} on {spec}')
      return
    y0_ref, V = r[1]
    V = unfreeze(V)
    # ---- wrapper
    keylog = []
    if placement == 'alone':
      w = bridge.ToNNX(Spy(module, keylog), rngs=mk_rngs())
      if init_seed is not None:
        r = call(lambda: bridge.lazy_init(w, x0, rngs=init_rngs))
        if r[0] == 'ok' and (any(c != 0 for c in rng_counts(w.rngs).values()) or any(c != 1 for c in rng_counts(init_rngs).values())):
          ctx.violation('tonnx-percall-rngs-ignored', f'lazy_init(x, rngs=nnx.Rngs(params={init_seed}, dropout={init_seed + 1})): given counts {rng_counts(init_rngs)} (1 expected), own counts {rng_counts(w.rngs)} (0 expected)', case)
          return
      else:
        r = call(lambda: bridge.lazy_init(w, x0))
      get = lambda: w  # noqa: E731
      post = lambda y: y  # noqa: E731
    elif placement == 'nnx-parent':

      class Parent(nnx.Module):
        def __init__(self, rngs):
          self.child = bridge.ToNNX(module, rngs=rngs)
          self.scale = nnx.Param(jnp.asarray(3, jnp.int32))

        def __call__(self, x, **kw):
          return self.child(x, **kw) * self.scale.value

      holder = {'p': Parent(mk_rngs())}
      r = call(lambda: bridge.lazy_init(holder['p'], x0))
      get = lambda: holder['p'].child  # noqa: E731
      post = lambda y: y * 3  # noqa: E731
    else:
      raise ValueError(placement)
    if r[0] != 'ok':
      ctx.violation('tonnx-init-raises', f'lazy_init raised {r[1]} although Linen init succeeds', case)
      return
    # placement after init: oracle + model
    err = oracle_wrapper_state(get(), V)
    if err:
      ctx.violation('tonnx-' + err[0], 'after lazy_init: ' + err[1], case)
      return
    reqs.append(('init_attrs', [reg_at_init, [], forest_json(V, lbox_json)]))
    metas.append((case, 'init', impl_attrs_canon(wrapper_attrs(get()))))
    own_flags = [init_seed is None]  # per recorded init/apply: were the keys drawn from the wrapper's own rngs?
    for step, entry in enumerate(hist):
      mut, xs = entry[0], entry[1]
      callseed = entry[2] if len(entry) > 2 else None
      x = jnp.asarray(np.array(xs, np.int32).reshape(2, 3))
      kw = {} if mut is False else {'mutable': mut}
      ctx.count('tonnx_percall_rngs', callseed is not None)
      if callseed is None:
        keys = draw()
        call_rngs = None
      else:
        # a fresh nnx.Rngs handed in for this call, and an identical twin for the reference
        call_rngs = nnx.Rngs(params=callseed, dropout=callseed + 1)
        twin = nnx.Rngs(params=callseed, dropout=callseed + 1)
        keys = {name: stream() for name, stream in twin.items()}
        kw = dict(kw, rngs=call_rngs)
      own_flags.append(callseed is None)
      if len(seeds) > 5 and seeds[5] == step:
        for nm in ('cache', 'intermediates', 'perturbations'):
          if nm not in V:  # a collection the wrapper does not hold yet may still be re-pointed
            repoint(nm)
            ctx.count('tonnx_repointed_between_calls', nm)
      own_before = rng_counts(get().rngs)
      snapV = snapshot_vars(V)
      rr = call(lambda: module.apply(V, x, rngs=keys, **{k_: v_ for k_, v_ in kw.items() if k_ != 'rngs'}))
      if snapshot_vars(V) != snapV:
        ctx.notes.append('reference apply changed its variables')
      attrs_before = forest_json(wrapper_attrs(get()), nvar_json)
      reg_before = reg_json()
      if placement == 'nnx-parent' and step % 2 == 1:
        # the wrapper must survive a functional round trip of its parent
        g, s = nnx.split(holder['p'])
        holder['p'] = nnx.merge(g, s)
      target = get() if placement == 'alone' else holder['p']
      wr = call(lambda: target(x, **kw))
      c2 = dict(case, step=step)
      if rr[0] != 'ok':
        if wr[0] == 'ok':
          ctx.violation('tonnx-accepts-what-linen-rejects', f'call {step}: Linen apply raised {rr[1]}, the wrapper returned a value', c2)
        return
      if wr[0] != 'ok':
        ctx.violation('tonnx-call-raises' + ('-after-nested-update' if feat['stat_depth'] >= 1 else ''), f'call {step} (mutable={mut}) raised {wr[1]}; Linen apply on the tracked variables succeeds', c2)
        return
      if mut is False:
        y_ref, upd = rr[1], {}
      else:
        y_ref, upd = rr[1]
        upd = unfreeze(upd)
      # which Rngs the keys were drawn from: the per-call object when one is given, else the wrapper's own
      own_after = rng_counts(get().rngs)
      if callseed is None:
        want_own = {n: c + 1 for n, c in own_before.items()}
        if own_after != want_own:
          ctx.violation('tonnx-own-rngs-not-advanced', f'call {step} without rngs=: the wrapper\'s stream counts went {own_before} -> {own_after}, one draw per stream expected', c2)
          return
      else:
        given_after = rng_counts(call_rngs)
        if own_after != own_before or any(c != 1 for c in given_after.values()):
          ctx.violation('tonnx-percall-rngs-ignored', f'call {step} with rngs=nnx.Rngs(params={callseed}, dropout={callseed + 1}): the given streams\' counts are {given_after} (1 expected) and the wrapper\'s own went {own_before} -> {own_after} (unchanged expected)', c2)
          return
      if out_str(wr[1]) != out_str(post(y_ref)):
        ctx.violation('tonnx-output-differs' + ('-percall-rngs' if callseed is not None else ''), f'call {step} (mutable={mut}): wrapper returned {out_str(wr[1])}, Linen apply on the tracked variables returns {out_str(post(y_ref))}', c2)
        return
      if mut is not False:
        V = deep_merge(V, upd)
      err = oracle_wrapper_state(get(), V)
      if err:
        ctx.violation('tonnx-' + err[0] + ('-nested' if feat['stat_depth'] >= 1 else ''), f'after call {step} (mutable={mut}): ' + err[1], c2)
        return
      if mut is not False:
        reqs.append(('absorb', [reg_before, attrs_before, forest_json(upd, lbox_json)]))
        metas.append((c2, 'absorb', impl_attrs_canon(wrapper_attrs(get()))))
      else:
        reqs.append(('n2l', [reg_before, attrs_before]))
        metas.append((c2, 'held', impl_vars_canon(V)))
    if placement == 'alone' and keylog:
      # keys as symbolic terms: the model says which (stream, count) every init/apply was handed
      streams = [['default', 0]] if default_only else [['params', 0], ['dropout', 0]]
      seed_of = {'default': seeds[0], 'params': seeds[0], 'dropout': seeds[1]}
      got = [sorted((n, key_str(k)) for n, k in d.items()) for d, own in zip(keylog, own_flags) if own]
      reqs.append(('draw', [streams, len(got), init_seed is None]))
      metas.append((case, 'keys', (got, seed_of)))
      # draws from a per-call object: its stream key folded with count 0 (theorem tonnx_call_uses_given_rngs)
      hist_seeds = ([init_seed] if init_seed is not None else []) + [e[2] for e in hist if len(e) > 2 and e[2] is not None]
      given = [sorted((n, key_str(k)) for n, k in d.items()) for d, own in zip(keylog, own_flags) if not own]
      for cs, g in zip(hist_seeds, given):
        want = sorted([('params', key_str(jax.random.fold_in(jax.random.key(cs), 0))), ('dropout', key_str(jax.random.fold_in(jax.random.key(cs + 1), 0)))])
        if g != want:
          ctx.violation('tonnx-rng-keys-differ', f'a call with rngs=nnx.Rngs(params={cs}, dropout={cs + 1}) handed the wrapped module other keys than the first keys of those streams', case)
          break


_BASE_REG = None


def _base_reg_json():
  return _BASE_REG


def oracle_wrapper_state(w, V):
  """The wrapper holds exactly the tracked Linen variables: every leaf of collection c at the same
  attribute path, in a Variable of the registered type for c, same value, names == sharding; nothing else."""
  attrs = wrapper_attrs(w)
  for k, v in attrs.items():
    if not isinstance(v, (dict, nnx.Variable)):
      return ('foreign-attribute', f'attribute {k} is a {type(v).__name__}')
  err = oracle_attrs(V, attrs)
  if err:
    return err
  # and the NNX view agrees: nnx.state filtered by type gives the collection
  for c, tree in V.items():
    t = vl.VariableTypeCache.get(c)
    st = nnx.state(w, t)
    got = {p: valstr(v.value) for p, v in nnx.to_flat_state(st) if p[0] not in ('rngs',)}
    want = {p: valstr(x.value if isinstance(x, meta.AxisMetadata) else x) for p, x in _flat(tree).items()}
    # a sub-type's variables also match a super-type filter (nnx semantics); only check inclusion of ours
    for p, s in want.items():
      if got.get(p) != s:
        return ('state-view-differs', f'nnx.state(wrapper, {t.__name__}) has {got.get(p)} at {p}, tracked {c} has {s}')
  return None


def run_bridge_parent_case(ctx, spec, hist, seeds):
  """ToNNX created by linen_in_bridge_mdl inside a bridge.Module parent."""
  case = {'kind': 'tonnx-bridge-parent', 'spec': spec, 'hist': [[m, xs] for m, xs in hist], 'seeds': seeds}
  ctx.case(case)
  ctx.count('tonnx_placement', 'bridge-parent')
  with RegistryGuard():
    module = LGen(spec)

    class BP(bridge.Module):
      @bridge.compact
      def __call__(self, x):
        return bridge.linen_in_bridge_mdl(module, name='lin')(x) * 2

    x0 = jnp.ones((2, 3), jnp.int32)
    keys = {'params': jax.random.key(seeds[0]), 'dropout': jax.random.key(seeds[1])}
    r = call(lambda: BP().init(dict(keys), x0))
    if r[0] != 'ok':
      ctx.violation('bridge-parent-init-raises', f'bridge.Module.init with a linen_in_bridge_mdl child raised {r[1]}', case)
      return
    vs = r[1]
    # the child's variables, Linen style
    V = {c: unfreeze(t)['lin'] for c, t in vs.items() if 'lin' in t}
    for step, (mut, xs) in enumerate(hist):
      x = jnp.asarray(np.array(xs, np.int32).reshape(2, 3))
      kw = {} if mut is False else {'mutable': mut}
      wr = call(lambda: BP().apply(vs, x, rngs=dict(keys), **kw))
      c2 = dict(case, step=step)
      if wr[0] != 'ok':
        ctx.violation('bridge-parent-call-raises', f'call {step} raised {wr[1]}', c2)
        return
      y = wr[1] if mut is False else wr[1][0]
      # which dropout key does the child see? the parent's Rngs stream, first draw
      rk = nnx.Rngs(**keys)
      child_keys = {name: stream() for name, stream in rk.items()}
      rr = call(lambda: module.apply(V, x, rngs=child_keys, **kw))
      if rr[0] != 'ok':
        return
      y_ref = rr[1] if mut is False else rr[1][0]
      if out_str(y) != out_str(y_ref * 2):
        ctx.violation('bridge-parent-output-differs', f'call {step}: {out_str(y)} vs Linen {out_str(y_ref * 2)}', c2)
        return
      if mut is not False:
        upd_ref = unfreeze(rr[1][1])
        got = {c: unfreeze(t).get('lin') for c, t in wr[1][1].items()}
        for c, t in upd_ref.items():
          if snapshot_vars(got.get(c)) != snapshot_vars(deep_merge(V.get(c, {}), t)):
            ctx.violation('bridge-parent-update-lost', f'call {step}: collection {c} returned by the parent differs from the Linen update', c2)
            return


# ------------------------------------------------------------------------------------------------
# part 3: ToLinen on generated NNX classes
# ------------------------------------------------------------------------------------------------


KEYLOG = []  # keys drawn by NGen 'drop' layers, in order (everything runs eagerly)


class NGen(nnx.Module):
  """Interpreter of an NNX module spec: ('linear', name, features, sharding) | ('count', name) |
  ('stat', name) | ('drop',) | ('sub', name, subspec)."""

  def __init__(self, spec, din, *, rngs):
    self.spec = spec
    d = din
    for i, layer in enumerate(spec):
      kind = layer[0]
      if kind == 'linear':
        _, name, f, sh = layer
        if sh is None:
          kw = {}
        elif sh[0] == 'linen-part':
          # what bridge.with_partitioning produces: the Linen side must see a Partitioned box again
          kw = {'sharding': sh[1], 'mesh': None, 'linen_meta_type': meta.Partitioned}
        else:
          kw = {'sharding': sh}
        setattr(self, name, vl.variable_type_from_name('params')(iw((d, f), i + len(name)), **kw))
        d = f
      elif kind == 'count':
        setattr(self, layer[1], Counter(jnp.zeros((), jnp.int32)))
      elif kind == 'uparam':
        t = UPARAM_TYPES[layer[2] if len(layer) > 2 else 'SubParam']
        setattr(self, layer[1], t(jnp.asarray(i + 1, jnp.int32)))
      elif kind == 'stat':
        setattr(self, layer[1], vl.variable_type_from_name('batch_stats')(jnp.zeros((), jnp.int32), tag='s'))
      elif kind == 'substat':
        setattr(self, layer[1], SubStat(jnp.asarray(1, jnp.int32)))
      elif kind == 'subsubstat':
        setattr(self, layer[1], SubSubStat(jnp.asarray(2, jnp.int32)))
      elif kind == 'drop':
        self.rngs = rngs
      elif kind == 'sub':
        _, name, sub = layer
        m = NGen(sub, d, rngs=rngs)
        setattr(self, name, m)
        d = m.dout
    self.dout = d

  def __call__(self, x):
    for layer in self.spec:
      kind = layer[0]
      if kind == 'linear':
        x = (x @ getattr(self, layer[1]).value) % 11
      elif kind == 'count':
        c = getattr(self, layer[1])
        c.value = c.value + 1
        x = x + c.value
      elif kind == 'uparam':
        u = getattr(self, layer[1])
        u.value = u.value + 1
        x = x + u.value
      elif kind in ('stat', 'substat', 'subsubstat'):
        s = getattr(self, layer[1])
        s.value = s.value + jnp.sum(x) % 5 + 1
        x = x + s.value
      elif kind == 'drop':
        k = self.rngs.dropout()
        KEYLOG.append(key_str(k))
        x = x + jax.random.randint(k, x.shape, 0, 10)
      elif kind == 'sub':
        x = getattr(self, layer[1])(x)
    return x


def gen_nspec(rng, depth):
  names = set()

  def fresh(prefix):
    n = prefix + str(len(names))
    names.add(n)
    return n

  layers = []
  for _ in range(rng.randrange(1, 4)):
    k = rng.random()
    if k < 0.30:
      layers.append(('linear', fresh('w'), rng.choice([2, 3]), rng.choice([None, None, ('a', 'b'), (None, 'm'), ('linen-part', ('p', None))])))
    elif k < 0.40:
      layers.append(('count', fresh('n')))
    elif k < 0.48:
      layers.append(('stat', fresh('s')))
    elif k < 0.55:
      layers.append(('substat', fresh('t')))
    elif k < 0.60:
      layers.append(('subsubstat', fresh('v')))
    elif k < 0.72:
      layers.append(('drop',))
    elif k < 0.84:
      layers.append(('uparam', fresh('u'), rng.choice(sorted(UPARAM_TYPES))))
    elif depth > 0:
      layers.append(('sub', fresh('m'), gen_nspec(rng, depth - 1)))
  if not any(l[0] == 'linear' for l in layers):
    layers.insert(0, ('linear', fresh('w'), 2, None))
  return tuple(layers)


class KeyProbe(nn.Module):
  """The key a Linen module sees from `make_rng(name)` at the root scope, first draw."""

  stream: str

  def __call__(self):
    return self.make_rng(self.stream)


def nnx_user_state(m):
  """path -> (collection name, value string, non-hook metadata) of every non-RNG Variable."""
  out = {}
  for p, v in nnx.to_flat_state(nnx.state(m)):
    if issubclass(v.type, nnx.RngState):
      continue
    md = {k: x for k, x in v.get_metadata().items()}
    out[p] = (impl_type_name(v.type) if v.type in vl.VariableTypeCache.values() else v.type.__name__, valstr(v.value), json.dumps(md, sort_keys=True, default=str))
  return out


def linen_user_vars(variables, prefix=()):
  """(collection, path) -> (value string, metadata) of every leaf outside 'nnx' and the Rng collections."""
  out = {}
  for c, tree in variables.items():
    if c in ('nnx', 'RngKey', 'RngCount'):
      continue
    t = unfreeze(tree)
    for k in prefix:
      t = t.get(k, {}) if isinstance(t, dict) else {}
    for p, x in _flat(t).items():
      if isinstance(x, bv.NNXMeta):
        out[(c, p)] = (valstr(x.value), json.dumps(x.metadata, sort_keys=True, default=str), x.var_type)
      elif type(x) is meta.Partitioned:
        md = {'sharding': x.names, 'mesh': x.mesh, 'linen_meta_type': type(x)}
        out[(c, p)] = (valstr(x.value), json.dumps(md, sort_keys=True, default=str), None)
      else:
        out[(c, p)] = (valstr(x), '{}', None)
  return out


def run_tolinen_case(ctx, spec, hist, placement, seeds, reqs, metas):
  case = {'kind': 'tolinen', 'spec': spec, 'hist': [[m, xs] for m, xs in hist], 'placement': placement, 'seeds': seeds}
  ctx.case(case)
  ctx.count('tolinen_placement', placement)
  ctx.count('tolinen_calls', len(hist))
  for l in spec:
    ctx.count('tolinen_layers', l[0])
  with RegistryGuard():
    repointed = list(seeds[2]) if len(seeds) > 2 and seeds[2] else []
    for nm in repointed:
      repoint(nm)
    ctx.count('tolinen_repointed_before', '+'.join(sorted(repointed)) or 'none')
    x0 = jnp.ones((2, 3), jnp.int32)
    keys = {'params': jax.random.key(seeds[0]), 'dropout': jax.random.key(seeds[1])}
    if placement == 'alone':
      lm = bridge.ToLinen(NGen, args=(spec, 3))
      prefix = ()
      post = lambda y: y  # noqa: E731
    else:

      class LP(nn.Module):
        @nn.compact
        def __call__(self, x):
          y = bridge.ToLinen(NGen, args=(spec, 3), name='inner')(x)
          b = self.param('pb', lambda k, s: jnp.full(s, 2, jnp.int32), (1,))
          return y + b

      lm = LP()
      prefix = ('inner',)
      post = lambda y: y + 2  # noqa: E731
    r = call(lambda: lm.init_with_output(dict(keys), x0))
    if r[0] != 'ok':
      ctx.violation('tolinen-init-raises', f'ToLinen init raised {r[1]}', case)
      return
    y0, vs = r[1]
    vs = unfreeze(vs)
    # ---- reference: the NNX class itself (no rng is drawn at construction in these specs)
    ref = NGen(spec, 3, rngs=nnx.Rngs(params=0, dropout=0))
    called = NGen(spec, 3, rngs=nnx.Rngs(params=0, dropout=0))
    nnx.reseed(called, dropout=_linen_key(prefix, keys['dropout']))
    r0 = call(lambda: called(x0))
    if r0[0] == 'ok' and out_str(y0) != out_str(post(r0[1])):
      ctx.violation('tolinen-init-output-differs', f'init returned {out_str(y0)}, the NNX module returns {out_str(post(r0[1]))}', case)
      return
    # init exposes the module's state under the collection named after each type: the freshly constructed
    # state (as coded) or the state after the first call (the property does not say which)
    err = oracle_linen_exposes(vs, prefix, ref)
    if err and r0[0] == 'ok' and oracle_linen_exposes(vs, prefix, called) is None:
      ref, err = called, None
      ctx.count('tolinen_init_state', 'after-first-call')
    else:
      ctx.count('tolinen_init_state', 'as-constructed')
    if err:
      ctx.violation('tolinen-' + err[0], 'after init: ' + err[1], case)
      return
    caller_vars = vs
    for step, (mut, xs) in enumerate(hist):
      x = jnp.asarray(np.array(xs, np.int32).reshape(2, 3))
      c2 = dict(case, step=step)
      mutable = mut if isinstance(mut, bool) else [c for c in mut if c != 'cache'] or ['batch_stats']
      ctx.count('tolinen_mutable', 'off' if mutable is False else ('all' if mutable is True else f'{len(mutable)} collections'))
      for l in spec:
        if l[0] == 'uparam' and mutable not in (False, True):
          ctx.count('tolinen_subtype_mutable', f'{l[2] if len(l) > 2 else "SubParam"}:{"own" if (l[2] if len(l) > 2 else "SubParam") in mutable else "-"}{"+params" if "params" in mutable else ""}')
      kw = {} if mutable is False else {'mutable': mutable}
      snap = snapshot_vars(caller_vars)
      # model: decode what the caller holds (queue before the call; inputs are impl-side only)
      sub = {c: _sub(unfreeze(t), prefix) for c, t in caller_vars.items()}
      sub = {c: t for c, t in sub.items() if t is not None and c not in ('RngKey', 'RngCount')}
      reqs.append(('decode_vars', [reg_json(), forest_json({c: t for c, t in sub.items() if c != 'nnx'}, lbox_json)]))
      metas.append((c2, 'decode', _state_canon(ref)))
      k0 = len(KEYLOG)
      wr = call(lambda: lm.apply(caller_vars, x, rngs={'dropout': keys['dropout']}, **kw))
      drawn = KEYLOG[k0:]
      if snapshot_vars(caller_vars) != snap:
        ctx.violation('partitioned-box-mutated-by-to_nnx_var', f'ToLinen.apply changed the caller\'s variables (call {step})', c2)
        return
      # reference call on the NNX object, reseeded with the key Linen hands out at that scope
      probe_key = _linen_key(prefix, keys['dropout'])
      # keys as symbolic terms (theorem tolinen_reseed_fresh): the j-th key drawn during this apply is
      # fold_in(make_rng key of this apply's rngs at the wrapper's scope, j), whatever happened before
      if wr[0] == 'ok' and drawn != [key_str(jax.random.fold_in(probe_key, j)) for j in range(len(drawn))]:
        ctx.violation('tolinen-rng-keys-differ', f'call {step}: the keys the NNX module drew are not fold_in(linen key of this apply, j) for j = 0..{len(drawn) - 1} (stale or reused keys)', c2)
        return
      ctx.count('tolinen_keys_drawn_per_call', min(len(drawn), 3))
      nnx.reseed(ref, dropout=probe_key)
      before = nnx_user_state(ref)
      rr = call(lambda: ref(x))
      if rr[0] != 'ok':
        return
      if wr[0] != 'ok':
        ctx.violation('tolinen-call-raises', f'call {step} (mutable={mutable}) raised {wr[1]}; the NNX module itself runs', c2)
        return
      y = wr[1] if mutable is False else wr[1][0]
      if out_str(y) != out_str(post(rr[1])):
        ctx.violation('tolinen-output-differs', f'call {step}: ToLinen returned {out_str(y)}, the NNX module with the same state returns {out_str(post(rr[1]))}', c2)
        return
      after = nnx_user_state(ref)
      if mutable is False:
        # the caller keeps the old variables: rewind the reference
        _restore(ref, before)
        continue
      upd = unfreeze(wr[1][1])
      # round trip of state updates through apply's mutable outputs
      got = linen_user_vars(upd, prefix)
      muts = None if mutable is True else set(mutable)
      for p, (cname, val, md) in after.items():
        if muts is not None and cname not in muts:
          if (cname, p) in got and got[(cname, p)][0] != before[p][1]:
            ctx.violation('tolinen-immutable-collection-updated', f'call {step}: {cname}/{p} changed although {cname} is not mutable', c2)
            return
          continue
        g = got.get((cname, p))
        if g is None or g[0] != val:
          ctx.violation('tolinen-update-lost', f'call {step} (mutable={mutable}): NNX state {cname}/{"/".join(map(str, p))} = {val} after the call, apply returned {g}', c2)
          return
      # model: what _update_variables puts for the new state
      hier = [[TT.tok(v.type), [TT.tok(b) for b in v.type.mro() if isinstance(b, type) and issubclass(b, nnx.Variable)]]
              for _, v in _user_flat(ref)]
      reqs.append(('encode_state_typed', [reg_json(), True if mutable is True else list(mutable), _state_json(ref), hier]))
      metas.append((c2, 'encode', impl_vars_canon({c: _sub(t, prefix) for c, t in upd.items() if c not in ('nnx', 'RngKey', 'RngCount') and _sub(t, prefix) is not None})))
      caller_vars = deep_merge(caller_vars, upd)
      if muts is not None:
        # collections that were not mutable keep the old values: rewind those in the reference
        _restore(ref, {p: v for p, v in before.items() if v[0] not in muts}, partial=True)
      err = oracle_linen_exposes(caller_vars, prefix, ref)
      if err:
        ctx.violation('tolinen-' + err[0], f'after call {step}: ' + err[1], c2)
        return


def _sub(t, prefix):
  for k in prefix:
    if not isinstance(t, dict) or k not in t:
      return None
    t = t[k]
  return t


def _linen_key(prefix, key):
  if not prefix:
    return KeyProbe('dropout').apply({}, rngs={'dropout': key})

  class P(nn.Module):
    @nn.compact
    def __call__(self):
      return KeyProbe('dropout', name=prefix[0])()

  return P().apply({}, rngs={'dropout': key})


def _restore(m, snap, partial=False):
  flat = dict(nnx.to_flat_state(nnx.state(m)))
  for p, v in flat.items():
    if p in snap:
      _set_value(m, p, snap[p][1])


def _set_value(m, path, s):
  obj = m
  for k in path[:-1]:
    obj = getattr(obj, k) if isinstance(k, str) else obj[k]
  var = getattr(obj, path[-1])
  body = s.split(':', 1)[1]
  shape = json.loads(s.split(':', 1)[0][len('int32'):])
  vals = [int(t) for t in body.split(',')] if body else []
  var.value = jnp.asarray(np.array(vals, np.int32).reshape(shape))


def _user_flat(m):
  return [(p, v) for p, v in nnx.to_flat_state(nnx.state(m)) if not issubclass(v.type, nnx.RngState)]


def _state_json(m):
  d = {}
  for p, v in _user_flat(m):
    set_path(d, tuple(str(k) for k in p), v)
  return forest_json(d, nvar_json)


def _state_canon(m):
  d = {}
  for p, v in _user_flat(m):
    set_path(d, tuple(str(k) for k in p), v)
  return impl_attrs_canon(d)


def oracle_linen_exposes(variables, prefix, ref):
  """Every non-RNG Variable of the NNX module appears under the collection named after its type, at its
  own path, with its value and metadata; nothing else appears."""
  got = linen_user_vars(variables, prefix)
  want = nnx_user_state(ref)
  seen = set()
  for p, (cname, val, md) in want.items():
    key = (cname, tuple(p))
    seen.add(key)
    g = got.get(key)
    if g is None:
      return ('variable-not-exposed', f'{"/".join(map(str, p))} (type named {cname}) is missing from collection {cname}: has {sorted(k for k in got)}')
    if g[0] != val:
      return ('value-differs', f'{cname}/{"/".join(map(str, p))}: Linen holds {g[0]}, the NNX module {val}')
    if json.loads(g[1]) != json.loads(md):
      return ('metadata-lost', f'{cname}/{"/".join(map(str, p))}: metadata {g[1]} vs {md}')
  extra = set(got) - seen
  for c, p in sorted(extra):
    if tuple(p) in {tuple(q) for q in want}:
      own = [cn for q, (cn, _, _) in want.items() if tuple(q) == tuple(p)][0]
      return ('variable-under-base-type-collection', f'{"/".join(map(str, p))} is a Variable of the type named {own} but also appears in collection {c} (a Variable must be exposed under the collection of its exact type only)')
  if extra:
    return ('extra-variable', f'collections hold {sorted(extra)} that the NNX module does not have')
  return None


# ------------------------------------------------------------------------------------------------
# part 4: metadata boxes under Linen's lifted transforms (add_axis on the way out, remove_axis on the way in)
# ------------------------------------------------------------------------------------------------

AXIS = 'layers'


def expected_names(names, axis):
  k = axis if axis >= 0 else axis + len(names) + 1
  out = list(names)
  out.insert(k, AXIS)
  return tuple(out)


def box_names(b):
  """The per-axis annotation of a Linen leaf: names of a Partitioned box, `sharding` of an NNXMeta box,
  None for an unannotated leaf."""
  if isinstance(b, bv.NNXMeta):
    return b.metadata.get('sharding')
  if isinstance(b, meta.Partitioned):
    return b.names
  return None


def check_axis_boxes(ctx, drv):
  """Every box kind x annotation (the empty tuple of a scalar included) x every index a transform can pass."""
  params = {nn.PARTITION_NAME: AXIS}
  reqs, recs = [], []
  for names in [(), (None,), ('a',), ('a', None), ('in', 'out'), (None, None)]:
    rank = len(names)
    val = jnp.zeros((2,) * rank, jnp.int32)
    boxes = [
      ('part', meta.Partitioned(val, names=names)),
      ('logical', nn.LogicallyPartitioned(val, names=names)),
      ('nnxmeta', bv.NNXMeta(nnx.Param, val, {'sharding': names})),
      ('nnxmeta+tag', bv.NNXMeta(nnx.Param, val, {'tag': 't', 'sharding': names})),
      ('nnxmeta-unannotated', bv.NNXMeta(nnx.Param, val, {'tag': 't'})),
    ]
    for kind, box in boxes:
      for index in range(-(rank + 1), rank + 1):
        case = {'kind': 'axis-box', 'box': kind, 'names': list(names), 'index': index}
        ctx.case(case)
        ctx.count('axis_box_kind', kind)
        ctx.count('axis_box_rank', rank)
        r = call(lambda: box.add_axis(index, params))
        if r[0] != 'ok':
          ctx.violation('axis-add-raises', f'{kind}{names}.add_axis({index}) raised {r[1]}', case)
          continue
        got = box_names(r[1])
        if kind == 'nnxmeta-unannotated':
          if r[1].metadata != box.metadata:
            ctx.violation('axis-unannotated-changed', f'add_axis changed the metadata of a Variable without sharding annotation: {r[1].metadata}', case)
          continue
        want = expected_names(names, index)
        if got is None or tuple(got) != want:
          ctx.violation('axis-names-misaligned' + ('-empty-annotation' if rank == 0 else ''), f'{kind} with annotation {names}: add_axis({index}) gives {got}, one name per axis of the stacked value would be {want}', case)
          continue
        b = call(lambda: r[1].remove_axis(index, params))
        if b[0] != 'ok' or tuple(box_names(b[1])) != names or snapshot_vars({'b': b[1]}) != snapshot_vars({'b': box}):
          ctx.violation('axis-remove-add-not-identity', f'{kind}{names}: remove_axis({index}) after add_axis({index}) gives {b[1] if b[0] != "ok" else box_names(b[1])}', case)
          continue
        if kind.startswith('nnxmeta'):
          md = [[k, mv_json(k, v)] for k, v in box.metadata.items()]
          reqs.append(('meta_add_axis', [md, index, AXIS]))
          recs.append((case, sorted([[k, mv_json(k, v)] for k, v in r[1].metadata.items()], key=lambda e: e[0])))
  outs = drv.run(reqs)
  for (case, want), m in zip(recs, outs):
    if m[0] != 'ok' or sorted(m[1], key=lambda e: e[0]) != want:
      ctx.disagreements_checked += 1
      ctx.violation('axis-model-mismatch', f'model {m} vs implementation {want}', case, concrete=False)


class NAx(nnx.Module):
  """spec: tuple of (name, rank, style, names) with style in sharding / none / linen-part / logical; a
  rank-2 kernel `w` and a rank-0 BatchStat `s` (annotated with the empty tuple) are always there."""

  def __init__(self, spec, *, rngs):
    self.spec = spec
    self.w = nnx.Param(iw((2, 2), 1), sharding=('in', 'out'))
    self.s = nnx.BatchStat(jnp.asarray(0, jnp.int32), sharding=())
    for i, (name, rank, style, names) in enumerate(spec):
      val = iw((2,) * rank, i + 2) + 3
      if style == 'none':
        kw = {}
      elif style == 'sharding':
        kw = {'sharding': names}
      elif style == 'linen-part':
        kw = {'sharding': names, 'mesh': None, 'linen_meta_type': meta.Partitioned}
      else:
        kw = {'sharding': names, 'mesh': None, 'sharding_rules': None, 'linen_meta_type': nn.LogicallyPartitioned}
      setattr(self, name, nnx.Param(val, **kw))

  def __call__(self, x):
    self.s.value = self.s.value + 1
    y = (x @ self.w.value) % 11 + self.s.value
    for name, _, _, _ in self.spec:
      y = y + getattr(self, name).value
    return y


def gen_axspec(rng):
  out = []
  for i in range(rng.randrange(1, 5)):
    rank = rng.choice([0, 0, 1, 1, 2])
    style = rng.choice(['sharding', 'sharding', 'none', 'linen-part', 'logical'])
    names = tuple(rng.choice([None, 'a', 'b']) for _ in range(rank))
    out.append((f'q{i}', rank, style, names))
  return tuple(out)


def take(a, i, axis):
  return np.take(np.asarray(a), i, axis=axis)


def run_lift_case(ctx, spec, transform, axis, n, drv_reqs, drv_recs):
  case = {'kind': 'lifted-tolinen', 'spec': [list(e[:3]) + [list(e[3])] for e in spec], 'transform': transform, 'axis': axis, 'n': n}
  ctx.case(case)
  ctx.count('lift_transform', f'{transform}/axis{axis}')
  for _, rank, style, names in spec:
    ctx.count('lift_var', f'rank{rank}/{style}')
  mp = {nn.PARTITION_NAME: AXIS}
  with RegistryGuard():
    if transform == 'vmap':

      class Outer(nn.Module):
        @nn.compact
        def __call__(self, x):
          f = nn.vmap(bridge.ToLinen, variable_axes={'params': axis, 'batch_stats': axis, 'nnx': None}, split_rngs={'params': True}, metadata_params=mp)
          return f(NAx, args=(spec,), name='inner')(x)

      x = jnp.asarray(np.arange(n * 4, dtype=np.int32).reshape(n, 2, 2) % 5)
      path = ('inner',)
    else:

      class Body(nn.Module):
        @nn.compact
        def __call__(self, c, _):
          return bridge.ToLinen(NAx, args=(spec,), name='inner')(c), None

      class Outer(nn.Module):
        @nn.compact
        def __call__(self, x):
          f = nn.scan(Body, variable_axes={'params': axis, 'batch_stats': axis}, variable_broadcast='nnx', split_rngs={'params': True}, length=n, metadata_params=mp)
          return f(name='sc')(x, None)[0]

      x = jnp.asarray(np.arange(4, dtype=np.int32).reshape(2, 2) % 5)
      path = ('sc', 'inner')
    r = call(lambda: Outer().init_with_output(jax.random.key(0), x))
    if r[0] != 'ok':
      ctx.violation('lift-init-raises', f'init of ToLinen under nn.{transform} raised {r[1]}', case)
      return
    y0, vs = r[1]
    vs = unfreeze(vs)
    orig = {'w': ('sharding', ('in', 'out')), 's': ('sharding', ())}
    orig.update({name: (style, names) for name, _, style, names in spec})

    def check_boxes(variables, when):
      for c in ('params', 'batch_stats'):
        tree = _sub(variables.get(c, {}), path) or {}
        for name, b in tree.items():
          style, names = orig[name]
          val = b.value if isinstance(b, meta.AxisMetadata) else b
          got = box_names(b)
          if style == 'none':
            if got is not None:
              return ('unannotated-variable-annotated', f'{when}: {c}/{name} had no sharding annotation, now {got}')
            continue
          want = expected_names(names, axis)
          if got is None or tuple(got) != want or len(got) != np.ndim(val):
            return ('names-misaligned' + ('-empty-annotation' if len(names) == 0 else ''), f'{when}: {c}/{name} (annotation {names}, {type(b).__name__}) has value of rank {np.ndim(val)} and annotation {got}; one name per axis with {AXIS!r} at axis {axis} is {want}')
          if style == 'linen-part' and type(b) is not meta.Partitioned or style == 'logical' and type(b) is not nn.LogicallyPartitioned:
            return ('box-kind-lost', f'{when}: {c}/{name} came back as {type(b).__name__}')
      return None

    err = check_boxes(vs, 'after init')
    if err:
      ctx.violation('lift-' + err[0], err[1], case)
      return
    # model: the NNXMeta boxes' metadata is the un-lifted metadata with the axis added
    for name, (style, names) in orig.items():
      if style == 'sharding':
        c = 'batch_stats' if name == 's' else 'params'
        b = _sub(vs[c], path)[name]
        drv_reqs.append(('meta_add_axis', [[['sharding', mv_json('sharding', names)]], axis, AXIS]))
        drv_recs.append((case, sorted([[k, mv_json(k, v)] for k, v in b.metadata.items()], key=lambda e: e[0])))
    # reference output: the plain formula per layer on the stacked values
    def val(c, name):
      b = _sub(vs[c], path)[name]
      return np.asarray(b.value if isinstance(b, meta.AxisMetadata) else b)

    def layer(i, xin, s_add):
      y = (xin @ take(val('params', 'w'), i, axis)) % 11 + (take(val('batch_stats', 's'), i, axis) + s_add)
      for name, _, _, _ in spec:
        y = y + take(val('params', name), i, axis)
      return y

    for mutable in (False, ['batch_stats', 'params']):
      kw = {} if mutable is False else {'mutable': mutable}
      a = call(lambda: Outer().apply(vs, x, **kw))
      if a[0] != 'ok':
        ctx.violation('lift-apply-raises', f'apply (mutable={mutable}) under nn.{transform} raised {a[1]}', case)
        return
      y = a[1] if mutable is False else a[1][0]
      if transform == 'vmap':
        want = np.stack([layer(i, np.asarray(x)[i], 1) for i in range(n)])
      else:
        cur = np.asarray(x)
        for i in range(n):
          cur = layer(i, cur, 1)
        want = cur
      if out_str(y) != out_str(jnp.asarray(want.astype(np.int32))):
        ctx.violation('lift-output-differs', f'apply under nn.{transform}: {out_str(y)} vs per-layer NNX formula {out_str(jnp.asarray(want.astype(np.int32)))}', case)
        return
      if mutable is not False:
        upd = unfreeze(a[1][1])
        err = check_boxes(upd, 'in the updates of apply')
        if err:
          ctx.violation('lift-' + err[0], err[1], case)
          return
        for c in ('params',):
          if snapshot_vars(_sub(upd[c], path)) != snapshot_vars(_sub(vs[c], path)):
            ctx.violation('lift-roundtrip', 'params went through remove_axis / add_axis of one apply and came back different', case)
            return


class LAx(nn.Module):
  """Linen twin for the other direction: Partitioned / LogicallyPartitioned params of rank 0, 1, 2."""

  spec: tuple

  @nn.compact
  def __call__(self, x):
    y = x
    for i, (name, rank, style, names) in enumerate(self.spec):
      init = lambda key, shape, s=i: iw(shape, s + 2) + 3  # noqa: E731
      if style in ('sharding', 'linen-part'):
        init = nn.with_partitioning(init, names)
      elif style == 'logical':
        init = nn.with_logical_partitioning(init, names)
      y = y + self.param(name, init, (2,) * rank)
    return y


def run_lift_tonnx_case(ctx, spec, axis, n):
  case = {'kind': 'lifted-tonnx', 'spec': [list(e[:3]) + [list(e[3])] for e in spec], 'axis': axis, 'n': n}
  ctx.case(case)
  ctx.count('lift_transform', f'tonnx-vmap/axis{axis}')
  with RegistryGuard():

    class Outer(nn.Module):
      @nn.compact
      def __call__(self, x):
        f = nn.vmap(LAx, variable_axes={'params': axis}, split_rngs={'params': True}, in_axes=0, metadata_params={nn.PARTITION_NAME: AXIS})
        return f(spec, name='inner')(x)

    x = jnp.asarray(np.arange(n * 4, dtype=np.int32).reshape(n, 2, 2) % 5)
    w = bridge.ToNNX(Outer(), rngs=nnx.Rngs(0))
    r = call(lambda: bridge.lazy_init(w, x))
    if r[0] != 'ok':
      ctx.violation('lift-init-raises', f'lazy_init of ToNNX(vmapped Linen module) raised {r[1]}', case)
      return
    for name, rank, style, names in spec:
      v = wrapper_attrs(w)['inner'][name]
      got = v.get_metadata().get('sharding')
      if style == 'none':
        if got is not None:
          ctx.violation('lift-unannotated-variable-annotated', f'{name}: sharding {got}', case)
          return
        continue
      want = expected_names(names, axis)
      if got is None or tuple(got) != want or len(got) != np.ndim(v.value):
        ctx.violation('lift-names-misaligned' + ('-empty-annotation' if rank == 0 else ''), f'ToNNX Variable {name}: value rank {np.ndim(v.value)}, sharding {got}, expected {want}', case)
        return
    V = Outer().init(jax.random.key(0), x)
    a = call(lambda: w(x))
    if a[0] != 'ok' or out_str(a[1]) != out_str(Outer().apply(V, x)):
      ctx.violation('lift-output-differs', f'ToNNX(vmapped Linen module)(x) = {a[1] if a[0] != "ok" else out_str(a[1])}', case)


# ------------------------------------------------------------------------------------------------
# part 5: one ToLinen instance called several times inside a single Linen init/apply, with rng use
# ------------------------------------------------------------------------------------------------


class NoiseMod(nnx.Module):
  """Draws one key per entry of `draws` (stream names) on every call and logs the keys it was given."""

  def __init__(self, draws, *, rngs):
    self.draws = draws
    self.w = nnx.Param(jnp.asarray(2, jnp.int32))
    self.rngs = rngs

  def __call__(self, x):
    for st in self.draws:
      k = getattr(self.rngs, st)()
      KEYLOG.append((st, key_str(k)))
      x = x + jax.random.randint(k, x.shape, 0, 1000)
    return x * self.w.value


class ProbeInner(nn.Module):
  """Reference: a plain Linen module that calls make_rng(name) for every stream, `n` times."""

  names: tuple
  n: int

  def __call__(self):
    return [{nm: self.make_rng(nm) for nm in self.names} for _ in range(self.n)]


def run_repeated_calls_case(ctx, draws, ncalls, style, seeds):
  case = {'kind': 'tolinen-repeated-calls', 'draws': list(draws), 'ncalls': ncalls, 'style': style, 'seeds': seeds}
  ctx.case(case)
  ctx.count('repeat_calls', ncalls)
  ctx.count('repeat_style', style)
  ctx.count('repeat_draws_per_call', len(draws))
  ctx.count('repeat_streams', len(set(draws)))
  with RegistryGuard():
    if style == 'compact':

      class Parent(nn.Module):
        @nn.compact
        def __call__(self, x):
          inner = bridge.ToLinen(NoiseMod, args=(draws,), name='inner')
          return tuple(inner(x) for _ in range(ncalls))

    else:

      class Parent(nn.Module):
        def setup(self):
          self.inner = bridge.to_linen(NoiseMod, draws)

        def __call__(self, x):
          return tuple(self.inner(x) for _ in range(ncalls))

    class ProbeParent(nn.Module):
      names: tuple

      @nn.compact
      def __call__(self):
        return ProbeInner(self.names, ncalls, name='inner')()

    x = jnp.zeros((2, 3), jnp.int32)
    streams = sorted(set(draws))
    init_rngs = {'params': jax.random.key(seeds[0]), **{st: jax.random.key(seeds[1] + i) for i, st in enumerate(streams)}}
    apply_rngs = {st: jax.random.key(seeds[2] + i) for i, st in enumerate(streams)}

    def expected(rngs):
      probe = ProbeParent(tuple(rngs)).apply({}, rngs=dict(rngs))
      out = []
      for k in range(ncalls):
        seen = {}
        for st in draws:
          j = seen.get(st, 0)
          seen[st] = j + 1
          out.append((st, key_str(jax.random.fold_in(probe[k][st], j))))
      return out

    def check(what, rngs, run):
      k0 = len(KEYLOG)
      r = call(run)
      got = KEYLOG[k0:]
      if r[0] != 'ok':
        ctx.violation('repeat-raises', f'{what} of a Linen parent calling one ToLinen instance {ncalls} times raised {r[1]}', case)
        return None
      outs = r[1]
      want = expected(rngs)
      per = len(draws)
      for k in range(ncalls):
        for k2 in range(k + 1, ncalls):
          if set(got[k * per : (k + 1) * per]) & set(got[k2 * per : (k2 + 1) * per]):
            ctx.violation('tolinen-repeated-call-reuses-keys', f'{what}: call {k2} of the same ToLinen instance inside one Linen {what} got a key that call {k} already used (streams {streams}); the NNX module itself never repeats a key', case)
            return None
      if got != want:
        ctx.violation('tolinen-repeated-call-keys-differ', f'{what}: the keys the NNX module drew are not fold_in(k-th make_rng key at the wrapper\'s scope, j): first difference at draw {next(i for i, (a, b) in enumerate(zip(got, want)) if a != b) if len(got) == len(want) else (len(got), len(want))}', case)
        return None
      if per and any(out_str(outs[k]) == out_str(outs[k + 1]) for k in range(ncalls - 1)):
        ctx.violation('tolinen-repeated-call-same-output', f'{what}: two consecutive calls of the wrapper returned the same value although the NNX module draws fresh noise on every call', case)
        return None
      return outs

    r0 = call(lambda: Parent().init_with_output(dict(init_rngs), x))
    k0 = len(KEYLOG)
    outs = check('init', init_rngs, lambda: Parent().init_with_output(dict(init_rngs), x)[0])
    if outs is None or r0[0] != 'ok':
      return
    vs = r0[1][1]
    for mutable in (False, True):
      kw = {} if mutable is False else {'mutable': True}
      run = (lambda: Parent().apply(vs, x, rngs=dict(apply_rngs))) if mutable is False else (lambda: Parent().apply(vs, x, rngs=dict(apply_rngs), mutable=True)[0])
      if check(f'apply(mutable={mutable})', apply_rngs, run) is None:
        return


# ------------------------------------------------------------------------------------------------
# part 6: partition specs of bridged variables (logical names + per-variable sharding_rules)
# ------------------------------------------------------------------------------------------------


class PSpecMod(nnx.Module):
  """spec: tuple of (name, names, rules) — an nnx.Param with logical axis names and per-variable rules."""

  def __init__(self, spec, *, rngs):
    for i, (name, names, rules) in enumerate(spec):
      kw = {}
      if names is not None:
        kw['sharding'] = names
      if rules is not None:
        kw['sharding_rules'] = rules
      setattr(self, name, nnx.Param(iw((2,) * (len(names) if names is not None else 1), i + 1), **kw))

  def __call__(self, x):
    return x


def gen_pspec(rng):
  out = []
  for i in range(rng.randrange(1, 5)):
    k = rng.random()
    if k < 0.15:
      names = None
    else:
      names = tuple(rng.choice(['embed', 'mlp', 'heads', None]) for _ in range(rng.randrange(1, 3)))
    used = [n for n in (names or ()) if n is not None]
    r = rng.random()
    if names is None or r < 0.25:
      rules = None
    elif r < 0.55:  # full rule list
      rules = tuple((n, rng.choice(['data', 'model', None])) for n in dict.fromkeys(used))
    elif r < 0.8:  # partial: some names have no rule, some rules name axes that are not used
      rules = tuple((n, rng.choice(['data', 'model'])) for n in dict.fromkeys(used) if rng.random() < 0.5) + (('unused', 'data'),)
    else:
      rules = ()
    out.append((f'v{i}', names, rules))
  return tuple(out)


def run_pspec_case(ctx, spec):
  case = {'kind': 'partition-spec', 'spec': [[n, None if a is None else list(a), None if r is None else [list(e) for e in r]] for n, a, r in spec]}
  ctx.case(case)
  for _, names, rules in spec:
    ctx.count('pspec_rules', 'unannotated' if names is None else ('none' if rules is None else ('empty' if not rules else f'{len(rules)} rules')))
  with RegistryGuard():
    lm = bridge.ToLinen(PSpecMod, args=(spec,))
    r = call(lambda: lm.init(jax.random.key(0), jnp.zeros((1,), jnp.int32)))
    if r[0] != 'ok':
      ctx.violation('pspec-init-raises', f'ToLinen init raised {r[1]}', case)
      return
    vs = unfreeze(r[1])
    ref = PSpecMod(spec, rngs=nnx.Rngs(0))
    want = {p[0]: tuple(v.value) for p, v in nnx.to_flat_state(nnx.get_partition_spec(nnx.state(ref)))}
    a = call(lambda: nn.get_partition_spec({'params': vs['params']})['params'])
    if a[0] != 'ok':
      ctx.violation('pspec-raises', f'nn.get_partition_spec on the ToLinen variables raised {a[1]}', case)
      return
    for name, names, rules in spec:
      got = tuple(a[1][name])
      if got != want[name]:
        ctx.violation('pspec-differs' + ('-sharding-rules' if rules else ''), f'{name} (sharding={names}, sharding_rules={rules}): nn.get_partition_spec on the ToLinen variables gives {got}, nnx.get_partition_spec on the wrapped module gives {want[name]}', case)
        return
      b = vs['params'][name]
      if isinstance(b, bv.NNXMeta):
        d = call(b.get_partition_spec)
        if d[0] != 'ok' or tuple(d[1]) != want[name]:
          ctx.violation('pspec-differs' + ('-sharding-rules' if rules else ''), f'{name}: box.get_partition_spec() = {d[1]}, NNX says {want[name]}', case)
          return
      if valstr(nn.meta.unbox(b)) != valstr(getattr(ref, name).value):
        ctx.violation('pspec-value-differs', f'{name}: unboxed value differs from the NNX variable', case)
        return


# ------------------------------------------------------------------------------------------------
# model comparison of the queued wrapper requests
# ------------------------------------------------------------------------------------------------


def compare_queued(ctx, drv, reqs, metas):
  outs = drv.run(reqs)
  for (case, what, want), m in zip(metas, outs):
    ctx.count('model_wrapper_checks', what)
    if what == 'keys':
      # model: per init/apply the list of (name handed to Linen, stream, count); evaluate the symbolic
      # key stream[count] = fold_in(key(seed of the stream), count) with real JAX and compare identities
      seen, seed_of = want
      model = []
      if m[0] == 'ok':
        for draw in m[1]:
          model.append(sorted((n, key_str(jax.random.fold_in(jax.random.key(seed_of[st]), c))) for n, st, c in draw))
      if m[0] != 'ok' or model != seen:
        ctx.disagreements_checked += 1
        bad = next((i for i, (a, b) in enumerate(zip(model, seen)) if a != b), None)
        ctx.violation('tonnx-rng-keys-differ', f'the rngs handed to the wrapped module at init/apply no. {bad} are not the keys stream[count] the model predicts (a key reused or skipped): names {[n for n, _ in seen[bad]] if bad is not None else seen}', case)
      continue
    m = unwrap(m)
    if m[0] != 'ok':
      ctx.disagreements_checked += 1
      ctx.violation(f'{case["kind"]}-model-mismatch', f'{what}: model raises {m[1]} where the implementation succeeded', case, concrete=False)
      continue
    if what in ('init', 'absorb'):
      got = canon_forest(m[1]['attrs'], nvar_canon(m[1]['reg']))
    elif what == 'held':
      got = canon_forest(m[1], lambda j: lbox_canon(j, reg_json()))
      want = drop_empty(want)
    elif what == 'decode':
      got = canon_forest(m[1]['state'], nvar_canon(m[1]['reg']))
    elif what == 'encode':
      got = canon_forest(m[1]['vars'], lambda j: lbox_canon(j, m[1]['reg']))
      want = drop_empty(want)
    if got != want:
      ctx.disagreements_checked += 1
      ctx.violation(f'{case["kind"]}-model-mismatch', f'{what}: model {str(got)[:220]} vs implementation {str(want)[:220]}', case, concrete=False)


# ------------------------------------------------------------------------------------------------
# fixed regression scenarios (also the corpus kinds)
# ------------------------------------------------------------------------------------------------


def scenario_f13(ctx):
  """The reported module of finding F13: real nn.Dense / nn.BatchNorm two levels deep."""

  class Block(nn.Module):
    @nn.compact
    def __call__(self, x):
      x = nn.Dense(3, kernel_init=nn.initializers.ones)(x)
      return nn.BatchNorm(use_running_average=False)(x)

  class Net(nn.Module):
    @nn.compact
    def __call__(self, x):
      return Block()(x)

  case = {'kind': 'scenario', 'name': 'f13'}
  ctx.case(case)
  with RegistryGuard():
    x = jnp.ones((2, 3))
    w = bridge.ToNNX(Net(), rngs=nnx.Rngs(0)).lazy_init(x)
    before = set(_flat(wrapper_attrs(w)))
    r1 = call(lambda: w(x, mutable=['batch_stats']))
    after = set(_flat(wrapper_attrs(w)))
    r2 = call(lambda: w(x, mutable=['batch_stats']))
    if r1[0] != 'ok' or before - after:
      ctx.violation('tonnx-leaf-lost-nested', f'ToNNX(Net->Block->BatchNorm): after one mutable call the wrapper lost {sorted(before - after)}', case)
    elif r2[0] != 'ok':
      ctx.violation('tonnx-call-raises-after-nested-update', f'second call raised {r2[1]}', case)


def scenario_custom_box(ctx):
  case = {'kind': 'scenario', 'name': 'custom-box'}
  ctx.case(case)
  with RegistryGuard():
    spec = (('dense', 'w', 2, 'custom'),)
    x = jnp.ones((2, 3), jnp.int32)
    m = LGen(spec)
    w = bridge.ToNNX(m, rngs=nnx.Rngs(0)).lazy_init(x)
    r = call(lambda: w(x))
    V = m.init(jax.random.key(0), x)
    if r[0] != 'ok':
      ctx.violation('box-generic-not-rebuilt', f'ToNNX of a module whose param uses a custom AxisMetadata box: call raised {r[1]}', case)
    elif out_str(r[1]) != out_str(m.apply(V, x)):
      ctx.violation('tonnx-output-differs', 'custom box module: outputs differ', case)


def scenario_partitioned_snapshot(ctx):
  case = {'kind': 'scenario', 'name': 'partitioned-snapshot'}
  ctx.case(case)
  with RegistryGuard():
    for p in (meta.Partitioned(jnp.ones((2,)), names=('a',)), nn.LogicallyPartitioned(jnp.ones((2,)), names=('a',), rules=(('a', 'b'),))):
      s0 = snapshot_vars({'p': p})
      bv.to_nnx_var('params', p)
      if snapshot_vars({'p': p}) != s0:
        ctx.violation('partitioned-box-mutated-by-to_nnx_var', f'to_nnx_var wrote its {type(p).__name__} argument (names popped out of the caller\'s box)', case)


SCENARIOS = {'f13': scenario_f13, 'custom-box': scenario_custom_box, 'partitioned-snapshot': scenario_partitioned_snapshot}


# ------------------------------------------------------------------------------------------------
# entry points
# ------------------------------------------------------------------------------------------------


def _init_globals():
  global _BASE_REG
  for t in (nnx.Param, nnx.BatchStat, nnx.Cache, nnx.Intermediate, nnx.Perturbation, UserVar0, UserVar1, Counter, nnx.RngKey, nnx.RngCount, SubParam, SubStat, SubSubStat, MixFirst, MixLast, MixFirstSub, MixStat):
    TT.tok(t)
  _BASE_REG = reg_json()


def run(ctx):
  _init_globals()
  drv = LeanDriver('drv_c18')
  thorough = ctx.tier == 'thorough'
  rng = ctx.rng
  k = 24 if thorough else 2

  for fn, obj in load_corpus('C18'):
    ctx.corpus_replayed += 1
    _run_case(ctx, drv, obj)

  for name, fn in SCENARIOS.items():
    guarded(ctx, {'kind': 'scenario', 'name': name}, lambda: fn(ctx))

  # part 1
  cases = [(gen_vars_valid(rng, i), 'valid') for i in range(500 * k)]
  cases += [gen_vars_malformed(rng, 1000 + i) for i in range(160 * k)]
  exh = exhaustive_tree_cases()
  ctx.extra['exhaustive_scope'] = f'all {len(exh)} representable assignments of the paths a, a/b, c/d, c to absent / params / batch_stats / an unregistered collection'
  check_trees(ctx, drv, exh)
  for i in range(0, len(cases), 500):
    check_trees(ctx, drv, cases[i : i + 500])
  check_boxes(ctx, drv, rng)
  check_registry(ctx, drv, rng, 300 * k)
  check_merge(ctx, drv, rng, 200 * k)

  # part 2
  reqs, metas = [], []
  n_tonnx = 150 * k
  for i in range(n_tonnx):
    spec = gen_spec(rng, rng.choice([0, 1, 2, 2, 3]), want_stat=rng.random() < 0.7)
    hist = gen_thistory(rng)
    placement = 'alone' if i % 3 else 'nnx-parent'
    seeds = [rng.randrange(100), rng.randrange(100), rng.random() < 0.3, rng.randrange(2000, 3000) if rng.random() < 0.25 else None,
             [nm for nm in STD_BASES if rng.random() < 0.5] if rng.random() < 0.4 else [], rng.choice([None, 0, 1])]
    case = {'kind': 'tonnx', 'spec': spec, 'hist': [list(e) for e in hist], 'placement': placement, 'seeds': seeds}
    guarded(ctx, case, lambda: run_tonnx_case(ctx, spec, hist, placement, seeds, reqs, metas))
    if i == 0:
      ctx.sample({'kind': 'tonnx', 'spec': spec, 'hist': hist, 'placement': placement})
  for i in range(20 * k):
    spec = gen_spec(rng, 1, want_stat=True)
    hist = gen_history(rng)
    seeds = [rng.randrange(100), rng.randrange(100)]
    guarded(ctx, {'kind': 'tonnx-bridge-parent', 'spec': spec, 'hist': [[m, xs] for m, xs in hist], 'seeds': seeds},
            lambda: run_bridge_parent_case(ctx, spec, hist, seeds))

  # part 3
  for i in range(90 * k):
    nspec = gen_nspec(rng, rng.choice([0, 1, 2]))
    hist = gen_lhistory(rng)
    placement = 'alone' if i % 3 else 'linen-parent'
    seeds = [rng.randrange(100), rng.randrange(100), [nm for nm in ('params', 'batch_stats', 'cache') if rng.random() < 0.5] if rng.random() < 0.4 else []]
    case = {'kind': 'tolinen', 'spec': nspec, 'hist': [[m, xs] for m, xs in hist], 'placement': placement, 'seeds': seeds}
    guarded(ctx, case, lambda: run_tolinen_case(ctx, nspec, hist, placement, seeds, reqs, metas))
    if i == 0:
      ctx.sample({'kind': 'tolinen', 'spec': nspec, 'hist': hist, 'placement': placement})
  compare_queued(ctx, drv, reqs, metas)

  # part 4
  check_axis_boxes(ctx, drv)
  areqs, arecs = [], []
  for i in range(24 * k):
    aspec = gen_axspec(rng)
    transform = 'vmap' if i % 2 == 0 else 'scan'
    axis = rng.choice([0, 0, -1]) if transform == 'vmap' else 0
    n = rng.choice([2, 3])
    acase = {'kind': 'lifted-tolinen', 'spec': [list(e[:3]) + [list(e[3])] for e in aspec], 'transform': transform, 'axis': axis, 'n': n}
    guarded(ctx, acase, lambda: run_lift_case(ctx, aspec, transform, axis, n, areqs, arecs))
    if i % 3 == 0:
      guarded(ctx, dict(acase, kind='lifted-tonnx'), lambda: run_lift_tonnx_case(ctx, aspec, axis, n))
  for (acase, want), m in zip(arecs, drv.run(areqs)):
    if m[0] != 'ok' or sorted(m[1], key=lambda e: e[0]) != want:
      ctx.disagreements_checked += 1
      ctx.violation('axis-model-mismatch', f'lifted ToLinen: model {m} vs implementation {want}', acase, concrete=False)

  # part 6
  for i in range(60 * k):
    pspec = gen_pspec(rng)
    guarded(ctx, {'kind': 'partition-spec', 'spec': str(pspec)}, lambda: run_pspec_case(ctx, pspec))

  # part 5
  for i in range(40 * k):
    draws = tuple(rng.choice(['dropout', 'noise']) for _ in range(rng.randrange(1, 3)))
    ncalls = rng.randrange(2, 5)
    style = 'compact' if i % 3 else 'setup'
    seeds5 = [rng.randrange(100), rng.randrange(100, 200), rng.randrange(200, 300)]
    rcase = {'kind': 'tolinen-repeated-calls', 'draws': list(draws), 'ncalls': ncalls, 'style': style, 'seeds': seeds5}
    guarded(ctx, rcase, lambda: run_repeated_calls_case(ctx, draws, ncalls, style, seeds5))

  ctx.sample({'kind': 'tree-valid', 'vars': forest_json(cases[0][0], lbox_json)})
  ctx.sample({'kind': 'tree-' + cases[-1][1], 'vars': forest_json(cases[-1][0], lbox_json)})
  ctx.extra['exhaustive'] = False
  ctx.extra['driver_calls'] = drv.calls


def _spec_from_json(s):
  return tuple(tuple(_spec_from_json(x) if isinstance(x, list) and x and isinstance(x[0], list) else (tuple(x) if isinstance(x, list) else x) for x in layer) for layer in s)


def _run_case(ctx, drv, obj):
  _init_globals()
  case = _case_of(obj)
  kind = case.get('kind')
  reqs, metas = [], []
  if kind == 'scenario':
    guarded(ctx, case, lambda: SCENARIOS[case['name']](ctx))
  elif kind == 'tonnx':
    hist = [tuple(e) for e in case['hist']]
    run_tonnx_case(ctx, _spec_from_json(case['spec']), hist, case.get('placement', 'alone'), case.get('seeds', [0, 1]), reqs, metas)
  elif kind == 'tonnx-bridge-parent':
    hist = [(m, xs) for m, xs in case['hist']]
    run_bridge_parent_case(ctx, _spec_from_json(case['spec']), hist, case.get('seeds', [0, 1]))
  elif kind == 'tolinen':
    hist = [(m, xs) for m, xs in case['hist']]
    run_tolinen_case(ctx, _spec_from_json(case['spec']), hist, case.get('placement', 'alone'), case.get('seeds', [0, 1]), reqs, metas)
  elif kind in ('lifted-tolinen', 'lifted-tonnx'):
    aspec = tuple((e[0], e[1], e[2], tuple(e[3])) for e in case['spec'])
    if kind == 'lifted-tolinen':
      a1, a2 = [], []
      guarded(ctx, case, lambda: run_lift_case(ctx, aspec, case['transform'], case['axis'], case['n'], a1, a2))
    else:
      guarded(ctx, case, lambda: run_lift_tonnx_case(ctx, aspec, case['axis'], case['n']))
  elif kind == 'tolinen-repeated-calls':
    guarded(ctx, case, lambda: run_repeated_calls_case(ctx, tuple(case['draws']), case['ncalls'], case['style'], case['seeds']))
  elif kind == 'partition-spec':
    pspec = tuple((n, None if a is None else tuple(a), None if r is None else tuple(tuple(e) for e in r)) for n, a, r in case['spec'])
    guarded(ctx, case, lambda: run_pspec_case(ctx, pspec))
  elif kind == 'axis-box':
    check_axis_boxes(ctx, drv)
  elif kind in ('box', 'registry', 'merge') or (kind or '').startswith('tree-'):
    # generated pure-function cases are re-generated from the seed; replay the deterministic families
    check_boxes(ctx, drv, ctx.rng)
  else:
    ctx.notes.append(f'unknown corpus case kind {kind}')
  compare_queued(ctx, drv, reqs, metas)


def _case_of(obj):
  case = obj
  while isinstance(case, dict) and 'kind' not in case and 'case' in case:
    case = case['case']  # replay files wrap the case (and, for concrete findings, wrap it once more)
  return case


def replay(ctx, obj):
  drv = LeanDriver('drv_c18')
  _run_case(ctx, drv, obj)
  if (_case_of(obj).get('kind') or '').startswith('tree-') or _case_of(obj).get('kind') in ('registry', 'merge', 'box'):
    # these families are functions of the seed: re-run them with the recorded seed
    ctx.rng.seed(obj.get('seed', 0))
    rng = ctx.rng
    cases = [(gen_vars_valid(rng, i), 'valid') for i in range(220)]
    cases += [gen_vars_malformed(rng, 1000 + i) for i in range(80)]
    check_trees(ctx, drv, cases)
    check_boxes(ctx, drv, rng)
    check_registry(ctx, drv, rng, 150)
    check_merge(ctx, drv, rng, 120)
  for v in ctx.violations:
    print('  ', v['key'], '-', v['what'][:300])
  return bool(ctx.violations)
