"""C05 — Lifted jit / remat / cond / switch / while_loop / identity map_variables act like the plain code.

Theorems: lean/Flax/Props/C05.lean over lean/Flax/Model/Lift.lean.
Correspondence, three voices per case: (1) the real transformed Linen module, (2) the *untransformed rendering of
the same program* / the equivalent Python control flow on the real flax (implementation-side oracle), (3) the Lean
model (driver drv_c05).  Exact int32 values; keys compared as key data; errors by enum.
"""
from __future__ import annotations

import collections.abc
import copy
import dataclasses
import types
import typing
import functools
import json

from harness import compat  # noqa: F401
from harness.common import LeanDriver, load_corpus, load_findings
from harness.props import liftprog as lp
from harness.props.liftprog import I

import jax
import jax.numpy as jnp
import numpy as np
import flax.linen as nn

SPEC = {
  'exes': ['drv_c05'],
  'rule': (
    'One case = (program of get/has/put/variable-with-init/make_rng instructions with integer polynomial expressions, '
    'module attributes, arguments, variable tree, `mutable` filter, rng streams) x transform '
    '(nn.jit | nn.remat | identity nn.map_variables (init/mutable flags) as class transform of a named or auto-named child '
    'or root module, or as method decorator; nn.cond | nn.switch (any index) | nn.while_loop) x lifting filters '
    '(variables / rngs / carry / broadcast) x for nn.jit a history of 2-4 calls on one transformed class with attribute, '
    'mutability, variable-structure, value and argument changes. Compared: outputs, every collection of the module scope, '
    'untouched sibling variables, error kind, drawn keys (identical for remat/map_variables, against the model\'s key term '
    'for jit), keys drawn after the call (rng counters), python-body execution counts. A case is non-trivial when the body '
    'has at least one write or rng draw; distinct = distinct canonical JSON of the case.'
  ),
  'trusted_base': [
    'hand-written Lean model lean/Flax/Model/Lift.lean (tied to /repo by this correspondence run)',
    'harness/props/c05.py, harness/props/liftprog.py (generators, Linen rendering of the program DSL, canonicalisation), harness/compat.py (JAX shim)',
    'A-JIT, A-REMAT, A-COND, A-WHILE: jax.jit / jax.checkpoint / lax.cond / lax.switch / lax.while_loop meet the functional specifications spelled out in the model (laxCond, laxSwitch, laxWhile, jitCall)',
    'A-RNG: threefry fold_in and SHA-1 are free constructors (keys are terms); A-PY: variable trees are dicts with distinct keys',
  ],
  'assumptions': [
    'a transformed function is identified by (transformed class, method): the model keeps one trace cache and one counter-delta cache per transformed function (jitHistory per function, keyByFn = true); the module fingerprint has no method-name field, so this identification is what keeps two jitted methods of one class apart (multimethod family)',
    'nn.jit compares module fingerprints by equality of the fingerprint tuples (after the repair cfc8239; before, by hash only): attribute values that are == (1, True, 1.0) share a trace, as for JAX static arguments',
    'cond/switch/while_loop bodies draw no rngs (tracing every branch / the loop body once advances the shared counters; not promised by the property)',
    'lifted control flow is compared with Python control flow on the domain where JAX can trace it: every branch traces without error and with one tree structure; the loop body preserves the carry structure (documented in lift.cond / lift.while_loop)',
    'several scopes: which scopes a lifted Linen transform collects from a module holding bound sub-modules / Variables as dataclass attributes and how it hands the inner scopes back (get_module_scopes / set_module_scopes, attribute part; theorems set_get_module_scopes_id, get_module_scopes_order_spec, dict_flatten_order, decl_order_variant_swaps_siblings) and _dedup_scopes / _dup_scopes (dup_dedup_id) are modelled in lean/Flax/Model/ModScopes.lean and tied by the modscopes correspondence, which calls the real functions on generated module trees; the contents of pack over several scopes (per-scope groups, _transpose) and Module / Variable values passed as method ARGUMENTS (get_arg_scope) are not modelled (attrmods / multiscope implementation oracles only)',
    'pack itself is modelled on one scope (the own scope of the transformed module); child scopes of that module at any depth are modelled by path-prefixed variable names and path-keyed counters (inChild / inPath / rngAt; theorems pack_transparent_child, pack_transparent_path); the reference sharing between a bound descendant Scope and the nested variable dicts (the in-place merge of put_variable) is NOT modelled (variables are values in the model) and is tied by the deepchild implementation oracle (depth 1-3) only; rng counters are modelled by reference one level deep (counter_delta_restore)',
  ],
  'model_partial': [
    'counter_delta_restore_partial (flat, single stream) is kept for the path-keyed `restoreCounters` the driver executes; the general statement is now proved as counter_delta_restore over the counter heap (nested dicts shared by reference, any number of streams and children, one level of nesting); deeper nesting than one child level and the equivalence flat-keys <-> heap are not proved (tied by the setup-child correspondence)',
  ],
}

MUTABLE_INIT = {'deny': 'intermediates'}
TEMP_EXCLUDE_F15 = False
SEEDS = {s: 11 + i for i, s in enumerate(lp.STREAMS)}


# ------------------------------------------------------------------------------------------------
# rendering programs on Linen
# ------------------------------------------------------------------------------------------------


ATTR_KINDS = ['fields', 'mappingproxy', 'custommapping', 'tuple', 'nestedlist', 'dataclass', 'module', 'dict']


class FrozenMap(collections.abc.Mapping):
  """A read-only Mapping that is neither a dict nor a FrozenDict nor serializable."""

  def __init__(self, items):
    self._d = dict(items)

  def __getitem__(self, k):
    return self._d[k]

  def __iter__(self):
    return iter(self._d)

  def __len__(self):
    return len(self._d)


_CFG_TYPES = {}


def _cfg_type(kind, names):
  key = (kind, tuple(names))
  if key not in _CFG_TYPES:
    if kind == 'dataclass':
      _CFG_TYPES[key] = dataclasses.make_dataclass('Cfg', [(n, int) for n in names], frozen=True)
    else:
      _CFG_TYPES[key] = type('Holder', (nn.Module,), {'__annotations__': {n: int for n in names}})
  return _CFG_TYPES[key]


def wrap_attrs(kind, attrs):
  """The module attributes of the DSL packed into ONE attribute `cfg` of the given Python kind."""
  items = sorted(attrs.items())
  if kind == 'mappingproxy':
    return types.MappingProxyType(dict(items))
  if kind == 'custommapping':
    return FrozenMap(items)
  if kind == 'tuple':
    return tuple(items)
  if kind == 'nestedlist':
    return [[k, [v]] for k, v in items]
  if kind == 'dict':
    return dict(items)
  return _cfg_type(kind, [k for k, _ in items])(**dict(items))


def unwrap_attrs(kind, names, cfg):
  if kind in ('mappingproxy', 'custommapping', 'dict'):
    return {k: cfg[k] for k in cfg}
  if kind == 'tuple':
    return dict(cfg)
  if kind == 'nestedlist':
    return {k: v[0] for k, v in cfg}
  return {n: getattr(cfg, n) for n in names}


def make_cls(name, attr_names, methods, kind='fields'):
  ns = {'__annotations__': ({a: int for a in attr_names} if kind == 'fields' else {'cfg': typing.Any})}
  ns.update(methods)
  cls = type(name, (nn.Module,), ns)
  lp.KEEP_ALIVE.append(cls)
  return cls


def construct(cls, kind, attrs, **kw):
  return cls(**attrs, **kw) if kind == 'fields' else cls(cfg=wrap_attrs(kind, attrs), **kw)


def body_method(fn, attr_names, log, kind='fields'):
  def __call__(self, *args):
    attrs = {a: getattr(self, a) for a in attr_names} if kind == 'fields' else unwrap_attrs(kind, attr_names, self.cfg)
    vals, keys = lp.run_instrs(self, fn, args, attrs, log)
    return tuple(vals), tuple(keys)

  return __call__


def transform_of(case):
  """The lifted transform as a function target -> target (class or method)."""
  t = case['transform']
  V, R = lp.lf_python(case['variables']), lp.lf_python(case['rngs_filter'])
  if t == 'jit':
    return lambda target: nn.jit(target, variables=V, rngs=R)
  if t == 'remat':
    return lambda target: nn.remat(target, variables=V, rngs=R)
  if t == 'mapvars':
    return lambda target: nn.map_variables(
      target, lp.lf_python(case['mapped']), init=case['mv_init'], mutable=case['mv_mutable'], rngs=R, variables=V
    )
  raise ValueError(t)


def build_id_modules(case):
  """Returns {'plain': (module_factory(attrs), sub_name), 'lifted': …}; the logs count python-body executions."""
  attr_names = sorted(case['attrs'])
  fn = case['fn']
  kind = case.get('attr_kind', 'fields')
  out = {}
  for which in ('plain', 'lifted'):
    log = []
    tr = transform_of(case) if which == 'lifted' else (lambda x: x)
    post = case.get('post_streams', [])
    if case['style'] == 'class':
      Body = make_cls('Body', attr_names, {'__call__': nn.compact(body_method(fn, attr_names, log, kind))}, kind)
      T = tr(Body)
      if case['placement'] == 'root':
        factory = lambda attrs, T=T: construct(T, kind, attrs)
        sub = None
      else:
        explicit = case['placement'] == 'child'

        def top_call(self, *args, T=T, explicit=explicit):
          attrs = {a: getattr(self, a) for a in attr_names}
          child = construct(T, kind, attrs, name='sub') if explicit else construct(T, kind, attrs)
          return child(*args)

        Top = make_cls('Top', attr_names, {'__call__': nn.compact(top_call)})
        factory = lambda attrs, Top=Top: Top(**attrs)
        sub = 'sub' if explicit else (T.__name__ + '_0')
    else:  # decorator: a transformed compact method `body`, called from a plain __call__ that then draws keys
      inner = nn.compact(body_method(fn, attr_names, log, kind))
      inner.__name__ = 'body'

      def outer(self, *args):
        res = self.body(*args)
        pk = tuple(jax.random.key_data(self.make_rng(s)) for s in post)
        return res + (pk,)

      M = make_cls('M', attr_names, {'body': tr(inner), '__call__': outer}, kind)
      factory = lambda attrs, M=M: construct(M, kind, attrs)
      sub = None
    out[which] = (factory, sub, log)
  return out


def full_variables(view, sub, siblings):
  """The variable dict handed to apply: the module's own view under `sub`, plus sibling variables of the parent."""
  tree = {}
  for c, coll in view.items():
    tree[c] = {sub: {n: I(v) for n, v in coll.items()}} if sub else {n: I(v) for n, v in coll.items()}
  for c, n, v in siblings:
    tree.setdefault(c, {})[n] = I(v)
  return tree


def observe(factory, sub, view, siblings, mutable, streams, args, init=False):
  """Runs one apply/init on the real flax; returns the canonical observation."""
  variables = full_variables(view, sub, siblings)
  rngs = {s: jax.random.key(SEEDS[s]) for s in streams}
  mdl = factory
  a = [I(x) for x in args]

  def thunk():
    if init:
      out, newvars = mdl.init_with_output(rngs, *a)
      return out, newvars
    mut = lp.lf_python(mutable)
    if mut is False:
      return mdl.apply(variables, *a, rngs=rngs, mutable=False), {}
    return mdl.apply(variables, *a, rngs=rngs, mutable=mut)

  r = lp.call(thunk)
  if r[0] == 'err':
    return {'error': r[1]}
  out, mutated = r[1]
  final = dict(variables) if not init else {}
  for c, coll in mutated.items():
    final[c] = coll
  if sub:
    own = {c: (tree.get(sub, {}) if hasattr(tree, 'get') else {}) for c, tree in final.items()}
    sib = {c: {n: v for n, v in tree.items() if n != sub} for c, tree in final.items()}
    child_names = sorted({n for c, tree in final.items() for n, v in tree.items() if hasattr(v, 'items')})
  else:
    own, sib, child_names = final, {}, []
  obs = {
    'vals': [int(np.asarray(v)) for v in out[0]],
    'keys': [[int(x) for x in np.asarray(k).tolist()] for k in out[1]],
    'view': lp.canon_view(own),
    'siblings': lp.canon_view(sib),
    'children': child_names,
  }
  if len(out) > 2:
    obs['post'] = [[int(x) for x in np.asarray(k).tolist()] for k in out[2]]
  return obs


# ------------------------------------------------------------------------------------------------
# the Lean side
# ------------------------------------------------------------------------------------------------


def attrs_json(attrs):
  return [[k, int(v)] for k, v in sorted(attrs.items())]


def model_req(case, which, view=None, attrs=None, args=None, mutable=None):
  view = case['view'] if view is None else view
  attrs = case['attrs'] if attrs is None else attrs
  args = case['args'] if args is None else args
  mutable = case['mutable'] if mutable is None else mutable
  sc = lp.scope_json(view, mutable, case['streams'], case['suffix'])
  if which == 'plain':
    return ('plain', [attrs_json(attrs), case['fn'], args, sc])
  t = case['transform']
  if t == 'remat':
    return ('lift', [[case['variables']], [case['variables']], [case['rngs_filter']], True, attrs_json(attrs), case['fn'], args, sc])
  if t == 'mapvars':
    return ('mapvars', [case['mapped'], case['mv_init'], case['mv_mutable'], case['rngs_filter'], case['variables'], attrs_json(attrs), case['fn'], args, sc])
  raise ValueError(t)


def canon_model(res, seeds_keys):
  """Driver result -> the observation form."""
  if res[0] != 'ok':
    return {'error': 'Driver:' + str(res[1])}
  r = res[1]
  if 'error' in r:
    return {'error': r['error']}
  return {
    'vals': r['vals'],
    'keys': [lp.keydata_from(lp.eval_symkey(k, seeds_keys)) for k in r['keys']],
    'view': lp.vars_from_json(r['vars']),
    'counters': {k: v for k, v in r['counters']},
  }


def post_keys_from_model(m, case, seeds_keys):
  """Keys the module draws after the transformed call, from the model's final counters."""
  out = []
  for s in case.get('post_streams', []):
    k = lp.fold_in_static_ref(seeds_keys[s], list(case['suffix']) + [m['counters'][s] + 1])
    out.append(lp.keydata_from(k))
  return out


# ------------------------------------------------------------------------------------------------
# domains (which clause of the property applies to a case)
# ------------------------------------------------------------------------------------------------


def covered(case, fn=None, variables=None):
  """Hypotheses of pack_transparent for the jit/remat shape (in = out = `variables`)."""
  fn = fn or case['fn']
  V = case['variables'] if variables is None else variables
  if not all(lp.in_filter_json(V, c) for c in lp.fn_cols(fn)):
    return False
  R = case['rngs_filter']
  for r in set(lp.fn_streams(fn)) | ({'params'} if lp.fn_streams(fn) else set()):
    if r in case['streams'] and not lp.in_filter_json(R, r):
      return False
  return True


def covered_mapvars(case):
  fn = case['fn']
  mp, V = case['mapped'], case['variables']
  if not all(lp.in_filter_json(mp, c) or lp.in_filter_json(V, c) for c in lp.fn_cols(fn)):
    return False
  for r in set(lp.fn_streams(fn)) | ({'params'} if lp.fn_streams(fn) else set()):
    if r in case['streams'] and not lp.in_filter_json(case['rngs_filter'], r):
      return False
  target_out = case['mv_mutable'] or case['mv_init']
  if not target_out:
    for c in lp.fn_wcols(fn):
      if lp.in_filter_json(case['mutable'], c) and lp.in_filter_json(mp, c):
        return False
  if case['mv_init']:
    # `init=True` runs the body twice (initialisation pass first): transparent only for bodies that are idempotent on
    # the mapped collections and draw no keys
    if lp.fn_streams(fn):
      return False
    if TEMP_EXCLUDE_F15 and any(lp.in_filter_json(mp, c) and not lp.in_filter_json(case['mutable'], c) for c in case['view']):
      return False
    for ins in fn['body']:
      if ins[0] in ('put', 'has') and lp.in_filter_json(mp, ins[1]):
        return False
  return True


def nonlifted_cols(case):
  """Collections of the view the transform must leave untouched whatever the body does."""
  out = []
  for c in case['view']:
    mut = lp.in_filter_json(case['mutable'], c)
    if case['transform'] == 'mapvars':
      target_out = case['mv_mutable'] or case['mv_init']
      inm, inv = lp.in_filter_json(case['mapped'], c), lp.in_filter_json(case['variables'], c)
      lifted_out = (inm or inv) if target_out else (inv and not inm)
    else:
      lifted_out = lp.in_filter_json(case['variables'], c)
    if not (mut and lifted_out):
      out.append(c)
  return out


# ------------------------------------------------------------------------------------------------
# checks
# ------------------------------------------------------------------------------------------------


def strip(obs, *drop):
  return {k: v for k, v in obs.items() if k not in drop}


def seeds_keys(case):
  return {s: jax.random.key(SEEDS[s]) for s in case['streams']}


def check_id_case(ctx, drv, case):
  """remat / map_variables / single-call jit, apply or init."""
  mods = build_id_modules(case)
  init = case.get('init', False)
  mutable = MUTABLE_INIT if init else case['mutable']
  view = {} if init else case['view']
  sib = [] if init else case.get('siblings', [])
  obs = {}
  for which in ('plain', 'lifted'):
    factory, sub, log = mods[which]
    obs[which] = observe(factory(case['attrs']), sub, view, sib, mutable, case['streams'], case['args'], init=init)
    obs[which]['runs'] = len(log)
  sk = seeds_keys(case)
  suffix = list(case['suffix'])
  t = case['transform']
  cmod = dict(case, mutable=mutable, view=view)
  if case['placement'] == 'autochild':
    names = {w: mods[w][1] for w in mods}
  else:
    names = None
  reqs = []
  for which in ('plain', 'lifted'):
    c2 = dict(cmod, suffix=([names[which]] if names else suffix))
    if which == 'lifted' and t == 'jit':
      sc = lp.scope_json(view, mutable, case['streams'], c2['suffix'])
      reqs.append(('jit_history', [True, case['variables'], case['rngs_filter'], case['fn'], 'Body', [True, False, False, False, []], [[attrs_json(case['attrs']), case['args'], sc]]]))
    else:
      reqs.append(model_req(c2, which))
  outs = drv.run(reqs)
  mo = {}
  mo['plain'] = canon_model(outs[0], sk)
  if t == 'jit':
    mo['lifted'] = canon_model(('ok', outs[1][1][0]['res']) if outs[1][0] == 'ok' else outs[1], sk)
  else:
    mo['lifted'] = canon_model(outs[1], sk)

  nontrivial = any(ins[0] in ('put', 'decl', 'rng') for ins in case['fn']['body'])
  ctx.case(case, nontrivial=nontrivial)
  ctx.count('transform', t + ('/init' if init else ''))
  ctx.count('style', case['style'] + '/' + case['placement'])
  ctx.count('plain_outcome', obs['plain'].get('error', 'ok'))
  ctx.count('lifted_outcome', obs['lifted'].get('error', 'ok'))
  cov = covered_mapvars(cmod) if t == 'mapvars' else covered(cmod)  # `cmod`: the mutability actually in force (init)
  ctx.count('covered_by_filters', cov)
  ctx.count('n_instr', len(case['fn']['body']))

  tag = f"{t}{'-init' if init else ''}"
  # ---- property oracle on the implementation --------------------------------------------------
  pl, li = obs['plain'], obs['lifted']
  auton = case['placement'] == 'autochild'
  if cov:
    if ('error' in pl) != ('error' in li) or ('error' in pl and pl['error'] != li['error']):
      ctx.violation(f'{tag}-outcome-differs', f'{t}: plain rendering gives {pl.get("error", "ok")} but the transformed module gives {li.get("error", "ok")} on {json.dumps(case)[:600]}', case)
      return
    if 'error' not in pl:
      cmp_keys = ['vals', 'view', 'siblings']
      if t != 'jit' and not auton:
        cmp_keys += ['keys', 'post']
      for k in cmp_keys:
        if pl.get(k) != li.get(k):
          ctx.violation(f'{tag}-{k}-differ', f'{t}: {k} of the transformed module {li.get(k)} != untransformed {pl.get(k)} on {json.dumps(case)[:600]}', case)
          return
      if auton:
        kids_p, kids_l = pl['children'], li['children']
        if len(kids_l) != len(kids_p) or any(not b.endswith(a) for a, b in zip(kids_p, kids_l)):
          ctx.violation(f'{tag}-autoname-tree-differs', f'{t}: variable tree children {kids_l} vs plain {kids_p}', case)
          return
  else:
    # not covered: the transform is *meant* to hide / protect collections.  What the property promises is the frame:
    if 'error' not in li:
      for c in nonlifted_cols(cmod):
        if li['view'].get(c) != view.get(c):
          ctx.violation(f'{tag}-nonlifted-collection-changed', f'{t}: collection {c!r} is not lifted-and-mutable but changed from {view.get(c)} to {li["view"].get(c)} on {json.dumps(case)[:600]}', case)
          return
  if 'error' not in li and sib:
    want = {}
    for c, n, v in sib:
      want.setdefault(c, {})[n] = v
    if li['siblings'] != want:
      ctx.violation(f'{tag}-sibling-changed', f'{t}: variables of the parent module changed: {li["siblings"]} vs {want}', case)
      return
  # jit determinism: keys of a jitted call are a function of the call site (same call twice -> same keys), checked in histories

  # ---- model vs implementation ------------------------------------------------------------------
  for which in ('plain', 'lifted'):
    o, m = obs[which], mo[which]
    if 'error' in o or 'error' in m:
      if o.get('error') != m.get('error'):
        ctx.disagreements_checked += 1
        ctx.violation(f'{tag}-model-mismatch-{which}', f'{which} {t}: implementation {o.get("error", "ok")} vs model {m.get("error", "ok")} on {json.dumps(case)[:600]}', case, concrete=False)
        return
      continue
    fields = ['vals', 'view', 'keys']
    o2 = dict(o)
    m2 = dict(m)
    if 'post' in o:
      c2 = dict(case, suffix=([names[which]] if names else suffix))
      m2['post'] = post_keys_from_model(m, c2, sk)
      fields.append('post')
    for k in fields:
      if o2.get(k) != m2.get(k):
        ctx.disagreements_checked += 1
        ctx.violation(f'{tag}-model-mismatch-{which}-{k}', f'{which} {t}: implementation {k}={o2.get(k)} vs model {m2.get(k)} on {json.dumps(case)[:600]}', case, concrete=False)
        return


# ---- nn.jit call histories -------------------------------------------------------------------------


def check_history_case(ctx, drv, case):
  """2-4 calls through ONE jitted class/method; every call is also run on the plain rendering."""
  mods = build_id_modules(case)
  sk = seeds_keys(case)
  calls = case['calls']
  reqs_calls = []
  results = []
  for which in ('plain', 'lifted'):
    factory, sub, log = mods[which]
    rs = []
    for cl in calls:
      n0 = len(log)
      o = observe(factory(cl['attrs']), sub, cl['view'], [], cl['mutable'], case['streams'], cl['args'])
      o['runs'] = len(log) - n0
      rs.append(o)
    results.append(rs)
  plain, lifted = results
  for cl in calls:
    sc = lp.scope_json(cl['view'], cl['mutable'], case['streams'], case['suffix'])
    reqs_calls.append([attrs_json(cl['attrs']), cl['args'], sc])
  reqs = [('jit_history', [True, case['variables'], case['rngs_filter'], case['fn'], 'Body', [True, False, False, False, []], reqs_calls])]
  for cl in calls:
    reqs.append(model_req(case, 'plain', view=cl['view'], attrs=cl['attrs'], args=cl['args'], mutable=cl['mutable']))
  outs = drv.run(reqs)
  ctx.case(case, nontrivial=True)
  ctx.count('transform', 'jit/history')
  ctx.count('style', case['style'] + '/' + case['placement'])
  ctx.count('history_len', len(calls))
  ctx.count('attr_kind', case.get('attr_kind', 'fields'))
  ctx.count('history_changes', '+'.join(sorted({c['change'] for c in calls[1:]})) or 'none')
  cov = covered(case)
  ctx.count('covered_by_filters', cov)
  if outs[0][0] != 'ok':
    ctx.disagreements_checked += 1
    ctx.violation('jit-history-driver', f'driver failed: {outs[0]}', case, concrete=False)
    return
  model_traces = 0
  for idx, cl in enumerate(calls):
    pl, li = plain[idx], lifted[idx]
    ctx.count('lifted_outcome', li.get('error', 'ok'))
    ctx.count('jit_python_runs', li['runs'] if 'runs' in li else 0)
    mres = outs[0][1][idx]
    mli = canon_model(('ok', mres['res']), sk)
    mpl = canon_model(outs[1 + idx], sk)
    model_traces += 1 if mres['traced'] else 0
    where = f'call {idx} ({cl["change"]}) of {json.dumps(case)[:500]}'
    # oracle: call k equals the untransformed module on the same inputs (no stale trace)
    if cov:
      if pl.get('error') != li.get('error'):
        ctx.violation('jit-history-outcome-differs', f'nn.jit: {li.get("error", "ok")} vs plain {pl.get("error", "ok")} at {where}', case)
        return
      if 'error' not in pl:
        for k in ('vals', 'view'):
          if pl[k] != li[k]:
            ctx.violation(f'jit-history-stale-{k}', f'nn.jit: {k} {li[k]} vs plain {pl[k]} at {where}', case)
            return
    else:
      if 'error' not in li:
        c2 = dict(case, view=cl['view'], mutable=cl['mutable'])
        for c in nonlifted_cols(c2):
          if li['view'].get(c) != cl['view'].get(c):
            ctx.violation('jit-history-nonlifted-collection-changed', f'nn.jit: collection {c!r} changed at {where}', case)
            return
    # reproducibility: an identical earlier call must have produced identical keys
    for j in range(idx):
      cj = calls[j]
      if all(cj[k] == cl[k] for k in ('attrs', 'view', 'mutable', 'args')) and 'error' not in li and 'error' not in lifted[j]:
        if lifted[j]['keys'] != li['keys'] or lifted[j].get('post') != li.get('post'):
          ctx.violation('jit-history-keys-not-reproducible', f'nn.jit: identical calls {j} and {idx} drew different keys {lifted[j]["keys"]} {lifted[j].get("post")} vs {li["keys"]} {li.get("post")} in {json.dumps(case)[:500]}', case)
          return
    # model correspondence
    for which, o, m in (('plain', pl, mpl), ('lifted', li, mli)):
      if 'error' in o or 'error' in m:
        if o.get('error') != m.get('error'):
          ctx.disagreements_checked += 1
          ctx.violation(f'jit-history-model-mismatch-{which}', f'{which}: implementation {o.get("error", "ok")} vs model {m.get("error", "ok")} at {where}', case, concrete=False)
          return
        continue
      m2 = dict(m)
      fields = ['vals', 'view', 'keys']
      if 'post' in o:
        m2['post'] = post_keys_from_model(m, case, sk)
        fields.append('post')
      for k in fields:
        if o.get(k) != m2.get(k):
          ctx.disagreements_checked += 1
          ctx.violation(f'jit-history-model-mismatch-{which}-{k}', f'{which}: implementation {k}={o.get(k)} vs model {m2.get(k)} at {where}', case, concrete=False)
          return
  impl_traces = sum(o.get('runs', 0) for o in lifted)
  ctx.count('jit_traces_impl_minus_model', impl_traces - model_traces)


# ---- cond / switch / while ---------------------------------------------------------------------------


def build_ctrl_modules(case):
  kind = case['kind']
  attr_names = sorted(case['attrs'])
  V, R = lp.lf_python(case.get('variables', True)), lp.lf_python(case.get('rngs_filter', True))

  def branch(fn):
    def f(mdl, *args):
      attrs = {a: getattr(mdl, a) for a in attr_names}
      vals, _ = lp.run_instrs(mdl, fn, args, attrs)
      return tuple(vals)

    return f

  out = {}
  for which in ('plain', 'lifted'):
    if kind == 'cond':
      t, f = branch(case['t']), branch(case['f'])

      def call(self, pred, *args, t=t, f=f, which=which):
        if which == 'lifted':
          return nn.cond(pred, t, f, self, *args, variables=V, rngs=R), ()
        return (t(self, *args) if bool(pred) else f(self, *args)), ()

    elif kind == 'switch':
      bs = [branch(b) for b in case['branches']]

      def call(self, index, *args, bs=bs, which=which):
        if which == 'lifted':
          return nn.switch(index, bs, self, *args, variables=V, rngs=R), ()
        i = min(max(int(index), 0), len(bs) - 1)  # lax.switch clamps
        return bs[i](self, *args), ()

    else:  # while
      cf, bf = branch(case['cond_fn']), branch(case['body_fn'])
      CF, BF = lp.lf_python(case['carry']), lp.lf_python(case['broadcast'])

      def call(self, *init, cf=cf, bf=bf, which=which):
        c_fn = lambda mdl, c: cf(mdl, *c)[0] > 0
        b_fn = lambda mdl, c: bf(mdl, *c)
        if which == 'lifted':
          return nn.while_loop(c_fn, b_fn, self, tuple(init), carry_variables=CF, broadcast_variables=BF), ()
        c = tuple(init)
        n = 0
        while bool(c_fn(self, c)):
          c = b_fn(self, c)
          n += 1
          if n > 40:
            raise RuntimeError('diverged')
        return c, ()

    M = make_cls('Ctl', attr_names, {'__call__': nn.compact(call)})
    if case['placement'] == 'root':
      out[which] = (lambda attrs, M=M: M(**attrs), None, [])
    else:

      def top_call(self, *args, M=M):
        attrs = {a: getattr(self, a) for a in attr_names}
        return M(**attrs, name='sub')(*args)

      Top = make_cls('Top', attr_names, {'__call__': nn.compact(top_call)})
      out[which] = (lambda attrs, Top=Top: Top(**attrs), 'sub', [])
  return out


def ctrl_args(case):
  if case['kind'] == 'cond':
    return [jnp.asarray(bool(case['pred']))] + [I(x) for x in case['args']]
  if case['kind'] == 'switch':
    return [I(case['index'])] + [I(x) for x in case['args']]
  return [I(x) for x in case['args']]


def observe_ctrl(factory, sub, case):
  variables = full_variables(case['view'], sub, case.get('siblings', []))
  mdl = factory(case['attrs'])
  mut = lp.lf_python(case['mutable'])
  a = ctrl_args(case)

  def thunk():
    if mut is False:
      return mdl.apply(variables, *a, mutable=False), {}
    return mdl.apply(variables, *a, mutable=mut)

  r = lp.call(thunk)
  if r[0] == 'err':
    e = r[1]
    if e in ('Exception:TypeError', 'Exception:ValueError'):
      e = 'StructMismatch'  # JAX's complaint about differing branch / carry structures (message not compared)
    return {'error': e}
  out, mutated = r[1]
  final = dict(variables)
  for c, coll in mutated.items():
    final[c] = coll
  if sub:
    own = {c: (tree.get(sub, {}) if hasattr(tree, 'get') else {}) for c, tree in final.items()}
    sib = {c: {n: v for n, v in tree.items() if n != sub} for c, tree in final.items()}
  else:
    own, sib = final, {}
  return {'vals': [int(np.asarray(v)) for v in out[0]], 'view': lp.canon_view(own), 'siblings': lp.canon_view(sib)}


def ctrl_reqs(case):
  sc = lp.scope_json(case['view'], case['mutable'], [], case['suffix'])
  at = attrs_json(case['attrs'])
  V, R = case.get('variables', True), case.get('rngs_filter', True)
  if case['kind'] == 'cond':
    a = [V, R, at, bool(case['pred']), case['t'], case['f'], case['args'], sc]
    return [('pycond', a), ('cond', a)]
  if case['kind'] == 'switch':
    a = [V, R, at, case['index'], case['branches'], case['args'], sc]
    return [('pyswitch', a), ('switch', a)]
  a = [case['carry'], case['broadcast'], at, case['cond_fn'], case['body_fn'], 40, case['args'], sc]
  return [('pywhile', a), ('while', a)]


def ctrl_domain(ctx, drv, case):
  """Is the case inside the domain of cond_eq_ite / switch_eq_nth / while_eq_iterate?  Decided on the
  implementation: every branch (the loop body / condition) is run *plain* on the real flax."""
  kind = case['kind']
  fns = {'cond': lambda: [case['t'], case['f']], 'switch': lambda: case['branches'], 'while': lambda: [case['cond_fn'], case['body_fn']]}[kind]()
  if kind == 'while':
    lifted_in = lambda c: lp.in_filter_json(case['carry'], c) or lp.in_filter_json(case['broadcast'], c)
    lifted_out = lambda c: lp.in_filter_json(case['carry'], c)
  else:
    lifted_in = lifted_out = lambda c: lp.in_filter_json(case['variables'], c)
  for fn in fns:
    if not all(lifted_in(c) for c in lp.fn_cols(fn)):
      return False
  if kind == 'while':
    if lp.fn_wcols(case['cond_fn']):
      return False
    for c in lp.fn_wcols(case['body_fn']):
      if lp.in_filter_json(case['mutable'], c) and not lifted_out(c):
        return False
    for c in case['view']:
      if lp.in_filter_json(case['carry'], c) and not lp.in_filter_json(case['mutable'], c):
        return False  # a carried collection that cannot be written back changes the carry structure
  # every branch traces and preserves one structure: run each one plain on the implementation
  attr_names = sorted(case['attrs'])
  shapes = []
  for fn in fns:
    def call(self, *args, fn=fn):
      attrs = {a: getattr(self, a) for a in attr_names}
      vals, _ = lp.run_instrs(self, fn, args, attrs)
      return tuple(vals), ()

    M = make_cls('Probe', attr_names, {'__call__': nn.compact(call)})
    c2 = dict(case, siblings=[])
    variables = full_variables(case['view'], None, [])
    mut = lp.lf_python(case['mutable'])
    a = [I(x) for x in case['args']]
    r = lp.call(lambda: M(**case['attrs']).apply(variables, *a, mutable=mut) if mut is not False else (M(**case['attrs']).apply(variables, *a, mutable=False), {}))
    if r[0] == 'err':
      return False
    out, mutated = r[1]
    final = dict(variables)
    final.update(mutated)
    v = lp.canon_view(final)
    shapes.append((len(out[0]), {c: sorted(v[c]) for c in v if lifted_out(c) and lp.in_filter_json(case['mutable'], c)}))
  if kind == 'while':
    v0 = case['view']
    base = {c: sorted(v0[c]) for c in v0 if lifted_out(c) and lp.in_filter_json(case['mutable'], c)}
    return shapes[1][1] == base and shapes[1][0] == len(case['args'])
  return all(s == shapes[0] for s in shapes)


def check_ctrl_case(ctx, drv, case):
  mods = build_ctrl_modules(case)
  obs = {w: observe_ctrl(mods[w][0], mods[w][1], case) for w in ('plain', 'lifted')}
  outs = drv.run(ctrl_reqs(case))
  mo = {'plain': canon_model(outs[0], {}), 'lifted': canon_model(outs[1], {})}
  dom = ctrl_domain(ctx, drv, case)
  kind = case['kind']
  nontrivial = any(ins[0] in ('put', 'decl') for fn in ([case.get('t'), case.get('f'), case.get('body_fn')] + case.get('branches', [])) if fn for ins in fn['body'])
  ctx.case(case, nontrivial=nontrivial)
  ctx.count('transform', kind)
  ctx.count('style', 'direct/' + case['placement'])
  ctx.count('ctrl_in_domain', dom)
  ctx.count('plain_outcome', obs['plain'].get('error', 'ok'))
  ctx.count('lifted_outcome', obs['lifted'].get('error', 'ok'))
  if kind == 'switch':
    ctx.count('switch_index', 'neg' if case['index'] < 0 else ('over' if case['index'] >= len(case['branches']) else 'in'))
  pl, li = obs['plain'], obs['lifted']
  if kind == 'while' and lp.fn_wcols(case['cond_fn']) and 'error' not in li:
    ctx.violation('while-cond-write-accepted', f'nn.while_loop: the condition function writes to {lp.fn_wcols(case["cond_fn"])} but its scope is immutable by construction (mutable_filter=False); the lifted loop did not raise and returned {li} on {json.dumps(case)[:700]}', case)
    return
  if dom:
    if pl.get('error') != li.get('error'):
      ctx.violation(f'{kind}-outcome-differs', f'nn.{kind}: {li.get("error", "ok")} vs Python control flow {pl.get("error", "ok")} on {json.dumps(case)[:700]}', case)
      return
    if 'error' not in pl:
      for k in ('vals', 'view', 'siblings'):
        if pl[k] != li[k]:
          ctx.violation(f'{kind}-{k}-differ', f'nn.{kind}: {k} {li[k]} vs Python control flow {pl[k]} on {json.dumps(case)[:700]}', case)
          return
  elif 'error' not in li:
    for c in case['view']:
      mut = lp.in_filter_json(case['mutable'], c)
      lo = lp.in_filter_json(case['carry'], c) if kind == 'while' else lp.in_filter_json(case['variables'], c)
      if not (mut and lo) and li['view'].get(c) != case['view'].get(c):
        ctx.violation(f'{kind}-nonlifted-collection-changed', f'nn.{kind}: collection {c!r} is not lifted-and-mutable but changed to {li["view"].get(c)} on {json.dumps(case)[:700]}', case)
        return
  for which in ('plain', 'lifted'):
    o, m = obs[which], mo[which]
    if 'error' in o or 'error' in m:
      if o.get('error') != m.get('error'):
        if which == 'plain' and o.get('error') == 'Exception:RuntimeError' and m.get('error') == 'Diverged':
          continue
        ctx.disagreements_checked += 1
        ctx.violation(f'{kind}-model-mismatch-{which}', f'{which} {kind}: implementation {o.get("error", "ok")} vs model {m.get("error", "ok")} on {json.dumps(case)[:700]}', case, concrete=False)
        return
      continue
    for k in ('vals', 'view'):
      if o[k] != m[k]:
        ctx.disagreements_checked += 1
        ctx.violation(f'{kind}-model-mismatch-{which}-{k}', f'{which} {kind}: implementation {k}={o[k]} vs model {m[k]} on {json.dumps(case)[:700]}', case, concrete=False)
        return


# ------------------------------------------------------------------------------------------------
# generators
# ------------------------------------------------------------------------------------------------


def gen_common(rng):
  attrs = {'k': rng.randrange(1, 4)}
  if rng.random() < 0.3:
    attrs['j'] = rng.randrange(-1, 3)
  view = lp.gen_view(rng)
  nargs = rng.randrange(1, 3)
  args = [rng.randrange(-3, 5) for _ in range(nargs)]
  streams = [s for s in lp.STREAMS if rng.random() < (0.85 if s == 'params' else 0.6)]
  mutable = lp.gen_filter(rng, p_true=0.25)
  return attrs, view, args, streams, mutable


def covering_mutable(rng, wcols):
  """A `mutable` filter under which every write of the body is allowed (the mostly-valid stream)."""
  r = rng.random()
  if r < 0.3:
    return True
  if r < 0.75:
    xs = list(wcols) + [c for c in lp.COLS if c not in wcols and rng.random() < 0.3]
    rng.shuffle(xs)
    return xs[0] if len(xs) == 1 and rng.random() < 0.5 else xs
  other = [c for c in lp.COLS if c not in wcols]
  return {'deny': other[:rng.randrange(0, len(other) + 1)]}


def lifting_filter(rng, fn, extra_universe, p_cover):
  """A variables filter; with probability p_cover one that covers everything the body touches."""
  used = lp.fn_cols(fn)
  if rng.random() < p_cover:
    r = rng.random()
    if r < 0.4:
      return True
    if r < 0.8:
      rest = [c for c in extra_universe if c not in used and rng.random() < 0.4]
      xs = used + rest
      rng.shuffle(xs)
      return xs if len(xs) != 1 or rng.random() < 0.5 else xs[0]
    other = [c for c in extra_universe if c not in used]
    return {'deny': rng.choice([other, other[:1][0] if other else []])} if other else True
  return lp.gen_filter(rng, p_true=0.1)


def gen_id_case(rng, transform):
  attrs, view, args, streams, mutable = gen_common(rng)
  style = rng.choice(['class', 'class', 'decorator'])
  placement = 'root' if style == 'decorator' else rng.choice(['root', 'child', 'child', 'autochild'])
  fn = lp.gen_fn(rng, view, len(args), attrs, streams=(streams if streams and rng.random() < 0.8 else lp.STREAMS))
  if rng.random() < 0.7:
    mutable = covering_mutable(rng, lp.fn_wcols(fn))
  case = {
    'kind': 'id', 'transform': transform, 'style': style, 'placement': placement, 'attrs': attrs, 'fn': fn, 'args': args,
    'view': view, 'mutable': mutable, 'streams': streams,
    'variables': lifting_filter(rng, fn, lp.COLS, 0.7),
    'rngs_filter': True if rng.random() < 0.6 else lp.gen_filter(rng, universe=lp.STREAMS, p_true=0.2),
    'suffix': ['sub'] if placement == 'child' else [],
  }
  if placement == 'child' and rng.random() < 0.5 and view:
    c = rng.choice(sorted(view))
    case['siblings'] = [[c, 'top_v', rng.randrange(1, 9)]]
  if style == 'decorator':
    case['post_streams'] = [s for s in streams if rng.random() < 0.7]
  if transform == 'mapvars':
    case['mapped'] = rng.choice([rng.choice(lp.COLS), [c for c in lp.COLS if rng.random() < 0.4], True])
    case['mv_init'] = rng.random() < 0.25
    case['mv_mutable'] = rng.random() < 0.5
  if rng.random() < 0.18:
    case['init'] = True
    case['view'] = {}
    case.pop('siblings', None)
  return case


def gen_history_case(rng):
  case = gen_id_case(rng, 'jit')
  case.pop('init', None)
  if case['placement'] == 'autochild':
    case['placement'] = 'child'
    case['suffix'] = ['sub']
  if not case['view']:
    case['view'] = {'stats': {'n': 1}}
  # bodies that use the attribute and the mutable state, so that a stale trace shows
  fn = case['fn']
  col = rng.choice(sorted(case['view']))
  name = rng.choice(sorted(case['view'][col]))
  fn['body'] = [['get', col, name]] + fn['body']
  fn['body'] = [ins if ins[0] not in ('put', 'decl') else ins[:3] + [shift_regs(ins[3])] for ins in fn['body']]
  fn['ret'] = [shift_regs(e) for e in fn['ret']] + [{'add': [{'mul': [{'attr': 'k'}, {'reg': 0}]}, {'arg': 0}]}]
  fn['body'].append(['put', col, name, {'add': [{'reg': 0}, {'attr': 'k'}]}])
  if rng.random() < 0.8:
    case['variables'] = lifting_filter(rng, fn, lp.COLS, 1.0)
  case['attr_kind'] = rng.choice(ATTR_KINDS)
  if rng.random() < 0.25:
    case['attrs']['k'] = -1
  base = {'attrs': dict(case['attrs']), 'view': copy.deepcopy(case['view']), 'mutable': case['mutable'], 'args': list(case['args']), 'change': 'first'}
  calls = [base]
  for _ in range(rng.randrange(1, 4)):
    prev = copy.deepcopy(calls[-1])
    ch = rng.choice(['attr', 'mutable', 'structure', 'values', 'args', 'same', 'attr', 'mutable'])
    prev['change'] = ch
    if ch == 'attr':
      k0 = prev['attrs']['k']
      # value-only changes, including the CPython hash collision hash(-1) == hash(-2)
      if k0 in (-1, -2) and rng.random() < 0.7:
        prev['attrs']['k'] = -3 - k0
      else:
        prev['attrs']['k'] = rng.choice([v for v in (k0 + 1, k0 + 2, -1, -2) if v != k0])
    elif ch == 'mutable':
      prev['mutable'] = rng.choice([m for m in (True, False, [col], {'deny': col}, col) if m != prev['mutable']])
    elif ch == 'structure':
      c = rng.choice(lp.COLS)
      prev['view'].setdefault(c, {})['x%d' % rng.randrange(3)] = rng.randrange(1, 5)
    elif ch == 'values':
      prev['view'][col][name] = prev['view'][col][name] + rng.randrange(1, 4)
    elif ch == 'args':
      prev['args'] = [a + rng.randrange(1, 3) for a in prev['args']]
    calls.append(prev)
  case['calls'] = calls
  case['kind'] = 'history'
  return case


def shift_regs(e):
  if 'reg' in e:
    return {'reg': e['reg'] + 1}
  if 'add' in e:
    return {'add': [shift_regs(e['add'][0]), shift_regs(e['add'][1])]}
  if 'mul' in e:
    return {'mul': [shift_regs(e['mul'][0]), shift_regs(e['mul'][1])]}
  return e


def gen_ctrl_case(rng, kind):
  attrs, view, args, streams, mutable = gen_common(rng)
  if not view:
    view = {'stats': {'n': 2, 'a': 1}}
  valid = rng.random() < 0.75
  placement = rng.choice(['root', 'child'])
  case = {'kind': kind, 'attrs': attrs, 'view': view, 'args': args, 'mutable': mutable, 'placement': placement,
          'suffix': ['sub'] if placement == 'child' else []}
  if placement == 'child' and rng.random() < 0.5:
    case['siblings'] = [[rng.choice(sorted(view)), 'top_v', rng.randrange(1, 9)]]
  nret = rng.randrange(1, 3)
  mk = lambda **kw: lp.gen_fn(rng, view, len(args), attrs, allow_rng=False, existing_only=valid, nret=nret, **kw)
  if kind in ('cond', 'switch'):
    if valid and rng.random() < 0.7:
      # branches may only write collections that are mutable outside: an immutable write raises while tracing
      wc = [c for c in view if lp.in_filter_json(mutable, c)]
      mk2 = lambda: lp.gen_fn(rng, view, len(args), attrs, allow_rng=False, existing_only=True, nret=nret, write_cols=wc)
    else:
      mk2 = mk
    if kind == 'cond':
      case['t'], case['f'] = mk2(), mk2()
      case['pred'] = rng.random() < 0.5
      fns = [case['t'], case['f']]
    else:
      case['branches'] = [mk2() for _ in range(rng.randrange(1, 4))]
      case['index'] = rng.choice([-2, -1, 0, 0, 1, 1, 2, 3, 5])
      fns = case['branches']
    used = sorted({c for f in fns for c in lp.fn_cols(f)})
    fake = {'body': [['get', c, 'a'] for c in used], 'ret': []}
    case['variables'] = lifting_filter(rng, fake, lp.COLS, 0.8 if valid else 0.4)
    case['rngs_filter'] = True
  else:
    # a counting loop: carried collection `cc` holds the counter `n`
    cc = rng.choice(sorted(view))
    view[cc]['n'] = rng.randrange(0, 3)
    limit = view[cc]['n'] + rng.randrange(0, 4)
    if valid:
      case['mutable'] = rng.choice([True, [cc], [cc] + [c for c in view if rng.random() < 0.5], {'deny': 'zzz'}])
      case['carry'] = rng.choice([cc, [cc], [cc, 'zzz']])
      case['broadcast'] = rng.choice([True, True, {'deny': cc}, [c for c in lp.COLS if c != cc]])
      body = lp.gen_fn(rng, view, len(args), attrs, allow_rng=False, existing_only=True, nret=len(args), write_cols=[cc], n_instr=rng.randrange(0, 4))
    else:
      case['carry'] = rng.choice([cc, lp.gen_filter(rng), False])
      case['broadcast'] = rng.choice([True, lp.gen_filter(rng)])
      # no `decl` in a loop body: Module.variable reserves the name, a second Python iteration raises NameInUseError
      body = lp.gen_fn(rng, view, len(args), attrs, allow_rng=False, allow_decl=False, existing_only=rng.random() < 0.6, nret=len(args), n_instr=rng.randrange(0, 4))
    # the random part must not touch the loop counter; the last carried value counts iterations and caps the loop
    # (a lifted loop that never terminates would hang inside XLA)
    body['body'] = [ins for ins in body['body'] if not (ins[0] in ('put', 'decl') and ins[1] == cc and ins[2] == 'n')]
    # written values must stay inside int32 over the iterations: no products in what a loop body writes
    def _lin(e):
      if 'mul' in e:
        return {'add': [_lin(e['mul'][0]), _lin(e['mul'][1])]}
      if 'add' in e:
        return {'add': [_lin(e['add'][0]), _lin(e['add'][1])]}
      return e

    body['body'] = [(ins[:3] + [_lin(ins[3])] if ins[0] in ('put', 'decl') else ins) for ins in body['body']]
    nregs = sum(1 for ins in body['body'] if ins[0] in ('get', 'has', 'decl'))
    body['body'] += [['get', cc, 'n'], ['put', cc, 'n', {'add': [{'reg': nregs}, {'lit': 1}]}]]
    # keep the carry bounded: each carried value is old value + small term
    body['ret'] = [{'add': [{'arg': i}, {'lit': rng.randrange(0, 3)}]} if rng.random() < 0.5 else {'add': [{'arg': i}, {'reg': nregs}]} for i in range(len(args))]
    body['ret'].append({'add': [{'arg': len(args)}, {'lit': 1}]})
    case['args'] = args + [0]
    case['body_fn'] = body
    remaining = {'add': [{'lit': limit}, {'mul': [{'lit': -1}, {'reg': 0}]}]}
    budget = {'add': [{'lit': 8}, {'mul': [{'lit': -1}, {'arg': len(args)}]}]}
    case['cond_fn'] = {'body': [['get', cc, 'n']], 'ret': [{'mul': [remaining, budget]}]}
    if rng.random() < (0.3 if not valid else 0.12):
      # the loop condition runs on a scope with mutable_filter=False: a write there must raise
      case['cond_fn']['body'].append(['put', cc, 'a', {'lit': 1}])
  return case


# ------------------------------------------------------------------------------------------------
# auto-named sub-modules created inside lifted control flow (module state export / reimport)
# ------------------------------------------------------------------------------------------------


def check_autoname_case(ctx, case):
  """Branches create an auto-named child; a further auto-named child follows the lifted call.  The names (and so
  the parameters used, and the tree produced by init) must be those of the Python control flow."""
  kind, adds = case['transform'], case['adds']

  class Leaf(nn.Module):
    @nn.compact
    def __call__(self, x):
      w = self.param('w', lambda key: I(case['w_init']))
      return x * w + 1

  lp.KEEP_ALIVE.append(Leaf)

  def build(lifted):
    def call(self, sel, x):
      pre = Leaf()(x)
      br = [(lambda m, v, a=a: Leaf()(v) + a) for a in adds]
      if lifted and kind == 'cond':
        y = nn.cond(sel, br[0], br[1], self, pre)
      elif kind == 'while':
        n_it = int(case['sel'])
        if lifted:
          def body_fn(m, c):
            return c[0] + 1, Leaf()(c[1]) % 1000  # one auto-named sub-module, traced once

          c = (I(0), pre)
          # variables cannot be created inside the loop: run the body once when initialising
          c = body_fn(self, c) if self.is_initializing() else nn.while_loop(lambda m, c: c[0] < n_it, body_fn, self, c)
          y = c[1]
        else:
          body = Leaf()  # the same sub-module, shared by all iterations
          y = pre
          for _ in range(1 if self.is_initializing() else n_it):
            y = body(y) % 1000
      elif lifted:
        y = nn.switch(sel, br, self, pre)
      elif kind == 'cond':
        y = br[0](self, pre) if bool(sel) else br[1](self, pre)
      else:
        y = br[min(max(int(sel), 0), len(br) - 1)](self, pre)
      return Leaf()(y)

    return make_cls('Auto', [], {'__call__': nn.compact(call)})

  sel = jnp.asarray(bool(case['sel'])) if kind == 'cond' else I(case['sel'])
  params = {'params': {f'Leaf_{i}': {'w': I(w)} for i, w in enumerate(case['ws'])}}
  obs = {}
  for which in ('plain', 'lifted'):
    M = build(which == 'lifted')
    if case['init']:
      r = lp.call(lambda: M().init_with_output(jax.random.key(0), sel, I(case['x'])))
      obs[which] = {'error': r[1]} if r[0] == 'err' else {'val': int(np.asarray(r[1][0])), 'tree': {k: lp.canon_view({'w': v})['w'] for k, v in r[1][1]['params'].items()}}
    else:
      r = lp.call(lambda: M().apply(params, sel, I(case['x'])))
      obs[which] = {'error': r[1]} if r[0] == 'err' else {'val': int(np.asarray(r[1]))}
  ctx.case(case)
  ctx.count('transform', 'autoname-' + kind + ('/init' if case['init'] else ''))
  if obs['plain'] != obs['lifted']:
    ctx.violation(f'{kind}-autoname-shift', f'nn.{kind} with auto-named sub-modules: {obs["lifted"]} vs Python control flow {obs["plain"]} on {case}', case)


def gen_autoname_case(rng):
  kind = rng.choice(['cond', 'switch', 'while', 'while'])
  if kind == 'while':
    return {'kind': 'autoname', 'transform': 'while', 'adds': [0], 'sel': rng.randrange(0, 4), 'ws': [rng.randrange(2, 6) for _ in range(3)],
            'w_init': rng.randrange(2, 5), 'x': rng.randrange(1, 4), 'init': rng.random() < 0.3}
  n = 2 if kind == 'cond' else rng.randrange(1, 4)
  return {
    'kind': 'autoname', 'transform': kind, 'adds': [rng.randrange(0, 3) for _ in range(n)],
    'sel': (rng.random() < 0.5) if kind == 'cond' else rng.choice([-1, 0, 1, 2, 4]),
    'ws': [rng.randrange(2, 6) for _ in range(3)], 'w_init': rng.randrange(2, 5), 'x': rng.randrange(1, 4), 'init': rng.random() < 0.35,
  }


# ------------------------------------------------------------------------------------------------
# setup()-defined children shared between a transformed method and the untransformed rest of the module
# ------------------------------------------------------------------------------------------------


def check_setupchild_case(ctx, drv, case):
  """A child bound OUTSIDE the transformed code (defined in setup) draws keys before, inside and after a jitted /
  rematted method of its parent; the module also draws from its own scope after the call.  The same apply is repeated
  (second and third run = jit cache hits).  Model voice: `setupchild_model` (child draws = `Prog.rngAt`).  Oracle: every repeat equals the first run; every draw made outside the
  transformed method equals the untransformed rendering's; under remat all draws do."""
  t = case['transform']
  streams = case['streams']

  class Draw(nn.Module):
    stream: str

    def __call__(self):
      return jax.random.key_data(self.make_rng(self.stream))

  lp.KEEP_ALIVE.append(Draw)

  def build(lifted):
    deco = {'jit': nn.jit, 'remat': nn.remat}[t] if lifted else (lambda f: f)

    def setup(self):
      self.d = Draw(streams[0])
      if case['two_children']:
        self.e = Draw(streams[-1])

    def middle(self, x):
      out = [self.d() for _ in range(case['inside'])]
      if case['two_children']:
        out.append(self.e())
      if case['own_inside']:
        out.append(jax.random.key_data(self.make_rng(streams[0])))
      return tuple(out), x + 1

    def call(self, x):
      a = tuple(self.d() for _ in range(case['pre']))
      b = tuple(self.middle(x)[0] for _ in range(case['calls_inside']))
      c = tuple(self.d() for _ in range(case['post']))
      if case['two_children']:
        c = c + (self.e(),)
      own = jax.random.key_data(self.make_rng(streams[0]))
      return a, b, c, own

    M = type('SetupM', (nn.Module,), {'setup': setup, 'middle': deco(middle), '__call__': call})
    lp.KEEP_ALIVE.append(M)
    return M

  rngs = {s: jax.random.key(SEEDS[s]) for s in set(streams)}
  canon = lambda out: [[np.asarray(k).tolist() for k in jax.tree.leaves(part)] for part in out]
  runs = {}
  for which in ('plain', 'lifted'):
    M = build(which == 'lifted')
    runs[which] = [lp.call(lambda: canon(M().apply({}, I(1), rngs=rngs))) for _ in range(case['repeats'])]
  ctx.case(case)
  ctx.count('transform', f'setupchild-{t}')
  pl, li = runs['plain'], runs['lifted']
  where = json.dumps(case)
  if any(r[0] != 'ok' for r in pl + li):
    if [r[0] for r in pl] != [r[0] for r in li] or any(a != b for a, b in zip(pl, li) if a[0] == 'err'):
      ctx.violation(f'setupchild-{t}-outcome', f'nn.{t} with a setup-defined child: {[r if r[0] == "err" else "ok" for r in li]} vs plain {[r if r[0] == "err" else "ok" for r in pl]} on {where}', case)
    return
  for i in range(1, len(li)):
    if li[i][1] != li[0][1]:
      parts = [n for n, u, v in zip(('before', 'inside', 'after', 'own-after'), li[0][1], li[i][1]) if u != v]
      ctx.violation(f'setupchild-{t}-repeat-differs', f'nn.{t}: apply number {i + 1} (cache hit) drew different keys than the first apply in parts {parts} on {where}', case)
      return
  names = ('before', 'inside', 'after', 'own-after')
  # under jit the module's own stream is forked at every jitted call (its counter advances by design): own draws are
  # compared by repetition only
  cmp_idx = (0, 1, 2, 3) if t == 'remat' else (0, 2)
  for i in cmp_idx:
    if li[0][1][i] != pl[0][1][i]:
      ctx.violation(f'setupchild-{t}-keys-differ', f'nn.{t}: keys drawn {names[i]} the transformed method {li[0][1][i]} differ from the untransformed module {pl[0][1][i]} on {where}', case)
      return
  flat = [tuple(k) for part in li[0][1] for k in part]
  if len(set(flat)) != len(flat):
    ctx.violation(f'setupchild-{t}-key-reused', f'nn.{t}: a key was drawn twice within one apply: {li[0][1]} on {where}', case)
    return
  mo = setupchild_model(drv, case)
  if mo[0] != 'ok' or mo[1] != [r[1] for r in li]:
    ctx.disagreements_checked += 1
    ctx.violation(f'setupchild-{t}-model-mismatch', f'nn.{t} with a setup-defined child: implementation keys {[r[1] for r in li]} vs model {mo[1]} on {where}', case, concrete=False)


def setupchild_model(drv, case):
  """The Lean model's voice for one apply sequence of the setup-child family: the transformed method's body as child
  draws (`rngat`), call by call through the model's nn.jit (trace cache + counter replay shared by all applies) or
  remat; the draws made outside the transformed method follow from the counters.  Returns the expected outputs per
  apply, or ('mismatch', why)."""
  t = case['transform']
  streams = sorted(set(case['streams']))
  s0, s1 = case['streams'][0], case['streams'][-1]
  body = [['rngat', ['d'], s0]] * case['inside']
  if case['two_children']:
    body = body + [['rngat', ['e'], s1]]
  if case['own_inside']:
    body = body + [['rng', s0]]
  fn = {'body': body, 'ret': [{'add': [{'arg': 0}, {'lit': 1}]}]}
  seeds = {s: jax.random.key(SEEDS[s]) for s in streams}

  def scope(ctr):
    return {'vars': [], 'mutable': False, 'rngs': [[s, [s, []]] for s in streams], 'counters': [[k, v] for k, v in ctr.items()]}

  def draw(ctr, path, s):
    k = '/'.join(path + [s])
    ctr[k] = ctr.get(k, 0) + 1
    return lp.keydata_from(lp.fold_in_static_ref(seeds[s], path + [ctr[k]]))

  calls, plans = [], []
  for _ in range(case['repeats']):
    ctr = {s: 0 for s in streams}
    a = [draw(ctr, ['d'], s0) for _ in range(case['pre'])]
    call_ix = []
    for _ in range(case['calls_inside']):
      call_ix.append(len(calls))
      calls.append(dict(ctr))
      if t == 'jit':
        for s in streams:
          ctr[s] += 1
      ctr['d/' + s0] = ctr.get('d/' + s0, 0) + case['inside']
      if case['two_children']:
        ctr['e/' + s1] = ctr.get('e/' + s1, 0) + 1
      if case['own_inside']:
        ctr[s0] += 1
    after = dict(ctr)
    c = [draw(ctr, ['d'], s0) for _ in range(case['post'])]
    if case['two_children']:
      c.append(draw(ctr, ['e'], s1))
    own = [draw(ctr, [], s0)]
    plans.append((a, call_ix, c, own, after))
  if t == 'jit':
    outs = drv.run([('jit_history', [True, True, True, fn, 'SetupM', [False, False, True, False, []], [[[], [1], scope(c)] for c in calls]])])
    if outs[0][0] != 'ok':
      return ('mismatch', f'driver: {outs[0]}')
    res = [r['res'] for r in outs[0][1]]
  else:
    outs = drv.run([('lift', [[True], [True], [True], True, [], fn, [1], scope(c)]) for c in calls])
    if any(o[0] != 'ok' for o in outs):
      return ('mismatch', f'driver: {outs}')
    res = [o[1] for o in outs]
  expected = []
  for a, call_ix, c, own, after in plans:
    b = []
    for j in call_ix:
      if 'error' in res[j]:
        return ('mismatch', f'model error {res[j]}')
      b += [lp.keydata_from(lp.eval_symkey(k, seeds)) for k in res[j]['keys']]
    last = {k: v for k, v in res[call_ix[-1]]['counters']}
    if last != after:
      return ('mismatch', f'model counters after the transformed calls {last} vs arithmetic {after}')
    expected.append([a, b, c, own])
  return ('ok', expected)


def gen_setupchild_case(rng):
  two = rng.random() < 0.4
  return {
    'kind': 'setupchild', 'transform': rng.choice(['jit', 'jit', 'jit', 'remat']),
    'streams': ['dropout', 'noise'] if two and rng.random() < 0.6 else ['dropout'],
    'two_children': two, 'pre': rng.randrange(0, 3), 'inside': rng.randrange(1, 4), 'post': rng.randrange(1, 3),
    'calls_inside': rng.randrange(1, 3), 'own_inside': rng.random() < 0.4, 'repeats': 3,
  }


# ------------------------------------------------------------------------------------------------
# setup-style descendants (depth 1-3) with mutable state used BEFORE, INSIDE and AFTER a lifted call in one apply
# ------------------------------------------------------------------------------------------------


def check_deepchild_case(ctx, case):
  """Top -> mid -> … -> counter (setup-defined, `depth` levels below the lifted scope).  The counter holds mutable
  state; it is used before the lifted call (so its Scope is bound and holds a reference into the variable dict), updated
  inside nn.cond / nn.switch / a jitted, rematted or identity-map_variables method, and used again afterwards within
  the same apply.  Oracle: outputs and the returned mutable collection equal the Python control flow / the plain method
  (also on a repeated apply, which hits the jit cache)."""
  t, depth, step = case['transform'], case['depth'], case['step']

  class Counter(nn.Module):
    @nn.compact
    def __call__(self, x):
      c = self.variable('state', 'count', lambda: I(case['init0']))
      c.value = c.value + step
      return x * c.value

  def mk_mid(inner_cls):
    def setup(self):
      self.inner = inner_cls()

    def call(self, x):
      return self.inner(x)

    M = type('Mid', (nn.Module,), {'setup': setup, '__call__': call})
    lp.KEEP_ALIVE.append(M)
    return M

  chain = Counter
  for _ in range(depth - 1):
    chain = mk_mid(chain)
  lp.KEEP_ALIVE.append(Counter)

  def build(lifted):
    deco = (lambda f: f)
    if lifted and t == 'jit':
      deco = nn.jit
    elif lifted and t == 'remat':
      deco = nn.remat
    elif lifted and t == 'mapvars':
      deco = lambda f: nn.map_variables(f, 'state', mutable=True)

    def setup(self):
      self.mid = chain()

    def middle(self, x):
      return self.mid(x)

    def call(self, x, sel):
      a = tuple(self.mid(x) for _ in range(case['pre']))
      br = [(lambda m, v, k=k: m.mid(v) + k) for k in range(case['nbranch'])]
      if t in ('jit', 'remat', 'mapvars'):
        b = self.middle(x)
      elif lifted and t == 'cond':
        b = nn.cond(sel, br[0], br[1], self, x)
      elif lifted:
        b = nn.switch(sel, br, self, x)
      elif t == 'cond':
        b = br[0](self, x) if bool(sel) else br[1](self, x)
      else:
        b = br[min(max(int(sel), 0), len(br) - 1)](self, x)
      c = tuple(self.mid(x) for _ in range(case['post']))
      return a, b, c

    T = type('DeepTop', (nn.Module,), {'setup': setup, 'middle': deco(middle), '__call__': call})
    lp.KEEP_ALIVE.append(T)
    return T

  sel = jnp.asarray(bool(case['sel'])) if t == 'cond' else I(case['sel'])
  leaf = {'count': I(case['count'])}
  tree = leaf
  for _ in range(depth - 1):
    tree = {'inner': tree}
  variables = {'state': {'mid': tree}}
  canon = lambda out: jax.tree.map(lambda v: np.asarray(v).tolist(), out)
  runs = {}
  for which in ('plain', 'lifted'):
    T = build(which == 'lifted')
    rs = []
    for _ in range(case['repeats']):
      if case['init']:
        rs.append(lp.call(lambda: canon(T().init_with_output(jax.random.key(0), I(case['x']), sel))))
      else:
        rs.append(lp.call(lambda: canon(T().apply(variables, I(case['x']), sel, mutable=['state']))))
    runs[which] = rs
  ctx.case(case)
  ctx.count('transform', f'deepchild-{t}/depth{depth}' + ('/init' if case['init'] else ''))
  for i, (p, l) in enumerate(zip(runs['plain'], runs['lifted'])):
    if p != l:
      ctx.violation(f'deepchild-{t}-differs', f'nn.{t} over a scope whose depth-{depth} descendant holds mutable state used before, inside and after the call (apply {i + 1}): transformed (outputs, updated collection) {l} vs plain {p} on {json.dumps(case)}', case)
      return


def gen_deepchild_case(rng):
  t = rng.choice(['cond', 'switch', 'cond', 'switch', 'jit', 'remat', 'mapvars'])
  return {'kind': 'deepchild', 'transform': t, 'depth': rng.choice([1, 2, 2, 3]), 'step': rng.randrange(1, 3), 'init0': rng.randrange(0, 2),
          'count': rng.randrange(0, 4), 'x': rng.randrange(1, 4), 'pre': rng.randrange(0, 3), 'post': rng.randrange(1, 3),
          'nbranch': 2 if t == 'cond' else rng.randrange(1, 4), 'sel': (rng.random() < 0.5) if t == 'cond' else rng.choice([-1, 0, 1, 2, 4]),
          'repeats': 2, 'init': rng.random() < 0.2}


# ------------------------------------------------------------------------------------------------
# class form with several transformed methods: nn.jit / nn.remat (M, methods=[...] | {...})
# ------------------------------------------------------------------------------------------------


def check_multimethod_case(ctx, case):
  """`nn.jit(M, methods=…)` / `nn.remat(M, methods=…)` naming 2-3 methods whose bodies differ (own sub-module with its
  own parameter, own state variable, own constants).  The methods are called in a permuted order, 1-2 times each, either
  through separate apply/init calls (`method=`) or inside one apply of a parent; the transformed function is identified
  by (class, method) — one trace cache per method.  Oracle: the untransformed class (init tree, outputs, updated
  collections)."""
  t, names = case['transform'], case['methods']
  consts = case['consts']

  class Leaf(nn.Module):
    idx: int

    @nn.compact
    def __call__(self, x):
      i = self.idx
      w = self.param('w', lambda key: I(consts[i] + 2))
      n = self.variable('stats', 'n', lambda: I(i))
      if self.is_mutable_collection('stats'):
        n.value = n.value + consts[i]
      return x * w + n.value * (i + 1)

  lp.KEEP_ALIVE.append(Leaf)

  def setup(self):
    for i in range(len(names)):
      setattr(self, f'l{i}', Leaf(i))

  def mk_method(i):
    def m(self, x):
      return getattr(self, f'l{i}')(x) + i

    m.__name__ = names[i]
    return m

  ns = {'setup': setup}
  for i, nm in enumerate(names):
    ns[nm] = mk_method(i)
  MM = type('MM', (nn.Module,), ns)
  lp.KEEP_ALIVE.append(MM)
  if t == 'plain':
    raise ValueError
  meth = list(names) if case['form'] == 'list' else {nm: {} for nm in names}
  tr = {'jit': nn.jit, 'remat': nn.remat, 'checkpoint': nn.checkpoint}[t]
  canon = lambda out: jax.tree.map(lambda v: np.asarray(v).tolist(), out)
  x = I(case['x'])
  obs = {}
  for which in ('plain', 'lifted'):
    C = MM if which == 'plain' else tr(MM, methods=meth)
    lp.KEEP_ALIVE.append(C)
    rec = []
    if case['mode'] == 'one-apply':
      order = case['order']

      def top(self, x, C=C):
        m = C(name='sub')
        return tuple(getattr(m, nm)(x) for nm in order)

      Top = type('MMTop', (nn.Module,), {'__call__': nn.compact(top)})
      lp.KEEP_ALIVE.append(Top)
      r = lp.call(lambda: canon(Top().init_with_output(jax.random.key(0), x)))
      rec.append(r)
      if r[0] == 'ok':
        vs = Top().init(jax.random.key(0), x) if which == 'plain' else None
      for _ in range(case['repeats']):
        rec.append(lp.call(lambda: canon(Top().apply(case_vars(case, names, 'sub'), x, mutable=['stats']))))
    else:
      for nm in case['order']:
        rec.append(lp.call(lambda: canon(C().init_with_output(jax.random.key(0), x, method=nm))))
      for nm in case['order']:
        rec.append(lp.call(lambda: canon(C().apply(case_vars(case, names, None), x, method=nm, mutable=['stats']))))
    obs[which] = rec
  if not any(r[0] == 'ok' for r in obs['plain']):
    from harness.common import InfraError

    raise InfraError(f'multimethod generator degenerated: the untransformed class fails on every step: {obs["plain"][:2]}')
  ctx.case(case)
  ctx.count('transform', f'multimethod-{t}/{case["form"]}/{case["mode"]}')
  for i, (p, l) in enumerate(zip(obs['plain'], obs['lifted'])):
    if p != l:
      ctx.violation(f'multimethod-{t}-differs', f'nn.{t}(M, methods={meth}) step {i} of order {case["order"]} ({case["mode"]}): transformed {l} vs untransformed class {p} on {json.dumps(case)}', case)
      return


def case_vars(case, names, sub):
  params = {f'l{i}': {'w': I(case['ws'][i])} for i in range(len(names))}
  stats = {f'l{i}': {'n': I(case['ns'][i])} for i in range(len(names))}
  if sub:
    return {'params': {sub: params}, 'stats': {sub: stats}}
  return {'params': params, 'stats': stats}


def gen_multimethod_case(rng):
  k = rng.randrange(2, 4)
  names = ['encode', 'decode', 'extra'][:k]
  order = []
  for nm in rng.sample(names, k):
    order += [nm] * rng.randrange(1, 3)
  if rng.random() < 0.5:
    rng.shuffle(order)
  return {'kind': 'multimethod', 'transform': rng.choice(['jit', 'jit', 'remat', 'checkpoint']), 'form': rng.choice(['list', 'dict']),
          'mode': rng.choice(['one-apply', 'separate']), 'methods': names, 'order': order, 'consts': [rng.randrange(1, 4) for _ in names],
          'ws': [rng.randrange(2, 6) for _ in names], 'ns': [rng.randrange(0, 3) for _ in names], 'x': rng.randrange(1, 4), 'repeats': 2}


# ------------------------------------------------------------------------------------------------
# bound sub-Modules passed as dataclass attributes (get_module_scopes / set_module_scopes ordering)
# ------------------------------------------------------------------------------------------------

ATTR_NAME_POOLS = [('scale', 'bias'), ('proj', 'head'), ('z', 'a'), ('m2', 'm0', 'm1'), ('w', 'k', 'b'), ('a_first', 'b_second')]


def check_attrmods_case(ctx, case):
  """An outer module receives 2-3 sub-Modules as dataclass attributes whose field names are declared in a permuted
  (mostly non-alphabetical) order; the sub-modules have different parameter names / shapes / values and are composed
  non-commutatively.  The outer module goes through nn.jit / nn.remat / identity nn.map_variables (class form) or its
  __call__ uses nn.cond / nn.switch / nn.while_loop on itself.  Two constructions: `ctor` (sub-modules created in the
  constructor call) and `shared` (created in the parent's setup, also used directly before and after).  Oracle: the
  untransformed outer module (init tree with its paths, outputs, updated state)."""
  t, names, kinds = case['transform'], case['names'], case['kinds']

  class Mul(nn.Module):  # scalar parameter `w`
    @nn.compact
    def __call__(self, x):
      return x * self.param('w', lambda key: I(2))

  class Add(nn.Module):  # vector parameter `v` (shape (2,)) and a call counter
    @nn.compact
    def __call__(self, x):
      v = self.param('v', lambda key: jnp.asarray([1, 3], jnp.int32))
      n = self.variable('stats', 'n', lambda: I(0))
      if self.is_mutable_collection('stats'):
        n.value = n.value + 1
      return x + v[0] + 2 * v[1] + n.value

  class MulW(nn.Module):  # same parameter name and shape as Mul, different initial value
    @nn.compact
    def __call__(self, x):
      return x * self.param('w', lambda key: I(3)) + 1

  SUBS = {'mul': Mul, 'add': Add, 'mulw': MulW}
  for c in SUBS.values():
    lp.KEEP_ALIVE.append(c)

  def compose(mdl, x, order):
    for nm in order:
      x = getattr(mdl, nm)(x)
    return x

  def build_outer(lifted, t=t):
    def call(self, x, sel):
      fwd, rev = list(names), list(reversed(names))
      if t in ('jit', 'remat', 'mapvars'):
        return compose(self, x, fwd)
      if t == 'cond':
        tf, ff = (lambda m, v: compose(m, v, fwd)), (lambda m, v: compose(m, v, rev))
        return nn.cond(sel, tf, ff, self, x) if lifted else (tf(self, x) if bool(sel) else ff(self, x))
      if t == 'switch':
        brs = [(lambda m, v: compose(m, v, fwd)), (lambda m, v: compose(m, v, rev)), (lambda m, v: compose(m, v, fwd[:1]))]
        return nn.switch(sel, brs, self, x) if lifted else brs[min(max(int(sel), 0), 2)](self, x)
      # while: two iterations of the composition, the count is part of the carry
      cf = lambda m, c: c[0] < 2
      bf = lambda m, c: (c[0] + 1, compose(m, c[1], fwd) % 1000)
      if lifted:
        return nn.while_loop(cf, bf, self, (I(0), x), carry_variables='stats')[1]
      c = (I(0), x)
      while bool(cf(self, c)):
        c = bf(self, c)
      return c[1]

    O = type('Outer', (nn.Module,), {'__annotations__': {nm: nn.Module for nm in names}, '__call__': call})
    lp.KEEP_ALIVE.append(O)
    if lifted and t == 'jit':
      O = nn.jit(O)
    elif lifted and t == 'remat':
      O = nn.remat(O)
    elif lifted and t == 'mapvars':
      O = nn.map_variables(O, rng_choice_filter(case), mutable=True)
    lp.KEEP_ALIVE.append(O)
    return O

  def build(lifted, tt=t):
    O = build_outer(lifted, tt)
    if case['form'] == 'ctor':
      return lambda: O(**{nm: SUBS[k]() for nm, k in zip(names, kinds)})

    def setup(self):
      subs = {nm: SUBS[k]() for nm, k in zip(names, kinds)}
      for nm, m in subs.items():
        setattr(self, 'sub_' + nm, m)
      self.outer = O(**{nm: getattr(self, 'sub_' + nm) for nm in names})

    def call(self, x, sel):
      a = getattr(self, 'sub_' + names[0])(x)
      b = self.outer(x, sel)
      c = getattr(self, 'sub_' + names[-1])(x)
      return a, b, c

    P = type('Parent', (nn.Module,), {'setup': setup, '__call__': call})
    lp.KEEP_ALIVE.append(P)
    return lambda: P()

  sel = jnp.asarray(bool(case['sel'])) if t == 'cond' else I(case['sel'])
  x = I(case['x'])
  canon = lambda out: jax.tree.map(lambda v: np.asarray(v).tolist(), out)
  obs = {}
  for which in ('plain', 'lifted'):
    mk = build(which == 'lifted')
    if t in ('cond', 'switch', 'while'):
      # variables cannot be created inside traced branches / loop bodies (documented), and a Python branch initialises
      # only what it runs: initialise every sub-module with the plain straight-line composition
      mk0 = build(False, 'jit')
      r0 = lp.call(lambda: canon(mk0().init_with_output(jax.random.key(0), x, sel)))
    else:
      mk0 = mk
      r0 = lp.call(lambda: canon(mk().init_with_output(jax.random.key(0), x, sel)))
    rec = [r0]
    if which == 'plain' and r0[0] == 'ok':
      # distinct values per attribute so that a swap of same-shaped parameters shows
      base = mk0().init(jax.random.key(0), x, sel)
      cnt = [0]

      def bump(v):
        cnt[0] += 1
        return v + cnt[0]

      variables = jax.tree.map(bump, base)
    if r0[0] == 'ok' or which == 'lifted':
      for _ in range(2):
        rec.append(lp.call(lambda: canon(mk().apply(variables, x, sel, mutable=['stats']))) if 'variables' in dir() else ('err', 'no-variables'))
    obs[which] = rec
  ctx.case(case)
  ctx.count('transform', f'attrmods-{t}/{case["form"]}')
  ctx.count('attrmods_names_sorted', list(names) == sorted(names))
  if obs['plain'][0][0] != 'ok':
    from harness.common import InfraError

    raise InfraError(f'attrmods generator degenerated: the untransformed module fails: {obs["plain"][0]}')
  steps = ['init (tree and output)', 'apply 1', 'apply 2']
  for st, p, l in zip(steps, obs['plain'], obs['lifted']):
    if p != l:
      ctx.violation(f'attrmods-{t}-differs', f'nn.{t} over a module holding the bound sub-modules {dict(zip(names, kinds))} (declared in this order) as attributes, {st}: transformed {l} vs untransformed {p} on {json.dumps(case)}', case)
      return


def rng_choice_filter(case):
  return lp.lf_python(case.get('mapped', True))


def gen_attrmods_case(rng):
  pool = list(rng.choice(ATTR_NAME_POOLS))
  if rng.random() < 0.8:
    rng.shuffle(pool)
    if pool == sorted(pool):
      pool = list(reversed(pool))
  kinds = [rng.choice(['mul', 'add', 'mulw']) for _ in pool]
  if len(set(kinds)) == 1:
    kinds[0] = 'add' if kinds[0] != 'add' else 'mul'
  t = rng.choice(['jit', 'jit', 'remat', 'mapvars', 'cond', 'switch', 'while'])
  return {'kind': 'attrmods', 'transform': t, 'names': pool, 'kinds': kinds, 'form': rng.choice(['ctor', 'shared']),
          'sel': (rng.random() < 0.5) if t == 'cond' else rng.choice([-1, 0, 1, 2, 3]), 'x': rng.randrange(1, 4),
          'mapped': rng.choice([True, 'params', ['params', 'stats']])}


# ------------------------------------------------------------------------------------------------
# multi-scope lifting: the REAL get_module_scopes / set_module_scopes / _dedup_scopes / _dup_scopes vs the Lean model
# ------------------------------------------------------------------------------------------------


def check_modscopes_case(ctx, drv, case):
  """A generated module tree (dataclass fields in a permuted declaration order; values are nested dicts / lists of bound
  sub-modules — some shared between several attributes —, inline-created modules, inner modules holding sub-modules
  themselves, plain values) is built on the real flax inside a parent's compact method.  `get_module_scopes` is called on
  it, `set_module_scopes` is handed fresh scopes s0, s1, …; the collected scope paths and the scope every rebuilt
  sub-module ends up with are compared with the model (`getOwners` / `setAssign`) and with the property itself (every
  sub-module gets the scope standing where its own scope was collected).  Then a scope list with duplicates and
  ancestor/descendant pairs goes through the real `_dedup_scopes` / `_dup_scopes` and the model's."""
  from flax.linen import transforms as T
  from flax.core import lift as core_lift, scope as core_scope

  class Leaf(nn.Module):
    @nn.compact
    def __call__(self, x):
      return x

  lp.KEEP_ALIVE.append(Leaf)
  rec = {}

  def mk_outer(names):
    O = type('OuterMS', (nn.Module,), {'__annotations__': {n: typing.Any for n in names}, '__call__': lambda self, x: x})
    lp.KEEP_ALIVE.append(O)
    return O

  def parent_call(self, x):
    subs = [Leaf(name=f'sub{i}') for i in range(case['nsubs'])]
    for m in subs:
      m(x)

    def build(spec):
      k = spec[0]
      if k == 'sub':
        return subs[spec[1]]
      if k == 'fresh':
        return Leaf()
      if k == 'int':
        return 7
      if k == 'dict':
        return {key: build(v) for key, v in spec[1]}
      if k == 'list':
        return [build(v) for v in spec[1]]
      names = [n for n, _ in spec[1]]
      return mk_outer(names)(**{n: build(v) for n, v in spec[1]})

    names = [n for n, _ in case['fields']]
    outer = mk_outer(names)(**{n: build(v) for n, v in case['fields']}, name='outer')
    outer(x)
    scopes, _, _ = T.get_module_scopes(outer)
    rec['get'] = [tuple(sc.path) for sc in scopes]
    ids, sidx = {}, {}

    def walk(v, rebuilt=None, pairs=None):
      if isinstance(v, nn.Module):
        sc = None
        if v.scope is not None:
          sc = sidx.setdefault(tuple(v.scope.path), len(sidx))
        if pairs is not None and rebuilt.scope is not None:
          pairs.append((ids.setdefault(v._id, len(ids)), tuple(rebuilt.scope.path)))
        fs = []
        for f in dataclasses.fields(v):
          if f.name in ('parent', 'name') or not f.init:
            continue
          fs.append([f.name, walk(getattr(v, f.name), getattr(rebuilt, f.name) if rebuilt is not None else None, pairs)])
        return {'mod': [ids.setdefault(v._id, len(ids)), sc, fs]}
      if hasattr(v, 'items'):
        return {'dict': [[k, walk(x, rebuilt[k] if rebuilt is not None else None, pairs)] for k, x in v.items()]}
      if isinstance(v, (list, tuple)):
        return {'seq': [walk(x, rebuilt[i] if rebuilt is not None else None, pairs) for i, x in enumerate(v)]}
      return 'other'

    rec['node'] = walk(outer)
    rec['scope_of_index'] = {i: p for p, i in sidx.items()}
    root = core_scope.Scope({}, mutable=True)
    fresh = [root.push(f's{i}') for i in range(len(scopes))]
    rebuilt, _, _ = T.set_module_scopes(outer, (), {}, fresh)
    pairs = []
    walk(outer, rebuilt, pairs)
    rec['pairs'] = pairs
    return x

  P = type('ParentMS', (nn.Module,), {'__call__': nn.compact(parent_call)})
  lp.KEEP_ALIVE.append(P)
  r = lp.call(lambda: P().apply({}, I(1)))
  ctx.case(case)
  ctx.count('transform', 'modscopes')
  if r[0] != 'ok':
    from harness.common import InfraError

    raise InfraError(f'modscopes generator degenerated: {r} on {json.dumps(case)}')
  ctx.count('modscopes_nscopes', len(rec['get']))
  where = json.dumps(case)
  # ---- property oracle: every rebuilt sub-module sits on the scope handed at the position of its own scope ---------
  own = {}
  for node_id, new_path in rec['pairs']:
    own.setdefault(node_id, set()).add(new_path)
  # the original scope path of each module id
  orig = {}

  def collect(n):
    if isinstance(n, dict) and 'mod' in n:
      if n['mod'][1] is not None:
        orig[n['mod'][0]] = rec['scope_of_index'][n['mod'][1]]
      for _, c in n['mod'][2]:
        collect(c)
    elif isinstance(n, dict) and 'dict' in n:
      for _, c in n['dict']:
        collect(c)
    elif isinstance(n, dict) and 'seq' in n:
      for c in n['seq']:
        collect(c)

  collect(rec['node'])
  for node_id, news in own.items():
    want = {(f's{k}',) for k, p in enumerate(rec['get']) if p == orig[node_id]}
    if len(news) != 1 or not (news <= want):
      ctx.violation('modscopes-rebound-to-foreign-scope', f'set_module_scopes(m, get_module_scopes(m)): the sub-module originally on scope {orig[node_id]} was rebuilt on {sorted(news)}; its own scope was collected at position(s) {sorted(want)} of {rec["get"]} on {where}', case)
      return
  # ---- model ---------------------------------------------------------------------------------------------------------
  outs = drv.run([('ms_get', [rec['node'], True]), ('ms_set', [rec['node'], list(range(len(rec['get'])))])])
  if outs[0][0] != 'ok' or outs[1][0] != 'ok':
    ctx.disagreements_checked += 1
    ctx.violation('modscopes-model-driver', f'driver: {outs}', case, concrete=False)
    return
  m_get = [rec['scope_of_index'][o[2]] for o in outs[0][1]]
  if m_get != rec['get']:
    ctx.disagreements_checked += 1
    ctx.violation('modscopes-model-mismatch-get', f'get_module_scopes: implementation {rec["get"]} vs model {m_get} on {where}', case, concrete=False)
    return
  m_asg = {a[0][1]: (f's{a[1]}',) for a in outs[1][1]['asg'] if a[0][0] == 'm' and a[1] is not None}
  i_asg = {i: next(iter(v)) for i, v in own.items()}
  if not outs[1][1]['ok'] or m_asg != i_asg:
    ctx.disagreements_checked += 1
    ctx.violation('modscopes-model-mismatch-set', f'set_module_scopes: implementation {i_asg} vs model {m_asg} (count ok: {outs[1][1]["ok"]}) on {where}', case, concrete=False)
    return
  # ---- _dedup_scopes / _dup_scopes -----------------------------------------------------------------------------------
  root = core_scope.Scope({}, mutable=True)

  def scope_at(path):
    sc = root
    for nm in path:
      sc = sc.push(nm, reuse=True)
    return sc

  listed = [scope_at(p) for p in case['dedup']]
  rr = lp.call(lambda: core_lift._dedup_scopes(listed))
  if rr[0] != 'ok':
    ctx.violation('dedup-raises', f'_dedup_scopes raised {rr[1]} on {case["dedup"]}', case)
    return
  roots, entries = rr[1]
  i_roots = [list(sc.path) for sc in roots]
  i_entries = [[list(sc.path), list(p)] for sc, p in entries]
  root2 = core_scope.Scope({}, mutable=True)
  new_roots = [root2.push(f'R{i}') for i in range(len(roots))]
  dup = lp.call(lambda: [list(sc.path) for sc in core_lift._dup_scopes(roots, new_roots, entries)])
  want_dup = [[f'R{i_roots.index(r)}'] + p for r, p in i_entries] if all(r in i_roots for r, _ in i_entries) else None
  if [r + p for r, p in i_entries] != [list(p) for p in case['dedup']] or dup != ('ok', want_dup):
    ctx.violation('dedup-dup-not-inverse', f'_dup_scopes(_dedup_scopes({case["dedup"]})): roots {i_roots}, entries {i_entries}, duplicated {dup} (expected {want_dup})', case)
    return
  md = drv.run([('dedup', [[list(p) for p in case['dedup']]])])[0]
  if md[0] != 'ok' or md[1]['roots'] != i_roots or md[1]['entries'] != i_entries:
    ctx.disagreements_checked += 1
    ctx.violation('dedup-model-mismatch', f'_dedup_scopes({case["dedup"]}): implementation roots {i_roots} entries {i_entries} vs model {md}', case, concrete=False)


def gen_modscopes_case(rng):
  nsubs = rng.randrange(2, 5)

  def leaf():
    r = rng.random()
    if r < 0.6:
      return ['sub', rng.randrange(nsubs)]
    if r < 0.75:
      return ['fresh']
    return ['int']

  def value(depth):
    r = rng.random()
    if depth > 0 and r < 0.25:
      ks = rng.sample(['y', 'x', 'm', 'b', 'a'], rng.randrange(1, 4))
      return ['dict', [[k, value(depth - 1)] for k in ks]]
    if depth > 0 and r < 0.45:
      return ['list', [value(depth - 1) for _ in range(rng.randrange(1, 4))]]
    if depth > 0 and r < 0.6:
      names = list(rng.choice(ATTR_NAME_POOLS))
      rng.shuffle(names)
      return ['outer', [[n, value(depth - 1)] for n in names]]
    return leaf()

  names = list(rng.choice(ATTR_NAME_POOLS))
  rng.shuffle(names)
  fields = [[n, value(2)] for n in names]
  pool = [['a'], ['a', 'b'], ['a', 'b', 'c'], ['a', 'd'], ['z'], ['z', 'y'], [], ['q', 'r']]
  dedup = [rng.choice(pool) for _ in range(rng.randrange(1, 6))]
  return {'kind': 'modscopes', 'nsubs': nsubs, 'fields': fields, 'dedup': dedup}


# ------------------------------------------------------------------------------------------------
# predicates / indices of every numeric kind
# ------------------------------------------------------------------------------------------------

PRED_SPECS = [
  ('bool', True), ('bool', False), ('int', 1), ('int', 0), ('int', -1), ('int', 2), ('int', -7),
  ('float', 0.0), ('float', -0.0), ('float', 0.5), ('float', -2.5), ('float', 'nan'), ('float', 'inf'), ('float', '-inf'),
  ('np.int32', -3), ('np.int32', 0), ('np.float32', -0.0), ('np.float32', -1.5), ('np.bool_', True), ('np.bool_', False),
  ('jnp.int32', -1), ('jnp.int32', 0), ('jnp.float32', 0.0), ('jnp.float32', 'nan'), ('jnp.float32', -3.0), ('jnp.bool_', True),
]


def make_pred(kind, v):
  if isinstance(v, str):
    v = float(v)
  return {'bool': bool, 'int': int, 'float': float, 'np.int32': np.int32, 'np.float32': np.float32, 'np.bool_': np.bool_,
          'jnp.int32': lambda a: jnp.asarray(a, jnp.int32), 'jnp.float32': lambda a: jnp.asarray(a, jnp.float32),
          'jnp.bool_': lambda a: jnp.asarray(a, jnp.bool_)}[kind](v)


def check_condpred_case(ctx, drv, case):
  """nn.cond with a predicate of any Python / NumPy / JAX boolean or numeric kind (negative, zero, -0.0, NaN, inf),
  concrete or traced (the whole apply under jax.jit with the predicate as an argument), and nn.switch with indices of
  every integer kind (negative and too large ones are clamped).  Oracle: Python `if pred:` / `branches[clamp(index)]`
  on the concrete value; the model takes the predicate as `pred != 0`."""
  mode = case['mode']

  def t(m, x):
    n = m.get_variable('stats', 'n')
    m.put_variable('stats', 'n', n + 1)
    return x * 2 + n

  def f(m, x):
    n = m.get_variable('stats', 'n')
    m.put_variable('stats', 'n', n + 10)
    return x - 3

  def g(m, x):
    return x + m.get_variable('stats', 'n') * 0 + 100

  def call(self, sel, x):
    if mode == 'cond':
      return nn.cond(sel, t, f, self, x)
    return nn.switch(sel, [t, f, g][: case['nbranch']], self, x)

  M = make_cls('PredM', [], {'__call__': nn.compact(call)})
  sel = make_pred(*case['sel'])
  vs = {'stats': {'n': I(case['n'])}}
  x = I(case['x'])
  run = lambda sel, x: M().apply(vs, sel, x, mutable=['stats'])
  canon = lambda out: jax.tree.map(lambda v: np.asarray(v).tolist(), out)
  got = lp.call(lambda: canon(jax.jit(run)(sel, x) if case['traced'] else run(sel, x)))
  n0, x0 = case['n'], case['x']
  if mode == 'cond':
    truth = bool(np.asarray(sel) != 0)
    assert truth == bool(sel)
    want = (x0 * 2 + n0, {'stats': {'n': n0 + 1}}) if truth else (x0 - 3, {'stats': {'n': n0 + 10}})
    model_req = ('cond', [True, True, [], truth, TFN, FFN, [x0], lp.scope_json({'stats': {'n': n0}}, ['stats'], [], [])])
  else:
    i = min(max(int(sel), 0), case['nbranch'] - 1)
    want = [(x0 * 2 + n0, {'stats': {'n': n0 + 1}}), (x0 - 3, {'stats': {'n': n0 + 10}}), (x0 + 100, {'stats': {'n': n0}})][i]
    model_req = ('switch', [True, True, [], int(sel), [TFN, FFN, GFN][: case['nbranch']], [x0], lp.scope_json({'stats': {'n': n0}}, ['stats'], [], [])])
  ctx.case(case)
  ctx.count('transform', f'{mode}-pred/' + ('traced' if case['traced'] else 'concrete'))
  ctx.count('pred_kind', case['sel'][0])
  where = json.dumps(case)
  if got != ('ok', canon(want)):
    ctx.violation(f'{mode}-predicate-truthiness', f'nn.{mode} with {"traced " if case["traced"] else ""}{case["sel"][0]} selector {case["sel"][1]!r}: got {got}, the Python control flow gives {canon(want)} on {where}', case)
    return
  mo = drv.run([model_req])[0]
  if mo[0] != 'ok' or 'error' in mo[1] or (mo[1]['vals'][0], lp.vars_from_json(mo[1]['vars'])) != (want[0], want[1]):
    ctx.disagreements_checked += 1
    ctx.violation(f'{mode}-predicate-model-mismatch', f'model {mo} vs implementation {got} on {where}', case, concrete=False)


TFN = {'body': [['get', 'stats', 'n'], ['put', 'stats', 'n', {'add': [{'reg': 0}, {'lit': 1}]}]], 'ret': [{'add': [{'mul': [{'arg': 0}, {'lit': 2}]}, {'reg': 0}]}]}
FFN = {'body': [['get', 'stats', 'n'], ['put', 'stats', 'n', {'add': [{'reg': 0}, {'lit': 10}]}]], 'ret': [{'add': [{'arg': 0}, {'lit': -3}]}]}
GFN = {'body': [['get', 'stats', 'n'], ['put', 'stats', 'n', {'reg': 0}]], 'ret': [{'add': [{'arg': 0}, {'lit': 100}]}]}


def gen_condpred_cases(rng, n):
  out = []
  specs = list(PRED_SPECS)
  rng.shuffle(specs)
  for k in range(n):
    kind, v = specs[k % len(specs)]
    if k % 3 == 2 and kind not in ('float', 'np.float32', 'jnp.float32', 'bool', 'np.bool_', 'jnp.bool_'):
      out.append({'kind': 'condpred', 'mode': 'switch', 'sel': [kind, rng.choice([-2, -1, 0, 1, 2, 5])], 'nbranch': rng.randrange(1, 4),
                  'traced': rng.random() < 0.4, 'n': rng.randrange(0, 4), 'x': rng.randrange(1, 5)})
    else:
      out.append({'kind': 'condpred', 'mode': 'cond', 'sel': [kind, v], 'nbranch': 2, 'traced': rng.random() < 0.4,
                  'n': rng.randrange(0, 4), 'x': rng.randrange(1, 5)})
  return out


# ------------------------------------------------------------------------------------------------
# finding B2: a jitted *method* that creates auto-named sub-modules, called twice in one compact method
# ------------------------------------------------------------------------------------------------


def report_finding(ctx, key, what, case):
  """A reproduced defect of the unchanged code that is recorded in known_findings.json under `key`: reported as a
  concrete violation (common.finish prints the KNOWN-FINDING line).  While the key is not registered yet it is kept as
  a note, so that the check does not turn red between the report and the registration."""
  if any(e.get('key') == key and e.get('status') == 'finding' for e in load_findings(ctx.prop)):
    ctx.violation(key, what, case)
  else:
    ctx.notes.append(f'unregistered finding {key}: {what}')
    ctx.extra.setdefault('unregistered_findings', []).append(key)


def b2_probe(ctx):
  """`nn.jit` caches the transform of a method together with the first call's closure (exported module state), and
  module-state side effects (auto-name cursors) of a traced call are not replayed on a cache hit: a jitted helper that
  creates an auto-named sub-module and is called twice inside one compact `__call__` yields `Leaf_0` twice, the plain
  code `Leaf_0` and `Leaf_1` (init tree and apply values differ)."""
  class Leaf(nn.Module):
    @nn.compact
    def __call__(self, x):
      return x * self.param('w', lambda key: I(3))

  lp.KEEP_ALIVE.append(Leaf)

  def mk(jit):
    deco = nn.jit if jit else (lambda f: f)

    class H(nn.Module):
      @deco
      def helper(self, x):
        return Leaf()(x)

      @nn.compact
      def __call__(self, x):
        return self.helper(x) + 10 * self.helper(x)

    lp.KEEP_ALIVE.append(H)
    return H

  params = {'params': {'Leaf_0': {'w': I(2)}, 'Leaf_1': {'w': I(5)}}}
  obs = {}
  for which, jit in (('plain', False), ('lifted', True)):
    H = mk(jit)
    tree = lp.call(lambda: sorted(H().init(jax.random.key(0), I(1))['params']))
    vals = [lp.call(lambda: int(np.asarray(H().apply(params, I(1))))) for _ in range(2)]
    obs[which] = {'init_children': tree, 'apply': vals}
  case = {'kind': 'b2-probe', 'observed': obs}
  ctx.case({'kind': 'b2-probe'})
  ctx.count('b2_probe', 'differs' if obs['plain'] != obs['lifted'] else 'equal')
  if obs['plain'] != obs['lifted']:
    report_finding(ctx, 'jit-method-autoname-cursor-stale', f'a jitted method creating an auto-named sub-module, called twice in one compact __call__: transformed {obs["lifted"]} vs plain {obs["plain"]}', case)


# ------------------------------------------------------------------------------------------------
# F11 probe (known finding; not a generated pattern)
# ------------------------------------------------------------------------------------------------


def f11_probe(ctx):
  """Finding F11 (fixed in /repo 493d5c1): two different jitted methods of one module reached with equal fingerprints
  exchanged rng-counter deltas (lift._side_effect_cache was keyed by the fingerprint only and shared by the thread).
  The keys a program draws must not depend on which other jitted method ran before in the process."""
  def mk():
    class P(nn.Module):
      @nn.jit
      def a(self, x):
        self.make_rng('dropout')
        return x

      @nn.jit
      def b(self, x):
        for _ in range(3):
          self.make_rng('dropout')
        return x

      def run_b(self, x):
        self.b(x)
        return jax.random.key_data(self.make_rng('dropout'))

    lp.KEEP_ALIVE.append(P)
    return P

  rngs = {'dropout': jax.random.key(5)}
  P1 = mk()
  fresh = lp.call(lambda: np.asarray(P1().apply({}, I(1), rngs=rngs, method='run_b')).tolist())
  P2 = mk()

  def seq():
    P2().apply({}, I(1), rngs=rngs, method='a')
    return np.asarray(P2().apply({}, I(1), rngs=rngs, method='run_b')).tolist()

  after = lp.call(seq)
  again = lp.call(lambda: np.asarray(P2().apply({}, I(1), rngs=rngs, method='run_b')).tolist())
  present = fresh[0] == 'ok' and after[0] == 'ok' and fresh[1] != after[1]
  ctx.extra['f11_shared_delta_cache'] = 'present' if present else 'absent'
  ctx.count('f11_probe', 'history-dependent' if present else 'history-independent')
  case = {'kind': 'f11-probe', 'fresh': fresh[1], 'after_other_method': after[1]}
  ctx.case(case)
  if fresh[0] != 'ok' or after[0] != 'ok' or again[0] != 'ok':
    ctx.violation('jit-two-methods-raise', f'jitted methods of one module raised: {fresh} {after} {again}', case)
  elif present:
    ctx.violation('jit-delta-cache-shared-across-functions', f'key drawn after jitted b(): {fresh[1]} in a fresh history, {after[1]} after another jitted method a() ran with an equal fingerprint', case)
  elif again[1] != after[1]:
    ctx.violation('jit-keys-not-reproducible', f'the same apply drew {after[1]} then {again[1]}', case)


# ------------------------------------------------------------------------------------------------
# entry points
# ------------------------------------------------------------------------------------------------


def run_case(ctx, drv, case):
  k = case.get('kind')
  if k == 'f11-probe':
    f11_probe(ctx)
  elif k == 'b2-probe':
    b2_probe(ctx)
  elif k == 'id':
    check_id_case(ctx, drv, case)
  elif k == 'history':
    check_history_case(ctx, drv, case)
  elif k in ('cond', 'switch', 'while'):
    check_ctrl_case(ctx, drv, case)
  elif k == 'autoname':
    check_autoname_case(ctx, case)
  elif k == 'setupchild':
    check_setupchild_case(ctx, drv, case)
  elif k == 'deepchild':
    check_deepchild_case(ctx, case)
  elif k == 'multimethod':
    check_multimethod_case(ctx, case)
  elif k == 'attrmods':
    check_attrmods_case(ctx, case)
  elif k == 'modscopes':
    check_modscopes_case(ctx, drv, case)
  elif k == 'condpred':
    check_condpred_case(ctx, drv, case)
  else:
    ctx.notes.append(f'unknown corpus case kind {k}')


def run(ctx):
  drv = LeanDriver('drv_c05')
  rng = ctx.rng
  thorough = ctx.tier == 'thorough'
  for fn, obj in load_corpus('C05'):
    ctx.corpus_replayed += 1
    run_case(ctx, drv, obj.get('case', obj))
  scale = 12 if thorough else 1
  plan = [('modscopes', 24), ('attrmods', 10), ('multimethod', 8), ('deepchild', 12), ('setupchild', 10), ('autoname', 12), ('history', 24), ('jit', 20), ('remat', 28), ('mapvars', 24), ('cond', 24), ('switch', 22), ('while', 22)]
  cases = gen_condpred_cases(rng, len(PRED_SPECS) * scale)
  for what, n in plan:
    for _ in range(n * scale):
      if what in ('remat', 'mapvars', 'jit'):
        cases.append(gen_id_case(rng, what))
      elif what == 'history':
        cases.append(gen_history_case(rng))
      elif what == 'autoname':
        cases.append(gen_autoname_case(rng))
      elif what == 'setupchild':
        cases.append(gen_setupchild_case(rng))
      elif what == 'deepchild':
        cases.append(gen_deepchild_case(rng))
      elif what == 'multimethod':
        cases.append(gen_multimethod_case(rng))
      elif what == 'attrmods':
        cases.append(gen_attrmods_case(rng))
      elif what == 'modscopes':
        cases.append(gen_modscopes_case(rng))
      else:
        cases.append(gen_ctrl_case(rng, what))
  for case in cases:
    run_case(ctx, drv, case)
    if not thorough and ctx.elapsed() > 75:
      ctx.notes.append('time budget reached, remaining generated cases skipped')
      break
  f11_probe(ctx)
  b2_probe(ctx)
  for k in ('remat', 'history', 'cond', 'while'):
    for c in cases:
      if c.get('transform') == k or c.get('kind') == k:
        ctx.sample(c)
        break
  ctx.extra['driver_calls'] = drv.calls
  ctx.extra['exhaustive'] = False


def replay(ctx, obj):
  drv = LeanDriver('drv_c05')
  run_case(ctx, drv, obj.get('case', obj))
  for v in ctx.violations:
    print('  ', v['key'], '-', v['what'][:400])
  return bool(ctx.violations)
